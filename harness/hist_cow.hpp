// CowVector replay (C10): every history of CowVector.tla on VectorT<double> and VectorNumT<int>;
// after each operation the content of ALL handles is read back (const access) and logged.
#pragma once
namespace cow {

template <class V, class T>
static Value snapshot(const std::map<std::string, V*>& h)
{
  Value o = Value::object();
  for (auto& kv : h)
  {
    const V& v = *kv.second;
    Value a = Value::array();
    for (size_t i = 0; i < v.size(); i++) a.push(Value((int)std::llround((double)v[i])));
    o[kv.first] = a;
  }
  return o;
}

template <class V, class T>
static Value runT(const Value& script)
{
  V h1; h1.push_back((T)1); h1.push_back((T)2);
  V h2 = h1;      // shares the buffer
  V h3;
  std::map<std::string, V*> H = {{"h1", &h1}, {"h2", &h2}, {"h3", &h3}};
  Value obs = Value::array();
  for (auto& st : script.at("hist").arr)
  {
    std::string op = st.at("op").s();
    V& a = *H[st.at("a").s()];
    if (op == "copy") { V& b = *H[st.at("b").s()]; b = a; }
    else if (op == "write")
    {
      std::string m = st.at("m").s();
      int i = st.at("i").i(); T v = (T)st.at("v").i();
      if (m == "setAt") a.setAt(i, v);
      else if (m == "index") a[i] = v;
      else if (m == "at") a.at(i) = v;
      else if (m == "front") a.front() = v;
      else if (m == "back") a.back() = v;
      else if (m == "data") a.data()[i] = v;
      else if (m == "begin") *(a.begin() + i) = v;
      else if (m == "subdata") *a.subdata(i) = v;
    }
    else if (op == "push_back") a.push_back((T)st.at("v").i());
    else if (op == "push_front") a.push_front((T)st.at("v").i());
    else if (op == "resize") a.resize(st.at("n").i());
    else if (op == "clear") a.clear();
    else if (op == "fill") a.fill((T)st.at("v").i());
    else if (op == "insert") a.insert((size_t)st.at("i").i(), (T)st.at("v").i());
    else if (op == "remove") a.remove((size_t)st.at("i").i());
    else if (op == "append") { V& b = *H[st.at("b").s()]; a << b; }
    else if (op == "swap") { V& b = *H[st.at("b").s()]; a.swap(b); }
    else if (op == "assignstd") { std::vector<T> s = {(T)3, (T)4}; a = s; }
    else if (op == "reserve") a.reserve(16);
    else if (op == "helper")
    {
      // the in-place helpers of VectorHelper exist for VectorDouble: the other classes get the same transformation
      // through their own mutating interface, so that the histories stay aligned
      std::string k = st.at("k").s();
      if constexpr (std::is_same<V, VectorDouble>::value)
      {
        if (k == "vh_fill") VH::fill(a, 5.);
        else if (k == "vh_addc") VH::addConstant(a, 1.);
        else if (k == "vh_mulc") VH::multiplyConstant(a, 2.);
        else if (k == "vh_cumul") VH::cumulateInPlace(a);
        else if (k == "vh_sortdesc") VH::sortInPlace(a, false);
        else if (k == "vh_random") VH::simulateGaussianInPlace(a, 50., 1.);
      }
      else
      {
        size_t n = a.size();
        if (k == "vh_fill") for (size_t i = 0; i < n; i++) a[i] = (T)5;
        else if (k == "vh_addc") for (size_t i = 0; i < n; i++) a[i] = a[i] + (T)1;
        else if (k == "vh_mulc") for (size_t i = 0; i < n; i++) a[i] = a[i] * (T)2;
        else if (k == "vh_cumul") for (size_t i = 1; i < n; i++) a[i] = a[i] + a[i - 1];
        else if (k == "vh_sortdesc") { std::vector<T> t(n); for (size_t i = 0; i < n; i++) t[i] = a[i]; std::sort(t.begin(), t.end(), std::greater<T>()); for (size_t i = 0; i < n; i++) a[i] = t[i]; }
        else if (k == "vh_random") for (size_t i = 0; i < n; i++) a[i] = (T)50;
      }
    }
    obs.push(snapshot<V, T>(H));
  }
  return obs;
}

Value run(const Value& script)
{
  Value o = Value::object();
  o["VectorT<double>"] = runT<VectorT<double>, double>(script);
  o["VectorNumT<int>"] = runT<VectorNumT<int>, int>(script);
  o["VectorNumT<double>"] = runT<VectorNumT<double>, double>(script);
  return o;
}
}  // namespace cow
