// C09 binding: every faulty file emitted by TLC from NeutralFile.tla (fault layer) -- or derived from it (byte
// truncations) -- is materialised and loaded by the REAL loader of its class in a child process:
//   X::createFromNF, Db::createFromCSV, the grid exchange readers (GridZycor, GridIfpEn, GridF2G, GridBmp).
// Outcome classes: "fail" (null object = clean failure), "ok" (object returned; it is then projected through the
// public getters, queried, dumped with dumpToNF and reloaded), "exception" (a C++ exception leaves the loader),
// or the child dies: "crash" (fatal signal / sanitizer abort), "timeout" (hang), "oom" (allocation beyond the limit).
// A file on which the child dies is run again alone in a fresh child (so that the single file is the artefact).
// stderr of the children (sanitizer reports) goes to <log>, each file announced by a line "@@ <id> <stage>".
//
// usage: nf_fault <files.ndjson> <out.ndjson> <tmpdir> <log> [batch]
#include "nf_common.hpp"
#include "Basic/CSVformat.hpp"
#include "OutputFormat/GridZycor.hpp"
#include "OutputFormat/GridIfpEn.hpp"
#include "OutputFormat/GridF2G.hpp"
#include "OutputFormat/GridBmp.hpp"
#include <sys/resource.h>
#include <sys/time.h>
#include <fcntl.h>

struct Shared { int cur; int stage; int done; };
static Shared* SH = nullptr;
static const char* STAGES[] = {"load", "project", "query", "dump", "reload", "project2", "free"};

static void onAlarm(int) { _exit(77); }

static std::string unb64(const std::string& in)
{
  static const std::string A = "ABCDEFGHIJKLMNOPQRSTUVWXYZabcdefghijklmnopqrstuvwxyz0123456789+/";
  std::string out;
  int val = 0, bits = -8;
  for (unsigned char c : in)
  {
    size_t k = A.find((char)c);
    if (k == std::string::npos) continue;
    val = (val << 6) + (int)k;
    bits += 6;
    if (bits >= 0) { out.push_back((char)((val >> bits) & 0xFF)); bits -= 8; }
  }
  return out;
}

static void setStage(int st, const Value& id)
{
  SH->stage = st;
  fprintf(stderr, "@@ %d %s\n", id.i(), STAGES[st]);
  fflush(stderr);
}

// loaders of the formats that are not neutral files: they return a Db / DbGrid
static Db* loadOther(const std::string& cls, const Value& rec, const std::string& path)
{
  if (cls == "CSV")
  {
    const Value& f = rec.at("csv");
    CSVformat fmt(f.getb("header", true), f.geti("skip", 0), f.gets("sep", ",")[0], f.gets("dec", ".")[0], f.gets("na", "NA"));
    return Db::createFromCSV(path, fmt, false, f.geti("ncol_max", -1), f.geti("nrow_max", -1), f.getb("rank", false));
  }
  if (cls == "Zycor") { GridZycor g(path.c_str()); return g.readGridFromFile(); }
  if (cls == "IfpEn") { GridIfpEn g(path.c_str()); return g.readGridFromFile(); }
  if (cls == "F2G") { GridF2G g(path.c_str()); return g.readGridFromFile(); }
  if (cls == "Bmp") { GridBmp g(path.c_str()); return g.readGridFromFile(); }
  throw std::runtime_error("unknown loader " + cls);
}

static Value runOne(const Value& rec, const std::string& tmp)
{
  const std::string& cls = rec.at("c").s();
  Value out = Value::object();
  out["id"] = rec.at("id");
  std::string path = tmp + "/f_" + std::to_string(getpid()) + ".dat";
  std::string path2 = tmp + "/g_" + std::to_string(getpid()) + ".nf";
  {
    std::ofstream f(path, std::ios::binary);
    if (rec.has("b64")) f << unb64(rec.at("b64").s());      // binary formats
    else f << rec.at("text").s();
  }
  ASerializable::unsetContainerName();
  ASerializable::unsetPrefixName();
  // the session has the default space of the valid file from which the faulty one derives
  int ndim0 = rec.geti("ndim", 2);
  defineDefaultSpace(ESpaceType::RN, ndim0);
  bool other = nf::registry().count(cls) == 0;
  nf::Handler* h = other ? nullptr : &nf::registry()[cls];
  nf::Handler* hd = other ? nullptr : h;
  setStage(0, rec.at("id"));
  void* obj = nullptr;
  try
  {
    if (other)
    {
      Db* db = loadOther(cls, rec, path);
      obj = db;
      if (db) hd = &nf::registry()[dynamic_cast<DbGrid*>(db) ? "DbGrid" : "Db"];
    }
    else obj = h->load(path);
  }
  catch (const std::bad_alloc& e) { out["outcome"] = Value("oom"); out["what"] = Value(std::string("bad_alloc")); unlink(path.c_str()); return out; }
  catch (const std::exception& e) { out["outcome"] = Value("exception"); out["what"] = Value(std::string(e.what())); unlink(path.c_str()); return out; }
  unlink(path.c_str());
  if (!obj) { out["outcome"] = Value("fail"); return out; }
  out["outcome"] = Value("ok");
  try
  {
    setStage(1, rec.at("id"));
    out["p"] = hd->proj(obj);
    setStage(2, rec.at("id"));
    out["q"] = hd->query(obj);
    setStage(3, rec.at("id"));
    bool okd = hd->dump(obj, path2);
    std::string text = nf::readAll(path2);
    out["dump"] = Value(okd && !text.empty());
    if (okd && !text.empty())
    {
      setStage(4, rec.at("id"));
      defineDefaultSpace(ESpaceType::RN, ndim0);
      void* re = hd->load(path2);
      out["reload"] = Value(re != nullptr);
      if (re)
      {
        setStage(5, rec.at("id"));
        out["p2"] = hd->proj(re);
        hd->destroy(re);
      }
    }
    unlink(path2.c_str());
    setStage(6, rec.at("id"));
    hd->destroy(obj);
  }
  catch (const std::exception& e) { out["outcome"] = Value("exception"); out["what"] = Value(std::string(e.what())); out["stage"] = Value(STAGES[SH->stage]); }
  return out;
}

// runs files [from, to) in a child; returns the index at which the child died, or -1
static int runChild(const std::vector<Value>& files, size_t from, size_t to, const std::string& outp, const std::string& tmp,
                    int* status)
{
  SH->cur = (int)from; SH->stage = 0; SH->done = 0;
  pid_t pid = fork();
  if (pid < 0) { perror("fork"); exit(2); }
  if (pid == 0)
  {
    const char* lim = getenv("NF_RLIMIT_MB");
    if (lim)
    {
      struct rlimit rl; rl.rlim_cur = rl.rlim_max = (rlim_t)atol(lim) * 1024 * 1024;
      setrlimit(RLIMIT_AS, &rl);
    }
    struct rlimit core; core.rlim_cur = core.rlim_max = 0; setrlimit(RLIMIT_CORE, &core);
    signal(SIGALRM, onAlarm);
    FILE* out = fopen(outp.c_str(), "a");
    if (!out) _exit(2);
    for (size_t k = from; k < to; k++)
    {
      SH->cur = (int)k;
      struct itimerval tv = {{0, 0}, {getenv("NF_ALARM") ? atoi(getenv("NF_ALARM")) : 8, 0}};
      setitimer(ITIMER_REAL, &tv, nullptr);
      struct timeval t0, t1;
      gettimeofday(&t0, nullptr);
      Value rec = runOne(files[k], tmp);
      gettimeofday(&t1, nullptr);
      rec["ms"] = Value((int)((t1.tv_sec - t0.tv_sec) * 1000 + (t1.tv_usec - t0.tv_usec) / 1000));
      struct itimerval off = {{0, 0}, {0, 0}};
      setitimer(ITIMER_REAL, &off, nullptr);
      fprintf(out, "%s\n", vj::dump(rec).c_str());
      fflush(out);
    }
    SH->done = 1;
    fclose(out);
    _exit(0);
  }
  int st = 0;
  waitpid(pid, &st, 0);
  *status = st;
  if (SH->done == 1 && WIFEXITED(st) && WEXITSTATUS(st) == 0) return -1;
  return SH->cur;
}

static Value deathRecord(const Value& file, int st, int stage)
{
  Value rec = Value::object();
  rec["id"] = file.at("id");
  if (WIFEXITED(st) && WEXITSTATUS(st) == 77) rec["outcome"] = Value("timeout");
  else rec["outcome"] = Value("crash");
  rec["signal"] = Value(WIFSIGNALED(st) ? WTERMSIG(st) : 0);
  rec["exit"] = Value(WIFEXITED(st) ? WEXITSTATUS(st) : -1);
  rec["stage"] = Value(STAGES[stage]);
  return rec;
}

int main(int argc, char** argv)
{
  if (argc < 5) { fprintf(stderr, "usage: nf_fault files out tmpdir log [batch]\n"); return 2; }
  std::vector<Value> files = vj::readNdjson(argv[1]);
  std::string outp = argv[2], tmp = argv[3], logp = argv[4];
  size_t batch = argc > 5 ? (size_t)atoi(argv[5]) : 40;
  { FILE* f = fopen(outp.c_str(), "w"); if (!f) return 2; fclose(f); }
  if (!freopen("/dev/null", "w", stdout)) return 2;
  int lfd = open(logp.c_str(), O_WRONLY | O_CREAT | O_TRUNC, 0644);
  if (lfd < 0) return 2;
  int saved = dup(2);
  dup2(lfd, 2);
  SH = (Shared*)mmap(nullptr, sizeof(Shared), PROT_READ | PROT_WRITE, MAP_SHARED | MAP_ANONYMOUS, -1, 0);
  size_t next = 0;
  long ndeaths = 0;
  while (next < files.size())
  {
    size_t to = std::min(files.size(), next + batch);
    int st = 0;
    int died = runChild(files, next, to, outp, tmp, &st);
    if (died < 0) { next = to; continue; }
    int stage = SH->stage;
    ndeaths++;
    // confirm on the single file in a fresh child
    Value rec = deathRecord(files[died], st, stage);
    rec["batch_from"] = Value((int)next);       // index (in the input list) of the first file processed by the dead child
    rec["index"] = Value(died);
    // (a sanitizer build stops at the first bad access: the file being processed is the culprit)
    if ((size_t)died > next && !getenv("NF_NO_CONFIRM"))
    {
      int st2 = 0;
      int d2 = runChild(files, (size_t)died, (size_t)died + 1, outp, tmp, &st2);
      if (d2 < 0)
      {
        // it passes alone: the death needs the files processed before it in the same child
        rec["outcome"] = Value("crash-in-batch");
        Value ids = Value::array();
        for (size_t k = next; k < (size_t)died; k++) ids.push(files[k].at("id"));
        rec["batch"] = ids;
        rec["also_recorded_alone"] = Value(true);
      }
      else rec = deathRecord(files[died], st2, SH->stage);
    }
    FILE* out = fopen(outp.c_str(), "a");
    fprintf(out, "%s\n", vj::dump(rec).c_str());
    fclose(out);
    next = (size_t)died + 1;
  }
  dup2(saved, 2);
  fprintf(stderr, "{\"files\":%zu,\"deaths\":%ld}\n", files.size(), ndeaths);
  return 0;
}
