// ModelEdit replay (C10): histories of ModelEdit.tla on a real Model; after every operation the list of structures
// (type, identity carried by the sill, filtering flag), the list of active structures and the all-active flag are
// read back, and compared with a Model built afresh from the final content.
#pragma once
#include "Covariances/ACovAnisoList.hpp"
namespace me {

struct Cov { std::string t; int id; bool f; };

static void addTo(Model* m, const std::string& t, int id)
{
  ECov type = ECov::fromKey(t);
  m->addCovFromParam(type, 1. + id, 0.125 * id);    // identity = 8 x sill
}
static Value project(const Model* m)
{
  Value o = Value::object();
  Value content = Value::array();
  for (int i = 0; i < m->getCovaNumber(); i++)
  {
    Value c = Value::object();
    c["t"] = Value(std::string{m->getCovaType(i).getKey()});
    c["id"] = Value((int)std::llround(8. * m->getSill(i, 0, 0)));
    c["f"] = Value(m->getCovAnisoList()->isFiltered(i));
    content.push(c);
  }
  o["content"] = content;
  VectorInt act = m->getActiveCovList();
  o["active"] = Value::arrayOf(std::vector<int>(act.begin(), act.end()));
  o["allactive"] = Value(m->isAllActiveCovList());
  return o;
}

Value run(const Value& script)
{
  defineDefaultSpace(ESpaceType::RN, 2);
  Model* m = Model::createFromEnvironment(1, 2);
  std::vector<Cov> ref;
  Value obs = Value::array();
  for (auto& h : script.at("hist").arr)
  {
    std::string op = h.at("op").s();
    if (op == "add") { addTo(m, h.at("t").s(), h.at("id").i()); ref.push_back({h.at("t").s(), h.at("id").i(), false}); }
    else if (op == "del") { m->delCova(h.at("i").i()); ref.erase(ref.begin() + h.at("i").i()); }
    else if (op == "delall") { m->delAllCovas(); ref.clear(); }
    else if (op == "setfiltered") { m->setCovaFiltered(h.at("i").i(), h.at("v").boolean()); ref[h.at("i").i()].f = h.at("v").boolean(); }
    else if (op == "clone") { Model* c = m->clone(); delete m; m = c; }
    Value o = Value::object();
    o["got"] = project(m);
    // the same content built afresh
    Model* f = Model::createFromEnvironment(1, 2);
    for (auto& c : ref) addTo(f, c.t, c.id);
    for (size_t i = 0; i < ref.size(); i++) if (ref[i].f) f->setCovaFiltered((int)i, true);
    o["fresh"] = project(f);
    delete f;
    obs.push(o);
  }
  delete m;
  return obs;
}
}  // namespace me
