// C20 conformance harness: executes the point-in-polygon cases emitted by TLC (spec/MC_Polygon*.tla)
// on the REAL gstlearn objects and writes what the library answered.  No expectation is computed
// here: the only use made of the expected codes is to skip the query points that the specification
// marks as lying on a boundary (code 2, excluded by the property).
//
// usage: poly_run <cases.ndjson> <out.ndjson> [<skip ids, comma separated>]
//
// cases.ndjson: first line {"k":"meta","q":[[x,y]..],"prev":[0/1..],"noz":-1000}, then
//   {"id":..,"k":"poly","v":[[x,y]..],"exp":[codes],["q":[..]],["sel":1],"lvl":"full"|"lite"}
//   {"id":..,"k":"set","e":[{"v":..,"zmin":..,"zmax":..}..],"var":[{"z":..,"nested":0/1,"a":[codes],"sel":[codes]}..],"lvl":..}
//   {"id":..,"k":"hull","src":[[x,y]..],"srcsel":[0/1 per lattice point of meta.lat],"exp":[codes],"lvl":..}
//     (meta then also has "lat":[[x,y]..] and "masks":[{"name":..,"active":[0/1 per query point]}..])
// Coordinates are the integers of the specification (vertices even, query points any integer).
// Every case is run on exact-truth-preserving images: an integer affine map followed by a scaling,
// applied by ONE function to vertices and query points (so that "level with a vertex" stays exact),
// and on re-orderings of the vertex list (other start vertex, other direction).
//
// out.ndjson: one line per case (per variant for sets):
//   {"id":..,"var":n,"n":<number of (image, api) runs>,"obs":[{"s":"0101..","cnt":..,"tags":[..]}]}
// (hull cases: "obs" = hull polygon + selection of a target Db without previous selection, "obsmask"[m] = selection
//  of a target Db whose previous selection is meta.masks[m])
// "s" has one character per query point: 0/1 = answer, '.' = skipped (boundary), 'x' = inconsistent
// read-back (selection column vs isActive).  Equal strings are merged (cnt) with a few tags
// "image|order|api" kept for the replay.
#include "vjson.hpp"
#include "Polygon/Polygons.hpp"
#include "Polygon/PolyElem.hpp"
#include "Db/Db.hpp"
#include "Basic/CSVformat.hpp"
#include "Enum/ELoadBy.hpp"
#include "Basic/VectorNumT.hpp"
#include "geoslib_define.h"
#include <csignal>
#include <unistd.h>
#include <fcntl.h>
#include <sys/wait.h>
#include <set>
#include <map>

using vj::Value;

struct Image {
  const char* name;
  long a, b, c, d, tx, ty;   // (X,Y) -> (aX + bY + tx, cX + dY + ty), integers
  double mul;                // then * mul (exact powers of two) ...
  double div;                // ... and / div (1, 3, 7)
  bool inexact;
};
static const double P20 = 1048576.0, PM10 = 1.0 / 1024.0;
static const Image IMAGES[] = {
  {"id", 1, 0, 0, 1, 0, 0, 1, 1, false},
  {"half", 1, 0, 0, 1, 0, 0, 0.5, 1, false},
  {"t(1e6,-1e6)", 1, 0, 0, 1, 1000000, -1000000, 1, 1, false},
  {"t(-999983,777777)", 1, 0, 0, 1, -999983, 777777, 1, 1, false},
  {"s2^20", 1, 0, 0, 1, 0, 0, P20, 1, false},
  {"s2^-10", 1, 0, 0, 1, 0, 0, PM10, 1, false},
  {"s1/3", 1, 0, 0, 1, 0, 0, 1, 3, true},
  {"s1/7", 1, 0, 0, 1, 0, 0, 1, 7, true},
  {"t(1e6,1e6)s1/3", 1, 0, 0, 1, 1000000, 1000000, 1, 3, true},
  {"mirror-x", -1, 0, 0, 1, 0, 0, 1, 1, false},
  {"mirror-y", 1, 0, 0, -1, 0, 0, 1, 1, false},
  {"transpose", 0, 1, 1, 0, 0, 0, 1, 1, false},
  {"rot90", 0, -1, 1, 0, 0, 0, 1, 1, false},
  {"shear-x+y", 1, 1, 0, 1, 0, 0, 1, 1, false},
  {"shear-x-2y", 1, -2, 0, 1, 0, 0, 1, 1, false},
  {"shear-x+3y,s1/7", 1, 3, 0, 1, 0, 0, 1, 7, true},
  {"shear-y+x", 1, 0, 1, 1, 0, 0, 1, 1, false},
  {"shear-y-x", 1, 0, -1, 1, 0, 0, 1, 1, false},
  {"shear-y+2x,t1e6", 1, 0, 2, 1, 1000000, 1000000, 1, 1, false},
  {"t(1e6,-1e6)s2^-10", 1, 0, 0, 1, 1000000, -1000000, PM10, 1, false},
  {"rot180,t(-1e6,3)s2^20", -1, 0, 0, -1, -1000000, 3, P20, 1, false},
  {"transpose,s1/3", 0, 1, 1, 0, 0, 0, 1, 3, true},
};
static const int NIMG = sizeof(IMAGES) / sizeof(IMAGES[0]);
// scaling by 2^-20 (exact): the vertex spacing (2e-6) falls below the absolute tolerance 1e-5 with which
// PolyElem decides that a vertex list is already closed.  Closed input goes to the ordinary channel,
// open input to a channel of its own ("obstiny").
static const Image TINY = {"s2^-20", 1, 0, 0, 1, 0, 0, 1.0 / 1048576.0, 1, false};
static const Image TINYHULL = {"s2^-12", 1, 0, 0, 1, 0, 0, 1.0 / 4096.0, 1, false};

static inline double mapx(const Image& m, long X, long Y) { return (double)(m.a * X + m.b * Y + m.tx) * m.mul / m.div; }
static inline double mapy(const Image& m, long X, long Y) { return (double)(m.c * X + m.d * Y + m.ty) * m.mul / m.div; }

// ---------------------------------------------------------------- crash containment
static int OUTFD = -1;
static long CURID = -1;
static void onCrash(int sig)   // also SIGALRM: a case that does not terminate
{
  char buf[128];
  int n = snprintf(buf, sizeof buf, "\n{\"id\":%ld,\"crash\":%d}\n", CURID, sig);
  if (OUTFD >= 0) { ssize_t w = write(OUTFD, buf, n); (void)w; }
  _exit(88);
}

// ---------------------------------------------------------------- observation store
struct Obs {
  std::map<std::string, std::pair<long, std::vector<std::string>>> m;
  long n = 0;
  void add(const std::string& s, const std::string& tag)
  {
    auto& e = m[s];
    e.first++;
    if (e.second.size() < 4) e.second.push_back(tag);
    n++;
  }
  Value json() const
  {
    Value a = Value::array();
    for (auto& kv : m)
    {
      Value o = Value::object();
      o["s"] = Value(kv.first);
      o["cnt"] = Value((long)kv.second.first);
      o["tags"] = Value::arrayOf(kv.second.second);
      a.push(o);
    }
    return a;
  }
};

struct Pt { long x, y; };
static std::vector<Pt> points(const Value& v)
{
  std::vector<Pt> r;
  for (auto& e : v.arr) r.push_back({(long)e[0].i(), (long)e[1].i()});
  return r;
}

// vertex list of a polygon in the order variant `ord`: 0..n-1 = start at vertex ord, same direction;
// n..2n-1 = start at vertex ord-n, opposite direction
static std::vector<Pt> reorder(const std::vector<Pt>& v, int ord)
{
  int n = (int)v.size();
  std::vector<Pt> r(n);
  if (ord < n) for (int i = 0; i < n; i++) r[i] = v[(ord + i) % n];
  else for (int i = 0; i < n; i++) r[i] = v[((ord - n) - i + 2 * n) % n];
  return r;
}

static PolyElem makeElem(const Image& im, const std::vector<Pt>& v, bool closed, double zmin, double zmax)
{
  VectorDouble x, y;
  for (auto& p : v) { x.push_back(mapx(im, p.x, p.y)); y.push_back(mapy(im, p.x, p.y)); }
  if (closed) { x.push_back(x[0]); y.push_back(y[0]); }
  return PolyElem(x, y, zmin, zmax);
}

static Db* makeDb(const Image& im, const std::vector<Pt>& q, bool withz, double z, const std::vector<int>* prev)
{
  int n = (int)q.size();
  VectorDouble tab;
  VectorString names, locs;
  for (auto& p : q) tab.push_back(mapx(im, p.x, p.y));
  for (auto& p : q) tab.push_back(mapy(im, p.x, p.y));
  names.push_back("x"); names.push_back("y");
  locs.push_back("x1"); locs.push_back("x2");
  if (withz)
  {
    for (int i = 0; i < n; i++) tab.push_back(z);
    names.push_back("z"); locs.push_back("x3");
  }
  if (prev)
  {
    for (int i = 0; i < n; i++) tab.push_back((double)(*prev)[i]);
    names.push_back("prevsel"); locs.push_back("sel");
  }
  return Db::createFromSamples(n, ELoadBy::COLUMN, tab, names, locs, false);
}

// db_polygon, then read the selection back (column with the SEL role, cross-checked with isActive)
static std::string runDbPolygon(Db* db, const Polygons& P, bool flagSel, bool nested, const std::vector<char>& skip)
{
  int n = db->getSampleNumber();
  std::string s(n, '.');
  db_polygon(db, &P, flagSel, false, nested);
  VectorDouble sel = db->getSelections();
  if ((int)sel.size() != n) return std::string(n, 'x');
  for (int i = 0; i < n; i++)
  {
    if (skip[i]) continue;
    bool act = db->isActive(i);
    if (sel[i] == 1. && act) s[i] = '1';
    else if (sel[i] == 0. && !act) s[i] = '0';
    else s[i] = 'x';
  }
  return s;
}

static std::vector<int> imagesFor(const std::string& lvl, long id)
{
  std::vector<int> r;
  if (lvl == "full") { for (int i = 0; i < NIMG; i++) r.push_back(i); return r; }
  r.push_back(0);
  int k = (lvl == "lite") ? 3 : 1;
  for (int j = 0; j < k; j++) r.push_back(1 + (int)((id * 3 + j * 7) % (NIMG - 1)));
  return r;
}

// ---------------------------------------------------------------- single polygons
static void runPoly(const Value& c, const std::vector<Pt>& q0, const std::vector<int>& prev, FILE* out)
{
  long id = (long)c.at("id").d();
  std::vector<Pt> v = points(c.at("v"));
  std::vector<Pt> q = c.has("q") ? points(c.at("q")) : q0;
  std::vector<int> exp = c.at("exp").ints();
  int nq = (int)q.size(), n = (int)v.size();
  std::vector<char> skip(nq);
  for (int i = 0; i < nq; i++) skip[i] = (exp[i] == 2);
  std::string lvl = c.gets("lvl", "lite");
  bool wantSel = c.has("sel") && (int)prev.size() == nq;
  Obs obs, obsSel;
  std::vector<int> imgs = imagesFor(lvl, id);
  bool big = n > 40;
  int cnt = 0;
  for (int ii : imgs)
  {
    const Image& im = IMAGES[ii];
    // order variants: all of them on the identity image (small polygons), one per other image
    std::vector<int> ords;
    if (ii == 0 && !big && lvl == "full") for (int o = 0; o < 2 * n; o++) ords.push_back(o);
    else if (ii == 0) { ords.push_back(0); ords.push_back((int)((id % (2 * n - 1)) + 1)); }
    else ords.push_back((int)((id + 5 * ii) % (2 * n)));
    for (int ord : ords)
    {
      std::vector<Pt> w = reorder(v, ord);
      char tagb[96];
      snprintf(tagb, sizeof tagb, "%s|ord%d|", im.name, ord);
      std::string tag(tagb);
      PolyElem open = makeElem(im, w, false, TEST, TEST);
      PolyElem closed = makeElem(im, w, true, TEST, TEST);
      PolyElem viaClose = makeElem(im, w, false, TEST, TEST);
      viaClose.closePolyElem();
      Polygons Po, Pc;
      Po.addPolyElem(open);
      Pc.addPolyElem(closed);
      std::string s1(nq, '.'), s2(nq, '.'), s3(nq, '.'), s4(nq, '.'), s5(nq, '.'), s6(nq, '.');
      VectorDouble c2(2), c3(3);
      for (int i = 0; i < nq; i++)
      {
        if (skip[i]) continue;
        c2[0] = mapx(im, q[i].x, q[i].y); c2[1] = mapy(im, q[i].x, q[i].y);
        c3[0] = c2[0]; c3[1] = c2[1]; c3[2] = TEST;
        s1[i] = Po.inside(c2, false) ? '1' : '0';
        s2[i] = Pc.inside(c2, false) ? '1' : '0';
        s3[i] = Po.inside(c2, true) ? '1' : '0';
        s4[i] = closed.inside(c2) ? '1' : '0';
        s5[i] = viaClose.inside(c2) ? '1' : '0';
        s6[i] = (Pc.inside(c3, (i % 2) == 1) && closed.inside3D(TEST)) ? '1' : '0';
      }
      obs.add(s1, tag + "Polygons(open).inside");
      obs.add(s2, tag + "Polygons(closed).inside");
      obs.add(s3, tag + "Polygons(open).inside(nested)");
      obs.add(s4, tag + "PolyElem(closed).inside");
      obs.add(s5, tag + "PolyElem(open).closePolyElem.inside");
      obs.add(s6, tag + "Polygons(closed).inside(x,y,NA)");
      // selection of the samples of a data base made of the query points
      bool doDb = !big || (cnt % 4 == 0);
      if (doDb)
      {
        Db* db = makeDb(im, q, false, 0., nullptr);
        obs.add(runDbPolygon(db, (cnt % 2) ? Pc : Po, false, (cnt % 3) == 1, skip), tag + "db_polygon");
        delete db;
        if (wantSel)
        {
          Db* db2 = makeDb(im, q, false, 0., &prev);
          obsSel.add(runDbPolygon(db2, (cnt % 2) ? Po : Pc, true, (cnt % 3) == 2, skip), tag + "db_polygon(flag_sel)");
          delete db2;
        }
      }
      cnt++;
    }
  }
  Obs obsTiny;
  if (lvl == "full" && !big)
  {
    PolyElem closed = makeElem(TINY, v, true, TEST, TEST);
    Polygons Pc, Po;
    Pc.addPolyElem(closed);
    Po.addPolyElem(makeElem(TINY, v, false, TEST, TEST));
    std::string s1(nq, '.'), s2(nq, '.'), s3(nq, '.');
    VectorDouble c2(2);
    for (int i = 0; i < nq; i++)
    {
      if (skip[i]) continue;
      c2[0] = mapx(TINY, q[i].x, q[i].y); c2[1] = mapy(TINY, q[i].x, q[i].y);
      s1[i] = Pc.inside(c2, false) ? '1' : '0';
      s2[i] = closed.inside(c2) ? '1' : '0';
      s3[i] = Po.inside(c2, false) ? '1' : '0';
    }
    obs.add(s1, "s2^-20|ord0|Polygons(closed).inside");
    obs.add(s2, "s2^-20|ord0|PolyElem(closed).inside");
    obsTiny.add(s3, "s2^-20|ord0|Polygons(open).inside");
  }
  Value o = Value::object();
  o["id"] = Value(id);
  o["n"] = Value(obs.n);
  o["obs"] = obs.json();
  if (wantSel) { o["nsel"] = Value(obsSel.n); o["obssel"] = obsSel.json(); }
  if (obsTiny.n) o["obstiny"] = obsTiny.json();
  fprintf(out, "%s\n", vj::dump(o).c_str());
}

// ---------------------------------------------------------------- polygon sets read from files
static std::string TMPBASE;
static std::string num17(double v) { char b[40]; snprintf(b, sizeof b, "%.17g", v); return b; }

// rows emitted by the specification ([] = separator) written as a CSV file: header, one vertex per row,
// separator rows made of the NA string
static Polygons* viaCSV(const Image& im, const Value& rows)
{
  std::string path = TMPBASE + ".csv";
  { std::ofstream f(path);
    f << "x,y\n";
    for (auto& r : rows.arr)
    {
      if (r.size() == 0) f << "NA,NA\n";
      else f << num17(mapx(im, r[0].i(), r[1].i())) << "," << num17(mapy(im, r[0].i(), r[1].i())) << "\n";
    } }
  Polygons* P = Polygons::createFromCSV(path, CSVformat(), false);
  remove(path.c_str());
  return P;
}
// the same rings as one MULTIPOLYGON text (perLine = false) or one text per ring
static Polygons* viaWKT(const Image& im, const Value& rows, bool perLine)
{
  std::string path = TMPBASE + ".wkt";
  { std::ofstream f(path);
    f << "WKT\n";
    std::vector<std::string> rings;
    std::string cur;
    for (auto& r : rows.arr)
    {
      if (r.size() == 0) { if (!cur.empty()) rings.push_back(cur); cur.clear(); continue; }
      if (!cur.empty()) cur += ",";
      cur += num17(mapx(im, r[0].i(), r[1].i())) + " " + num17(mapy(im, r[0].i(), r[1].i()));
    }
    if (!cur.empty()) rings.push_back(cur);
    if (perLine) for (auto& g : rings) f << "\"MULTIPOLYGON (((" << g << ")))\"\n";
    else
    {
      f << "\"MULTIPOLYGON (((";
      for (size_t i = 0; i < rings.size(); i++) f << (i ? ")),((" : "") << rings[i];
      f << ")))\"\n";
    } }
  Polygons* P = Polygons::createFromWKT(path, CSVformat(), false);
  remove(path.c_str());
  return P;
}

// ---------------------------------------------------------------- polygon sets
static void runSet(const Value& c, const std::vector<Pt>& q0, const std::vector<int>& prev, int noz, FILE* out)
{
  long id = (long)c.at("id").d();
  std::vector<Pt> q = c.has("q") ? points(c.at("q")) : q0;
  int nq = (int)q.size();
  const Value& es = c.at("e");
  int ne = (int)es.size();
  std::string lvl = c.gets("lvl", "lite");
  std::vector<int> imgs = imagesFor(lvl, id);
  const Value& vars = c.at("var");
  for (size_t iv = 0; iv < vars.size(); iv++)
  {
    const Value& var = vars[iv];
    int zi = var.at("z").i();
    bool hasz = zi != noz;
    bool nested = var.at("nested").i() != 0;
    std::vector<int> a = var.at("a").ints();
    std::vector<char> skip(nq);
    for (int i = 0; i < nq; i++) skip[i] = (a[i] == 2);
    Obs obs, obsSel;
    long nfile[2] = {0, 0};     // sets built from a CSV file / from a WKT file
    int cnt = 0;
    for (int ii : imgs)
    {
      const Image& im = IMAGES[ii];
      Polygons P;
      std::vector<PolyElem> elems;
      for (int e = 0; e < ne; e++)
      {
        std::vector<Pt> v = points(es[e].at("v"));
        int ord = (int)((id + ii + 3 * e) % (2 * v.size()));
        int zmin = es[e].at("zmin").i(), zmax = es[e].at("zmax").i();
        bool closed = ((id + e + ii) % 2) == 0;
        P.addPolyElem(makeElem(im, reorder(v, ord), closed, zmin == noz ? TEST : (double)zmin, zmax == noz ? TEST : (double)zmax));
        elems.push_back(makeElem(im, reorder(v, ord), true, zmin == noz ? TEST : (double)zmin, zmax == noz ? TEST : (double)zmax));
      }
      std::string tag = std::string(im.name) + "|";
      std::string s1(nq, '.'), s2(nq, '.'), s3(nq, '.');
      VectorDouble c2(2), c3(3);
      for (int i = 0; i < nq; i++)
      {
        if (skip[i]) continue;
        c2[0] = mapx(im, q[i].x, q[i].y); c2[1] = mapy(im, q[i].x, q[i].y);
        c3[0] = c2[0]; c3[1] = c2[1]; c3[2] = hasz ? (double)zi : TEST;
        s1[i] = P.inside(c3, nested) ? '1' : '0';
        if (!hasz) s2[i] = P.inside(c2, nested) ? '1' : '0';
        if (ne == 1) s3[i] = (elems[0].inside(c2) && elems[0].inside3D(hasz ? (double)zi : TEST)) ? '1' : '0';
      }
      obs.add(s1, tag + "Polygons.inside(x,y,z)");
      if (!hasz) obs.add(s2, tag + "Polygons.inside(x,y)");
      // construction routes: the same set read from a CSV / WKT file in every form emitted by the specification
      // (files carry no vertical limits: 2-D variants only), and dumped to / reloaded from a neutral file
      if (!hasz && c.has("files"))
      {
        const Value& files = c.at("files");
        for (size_t f = 0; f < files.size(); f++)
        {
          if (lvl != "full" && ((id + ii + f) % 2) != 0 && f != 0) continue;
          const Value& rows = files[f].at("rows");
          for (int route = 0; route < 3; route++)
          {
            if (route > 0 && ((id + f + route) % 2) != 0) continue;
            Polygons* Q = route == 0 ? viaCSV(im, rows) : viaWKT(im, rows, route == 2);
            char fb[96];
            snprintf(fb, sizeof fb, "%s(form %d: closed=%s, trailing separator=%d)", route == 0 ? "createFromCSV" : route == 1 ? "createFromWKT" : "createFromWKT(one ring per line)",
                     (int)f, vj::dump(files[f].at("closed")).c_str(), files[f].at("trail").i());
            std::string r1(nq, '.');
            if (Q == nullptr) r1 = std::string(nq, 'N');
            else if (Q->getPolyElemNumber() != ne) r1 = std::string(nq, 'n');
            else for (int i = 0; i < nq; i++)
            {
              if (skip[i]) continue;
              c2[0] = mapx(im, q[i].x, q[i].y); c2[1] = mapy(im, q[i].x, q[i].y);
              r1[i] = Q->inside(c2, nested) ? '1' : '0';
            }
            obs.add(r1, tag + fb + ".inside");
            nfile[route == 0 ? 0 : 1]++;
            if (Q != nullptr && route == 0 && (f % 2) == 0)
            {
              Db* db = makeDb(im, q, false, TEST, nullptr);
              obs.add(runDbPolygon(db, *Q, false, nested, skip), tag + fb + " -> db_polygon");
              delete db;
            }
            delete Q;
          }
        }
      }
      if (ne == 1) obs.add(s3, tag + "PolyElem.inside&&inside3D");
      {
        Db* db = makeDb(im, q, hasz || (cnt % 2 == 1), hasz ? (double)zi : TEST, nullptr);
        obs.add(runDbPolygon(db, P, false, nested, skip), tag + (hasz ? "db_polygon(3-D Db)" : "db_polygon"));
        delete db;
        if ((int)prev.size() == nq && var.has("sel"))
        {
          Db* db2 = makeDb(im, q, hasz, hasz ? (double)zi : TEST, &prev);
          obsSel.add(runDbPolygon(db2, P, true, nested, skip), tag + (hasz ? "db_polygon(3-D Db,flag_sel)" : "db_polygon(flag_sel)"));
          delete db2;
        }
      }
      cnt++;
    }
    Value o = Value::object();
    o["id"] = Value(id);
    o["var"] = Value((long)iv);
    o["n"] = Value(obs.n);
    o["obs"] = obs.json();
    if (obsSel.n) { o["nsel"] = Value(obsSel.n); o["obssel"] = obsSel.json(); }
    o["ncsv"] = Value(nfile[0]);
    o["nwkt"] = Value(nfile[1]);
    fprintf(out, "%s\n", vj::dump(o).c_str());
  }
}

// ---------------------------------------------------------------- selections by convex hull
struct Mask { std::string name; std::vector<int> active; };

// order variants of the source samples (the hull must not depend on the order of the samples)
static std::vector<int> sourceOrder(int n, int variant)
{
  std::vector<int> r(n);
  for (int i = 0; i < n; i++) r[i] = i;
  switch (variant % 4)
  {
    case 1: for (int i = 0; i < n; i++) r[i] = n - 1 - i; break;
    case 2: for (int i = 0; i < n; i++) r[i] = (i + n / 2) % n; break;
    case 3: { int k = 0; for (int i = 0; i < n; i += 2) r[k++] = i; for (int i = 1; i < n; i += 2) r[k++] = i; break; }
    default: break;
  }
  return r;
}

// all the hull operations of one case on one image; emit(channel, answers, tag): channel -1 = hull polygon and
// target without selection, m >= 0 = target with previous selection masks[m]
template <class Emit>
static void hullOnImage(const Image& im, int slot, long id, const std::string& lvl, const std::vector<Pt>& src,
                        const std::vector<int>& srcsel, const std::vector<Pt>& lat, const std::vector<Pt>& q,
                        const std::vector<char>& skip, const std::vector<Mask>& masks, Emit emit)
{
  int nq = (int)q.size();
  for (int sv = 0; sv < 2; sv++)      // 0: the source Db holds the set; 1: the whole lattice, the set = its active samples
  {
    int cnt = 2 * slot + sv;
    int variant = (int)(id + slot + sv);
    std::vector<Pt> pts;
    std::vector<int> act;
    if (sv == 0)
    {
      std::vector<int> ord = sourceOrder((int)src.size(), variant);
      for (int k : ord) pts.push_back(src[k]);
    }
    else
    {
      if ((int)lat.size() != (int)srcsel.size()) continue;
      std::vector<int> ord = sourceOrder((int)lat.size(), variant);
      for (int k : ord) { pts.push_back(lat[k]); act.push_back(srcsel[k]); }
    }
    char tagb[96];
    snprintf(tagb, sizeof tagb, "%s|%s,order%d|", im.name, sv ? "src=lattice+selection" : "src=set", variant % 4);
    std::string tag(tagb);
    Db* db1 = makeDb(im, pts, false, 0., sv ? &act : nullptr);
    // the hull polygon itself
    Polygons* P = Polygons::createFromDb(db1, 0., false);
    std::string s1(nq, '.');
    if (P == nullptr) s1 = std::string(nq, 'N');
    else
    {
      VectorDouble c2(2), c3(3);
      for (int i = 0; i < nq; i++)
      {
        if (skip[i]) continue;
        c2[0] = mapx(im, q[i].x, q[i].y); c2[1] = mapy(im, q[i].x, q[i].y);
        c3[0] = c2[0]; c3[1] = c2[1]; c3[2] = TEST;
        s1[i] = ((i % 2) ? P->inside(c2, false) : P->inside(c3, (i % 4) == 0)) ? '1' : '0';
      }
    }
    emit(-1, s1, tag + "Polygons::createFromDb.inside");
    delete P;
    // selection of the samples of a target Db made of the query points
    for (int m = -1; m < (int)masks.size(); m++)
    {
      if (lvl != "full" && m >= 0 && ((cnt + m) % 3) != 0) continue;
      Db* db2 = makeDb(im, q, (cnt % 2) == 1, TEST, m >= 0 ? &masks[m].active : nullptr);
      bool viaDb = ((cnt + m) % 2) == 0;
      int rc = viaDb ? db2->addSelectionFromDbByConvexHull(db1, 0., false) : db_selhull(db1, db2, 0., false);
      std::string s(nq, '.');
      if (rc != 0) s = std::string(nq, 'E');
      else
      {
        VectorDouble sel = db2->getSelections();
        if ((int)sel.size() != nq) s = std::string(nq, 'x');
        else for (int i = 0; i < nq; i++)
        {
          if (skip[i]) continue;
          bool a = db2->isActive(i);
          s[i] = (sel[i] == 1. && a) ? '1' : (sel[i] == 0. && !a) ? '0' : 'x';
        }
      }
      std::string t = tag + (viaDb ? "Db::addSelectionFromDbByConvexHull" : "db_selhull") +
                      (m >= 0 ? "(target with " + masks[m].name + " selection)" : "(target without selection)");
      emit(m, s, t);
      delete db2;
    }
    delete db1;
  }
}

// Runs f(emit) in a child process with a time limit and collects what it emitted.  Returns 0 when the child
// ended normally, 'H' when it was killed by the time limit, 'C' when it died otherwise.
template <class F, class Sink>
static char inChild(FILE* out, int seconds, F f, Sink sink)
{
  int fd[2];
  if (pipe(fd) != 0) return 'C';
  fflush(out);
  pid_t pid = fork();
  if (pid < 0) { close(fd[0]); close(fd[1]); return 'C'; }
  if (pid == 0)
  {
    close(fd[0]);
    for (int sg : {SIGSEGV, SIGABRT, SIGFPE, SIGBUS, SIGILL, SIGALRM}) signal(sg, SIG_DFL);
    alarm(seconds);
    f([&](int ch, const std::string& s, const std::string& tag) {
      std::string line = std::to_string(ch) + "\t" + s + "\t" + tag + "\n";
      ssize_t w = write(fd[1], line.data(), line.size()); (void)w;
    });
    _exit(0);
  }
  close(fd[1]);
  std::string got;
  char buf[8192];
  ssize_t k;
  while ((k = read(fd[0], buf, sizeof buf)) > 0) got.append(buf, (size_t)k);
  close(fd[0]);
  int st = 0;
  waitpid(pid, &st, 0);
  std::stringstream ss(got);
  std::string line;
  while (std::getline(ss, line))
  {
    size_t t1 = line.find('\t'), t2 = line.find('\t', t1 + 1);
    if (t1 == std::string::npos || t2 == std::string::npos) continue;
    sink(atoi(line.substr(0, t1).c_str()), line.substr(t1 + 1, t2 - t1 - 1), line.substr(t2 + 1));
  }
  if (WIFEXITED(st) && WEXITSTATUS(st) == 0) return 0;
  if (WIFSIGNALED(st) && WTERMSIG(st) == SIGALRM) return 'H';
  return 'C';
}

static void runHull(const Value& c, const std::vector<Pt>& q0, const std::vector<Pt>& lat,
                    const std::vector<Mask>& masks, FILE* out)
{
  long id = (long)c.at("id").d();
  std::vector<Pt> src = points(c.at("src"));
  std::vector<int> srcsel = c.at("srcsel").ints();
  std::vector<Pt> q = c.has("q") ? points(c.at("q")) : q0;
  std::vector<int> exp = c.at("exp").ints();
  int nq = (int)q.size();
  std::vector<char> skip(nq);
  for (int i = 0; i < nq; i++) skip[i] = (exp[i] == 2);
  std::string lvl = c.gets("lvl", "lite");
  std::vector<int> imgs = imagesFor(lvl, id);
  Obs obs, obsDied;
  std::vector<Obs> obsMask(masks.size());
  auto sink = [&](int ch, const std::string& s, const std::string& tag) {
    if (ch < 0) obs.add(s, tag); else if (ch < (int)masks.size()) obsMask[ch].add(s, tag);
  };
  int slot = 0;
  for (int ii : imgs)
  {
    const Image& im = IMAGES[ii];
    if (!im.inexact)
      hullOnImage(im, slot, id, lvl, src, srcsel, lat, q, skip, masks, sink);   // a crash / hang here ends the run (violation)
    else
    {
      // images by 1/3, 1/7: the coordinates are rounded, exactly collinear points become nearly collinear.  Run in a
      // child process with a time limit; when it dies, what it answered before is kept and the death is reported
      // in a channel of its own ("obsdied": 'H' = no answer within 5 s, 'C' = crashed)
      char how = inChild(out, 5, [&](auto emit) { hullOnImage(im, slot, id, lvl, src, srcsel, lat, q, skip, masks, emit); }, sink);
      if (how) obsDied.add(std::string(nq, how), std::string(im.name) + "|hull operations on an inexact image");
    }
    slot++;
  }
  // scaling by 2^-12 (exact): the doubled areas of all lattice triangles (<= 16 * 2^-24) fall below the ABSOLUTE
  // tolerance 1e-6 with which Polygons::_getHullIndices declares three points collinear; channel of its own
  Obs obsTiny;
  if (lvl == "full")
  {
    bool any = false;
    char how = inChild(out, 2, [&](auto emit) {
      Db* db1 = makeDb(TINYHULL, src, false, 0., nullptr);
      Polygons* P = Polygons::createFromDb(db1, 0., false);
      std::string r(nq, '.');
      if (P == nullptr) r = std::string(nq, 'N');
      else
      {
        VectorDouble c2(2);
        for (int i = 0; i < nq; i++)
        {
          if (skip[i]) continue;
          c2[0] = mapx(TINYHULL, q[i].x, q[i].y); c2[1] = mapy(TINYHULL, q[i].x, q[i].y);
          r[i] = P->inside(c2, false) ? '1' : '0';
        }
      }
      emit(-1, r, "s2^-12|src=set|Polygons::createFromDb.inside");
    }, [&](int, const std::string& s, const std::string& tag) { obsTiny.add(s, tag); any = true; });
    if (how || !any) obsTiny.add(std::string(nq, how ? how : 'C'), "s2^-12|src=set|Polygons::createFromDb");
  }
  Value o = Value::object();
  o["id"] = Value(id);
  o["n"] = Value(obs.n);
  o["obs"] = obs.json();
  if (obsTiny.n) o["obstiny"] = obsTiny.json();
  if (obsDied.n) o["obsdied"] = obsDied.json();
  Value om = Value::array();
  for (size_t m = 0; m < masks.size(); m++) om.push(obsMask[m].json());
  o["obsmask"] = om;
  fprintf(out, "%s\n", vj::dump(o).c_str());
}

int main(int argc, char** argv)
{
  if (argc < 3) { fprintf(stderr, "usage: poly_run cases.ndjson out.ndjson [skip ids]\n"); return 2; }
  std::set<long> skipIds;
  if (argc > 3)
  {
    std::stringstream ss(argv[3]);
    std::string t;
    while (std::getline(ss, t, ',')) if (!t.empty()) skipIds.insert(atol(t.c_str()));
  }
  FILE* out = fopen(argv[2], "w");
  if (!out) { fprintf(stderr, "cannot write %s\n", argv[2]); return 2; }
  OUTFD = fileno(out);
  TMPBASE = std::string(argv[2]) + ".tmp" + std::to_string((long)getpid());
  // the library prints on stdout: silence it
  int devnull = open("/dev/null", O_WRONLY);
  if (devnull >= 0) { dup2(devnull, 1); }
  for (int s : {SIGSEGV, SIGABRT, SIGFPE, SIGBUS, SIGILL, SIGALRM}) signal(s, onCrash);

  std::ifstream f(argv[1]);
  if (!f) { fprintf(stderr, "cannot open %s\n", argv[1]); return 2; }
  std::string line;
  std::vector<Pt> q0;
  std::vector<int> prev;
  std::vector<Pt> lat;
  std::vector<Mask> masks;
  int noz = -1000;
  long ncase = 0;
  try
  {
    while (std::getline(f, line))
    {
      if (line.find_first_not_of(" \t\r") == std::string::npos) continue;
      Value c = vj::parse(line);
      std::string k = c.gets("k", "");
      if (k == "meta")
      {
        q0 = points(c.at("q"));
        prev = c.has("prev") ? c.at("prev").ints() : std::vector<int>();
        noz = c.geti("noz", -1000);
        if (c.has("lat")) lat = points(c.at("lat"));
        if (c.has("masks"))
        {
          masks.clear();
          for (auto& m : c.at("masks").arr) masks.push_back({m.at("name").s(), m.at("active").ints()});
        }
        continue;
      }
      long id = (long)c.at("id").d();
      if (skipIds.count(id)) continue;
      CURID = id;
      if (k == "poly") runPoly(c, q0, prev, out);
      else if (k == "set") runSet(c, q0, prev, noz, out);
      else if (k == "hull") { alarm(60); runHull(c, q0, lat, masks, out); alarm(0); }
      else continue;
      fflush(out);
      ncase++;
    }
  }
  catch (const std::exception& e)
  {
    fprintf(stderr, "poly_run: %s (case %ld)\n", e.what(), CURID);
    return 4;
  }
  fclose(out);
  fprintf(stderr, "{\"cases\":%ld,\"images\":%d}\n", ncase, NIMG);
  return 0;
}
