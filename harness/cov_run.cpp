// Harness of property C03 (validity of the covariance structures).  It only EXECUTES the real library and
// PROJECTS what it did (values, largest deviations between routes, smallest eigenvalues); expected values,
// obligations and verdicts come from spec/CovStructures.tla through tools/checks/c03.py.
//
//   cov_run offer IN OUT          which structures gstlearn offers / builds in which space dimension
//   cov_run value IN OUT [start]  values K[s,p](x.a) through every public evaluation route (covariance / variogram)
//   cov_run aniso IN OUT [start]  anisotropic + rotated structures on lattice vectors, every construction route
//   cov_run admit IN OUT [start]  requests of shape parameters inside / at the ends of / outside the domain through
//                                 every public route that sets the parameter: refused, clipped or accepted (and
//                                 then what the resulting object is worth on a 1-D lattice)
//   cov_run psd   IN OUT [start]  covariance matrices on the point sets: symmetry, smallest eigenvalue
//                                 (Eigen, not the library's solver), on the authorised increments for
//                                 generalised covariances
#include "vjson.hpp"
#include "Covariances/CovAniso.hpp"
#include "Covariances/ACovFunc.hpp"
#include "Covariances/CovFactory.hpp"
#include "Covariances/CovContext.hpp"
#include "Covariances/CovCalcMode.hpp"
#include "Model/Model.hpp"
#include "Db/Db.hpp"
#include "Space/SpaceRN.hpp"
#include "Space/SpacePoint.hpp"
#include "Space/ASpaceObject.hpp"
#include "Geometry/Rotation.hpp"
#include "Matrix/MatrixRectangular.hpp"
#include "Matrix/MatrixSquareSymmetric.hpp"
#include "Matrix/MatrixSquareGeneral.hpp"
#include "Enum/ECov.hpp"
#include "Enum/ELoadBy.hpp"
#include "Enum/ESpaceType.hpp"
#include <Eigen/Dense>
#include <cmath>
#include <csignal>
#include <unistd.h>
#include <fcntl.h>
#include <map>
#include <memory>

using vj::Value;

static long CUR = -1;
static int OUT_FD = -1;
static void onCrash(int sig)
{
  char buf[128];
  int n = snprintf(buf, sizeof buf, "{\"crash\":%d,\"line\":%ld}\n", sig, CUR);
  if (OUT_FD >= 0 && n > 0) { ssize_t w = write(OUT_FD, buf, (size_t)n); (void)w; }
  _exit(88);
}
static void emit(const Value& v)
{
  std::string s = vj::dump(v); s.push_back('\n');
  ssize_t w = write(OUT_FD, s.data(), s.size()); (void)w;
}
static Value vecv(const std::vector<double>& x) { Value a = Value::array(); for (double d : x) a.push(Value(d)); return a; }
static const double T345 = std::atan2(4.0, 3.0) * 180.0 / M_PI;

static ECov typeOf(const std::string& key) { return ECov::fromKey(key); }

static CovAniso* makeIso(const std::string& s, int d, double param, bool unitRange, double a, double sill = 1.)
{
  CovContext ctxt(1, d);
  return new CovAniso(typeOf(s), a, param, sill, ctxt, unitRange);
}
static Db* makeDb(int d, const std::vector<std::vector<double>>& pts, int nz = 1)
{
  int n = (int)pts.size();
  VectorDouble tab;
  VectorString names, locs;
  for (int k = 0; k < d; k++)
  {
    for (int i = 0; i < n; i++) tab.push_back(pts[i][k]);
    names.push_back("x" + std::to_string(k + 1)); locs.push_back("x" + std::to_string(k + 1));
  }
  for (int v = 0; v < nz; v++)
  {
    for (int i = 0; i < n; i++) tab.push_back(0.5 + 0.01 * i);
    names.push_back("z" + std::to_string(v + 1)); locs.push_back("z" + std::to_string(v + 1));
  }
  return Db::createFromSamples(n, ELoadBy::COLUMN, tab, names, locs, false);
}
static VectorDouble VD(const std::vector<double>& x) { VectorDouble v; for (double d : x) v.push_back(d); return v; }

// ------------------------------------------------------------------------------------------------ offer
static int modeOffer(const Value& in)
{
  std::vector<int> dims = in.at("dims").ints();
  const Value& probes = in.at("probes");
  for (int d : dims)
  {
    defineDefaultSpace(ESpaceType::RN, d);
    CovContext ctxt(1, d);
    SpaceRN space(d);
    VectorString listed = CovFactory::getCovList(ctxt, 3);
    VectorString listed0 = CovFactory::getCovList(ctxt, -1);
    auto it = ECov::getIterator();
    while (it.hasNext())
    {
      ECov t = *it; it.toNext();
      if (t == ECov::UNKNOWN || t == ECov::FUNCTION) continue;
      std::string key(t.getKey());
      Value base = Value::object();
      base["k"] = Value("offer"); base["s"] = Value(key); base["d"] = Value(d);
      ACovFunc* f = nullptr;
      try { f = CovFactory::createCovFunc(t, ctxt); } catch (std::exception& e) { f = nullptr; }
      if (f == nullptr) { base["created"] = Value(0); emit(base); continue; }
      std::string cname = f->getCovName();
      base["created"] = Value(1);
      base["cname"] = Value(cname);
      bool isl = false; for (auto& n : listed) if (n == cname) isl = true;
      bool isl0 = false; for (auto& n : listed0) if (n == cname) isl0 = true;
      base["listed"] = Value(isl ? 1 : 0);
      base["listed_stationary"] = Value(isl0 ? 1 : 0);
      unsigned int mx = f->getMaxNDim();
      base["declmax"] = Value(mx > 1000 ? 0 : (int)mx);
      base["minorder"] = Value(f->getMinOrder());
      base["hasrange"] = Value(f->hasRange());
      base["haspar"] = Value(f->hasParam() ? 1 : 0);
      double pm = f->getParMax();
      base["parmax"] = (f->hasParam() && !FFFF(pm)) ? Value(pm) : Value();
      base["compR"] = Value(f->getCompatibleSpaceR() ? 1 : 0);
      base["onRn"] = Value(f->hasCovOnRn() ? 1 : 0);
      delete f;
      bool compR = base.at("compR").i() == 1;
      // shape parameters
      std::vector<std::pair<int, int>> ps;
      if (probes.has(key)) for (auto& p : probes.at(key).arr) ps.push_back({p[0].i(), p[1].i()});
      if (ps.empty()) ps.push_back({1, 1});
      for (auto& p : ps)
      {
        Value o = base;
        double param = (double)p.first / p.second;
        o["pn"] = Value(p.first); o["pd"] = Value(p.second);
        int admitted = 1, built = 0, consistent = -1;
        // CovAniso::isConsistent with the shape parameter set (a constructor that refuses counts as not consistent);
        // a CovAniso of the Markov structure runs an FFT over 512^d nodes in its constructor: not built here
        if (compR)
          try { CovAniso c(t, ctxt); c.setParam(param); consistent = c.isConsistent(&space) ? 1 : 0; } catch (std::exception& e) { consistent = 0; }
        o["consistent"] = Value(consistent);
        double scadef = std::nan(""), k0 = std::nan(""), range = std::nan(""), scale = std::nan("");
        if (!compR) { o["admitted"] = Value(1); o["built"] = Value(0); emit(o); continue; }   // no covariance in R^d (the Markov one runs an FFT of 512^d nodes)
        try
        {
          Model* m = Model::createFromParam(t, 2., 1., param, VectorDouble(), VectorDouble(), VectorDouble(), &space);
          if (m != nullptr && m->getCovaNumber() == 1)
          {
            const CovAniso* c = m->getCova(0);
            built = (c->getType() == t) ? 1 : 0;
            scadef = c->getScadef(); range = c->getRange(); scale = c->getScale();
            SpacePoint p1(VectorDouble(d, 0.)), p2(VectorDouble(d, 0.));
            k0 = m->eval(p1, p2);
          }
          delete m;
        }
        catch (std::exception& e) { admitted = 0; }
        o["admitted"] = Value(admitted); o["built"] = Value(built);
        o["scadef"] = Value(scadef); o["k0"] = Value(k0); o["range"] = Value(range); o["scale"] = Value(scale);
        emit(o);
      }
    }
  }
  return 0;
}

// ------------------------------------------------------------------------------------------------ value
static const char* CROUTES[] = {"CovAniso.eval", "CovAniso.evalIvarIpas", "CovAniso.evalIvarIpasIncr", "Model.eval",
                                "Model.evalIvarIpas", "Model.evalCov", "Model.evaluateOneIncr", "Model.sample",
                                "Model.evalCovMatrix", "Model.evalCovMatrixOptim", "Model.evalCovMatrixSymmetric",
                                "Model.evalCovMatrixSymmetricOptim", "ACovFunc.evalCov", "Model.addCovFromParam.eval",
                                "CovAniso.createIsotropic.eval", "CovAniso.copy.eval", "Model.evalMat",
                                "CovAniso.createIsotropicMulti.eval"};
static const char* GROUTES[] = {"CovAniso.eval(asVario)", "Model.eval(asVario)", "Model.evalCovMatrix(asVario)",
                                "Model.evaluateOneIncr(asVario)", "Model.sample(asVario)", "Model.evalCovMatrixSymmetric(asVario)"};

static Value evalOne(const Value& c)
{
  std::string s = c.at("s").s();
  int d = c.at("d").i();
  double param = c.at("p").d(), a = c.at("a").d(), x = c.at("x").d();
  bool unitRange = c.at("range").boolean();
  int idir = c.geti("dir", 0);
  defineDefaultSpace(ESpaceType::RN, d);
  SpaceRN space(d);
  CovContext ctxt(1, d);
  ECov type = typeOf(s);
  std::vector<double> dir(d, 0.);
  if (idir < d) dir[idir] = 1.;
  else { dir[0] = 0.6; dir[1] = 0.8; }                          // the 3-4-5 direction (d >= 2)
  double t = x * a;
  std::vector<double> v(d);
  for (int k = 0; k < d; k++) v[k] = t * dir[k];
  std::vector<double> cv, gv;
  std::unique_ptr<CovAniso> cova(makeIso(s, d, param, unitRange, a));
  SpacePoint p1(VectorDouble(d, 0.)), p2(VD(v));
  CovCalcMode mode; mode.setAsVario(true);
  std::unique_ptr<Model> m(Model::createFromParam(type, a, 1., param, VectorDouble(), VectorDouble(), VectorDouble(), &space, unitRange));
  std::unique_ptr<Db> db1(makeDb(d, {std::vector<double>(d, 0.)})), db2(makeDb(d, {v})), db12(makeDb(d, {std::vector<double>(d, 0.), v}));
  cv.push_back(cova->eval(p1, p2));
  cv.push_back(cova->evalIvarIpas(t, VD(dir)));
  cv.push_back(cova->evalIvarIpasIncr(VD(v)));
  cv.push_back(m->eval(p1, p2));
  cv.push_back(m->evalIvarIpas(t, VD(dir)));
  cv.push_back(m->evalCov(VD(v)));
  cv.push_back(m->evaluateOneIncr(t, VD(dir)));
  cv.push_back(m->sample({t}, VD(dir))[0]);
  cv.push_back(m->evalCovMatrix(db1.get(), db2.get()).getValue(0, 0));
  cv.push_back(m->evalCovMatrixOptim(db1.get(), db2.get()).getValue(0, 0));
  cv.push_back(m->evalCovMatrixSymmetric(db12.get()).getValue(0, 1));
  cv.push_back(m->evalCovMatrixSymmetricOptim(db12.get()).getValue(0, 1));
  {
    double scale = cova->hasRange() != 0 ? cova->getScale() : 1.;
    cv.push_back(cova->getCova()->evalCov(cova->hasRange() != 0 ? t / scale : t) * cova->getSill(0, 0));
  }
  {
    std::unique_ptr<Model> m2(Model::create(ctxt));
    m2->addCovFromParam(type, a, 1., param, VectorDouble(), VectorDouble(), VectorDouble(), unitRange);
    cv.push_back(m2->getCovaNumber() == 1 ? m2->eval(p1, p2) : std::nan(""));
  }
  {
    std::unique_ptr<CovAniso> c2(CovAniso::createIsotropic(ctxt, type, a, 1., param, unitRange));
    cv.push_back(c2->eval(p1, p2));
    CovAniso c3(*c2);
    CovAniso c4(ECov::NUGGET, ctxt);
    c4 = c3;
    cv.push_back(c4.eval(p1, p2));
  }
  cv.push_back(m->evalMat(p1, p2).getValue(0, 0));
  {
    MatrixSquareSymmetric sills(1); sills.setValue(0, 0, 1.);
    std::unique_ptr<CovAniso> c5(CovAniso::createIsotropicMulti(ctxt, type, a, sills, param, unitRange));
    cv.push_back(c5->eval(p1, p2));
  }
  gv.push_back(cova->eval(p1, p2, 0, 0, &mode));
  gv.push_back(m->eval(p1, p2, 0, 0, &mode));
  gv.push_back(m->evalCovMatrix(db1.get(), db2.get(), 0, 0, VectorInt(), VectorInt(), &mode).getValue(0, 0));
  gv.push_back(m->evaluateOneIncr(t, VD(dir), 0, 0, &mode));
  gv.push_back(m->sample({t}, VD(dir), 0, 0, &mode)[0]);
  gv.push_back(m->evalCovMatrixSymmetric(db12.get(), 0, VectorInt(), &mode).getValue(0, 1));
  Value o = Value::object();
  o["id"] = c.at("id");
  o["c"] = vecv(cv); o["g"] = vecv(gv);
  o["scadef"] = Value(cova->getScadef()); o["scale"] = Value(cova->getScale()); o["rangeget"] = Value(cova->getRange());
  return o;
}

// ------------------------------------------------------------------------------------------------ aniso
struct Dev { double err = 0; int t = -1; double got = 0, ref = 0; };
static void upd(Dev& dv, double got, double ref, int t)
{
  double e = std::fabs(got - ref);
  if (!(e == e)) e = 1e300;                                    // NaN counts as a deviation
  if (e > dv.err || dv.t < 0) { dv.err = e; dv.t = t; dv.got = got; dv.ref = ref; }
}
static Value devv(const Dev& d)
{
  Value o = Value::object();
  o["err"] = Value(d.err); o["t"] = Value(d.t); o["got"] = Value(d.got); o["ref"] = Value(d.ref);
  return o;
}

static void anisoCase(const Value& g)
{
  int d = g.at("d").i();
  defineDefaultSpace(ESpaceType::RN, d);
  SpaceRN space(d);
  CovContext ctxt(1, d);
  std::vector<double> rg = g.at("ranges").doubles(), ang = g.at("angles").doubles(), r2 = g.at("r2").doubles();
  std::vector<int> cmp = g.at("cmp").ints();
  std::vector<std::vector<double>> hs;
  for (auto& h : g.at("hs").arr) hs.push_back(h.doubles());
  int nh = (int)hs.size();
  // R by columns (the k-th column is the direction along which the k-th range is measured)
  std::vector<double> rcol;
  for (int j = 0; j < d; j++) for (int i = 0; i < d; i++) rcol.push_back(g.at("R")[i][j].d());
  int t0 = -1;
  std::vector<int> opp(nh, -1);
  for (int t = 0; t < nh; t++)
  {
    bool z = true; for (double c : hs[t]) if (c != 0) z = false;
    if (z) t0 = t;
    for (int u = 0; u < nh; u++)
    {
      bool o = true; for (int k = 0; k < d; k++) if (hs[u][k] != -hs[t][k]) o = false;
      if (o) opp[t] = u;
    }
  }
  static const double SHIFT[3] = {100.5, -37.25, 12.75};
  std::vector<std::vector<double>> all = hs;
  std::unique_ptr<Db> dbo(makeDb(d, {std::vector<double>(d, 0.)})), dbh(makeDb(d, hs));
  int nsym = std::min(nh, 27);
  std::vector<std::vector<double>> sub(hs.begin(), hs.begin() + nsym);
  sub.push_back(std::vector<double>(d, 0.));
  std::unique_ptr<Db> dbs(makeDb(d, sub));
  for (auto& spv : g.at("sp").arr)
  {
    std::string s = spv[0].s();
    double param = spv[1].d();
    ECov type = typeOf(s);
    Value o = Value::object();
    o["gid"] = g.at("gid"); o["s"] = Value(s); o["p"] = Value(param); o["d"] = Value(d);
    o["pn"] = spv[2]; o["pd"] = spv[3];
    try
    {
      // reference: the isotropic structure of unit range at the reduced distance.  The structures whose range is
      // a scale (hasRange() < 0: slope instead of sill) carry constants that depend on the largest scale (the
      // 'field'): their reference is the isotropic structure whose range is the largest of the ranges.
      double rmax = 0; for (double r : rg) rmax = std::max(rmax, r);
      double aref = 1.;
      { std::unique_ptr<CovAniso> probe(makeIso(s, d, param, true, 1.)); if (probe->hasRange() < 0) aref = rmax; }
      std::unique_ptr<CovAniso> unit(makeIso(s, d, param, true, aref));
      std::vector<double> ref(nh);
      SpacePoint o1(VectorDouble(d, 0.));
      for (int t = 0; t < nh; t++)
      {
        std::vector<double> v(d, 0.); v[0] = std::sqrt(r2[t]) * aref;
        SpacePoint q(VD(v));
        ref[t] = unit->eval(o1, q);
      }
      // construction routes
      std::map<std::string, std::unique_ptr<CovAniso>> cons;
      std::map<std::string, std::unique_ptr<Model>> mods;
      cons["createAnisotropic"].reset(CovAniso::createAnisotropic(ctxt, type, VD(rg), 1., param, VD(ang)));
      {
        auto* c = new CovAniso(type, ctxt); c->setParam(param); c->setSill(1.); c->setRanges(VD(rg)); c->setAnisoAngles(VD(ang));
        cons["setRanges+setAnisoAngles"].reset(c);
      }
      {
        auto* c = new CovAniso(type, ctxt); c->setParam(param); c->setSill(1.); c->setAnisoAngles(VD(ang)); c->setRanges(VD(rg));
        cons["setAnisoAngles+setRanges"].reset(c);
      }
      {
        auto* c = new CovAniso(type, ctxt); c->setParam(param); c->setSill(1.);
        for (int k = 0; k < d; k++) c->setRange(k, rg[k]);
        if (d == 2) c->setAnisoAngle(0, ang[0]);
        if (d == 3) for (int k = 0; k < 3; k++) c->setAnisoAngle(k, ang[k]);
        cons["setRange(idim)+setAnisoAngle(idim)"].reset(c);
      }
      {
        auto* c = new CovAniso(type, ctxt); c->setParam(param); c->setSill(1.);
        c->setRotationAnglesAndRadius(VD(ang), VD(rg));
        cons["setRotationAnglesAndRadius"].reset(c);
      }
      {
        auto* c = new CovAniso(type, ctxt); c->setParam(param); c->setSill(1.);
        std::vector<double> sc = rg; double scadef = c->getScadef(); for (double& x : sc) x /= scadef;
        c->setScales(VD(sc));
        Rotation rot(d); rot.setMatrixDirectVec(VD(rcol));
        c->setAnisoRotation(rot);
        cons["setScales+setAnisoRotation(Rotation from matrix)"].reset(c);
      }
      {
        auto* c = new CovAniso(type, ctxt); c->setParam(param); c->setSill(1.);
        c->setRanges(VD(rg)); c->setAnisoRotation(VD(rcol));
        cons["setRanges+setAnisoRotation(matrix)"].reset(c);
      }
      {
        MatrixSquareSymmetric sills(1); sills.setValue(0, 0, 1.);
        cons["createAnisotropicMulti"].reset(CovAniso::createAnisotropicMulti(ctxt, type, VD(rg), sills, param, VD(ang)));
      }
      {
        CovAniso tmp(ECov::NUGGET, ctxt);
        tmp = *cons["setRanges+setAnisoAngles"];
        cons["operator="].reset(new CovAniso(tmp));
        cons["clone"].reset(cons["setRanges+setAnisoAngles"]->clone());
      }
      mods["Model.createFromParam"].reset(Model::createFromParam(type, 1., 1., param, VD(rg), VectorDouble(), VD(ang), &space));
      {
        Model* m2 = Model::create(ctxt);
        m2->addCovFromParam(type, 0., 1., param, VD(rg), VectorDouble(), VD(ang));
        mods["Model.addCovFromParam"].reset(m2);
      }
      {
        Model* m3 = Model::create(ctxt);
        m3->addCov(cons["setRanges+setAnisoAngles"].get());
        mods["Model.addCov"].reset(m3);
      }
      Value routes = Value::object();
      for (auto& kv : cons)
      {
        Dev dv;
        for (int t = 0; t < nh; t++) { SpacePoint q(VD(hs[t])); upd(dv, kv.second->eval(o1, q), ref[t], t); }
        routes[kv.first] = devv(dv);
      }
      for (auto& kv : mods)
      {
        Dev dv;
        if (kv.second->getCovaNumber() != 1) { dv.err = 1e300; dv.t = 0; }
        else for (int t = 0; t < nh; t++) { SpacePoint q(VD(hs[t])); upd(dv, kv.second->eval(o1, q), ref[t], t); }
        routes[kv.first] = devv(dv);
      }
      // evaluation routes on one object / one model
      CovAniso* c0 = cons["setRanges+setAnisoAngles"].get();
      Model* m0 = mods["Model.createFromParam"].get();
      std::vector<double> k(nh);
      for (int t = 0; t < nh; t++) { SpacePoint q(VD(hs[t])); k[t] = c0->eval(o1, q); }
      {
        Dev tr, incr, ipas, mcov, one, mat, opt, sym, symo, vario, rev;
        CovCalcMode mode; mode.setAsVario(true);
        std::vector<double> sh(SHIFT, SHIFT + d);
        SpacePoint s1(VD(sh));
        MatrixRectangular M = m0->evalCovMatrix(dbo.get(), dbh.get());
        MatrixRectangular MO = m0->evalCovMatrixOptim(dbo.get(), dbh.get());
        MatrixSquareSymmetric MS = m0->evalCovMatrixSymmetric(dbs.get());
        MatrixSquareSymmetric MSO = m0->evalCovMatrixSymmetricOptim(dbs.get());
        for (int t = 0; t < nh; t++)
        {
          std::vector<double> q2 = sh; for (int j = 0; j < d; j++) q2[j] += hs[t][j];
          SpacePoint s2(VD(q2)), q(VD(hs[t]));
          upd(tr, c0->eval(s1, s2), ref[t], t);
          upd(rev, c0->eval(q, o1), ref[t], t);
          upd(incr, c0->evalIvarIpasIncr(VD(hs[t])), ref[t], t);
          upd(ipas, c0->evalIvarIpas(1., VD(hs[t])), ref[t], t);
          upd(mcov, m0->evalCov(VD(hs[t])), ref[t], t);
          double nrm = 0; for (double c : hs[t]) nrm += c * c; nrm = std::sqrt(nrm);
          if (nrm > 0) { std::vector<double> u = hs[t]; for (double& c : u) c /= nrm; upd(one, m0->evaluateOneIncr(nrm, VD(u)), ref[t], t); }
          upd(mat, M.getValue(0, t), ref[t], t);
          upd(opt, MO.getValue(0, t), ref[t], t);
          if (t < nsym) { upd(sym, MS.getValue(t, nsym), ref[t], t); upd(symo, MSO.getValue(t, nsym), ref[t], t); }
          upd(vario, ref[t0] - c0->eval(o1, q, 0, 0, &mode), ref[t], t);
        }
        routes["eval(translated pair)"] = devv(tr); routes["eval(p2,p1)"] = devv(rev);
        routes["evalIvarIpasIncr"] = devv(incr); routes["evalIvarIpas(1,h)"] = devv(ipas);
        routes["Model.evalCov(incr)"] = devv(mcov); routes["Model.evaluateOneIncr(|h|,h/|h|)"] = devv(one);
        routes["Model.evalCovMatrix"] = devv(mat); routes["Model.evalCovMatrixOptim"] = devv(opt);
        routes["Model.evalCovMatrixSymmetric"] = devv(sym); routes["Model.evalCovMatrixSymmetricOptim"] = devv(symo);
        routes["K(0)-eval(asVario)"] = devv(vario);
      }
      o["routes"] = routes;
      // C(h) = C(-h), |C(h)| <= C(0), zero beyond the range (cmp >= 0: reduced distance >= 1)
      Dev sm, bd, out;
      double mx = 0;
      for (int t = 0; t < nh; t++)
      {
        mx = std::max(mx, std::fabs(k[t]));
        if (opp[t] >= 0) upd(sm, k[t], k[opp[t]], t);
        upd(bd, std::max(0., std::fabs(k[t]) - k[t0]), 0., t);
        if (cmp[t] >= 0) upd(out, k[t], 0., t);
      }
      o["sym"] = devv(sm); o["bound"] = devv(bd); o["outside"] = devv(out);
      o["k0"] = Value(k[t0]); o["maxabs"] = Value(mx);
      { VectorDouble rr = c0->getRanges(); std::vector<double> r3; for (int j = 0; j < (int)rr.size(); j++) r3.push_back(rr[j]); o["rangesget"] = vecv(r3); }
    }
    catch (std::exception& e) { o["exception"] = Value(std::string(e.what())); }
    emit(o);
  }
}

// ------------------------------------------------------------------------------------------------ psd
static std::map<std::string, std::vector<std::vector<double>>> PSETS;

// orthonormal basis of the span of the monomials of degree <= ord at the points (coordinates reduced to [-1,1])
static Eigen::MatrixXd monoBasis(const std::vector<std::vector<double>>& pts, int d, int ord, int& rank)
{
  int n = (int)pts.size();
  std::vector<double> lo(d, 1e300), hi(d, -1e300);
  for (auto& p : pts) for (int k = 0; k < d; k++) { lo[k] = std::min(lo[k], p[k]); hi[k] = std::max(hi[k], p[k]); }
  std::vector<std::vector<int>> pw;
  for (int a = 0; a <= ord; a++)
    for (int b = 0; b <= (d >= 2 ? ord - a : 0); b++)
      for (int c = 0; c <= (d >= 3 ? ord - a - b : 0); c++) pw.push_back({a, b, c});
  Eigen::MatrixXd F(n, (int)pw.size());
  for (int i = 0; i < n; i++)
    for (int j = 0; j < (int)pw.size(); j++)
    {
      double v = 1;
      for (int k = 0; k < d; k++)
      {
        double w = hi[k] > lo[k] ? (2 * pts[i][k] - lo[k] - hi[k]) / (hi[k] - lo[k]) : 0.;
        v *= std::pow(w, pw[j][k]);
      }
      F(i, j) = v;
    }
  Eigen::JacobiSVD<Eigen::MatrixXd> svd(F, Eigen::ComputeThinU);
  rank = 0;
  for (int j = 0; j < svd.singularValues().size(); j++) if (svd.singularValues()(j) > 1e-9 * svd.singularValues()(0)) rank++;
  return svd.matrixU().leftCols(rank);
}

static Value psdCase(const Value& c)
{
  Value o = Value::object();
  o["id"] = c.at("id");
  int d = c.at("d").i();
  defineDefaultSpace(ESpaceType::RN, d);
  SpaceRN space(d);
  const auto& pts = PSETS.at(c.at("ps").s());
  int n = (int)pts.size();
  bool mix = c.at("k").s() == "mix";
  int nv = mix ? c.at("nv").i() : 1;
  double range = c.at("range").d();
  int ord = c.at("ord").i();
  std::unique_ptr<Model> m;
  if (!mix)
  {
    int an = c.at("an").i();
    VectorDouble ranges, angles;
    if (an == 1)
    {
      ranges = d == 2 ? VectorDouble{2 * range, range / 2} : VectorDouble{2 * range, range / 2, range};
      angles = d == 2 ? VectorDouble{T345, 0.} : VectorDouble{T345, T345, 0.};
    }
    m.reset(Model::createFromParam(typeOf(c.at("s").s()), range, 1., c.at("p").d(), ranges, VectorDouble(), angles, &space));
  }
  else
  {
    std::vector<double> sl = c.at("sl").doubles();
    VectorDouble sills = nv == 1 ? VectorDouble{sl[0]} : VectorDouble{sl[0], sl[1], sl[1], sl[2]};
    VectorDouble sills2 = nv == 1 ? VectorDouble{0.5 * sl[2] + 0.25} : VectorDouble{sl[2], -sl[1], -sl[1], sl[0]};
    CovContext ctxt(nv, d);
    m.reset(Model::create(ctxt));
    m->addCovFromParam(typeOf(c.at("s").s()), range, 1., 1., VectorDouble(), sills);
    m->addCovFromParam(typeOf(c.at("s2").s()), 2.5 * range, 1., 1., VectorDouble(), sills2);
  }
  if (!m || m->getCovaNumber() != (mix ? 2 : 1)) { o["exception"] = Value("model not built"); return o; }
  std::unique_ptr<Db> db(makeDb(d, pts, nv));
  MatrixRectangular K = m->evalCovMatrix(db.get(), db.get());
  MatrixSquareSymmetric KS = m->evalCovMatrixSymmetric(db.get());
  int N = n * nv;
  if (K.getNRows() != N || K.getNCols() != N || KS.getNRows() != N) { o["exception"] = Value("matrix of unexpected size"); return o; }
  Eigen::MatrixXd A(N, N);
  double symdiff = 0, routediff = 0, maxabs = 0;
  bool finite = true;
  for (int i = 0; i < N; i++)
    for (int j = 0; j < N; j++)
    {
      double v = K.getValue(i, j);
      if (!std::isfinite(v)) finite = false;
      A(i, j) = v;
      maxabs = std::max(maxabs, std::fabs(v));
      symdiff = std::max(symdiff, std::fabs(v - K.getValue(j, i)));
      routediff = std::max(routediff, std::fabs(v - KS.getValue(i, j)));
    }
  o["n"] = Value(N); o["finite"] = Value(finite ? 1 : 0);
  o["symdiff"] = Value(symdiff); o["routediff"] = Value(routediff); o["maxabs"] = Value(maxabs);
  if (!finite) return o;
  Eigen::MatrixXd S = 0.5 * (A + A.transpose());
  int rank = 0;
  if (ord >= 0)
  {
    Eigen::MatrixXd U1 = monoBasis(pts, d, ord, rank);
    Eigen::MatrixXd U = Eigen::MatrixXd::Zero(N, rank * nv);
    for (int v = 0; v < nv; v++) U.block(v * n, v * rank, n, rank) = U1;
    Eigen::MatrixXd P = Eigen::MatrixXd::Identity(N, N) - U * U.transpose();
    S = P * S * P;
    S = 0.5 * (S + S.transpose()).eval();
  }
  Eigen::SelfAdjointEigenSolver<Eigen::MatrixXd> es(S, Eigen::EigenvaluesOnly);
  o["lmin"] = Value(es.eigenvalues()(0)); o["lmax"] = Value(es.eigenvalues()(N - 1));
  o["nfiltered"] = Value(rank * nv);
  if (c.getb("dump", false))
  {
    Eigen::SelfAdjointEigenSolver<Eigen::MatrixXd> es2(S);
    Value w = Value::array();
    for (int i = 0; i < N; i++) w.push(Value(es2.eigenvectors()(i, 0)));
    o["vector"] = w;
    Value mat = Value::array();
    for (int i = 0; i < N; i++) { Value r = Value::array(); for (int j = 0; j < N; j++) r.push(Value(A(i, j))); mat.push(r); }
    o["matrix"] = mat;
  }
  return o;
}


// ------------------------------------------------------------------------------------------------ admit
#include "Covariances/ACovAnisoList.hpp"
#include <functional>
static Value admitCase(const Value& c)
{
  std::string s = c.at("s").s();
  double req = c.at("req").d();
  int ord = c.at("ord").i();
  const int d = 1, n = 40;
  const double range = 10.;
  defineDefaultSpace(ESpaceType::RN, d);
  SpaceRN space(d);
  CovContext ctxt(1, d);
  ECov type = typeOf(s);
  MatrixSquareSymmetric sills(1); sills.setValue(0, 0, 1.);
  std::vector<std::vector<double>> pts;
  for (int i = 0; i < n; i++) pts.push_back({(double)i});
  std::unique_ptr<Db> db(makeDb(d, pts));
  typedef std::function<CovAniso*()> Maker;
  std::vector<std::pair<std::string, Maker>> routes = {
    {"CovAniso(type,range,param,sill,ctxt)", [&]() { return new CovAniso(type, range, req, 1., ctxt); }},
    {"CovAniso.setParam", [&]() { std::unique_ptr<CovAniso> k(new CovAniso(type, ctxt)); k->setParam(req); k->setRangeIsotropic(range); return k.release(); }},
    {"CovAniso.createIsotropic", [&]() { return CovAniso::createIsotropic(ctxt, type, range, 1., req); }},
    {"CovAniso.createAnisotropic", [&]() { return CovAniso::createAnisotropic(ctxt, type, VectorDouble{range}, 1., req); }},
    {"CovAniso.createIsotropicMulti", [&]() { return CovAniso::createIsotropicMulti(ctxt, type, range, sills, req); }},
    {"CovAniso.createAnisotropicMulti", [&]() { return CovAniso::createAnisotropicMulti(ctxt, type, VectorDouble{range}, sills, req); }},
    {"Model.createFromParam", [&]() { std::unique_ptr<Model> m(Model::createFromParam(type, range, 1., req, VectorDouble(), VectorDouble(), VectorDouble(), &space));
                                       return (m && m->getCovaNumber() == 1) ? m->getCova(0)->clone() : (CovAniso*)nullptr; }},
    {"Model.addCovFromParam", [&]() { std::unique_ptr<Model> m(Model::create(ctxt)); m->addCovFromParam(type, range, 1., req);
                                       return m->getCovaNumber() == 1 ? m->getCova(0)->clone() : (CovAniso*)nullptr; }},
    {"ACovAnisoList.setParam", [&]() { std::unique_ptr<Model> m(Model::createFromParam(type, range, 1., 1., VectorDouble(), VectorDouble(), VectorDouble(), &space));
                                        m->getCovAnisoListModify()->setParam(0, req); m->getCovAnisoListModify()->setRangeIsotropic(0, range);
                                        return m->getCova(0)->clone(); }},
    {"CovAniso.copy.setParam", [&]() { CovAniso a(type, range, 1., 1., ctxt); std::unique_ptr<CovAniso> k(a.clone()); k->setParam(req); k->setRangeIsotropic(range); return k.release(); }},
  };
  Value o = Value::object();
  o["id"] = c.at("id");
  Value outs = Value::array();
  for (auto& rt : routes)
  {
    Value r = Value::object();
    r["route"] = Value(rt.first);
    try
    {
      std::unique_ptr<CovAniso> cov(rt.second());
      if (!cov) { r["out"] = Value("refused"); r["why"] = Value("null"); outs.push(r); continue; }
      r["out"] = Value("set");
      r["param"] = Value(cov->getParam());
      r["range"] = Value(cov->getRange());
      std::unique_ptr<Model> m(Model::create(ctxt));
      m->addCov(cov.get());
      MatrixRectangular K = m->evalCovMatrix(db.get(), db.get());
      Eigen::MatrixXd A(n, n);
      bool finite = true; double maxabs = 0;
      for (int i = 0; i < n; i++) for (int j = 0; j < n; j++)
      { double v = K.getValue(i, j); if (!std::isfinite(v)) finite = false; A(i, j) = v; maxabs = std::max(maxabs, std::fabs(v)); }
      r["finite"] = Value(finite ? 1 : 0); r["maxabs"] = Value(maxabs);
      if (finite)
      {
        Eigen::MatrixXd S = 0.5 * (A + A.transpose());
        if (ord >= 0)
        {
          int rank = 0;
          Eigen::MatrixXd U = monoBasis(pts, d, ord, rank);
          Eigen::MatrixXd P = Eigen::MatrixXd::Identity(n, n) - U * U.transpose();
          S = P * S * P; S = 0.5 * (S + S.transpose()).eval();
        }
        Eigen::SelfAdjointEigenSolver<Eigen::MatrixXd> es(S, Eigen::EigenvaluesOnly);
        r["lmin"] = Value(es.eigenvalues()(0)); r["lmax"] = Value(es.eigenvalues()(n - 1));
      }
    }
    catch (std::exception& e) { r["out"] = Value("refused"); r["why"] = Value(std::string(e.what())); }
    outs.push(r);
  }
  // the basic function itself
  {
    Value r = Value::object();
    r["route"] = Value("ACovFunc.setParam");
    try
    {
      std::unique_ptr<ACovFunc> f(CovFactory::createCovFunc(type, ctxt));
      f->setParam(req);
      r["out"] = Value("set"); r["param"] = Value(f->getParam());
    }
    catch (std::exception& e) { r["out"] = Value("refused"); r["why"] = Value(std::string(e.what())); }
    outs.push(r);
  }
  o["routes"] = outs;
  return o;
}

// ------------------------------------------------------------------------------------------------ main
int main(int argc, char** argv)
{
  if (argc < 4) { fprintf(stderr, "usage: cov_run offer|value|aniso|psd IN OUT [start]\n"); return 2; }
  std::string mode = argv[1];
  long start = argc > 4 ? atol(argv[4]) : 0;
  OUT_FD = open(argv[3], O_WRONLY | O_CREAT | (start > 0 ? O_APPEND : O_TRUNC), 0644);
  if (OUT_FD < 0) { perror("open"); return 2; }
  if (!freopen("/dev/null", "w", stdout)) return 2;
  // a case that does not return (observed: a huge shape parameter accepted by a mutant) is recorded like a crash, signal 14
  signal(SIGALRM, onCrash);
  unsigned int caseTimeout = getenv("VERIF_C03_CASE_TIMEOUT") ? (unsigned int)atoi(getenv("VERIF_C03_CASE_TIMEOUT")) : (mode == "admit" ? 30u : 300u);
  signal(SIGSEGV, onCrash); signal(SIGABRT, onCrash); signal(SIGFPE, onCrash); signal(SIGBUS, onCrash); signal(SIGILL, onCrash);
  try
  {
    if (mode == "offer") return modeOffer(vj::readFile(argv[2]));
    std::ifstream f(argv[2]);
    if (!f) { fprintf(stderr, "cannot open %s\n", argv[2]); return 2; }
    std::string line;
    long i = -1;
    while (std::getline(f, line))
    {
      if (line.find_first_not_of(" \t\r") == std::string::npos) continue;
      i++;
      bool pset = mode == "psd" && line.find("\"k\":\"pset\"") != std::string::npos;
      if (i < start && !pset) continue;
      CUR = i;
      alarm(caseTimeout);
      Value c = vj::parse(line);
      if (pset)
      {
        std::vector<std::vector<double>> pts;
        for (auto& p : c.at("pts").arr) pts.push_back(p.doubles());
        PSETS[c.at("id").s()] = pts;
        if (i >= start) { Value o = Value::object(); o["id"] = c.at("id"); o["pset"] = Value((int)pts.size()); emit(o); }
        continue;
      }
      if (mode == "value")
      {
        Value o;
        try { o = evalOne(c); }
        catch (std::exception& e) { o = Value::object(); o["id"] = c.at("id"); o["exception"] = Value(std::string(e.what())); }
        emit(o);
      }
      else if (mode == "aniso") anisoCase(c);
      else if (mode == "admit")
      {
        Value o;
        try { o = admitCase(c); }
        catch (std::exception& e) { o = Value::object(); o["id"] = c.at("id"); o["exception"] = Value(std::string(e.what())); }
        emit(o);
      }
      else if (mode == "psd")
      {
        Value o;
        try { o = psdCase(c); }
        catch (std::exception& e) { o = Value::object(); o["id"] = c.at("id"); o["exception"] = Value(std::string(e.what())); }
        emit(o);
      }
      else { fprintf(stderr, "unknown mode\n"); return 2; }
    }
  }
  catch (std::exception& e) { fprintf(stderr, "cov_run: %s\n", e.what()); return 2; }
  return 0;
}
