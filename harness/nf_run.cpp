// C08 binding: for every abstract instance emitted by TLC from NeutralFile.tla (class + recipe), builds the
// REAL object through the public API, dumpToNF, and reports
//   toks   : the token stream of the file written (trace of the real writer; "#" = comment mark, title dropped)
//   p0/p1  : projection of the original / of the object reloaded by createFromNF, in the shape of the spec's
//            abstract object, read through public getters only;  x0/x1 further getters;  q0/q1 answers to queries
//   same2  : the file written from the reloaded object is byte-identical to the first one
// Crash containment: cases are processed in forked children; a fatal signal while processing a case is
// reported as {"id":..,"crash":signal} and the run resumes after it.
//
// usage: nf_run <cases.ndjson> <out.ndjson> <tmpdir>
#include "nf_common.hpp"

int main(int argc, char** argv)
{
  if (argc < 4) { fprintf(stderr, "usage: nf_run cases out tmpdir\n"); return 2; }
  std::vector<Value> cases = vj::readNdjson(argv[1]);
  std::string outp = argv[2];
  std::string tmp = argv[3];
  { FILE* f = fopen(outp.c_str(), "w"); if (!f) return 2; fclose(f); }
  if (!freopen("/dev/null", "w", stdout)) return 2;

  int* cur = (int*)mmap(nullptr, sizeof(int) * 2, PROT_READ | PROT_WRITE, MAP_SHARED | MAP_ANONYMOUS, -1, 0);
  size_t next = 0;
  int ncrash = 0;
  while (next < cases.size())
  {
    cur[0] = (int)next;
    cur[1] = 0;
    pid_t pid = fork();
    if (pid < 0) return 2;
    if (pid == 0)
    {
      FILE* out = fopen(outp.c_str(), "a");
      if (!out) _exit(2);
      alarm(600);
      for (size_t k = next; k < cases.size(); k++)
      {
        cur[0] = (int)k;
        Value rec;
        try { rec = nf::runCase(cases[k], tmp); }
        catch (const std::exception& e)
        {
          rec = Value::object();
          rec["id"] = cases[k].at("id");
          rec["c"] = cases[k].at("c");
          rec["exception"] = Value(std::string(e.what()));
        }
        fprintf(out, "%s\n", vj::dump(rec).c_str());
        fflush(out);
      }
      cur[1] = 1;
      fclose(out);
      _exit(0);
    }
    int st = 0;
    waitpid(pid, &st, 0);
    if (cur[1] == 1 && WIFEXITED(st) && WEXITSTATUS(st) == 0) break;
    // the child died while processing case cur[0]
    FILE* out = fopen(outp.c_str(), "a");
    Value rec = Value::object();
    rec["id"] = cases[cur[0]].at("id");
    rec["c"] = cases[cur[0]].at("c");
    rec["crash"] = Value(WIFSIGNALED(st) ? WTERMSIG(st) : 1000 + WEXITSTATUS(st));
    fprintf(out, "%s\n", vj::dump(rec).c_str());
    fclose(out);
    next = (size_t)cur[0] + 1;
    if (++ncrash > (int)cases.size()) { fprintf(stderr, "too many crashes\n"); return 4; }
  }
  fprintf(stderr, "{\"cases\":%zu,\"crashes\":%d}\n", cases.size(), ncrash);
  return 0;
}
