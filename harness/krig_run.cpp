// C01 / C02 binding: every configuration emitted by TLC from KrigingSystem.tla (symbolic system)
// is concretised (coordinates, data with undefined values, measurement errors, external drift,
// model from a fixed list, unique / moving neighbourhood, point / block target), the TERMS of the
// symbolic system are evaluated with point-wise public functions only (Model::eval on two points,
// an independent monomial evaluator for the drift), and the real krigtest() / kriging() results are
// measured against it: lhs, rhs entry by entry; the returned weights satisfy the documented
// equations; estimate / standard deviation / variance of the estimator follow the documented
// formulas.  Mode "meta" (C02) runs the input transformations and measures the induced relations.
//
// usage: krig_run <configs.ndjson> <out.ndjson> [first] [count]
#include "vjson.hpp"
#include "Db/Db.hpp"
#include "Db/DbGrid.hpp"
#include "Model/Model.hpp"
#include "Neigh/NeighUnique.hpp"
#include "Neigh/NeighMoving.hpp"
#include "Estimation/CalcKriging.hpp"
#include "Space/SpaceRN.hpp"
#include "Space/SpacePoint.hpp"
#include "Space/ASpaceObject.hpp"
#include "Enum/ECov.hpp"
#include "Enum/EKrigOpt.hpp"
#include "Enum/ELoadBy.hpp"
#include "Enum/ESpaceType.hpp"
#include <cmath>
#include <csignal>
#include <unistd.h>

using vj::Value;
typedef std::vector<std::vector<double>> Mat;

static char CUR[16384];
static int OUT_FD = -1;
static void onCrash(int sig)
{
  char buf[16600];
  int n = snprintf(buf, sizeof buf, "{\"case\":%s,\"crash\":%d}\n", CUR, sig);
  if (OUT_FD >= 0 && n > 0) { ssize_t w = write(OUT_FD, buf, (size_t)n); (void)w; }
  _exit(88);
}

// ------------------------------------------------------------------ fixed concrete material
static const int NMAX = 7;
static const double SC[3][NMAX] = {{0.31, 1.72, 2.55, 0.93, 2.11, 1.37, 2.83},
                                   {0.42, 0.27, 1.61, 2.33, 1.18, 2.02, 0.74},
                                   {0.15, 0.92, 0.38, 0.61, 0.83, 0.27, 0.49}};
static const double SZ[2][NMAX] = {{1.2, -0.4, 0.7, 2.1, -1.3, 0.45, 1.65}, {0.3, 1.4, -0.8, 0.5, 1.9, -0.25, 0.95}};
static const double SF[NMAX] = {0.8, 1.9, 2.4, 0.6, 1.5, 1.1, 2.2};
static const double SV[2][NMAX] = {{0.11, 0.23, 0.07, 0.31, 0.19, 0.15, 0.27}, {0.29, 0.05, 0.17, 0.13, 0.37, 0.21, 0.09}};
static const double FARC[2][3] = {{55.5, 61.2, 48.8}, {-47.3, 38.4, -52.6}};   // samples far outside the moving radius
static const double TC[2][3] = {{1.45, 1.05, 0.55}, {0.77, 1.86, 0.33}};       // point targets
static const double MEANS[2] = {0.35, -0.6};
static const double SHIFT[3] = {100.5, -37.25, 12.75};

static bool G_TGRID = false;   // point targets = nodes of a rotated DbGrid (set per case)
static bool G_V2ZERO = false;  // measurement error variance of the second variable = 0 everywhere (exactness of the error-free variable)
static bool G_PERCELL = false; // block support defined per target cell (locator BLEX), kriging through krigcell / flagPerCell
static const double BLEXT[2][3] = {{0.9, 0.7, 0.5}, {0.5, 1.1, 0.3}};   // extensions of the two target cells
static int  G_NEXTRA = 0;       // extra fully defined samples around the cluster + angular sectors with a binding nmaxi (exactness runs)
static bool G_TCOIN = false;   // second point target placed exactly on the first sample (set per case)
struct Setup
{
  Db* dbin = nullptr; Db* dbout = nullptr; Model* model = nullptr; ANeigh* neigh = nullptr;
  int nvar, ns, nfar, ndim; bool verr; std::string drift, target, neighKind; int imodel;
  bool tgrid = G_TGRID;    // point kriging at the nodes of a ROTATED DbGrid instead of a point Db (2-D / 3-D)
  bool cluster = false;    // a second, fully defined cluster of data far away, with its own target (moving neighbourhood)
  std::vector<int> order;           // sample s (0-based, spec numbering) -> rank in dbin
  double shift[3] = {0, 0, 0};
  ~Setup() { delete dbin; delete dbout; delete model; delete neigh; }
};

static double extdrift(const double* x, int ndim)
{
  double y = ndim >= 2 ? x[1] : 0.4, z = ndim >= 3 ? x[2] : 0.2;
  return 0.7 + 0.3 * x[0] - 0.2 * y + 0.1 * x[0] * y + 0.15 * z;
}

static Model* makeModel(int imodel, int nvar, const std::string& drift, int ndim)
{
  SpaceRN space(ndim);
  Model* m = nullptr;
  VectorDouble sills1 = {1.5}, sills2 = {1.5, 0.5, 0.5, 1.1};
  const VectorDouble& sills = nvar == 1 ? sills1 : sills2;
  if (imodel == 0)
    m = Model::createFromParam(ECov::SPHERICAL, 4.0, 1., 1., VectorDouble(), sills, VectorDouble(), &space);
  else if (imodel == 1)
  {
    VectorDouble ranges = {3.0, 1.2, 2.1}; ranges.resize(ndim);
    VectorDouble angles = ndim == 1 ? VectorDouble() : (ndim == 2 ? VectorDouble{35., 0.} : VectorDouble{35., 20., 10.});
    m = Model::createFromParam(ECov::EXPONENTIAL, 1., 1., 1., ranges, sills, angles, &space);
    VectorDouble nug = nvar == 1 ? VectorDouble{0.3} : VectorDouble{0.3, 0.05, 0.05, 0.2};
    m->addCovFromParam(ECov::NUGGET, 0., 1., 1., VectorDouble(), nug);
  }
  else
  {
    m = Model::createFromParam(ECov::CUBIC, 5.0, 1., 1., VectorDouble(), sills, VectorDouble(), &space);
    VectorDouble s2 = nvar == 1 ? VectorDouble{0.4} : VectorDouble{0.4, -0.1, -0.1, 0.6};
    m->addCovFromParam(ECov::EXPONENTIAL, 2.0, 1., 1., VectorDouble(), s2);
  }
  if (drift == "SK") { VectorDouble means(MEANS, MEANS + nvar); m->setMeans(means); }
  else if (drift == "OK") m->setDriftIRF(0);
  else if (drift == "LIN") m->setDriftIRF(1);
  else if (drift == "QUAD") m->setDriftIRF(2);
  else if (drift == "EXT") m->setDriftIRF(0, 1);
  return m;
}

// Builds the objects of one case. perm: order in which the spec samples are stored in dbin.
static void build(Setup& S, const Value& cfg, const std::vector<int>& perm, const std::vector<std::vector<double>>* zover = nullptr)
{
  S.nvar = cfg.at("nvar").i(); S.ns = cfg.at("ns").i(); S.verr = cfg.at("verr").boolean();
  S.drift = cfg.at("drift").s(); S.target = cfg.at("target").s(); S.ndim = cfg.at("ndim").i();
  int nd = S.ndim;
  defineDefaultSpace(ESpaceType::RN, nd);
  S.nfar = S.neighKind == "moving" ? 2 : 0;
  int nech = S.ns + S.nfar + G_NEXTRA;
  std::vector<VectorDouble> x(nd, VectorDouble(nech));
  VectorDouble f(nech);
  std::vector<VectorDouble> z(S.nvar, VectorDouble(nech)), v(S.nvar, VectorDouble(nech));
  S.order.assign(S.ns, 0);
  // the far samples are interleaved first / last so that the neighbourhood ranks are not trivially 0..ns-1
  int pos = 0;
  std::vector<int> slot(nech, -1);      // rank -> spec sample (or -1 far)
  if (S.nfar > 0) slot[pos++] = -1;
  for (int k = 0; k < S.ns; k++) { slot[pos] = perm[k]; S.order[perm[k]] = pos; pos++; }
  if (S.nfar > 1) slot[pos++] = -1;
  int ifar = 0;
  unsigned long long rst = 1234567891011ULL;
  auto rnd = [&rst]() { rst ^= rst << 13; rst ^= rst >> 7; rst ^= rst << 17; return (double)(rst % 1000003ULL) / 1000003.0; };
  for (int r = 0; r < nech; r++)
  {
    int s = slot[r];
    if (r >= S.ns + S.nfar)
    {
      // extra samples: everywhere defined, spread over the area of the cluster
      for (int d = 0; d < nd; d++) x[d][r] = 3.2 * rnd() - 0.1 + S.shift[d];
      for (int iv = 0; iv < S.nvar; iv++) { z[iv][r] = 2. * rnd() - 1.; v[iv][r] = (G_V2ZERO && iv == 1) ? 0. : 0.15; }
      f[r] = 0.5 + 2. * rnd();
    }
    else if (s < 0)
    {
      for (int d = 0; d < nd; d++) x[d][r] = FARC[ifar][d] + S.shift[d];
      ifar++;
      for (int iv = 0; iv < S.nvar; iv++) { z[iv][r] = 3.3 + iv; v[iv][r] = (G_V2ZERO && iv == 1) ? 0. : 0.2; }
      f[r] = 1.234;
    }
    else
    {
      for (int d = 0; d < nd; d++) x[d][r] = SC[d][s] + S.shift[d];
      for (int iv = 0; iv < S.nvar; iv++)
      {
        bool def = cfg.at("def")[s][iv].boolean();
        double val = zover ? (*zover)[iv][s] : SZ[iv][s];
        z[iv][r] = def ? val : TEST;
        v[iv][r] = (G_V2ZERO && iv == 1) ? 0. : SV[iv][s];
      }
      f[r] = SF[s];
    }
  }
  VectorDouble tab; VectorString names, locs;
  auto add = [&](const VectorDouble& c, const std::string& n, const std::string& l) { for (double d : c) tab.push_back(d); names.push_back(n); locs.push_back(l); };
  for (int d = 0; d < nd; d++) add(x[d], "x" + std::to_string(d + 1), "x" + std::to_string(d + 1));
  for (int iv = 0; iv < S.nvar; iv++) add(z[iv], "z" + std::to_string(iv + 1), "z" + std::to_string(iv + 1));
  if (S.verr) for (int iv = 0; iv < S.nvar; iv++) add(v[iv], "v" + std::to_string(iv + 1), "v" + std::to_string(iv + 1));
  if (S.drift == "EXT") add(f, "ext", "f1");
  S.dbin = Db::createFromSamples(nech, ELoadBy::COLUMN, tab, names, locs, false);

  if (S.target == "block")
  {
    VectorInt nx(nd, 1); nx[0] = 2;
    VectorDouble dx = {0.9, 0.7, 0.5}, x0(nd);
    dx.resize(nd);
    for (int d = 0; d < nd; d++) x0[d] = TC[0][d] + S.shift[d];
    DbGrid* g = DbGrid::create(nx, dx, x0);
    if (S.drift == "EXT")
    {
      VectorDouble fo(2);
      for (int i = 0; i < 2; i++)
      {
        double c[3] = {0, 0, 0};
        for (int d = 0; d < nd; d++) c[d] = g->getCoordinate(i, d) - S.shift[d];
        fo[i] = extdrift(c, nd);
      }
      g->addColumns(fo, "ext", ELoc::F);
    }
    if (G_PERCELL)
      for (int d = 0; d < nd; d++)
        g->addColumns(VectorDouble{BLEXT[0][d], BLEXT[1][d]}, "blex" + std::to_string(d + 1), ELoc::BLEX, d);
    S.dbout = g;
  }
  else if (S.tgrid && nd >= 2)
  {
    // rotated grid: node 0 at the first point target, node 1 one mesh further along the rotated first axis
    VectorInt nx(nd, 1); nx[0] = 2;
    VectorDouble dx = {0.83, 0.61, 0.47}, x0(nd), angles(nd, 0.);
    dx.resize(nd);
    angles[0] = 30.; if (nd == 3) angles[1] = 20.;
    for (int d = 0; d < nd; d++) x0[d] = TC[0][d] + S.shift[d];
    DbGrid* g = DbGrid::create(nx, dx, x0, angles);
    if (S.drift == "EXT")
    {
      VectorDouble fo(2);
      for (int i = 0; i < 2; i++)
      {
        double c[3] = {0, 0, 0};
        for (int d = 0; d < nd; d++) c[d] = g->getCoordinate(i, d) - S.shift[d];
        fo[i] = extdrift(c, nd);
      }
      g->addColumns(fo, "ext", ELoc::F);
    }
    S.dbout = g;
  }
  else
  {
    VectorDouble t; VectorString tn, tl;
    for (int d = 0; d < nd; d++)
    {
      t.push_back(TC[0][d] + S.shift[d]); t.push_back((G_TCOIN ? SC[d][0] : TC[1][d]) + S.shift[d]);
      tn.push_back("x" + std::to_string(d + 1)); tl.push_back("x" + std::to_string(d + 1));
    }
    if (S.drift == "EXT") { t.push_back(extdrift(TC[0], nd)); t.push_back(extdrift(TC[1], nd)); tn.push_back("ext"); tl.push_back("f1"); }
    S.dbout = Db::createFromSamples(2, ELoadBy::COLUMN, t, tn, tl, false);
  }
  S.model = makeModel(S.imodel, S.nvar, S.drift, nd);
  if (S.neighKind == "moving")
  {
    SpaceRN space(nd);
    if (G_NEXTRA > 0 && nd >= 2)
      S.neigh = NeighMoving::create(false, 6, 12., 1, 4, ITEST, VectorDouble(), VectorDouble(), &space);   // 4 sectors, nmaxi binds
    else
      S.neigh = NeighMoving::create(false, 100, 12., 1, 1, 0, VectorDouble(), VectorDouble(), &space);
  }
  else
  {
    SpaceRN space(nd);
    S.neigh = NeighUnique::create(false, &space);
  }
}

// ------------------------------------------------------------------ independent term evaluator
struct Eval
{
  const Setup& S; int itarget; const Value& funcs;
  std::vector<std::vector<double>> disc;   // target points (1 for a point, 2^ndim for a block)
  std::vector<double> centre;
  Eval(const Setup& s, int it, const Value& fn) : S(s), itarget(it), funcs(fn)
  {
    int nd = S.ndim;
    for (int d = 0; d < nd; d++) centre.push_back(S.dbout->getCoordinate(it, d));
    if (S.target == "block")
    {
      const DbGrid* g = dynamic_cast<const DbGrid*>(S.dbout);
      int ntot = 1 << nd;
      for (int i = 0; i < ntot; i++)
      {
        std::vector<double> p(nd);
        for (int d = 0; d < nd; d++)
        {
          int j = (i >> d) & 1;
          double ext = G_PERCELL ? BLEXT[it][d] : g->getDX(d);   // (own table, not the column of the Db)
          p[d] = centre[d] + ext * ((j + 0.5) / 2. - 0.5);
        }
        disc.push_back(p);
      }
    }
    else disc.push_back(centre);
  }
  std::vector<double> xy(int s) const
  {
    int r = S.order[s]; std::vector<double> p(S.ndim);
    for (int d = 0; d < S.ndim; d++) p[d] = S.dbin->getCoordinate(r, d);
    return p;
  }
  double cov(int v1, int v2, const std::vector<double>& a, const std::vector<double>& b) const
  {
    SpacePoint p1(VectorDouble(a.begin(), a.end())), p2(VectorDouble(b.begin(), b.end()));
    return S.model->eval(p1, p2, v1, v2);
  }
  // drift function l (1-based) of the specification at a location (monomial of the coordinates or external drift)
  double driftAt(int l, const std::vector<double>& x, double fext) const
  {
    const Value& f = funcs[l - 1];
    if (f.at("kind").s() == "ext") return fext;
    double r = 1.;
    for (int d = 0; d < S.ndim; d++) for (int k = 0; k < f.at("p")[d].i(); k++) r *= x[d];
    return r;
  }
  double term(const Value& t) const
  {
    int code = t[0].i();
    if (code == 0) return 0.;
    if (code == 1) return cov(t[1].i() - 1, t[2].i() - 1, xy(t[3].i() - 1), xy(t[4].i() - 1));
    if (code == 2)
    {
      int v = t[1].i() - 1, s = t[3].i() - 1;
      return cov(v, v, xy(s), xy(s)) + SV[v][s];
    }
    if (code == 3) { int s = t[2].i() - 1; return driftAt(t[1].i(), xy(s), SF[s]); }
    if (code == 4)
    {
      double acc = 0;
      for (auto& d : disc) acc += cov(t[1].i() - 1, t[2].i() - 1, xy(t[3].i() - 1), d);
      return acc / disc.size();
    }
    if (code == 5)
    {
      double fext = S.drift == "EXT" ? S.dbout->getLocVariable(ELoc::F, itarget, 0) : 0.;
      if (S.target == "point") return driftAt(t[1].i(), centre, fext);
      // block: mean of the drift function over the discretisation points (external drift: value of the cell)
      double acc = 0;
      for (auto& d : disc) acc += driftAt(t[1].i(), d, fext);
      return acc / disc.size();
    }
    throw std::runtime_error("bad term");
  }
  double c00(int v1, int v2) const { return cov(v1, v2, disc[0], disc[0]); }   // point target only
};

static double maxabs(const Mat& m) { double s = 0; for (auto& r : m) for (double x : r) s = std::max(s, std::fabs(x)); return s; }

static Value analyse(const Value& cs, const std::string& neighKind, int imodel, int itarget, const std::vector<int>& perm, bool tgrid)
{
  const Value& cfg = cs.at("cfg");
  const Value& sys = cs.at("sys");
  G_TGRID = tgrid;
  Setup S; S.neighKind = neighKind; S.imodel = imodel;
  build(S, cfg, perm);
  Eval E(S, itarget, cfg.at("funcs"));
  int nvar = S.nvar;
  int neq = (int)sys.at("eqs").size();
  Mat L(neq, std::vector<double>(neq)), R(neq, std::vector<double>(nvar));
  for (int i = 0; i < neq; i++)
  {
    for (int j = 0; j < neq; j++) L[i][j] = E.term(sys.at("lhs")[i][j]);
    for (int v = 0; v < nvar; v++) R[i][v] = E.term(sys.at("rhs")[i][v]);
  }
  // expected neighbourhood: ranks (in dbin order) of the spec samples
  std::vector<int> expNbgh;
  for (int s = 0; s < S.ns; s++) expNbgh.push_back(S.order[s]);
  std::sort(expNbgh.begin(), expNbgh.end());
  // data vector in equation order (centred by the known mean for simple kriging)
  std::vector<double> Zeq(neq, 0.);
  int ndata = 0;
  for (int i = 0; i < neq; i++)
  {
    const Value& e = sys.at("eqs")[i];
    if (e.at("k").s() != "d") continue;
    ndata++;
    int s = e.at("s").i() - 1, v = e.at("v").i() - 1;
    Zeq[i] = SZ[v][s] - (S.drift == "SK" ? MEANS[v] : 0.);
  }

  EKrigOpt calcul = S.target == "block" ? EKrigOpt::BLOCK : EKrigOpt::POINT;
  VectorInt ndiscs; if (S.target == "block") ndiscs = VectorInt(S.ndim, 2);
  Krigtest_Res kt = krigtest(S.dbin, S.dbout, S.model, S.neigh, itarget, calcul, ndiscs, G_PERCELL, false);
  int err = G_PERCELL ? krigcell(S.dbin, S.dbout, S.model, S.neigh, true, true, ndiscs)
                      : kriging(S.dbin, S.dbout, S.model, S.neigh, calcul, true, true, true, ndiscs);
  std::string prefix = G_PERCELL ? "KrigCell.z" : "Kriging.z";

  Value o = Value::object();
  o["neq_expected"] = Value(neq);
  o["neq"] = Value(kt.nbgh.empty() ? -1 : kt.neq);
  o["kriging_err"] = Value(err);
  std::vector<int> nb(kt.nbgh.begin(), kt.nbgh.end());
  o["nbgh_ok"] = Value(nb == expNbgh);
  o["nbgh"] = Value::arrayOf(nb);
  // (kt.neq is the size of the isotopic system; the system actually solved has the size of lhs)
  o["neq"] = Value(kt.nbgh.empty() ? -1 : kt.lhs.getNRows());
  bool shapes = !kt.nbgh.empty() && kt.lhs.getNRows() == neq && kt.rhs.getNRows() == neq &&
                kt.rhs.getNCols() == nvar && kt.wgt.getNRows() == neq && kt.wgt.getNCols() == nvar;
  o["shapes_ok"] = Value(shapes);
  if (!shapes) return o;
  double scaleL = std::max(1e-300, maxabs(L)), scaleR = std::max(1e-300, maxabs(R));
  double dl = 0, dr = 0, res = 0;
  for (int i = 0; i < neq; i++)
  {
    for (int j = 0; j < neq; j++) dl = std::max(dl, std::fabs(kt.lhs.getValue(i, j) - L[i][j]));
    for (int v = 0; v < nvar; v++) dr = std::max(dr, std::fabs(kt.rhs.getValue(i, v) - R[i][v]));
  }
  double wmax = 0;
  for (int i = 0; i < neq; i++)
    for (int v = 0; v < nvar; v++)
    {
      double acc = 0;
      for (int j = 0; j < neq; j++) acc += L[i][j] * kt.wgt.getValue(j, v);
      res = std::max(res, std::fabs(acc - R[i][v]));
      wmax = std::max(wmax, std::fabs(kt.wgt.getValue(i, v)));
    }
  o["lhs_diff"] = Value(dl / scaleL);
  o["rhs_diff"] = Value(dr / scaleR);
  o["residual"] = Value(res / (scaleL * std::max(1., wmax)));
  o["wmax"] = Value(wmax);
  // documented formulas from the returned weights
  double dest = 0, dstd = 0, dvarz = 0, sdmax = 0; bool finite = true;
  for (int v0 = 0; v0 < nvar; v0++)
  {
    double est = (S.drift == "SK") ? MEANS[v0] : 0.;
    double red = 0, vz = 0;
    for (int i = 0; i < neq; i++)
    {
      est += kt.wgt.getValue(i, v0) * Zeq[i];
      red += kt.wgt.getValue(i, v0) * R[i][v0];
    }
    for (int i = 0; i < ndata; i++) for (int j = 0; j < ndata; j++) vz += kt.wgt.getValue(i, v0) * L[i][j] * kt.wgt.getValue(j, v0);
    double c00 = kt.var.getValue(v0, v0);
    if (S.target == "point") o["c00_diff"] = Value(std::fabs(c00 - E.c00(v0, v0)) / std::max(1e-300, std::fabs(c00)));
    else
    {
      // block variance: mean covariance between the regular discretisation of THIS block and its randomised copy
      // (the two point sets come from the public DbGrid::getDiscretizedBlock, as the documentation of the block variance says)
      const DbGrid* g = dynamic_cast<const DbGrid*>(S.dbout);
      VectorVectorDouble d1 = g->getDiscretizedBlock(ndiscs, itarget, G_PERCELL, false);
      VectorVectorDouble d2 = g->getDiscretizedBlock(ndiscs, itarget, G_PERCELL, true, 1234546);
      double acc = 0;
      for (auto& a : d1) for (auto& b : d2)
      {
        std::vector<double> pa(S.ndim), pb(S.ndim);
        for (int d = 0; d < S.ndim; d++) { pa[d] = E.centre[d] + a[d]; pb[d] = E.centre[d] + b[d]; }
        acc += E.cov(v0, v0, pa, pb);
      }
      acc /= (double)(d1.size() * d2.size());
      o["cvv_diff"] = Value(std::max(o.getd("cvv_diff", 0.), std::fabs(c00 - acc) / std::max(1e-300, std::fabs(acc))));
    }
    double sd2 = c00 - red;
    double sd = sd2 > 0 ? std::sqrt(sd2) : 0.;
    std::string sv = std::to_string(v0 + 1);
    double gest = S.dbout->getValue(prefix + sv + ".estim", itarget);
    double gstd = S.dbout->getValue(prefix + sv + ".stdev", itarget);
    double gvz = G_PERCELL ? vz : S.dbout->getValue(prefix + sv + ".varz", itarget);   // (krigcell has no varz output)
    if (!std::isfinite(gest) || !std::isfinite(gstd) || gstd < 0) finite = false;
    dest = std::max(dest, std::fabs(gest - est) / std::max(1., std::fabs(est)));
    // compare variances (the standard deviation of an almost exact estimate is the square root of a round-off)
    dstd = std::max(dstd, std::fabs(gstd * gstd - std::max(0., sd2)) / std::max(1e-300, std::fabs(c00)));
    dvarz = std::max(dvarz, std::fabs(gvz - vz) / std::max(1e-300, std::fabs(c00)));
    sdmax = std::max(sdmax, sd);
    (void)sd;
  }
  o["estim_diff"] = Value(dest); o["stdev_var_diff"] = Value(dstd); o["varz_diff"] = Value(dvarz); o["finite"] = Value(finite);
  return o;
}

// ------------------------------------------------------------------ C02: metamorphic relations
struct KR { std::vector<double> est, sd; int err; std::vector<double> sumw; std::vector<std::vector<double>> tc; std::vector<double> tf; };
static KR runKrig(const Value& cfg, const std::string& neighKind, int imodel, const std::vector<int>& perm, bool shifted,
                  const std::vector<std::vector<double>>* zover, bool wantWeights = false, int itarget = 0)
{
  Setup S; S.neighKind = neighKind; S.imodel = imodel;
  if (shifted) for (int d = 0; d < 3; d++) S.shift[d] = SHIFT[d];
  build(S, cfg, perm, zover);
  EKrigOpt calcul = S.target == "block" ? EKrigOpt::BLOCK : EKrigOpt::POINT;
  VectorInt ndiscs; if (S.target == "block") ndiscs = VectorInt(S.ndim, 2);
  KR r;
  for (int t = 0; t < 2; t++)
  {
    std::vector<double> c(3, 0.);
    for (int d = 0; d < S.ndim; d++) c[d] = S.dbout->getCoordinate(t, d) - S.shift[d];
    r.tc.push_back(c);
    r.tf.push_back(S.drift == "EXT" ? S.dbout->getLocVariable(ELoc::F, t, 0) : 0.);
  }
  r.err = kriging(S.dbin, S.dbout, S.model, S.neigh, calcul, true, true, false, ndiscs);
  if (r.err == 0)
    for (int v = 0; v < S.nvar; v++)
      for (int t = 0; t < 2; t++)
      {
        r.est.push_back(S.dbout->getValue("Kriging.z" + std::to_string(v + 1) + ".estim", t));
        r.sd.push_back(S.dbout->getValue("Kriging.z" + std::to_string(v + 1) + ".stdev", t));
      }
  if (wantWeights)
  {
    Krigtest_Res kt = krigtest(S.dbin, S.dbout, S.model, S.neigh, itarget, calcul, ndiscs, false, false);
    // per (equation variable, target variable) sums of the weights
    if (!kt.nbgh.empty())
    {
      int row = 0;
      for (int v = 0; v < S.nvar; v++)
      {
        int nd = 0;
        for (int s = 0; s < S.ns; s++) if (cfg.at("def")[s][v].boolean()) nd++;
        for (int v0 = 0; v0 < S.nvar; v0++)
        {
          double acc = 0;
          for (int i = 0; i < nd; i++) acc += kt.wgt.getValue(row + i, v0);
          r.sumw.push_back(acc - (v == v0 ? 1. : 0.));
        }
        row += nd;
      }
    }
  }
  return r;
}
static double maxdiff(const std::vector<double>& a, const std::vector<double>& b, double scale = 1.)
{
  if (a.size() != b.size()) return 1e300;
  double d = 0;
  for (size_t i = 0; i < a.size(); i++)
  {
    if (!std::isfinite(a[i]) || !std::isfinite(b[i])) { if (std::isfinite(a[i]) != std::isfinite(b[i])) return 1e300; continue; }
    d = std::max(d, std::fabs(a[i] - b[i]) / std::max(scale, std::max(std::fabs(a[i]), std::fabs(b[i]))));
  }
  return d;
}

static Value meta(const Value& cs, const std::string& neighKind, int imodel)
{
  const Value& cfg = cs.at("cfg");
  int ns = cfg.at("ns").i(), nvar = cfg.at("nvar").i();
  std::string drift = cfg.at("drift").s();
  std::vector<int> id(ns), rev(ns);
  for (int i = 0; i < ns; i++) { id[i] = i; rev[i] = ns - 1 - i; }
  Value o = Value::object();
  KR base = runKrig(cfg, neighKind, imodel, id, false, nullptr, true);
  o["err"] = Value(base.err);
  if (base.err != 0) return o;
  // finite, non negative standard deviation
  bool fin = true; for (double s : base.sd) if (!std::isfinite(s) || s < 0) fin = false;
  for (double e : base.est) if (!std::isfinite(e)) fin = false;
  o["finite"] = Value(fin);
  // relabelling: permutation of the samples
  KR p = runKrig(cfg, neighKind, imodel, rev, false, nullptr);
  o["perm_est"] = Value(maxdiff(base.est, p.est)); o["perm_sd2"] = Value(maxdiff(base.sd, p.sd, 1e-3));
  // translation of all coordinates
  KR t = runKrig(cfg, neighKind, imodel, id, true, nullptr);
  if (drift != "EXT") { o["trans_est"] = Value(maxdiff(base.est, t.est)); o["trans_sd"] = Value(maxdiff(base.sd, t.sd, 1e-3)); }
  // linearity in the data: krig(2 z + 3 w) = 2 krig(z) + 3 krig(w)  (known means: compare centred estimates)
  {
    std::vector<std::vector<double>> w(nvar, std::vector<double>(NMAX)), c(nvar, std::vector<double>(NMAX));
    // with a known mean m the estimator is affine in the data (m (1 - sum of weights) is constant):
    // the combination must then have coefficients summing to one
    double a = 2., b = (drift == "SK") ? -1. : 3.;
    for (int v = 0; v < nvar; v++) for (int s = 0; s < NMAX; s++) { w[v][s] = std::cos(1.7 * s + v) + 0.3 * s; c[v][s] = a * SZ[v][s] + b * w[v][s]; }
    KR kw = runKrig(cfg, neighKind, imodel, id, false, &w), kc = runKrig(cfg, neighKind, imodel, id, false, &c);
    std::vector<double> lhs, rhs;
    for (size_t i = 0; i < base.est.size(); i++)
    {
      lhs.push_back(kc.est[i]);
      rhs.push_back(a * base.est[i] + b * kw.est[i]);
    }
    o["lin_est"] = Value(maxdiff(lhs, rhs)); o["lin_sd"] = Value(maxdiff(base.sd, kc.sd, 1e-3));
  }
  // unknown mean / drift: adding a combination of the drift functions to the data adds it to the estimates
  if (drift != "SK" && cfg.at("target").s() == "point")
  {
    std::vector<std::vector<double>> d(nvar, std::vector<double>(NMAX));
    int ndim = cfg.at("ndim").i();
    const Value& funcs = cfg.at("funcs");
    auto comb = [&](int v, const double* x, double f) {
      double a = 0.;
      for (int l = 0; l < (int)funcs.size(); l++)
      {
        double fl = 1.;
        if (funcs[l].at("kind").s() == "ext") fl = f;
        else for (int d = 0; d < ndim; d++) for (int k = 0; k < funcs[l].at("p")[d].i(); k++) fl *= x[d];
        a += (1.3 + v - 0.45 * l + 0.1 * l * l) * fl;
      }
      return a;
    };
    for (int v = 0; v < nvar; v++) for (int s = 0; s < NMAX; s++)
    {
      double x[3] = {SC[0][s], SC[1][s], SC[2][s]};
      d[v][s] = SZ[v][s] + comb(v, x, SF[s]);
    }
    KR kd = runKrig(cfg, neighKind, imodel, id, false, &d);
    std::vector<double> want;
    for (int v = 0; v < nvar; v++) for (int tt = 0; tt < 2; tt++)
      want.push_back(base.est[v * 2 + tt] + comb(v, base.tc[tt].data(), base.tf[tt]));
    o["drift_est"] = Value(maxdiff(kd.est, want)); o["drift_sd"] = Value(maxdiff(base.sd, kd.sd, 1e-3));
    // the weights sum to one for the own variable and to zero for the others
    double sw = 0; for (double x : base.sumw) sw = std::max(sw, std::fabs(x));
    o["sumw"] = Value(sw); o["sumw_n"] = Value((int)base.sumw.size());
  }
  return o;
}

// exactness: a target coinciding with a datum carrying no measurement error
static Value exact(const Value& cs, const std::string& neighKind, int imodel)
{
  const Value& cfg = cs.at("cfg");
  Value o = Value::object();
  int ns = cfg.at("ns").i(), nvar = cfg.at("nvar").i();
  std::vector<int> id(ns); for (int i = 0; i < ns; i++) id[i] = i;
  Setup S; S.neighKind = neighKind; S.imodel = imodel;
  build(S, cfg, id);
  // targets = the data locations themselves; in a moving neighbourhood (constant mean) also the two far samples, first and
  // last: consecutive targets then have neighbourhoods of different sizes (1 sample / the cluster, possibly heterotopic)
  bool withFar = S.nfar == 2 && (S.drift == "SK" || S.drift == "OK");
  int nt = ns + (withFar ? 2 : 0);
  VectorDouble t; VectorString tn, tl;
  for (int d = 0; d < S.ndim; d++)
  {
    if (withFar) t.push_back(FARC[0][d]);
    for (int s = 0; s < ns; s++) t.push_back(SC[d][s]);
    if (withFar) t.push_back(FARC[1][d]);
    tn.push_back("x" + std::to_string(d + 1)); tl.push_back("x" + std::to_string(d + 1));
  }
  if (S.drift == "EXT") { for (int s = 0; s < ns; s++) t.push_back(SF[s]); tn.push_back("ext"); tl.push_back("f1"); }
  Db* out = Db::createFromSamples(nt, ELoadBy::COLUMN, t, tn, tl, false);
  int err = kriging(S.dbin, out, S.model, S.neigh, EKrigOpt::POINT, true, true, false);
  o["err"] = Value(err);
  double de = 0, sdm = 0, sdall = 0, c00max = 0; int n = 0; bool bounded = true, finite = true;
  if (err == 0)
    for (int v = 0; v < nvar; v++)
    {
      SpacePoint p(VectorDouble(S.ndim, 0.));
      double c00 = S.model->eval(p, p, v, v);
      c00max = std::max(c00max, c00);
      bool errfree = !S.verr || (G_V2ZERO && v == 1);     // the data of this variable carry no measurement error
      for (int it = 0; it < nt; it++)
      {
        int s = withFar ? it - 1 : it;                     // -1 / ns: the far samples
        bool far = s < 0 || s >= ns;
        double e = out->getValue("Kriging.z" + std::to_string(v + 1) + ".estim", it);
        double sd = out->getValue("Kriging.z" + std::to_string(v + 1) + ".stdev", it);
        if (!std::isfinite(e) || !std::isfinite(sd) || sd < 0 || FFFF(e) || FFFF(sd)) finite = false;
        if (S.drift == "SK" && sd * sd > c00 * (1 + 1e-9)) bounded = false;
        sdall = std::max(sdall, sd);
        if (!errfree) continue;
        if (!far && !cfg.at("def")[s][v].boolean()) continue;
        double zref = far ? 3.3 + v : SZ[v][s];
        n++;
        de = std::max(de, std::fabs(e - zref) / std::max(1., std::fabs(zref)));
        sdm = std::max(sdm, sd / std::sqrt(c00));
      }
    }
  o["finite"] = Value(finite); o["nfar"] = Value(withFar ? 2 : 0);
  o["n"] = Value(n); o["exact_est"] = Value(de); o["exact_sd_rel"] = Value(sdm); o["sk_bounded"] = Value(bounded);
  delete out;
  return o;
}

// Two clusters of data far from each other and a moving neighbourhood: consecutive targets of ONE kriging run get
// different neighbourhoods (the first cluster follows the configuration, possibly heterotopic; the second one is
// fully defined).  The results at the target of the second cluster must equal those of a run holding that cluster only.
static Value clusterCase(const Value& cs, int imodel)
{
  const Value& cfg = cs.at("cfg");
  Value o = Value::object();
  int nvar = cfg.at("nvar").i(), ns = cfg.at("ns").i(), nd = cfg.at("ndim").i();
  std::string drift = cfg.at("drift").s();
  std::vector<int> id(ns); for (int i = 0; i < ns; i++) id[i] = i;
  G_TGRID = false;
  Setup S; S.neighKind = "unique"; S.imodel = imodel;      // (no far samples; the neighbourhood is replaced below)
  build(S, cfg, id);
  const int NB = 4;
  static const double BX[NB][3] = {{30.4, 0.6, 0.2}, {31.9, 1.8, 0.7}, {30.9, 2.6, 0.4}, {32.3, 0.9, 0.9}};
  static const double BZ[2][NB] = {{0.8, -1.1, 1.9, 0.3}, {1.4, 0.2, -0.5, 2.2}};
  static const double BT[3] = {31.3, 1.5, 0.5};
  // cluster B appended to the data
  int n0 = S.dbin->getSampleNumber();
  S.dbin->addSamples(NB, TEST);
  for (int k = 0; k < NB; k++)
  {
    for (int d = 0; d < nd; d++) S.dbin->setCoordinate(n0 + k, d, BX[k][d]);
    for (int v = 0; v < nvar; v++) S.dbin->setLocVariable(ELoc::Z, n0 + k, v, BZ[v][k]);
    if (S.verr) for (int v = 0; v < nvar; v++) S.dbin->setLocVariable(ELoc::V, n0 + k, v, 0.1 + 0.05 * k + 0.02 * v);
    if (drift == "EXT") S.dbin->setLocVariable(ELoc::F, n0 + k, 0, 0.4 + 0.3 * k);
  }
  // targets: the two of cluster A (point Db), then one in cluster B, then cluster A again
  VectorDouble t; VectorString tn, tl;
  std::vector<std::vector<double>> T = {{TC[0][0], TC[0][1], TC[0][2]}, {BT[0], BT[1], BT[2]}, {TC[1][0], TC[1][1], TC[1][2]}, {BT[0] + 0.2, BT[1] - 0.3, BT[2]}};
  for (int d = 0; d < nd; d++) { for (auto& p : T) t.push_back(p[d]); tn.push_back("x" + std::to_string(d + 1)); tl.push_back("x" + std::to_string(d + 1)); }
  if (drift == "EXT") { for (size_t i = 0; i < T.size(); i++) t.push_back(0.9 + 0.2 * i); tn.push_back("ext"); tl.push_back("f1"); }
  Db* out = Db::createFromSamples((int)T.size(), ELoadBy::COLUMN, t, tn, tl, false);
  SpaceRN space(nd);
  NeighMoving* nb = NeighMoving::create(false, 100, 8., 1, 1, 0, VectorDouble(), VectorDouble(), &space);
  int err = kriging(S.dbin, out, S.model, nb, EKrigOpt::POINT, true, true, false);
  // reference: cluster B alone, same targets 1 and 3
  Db* onlyB = S.dbin->clone();
  VectorInt del; for (int i = 0; i < n0; i++) del.push_back(i);
  onlyB->deleteSamples(del);
  Db* outB = out->clone();
  outB->deleteColumn("Kriging*");
  NeighMoving* nb2 = NeighMoving::create(false, 100, 8., 1, 1, 0, VectorDouble(), VectorDouble(), &space);
  int errB = kriging(onlyB, outB, S.model, nb2, EKrigOpt::POINT, true, true, false);
  o["err"] = Value(err); o["errB"] = Value(errB);
  double de = 0, ds = 0; bool fin = true;
  if (err == 0 && errB == 0)
    for (int v = 0; v < nvar; v++)
      for (int it : {1, 3})
      {
        std::string sv = std::to_string(v + 1);
        double e1 = out->getValue("Kriging.z" + sv + ".estim", it), e2 = outB->getValue("Kriging.z" + sv + ".estim", it);
        double s1 = out->getValue("Kriging.z" + sv + ".stdev", it), s2 = outB->getValue("Kriging.z" + sv + ".stdev", it);
        if (!std::isfinite(e1) || !std::isfinite(s1) || FFFF(e1) || FFFF(s1)) fin = false;
        de = std::max(de, std::fabs(e1 - e2) / std::max(1., std::fabs(e2)));
        ds = std::max(ds, std::fabs(s1 * s1 - s2 * s2));
      }
  o["finite"] = Value(fin); o["cluster_est"] = Value(de); o["cluster_var"] = Value(ds);
  delete out; delete outB; delete onlyB; delete nb; delete nb2;
  return o;
}

int main(int argc, char** argv)
{
  if (argc < 3) return 2;
  int first = argc > 3 ? atoi(argv[3]) : 0;
  // (only the slice of this process is parsed: the case file of the thorough tier is > 100 MB)
  std::vector<Value> cases = argc > 4 ? vj::readNdjsonSlice(argv[1], first, atoi(argv[4])) : vj::readNdjson(argv[1]);
  FILE* fo = fopen(argv[2], "a");
  if (!fo) return 2;
  setvbuf(fo, nullptr, _IOLBF, 0);
  OUT_FD = fileno(fo);
  int count = argc > 4 ? atoi(argv[4]) : (int)cases.size();
  if (!freopen("/dev/null", "w", stdout)) return 2;
  std::set_terminate([]() { onCrash(6); });
  signal(SIGSEGV, onCrash); signal(SIGABRT, onCrash); signal(SIGFPE, onCrash); signal(SIGBUS, onCrash);
  for (int ic = first; ic < (int)cases.size() && ic < first + count; ic++)
  {
    const Value& cs = cases[ic];
    const Value& run = cs.at("run");
    {
      Value tag = Value::object(); tag["idx"] = Value(ic); tag["run"] = run;
      snprintf(CUR, sizeof CUR, "%s", vj::dump(tag).c_str());
    }
    std::string mode = run.at("mode").s(), nk = run.at("neigh").s();
    int im = run.at("model").i();
    Value rec = Value::object();
    rec["idx"] = Value(ic);
    int ns = cs.at("cfg").at("ns").i();
    if (mode == "system")
    {
      std::vector<int> perm(ns);
      for (int i = 0; i < ns; i++) perm[i] = run.at("perm").i() == 0 ? i : ns - 1 - i;
      G_TCOIN = run.getb("tcoin", false);
      G_PERCELL = run.getb("percell", false);
      rec["obs"] = analyse(cs, nk, im, run.at("target").i(), perm, run.getb("tgrid", false));
      G_TCOIN = false; G_PERCELL = false;
    }
    else if (mode == "meta") { G_TGRID = run.getb("tgrid", false); rec["obs"] = meta(cs, nk, im); G_TGRID = false; }
    else if (mode == "cluster") rec["obs"] = clusterCase(cs, im);
    else if (mode == "exact") { G_V2ZERO = run.getb("v2zero", false); G_NEXTRA = run.getb("sectors", false) ? 14 : 0; rec["obs"] = exact(cs, nk, im); G_V2ZERO = false; G_NEXTRA = 0; }
    fprintf(fo, "%s\n", vj::dump(rec).c_str());
  }
  fclose(fo);
  return 0;
}
