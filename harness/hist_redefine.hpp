// Redefine replay (C10): histories of Redefine.tla on one real object per class; after every step the complete public
// projection of the object is compared with the projection of a NEW object defined with the current definition.
#pragma once
#include "Basic/Grid.hpp"
#include "Variogram/Vario.hpp"
#include "Variogram/VarioParam.hpp"
#include "Covariances/CovAniso.hpp"
#include "Covariances/CovContext.hpp"
#include "Neigh/NeighMoving.hpp"
#include "Space/SpacePoint.hpp"
namespace rd {

static std::string num(double x) { char b[40]; if (FFFF(x)) return "NA"; snprintf(b, sizeof b, "%.12g", x); return b; }
static std::string join(const VectorDouble& v) { std::string s; for (double x : v) s += num(x) + ","; return s; }
static std::string joini(const VectorInt& v) { std::string s; for (int x : v) s += std::to_string(x) + ","; return s; }

// ---------------------------------------------------------------- grid / dbgrid
struct GDef { VectorInt nx; VectorDouble dx, x0, angles; };
static GDef gdef(int d)
{
  if (d == 1) return {{3, 2}, {1., 2.}, {0., 0.}, {30., 0.}};
  if (d == 2) return {{3, 2}, {1., 2.}, {0., 0.}, {}};            // same geometry, NO rotation mentioned
  return {{2, 4}, {0.5, 1.}, {1., -1.}, {}};
}
static std::string projGrid(const Grid& g)
{
  std::string s = joini(g.getNXs()) + "|" + join(g.getDXs()) + "|" + join(g.getX0s()) + "|rot=" + std::to_string(g.isRotated()) + "|";
  int n = g.getNTotal();
  for (int i = 0; i < n; i++) s += join(g.getCoordinatesByRank(i)) + ";";
  return s;
}
static std::string projDbGrid(const DbGrid* g)
{
  std::string s = projGrid(g->getGrid()) + "#" + std::to_string(g->getSampleNumber()) + "#";
  for (auto& n : g->getAllNames()) s += n + ";";
  for (int i = 0; i < g->getSampleNumber(); i++) for (int d = 0; d < g->getNDim(); d++) s += num(g->getCoordinate(i, d)) + ",";
  s += "#" + join(g->getColumnByLocator(ELoc::X, 0)) + "#" + join(g->getColumnByLocator(ELoc::X, 1));
  return s;
}

// ---------------------------------------------------------------- vario
static Db* varioDb(int d)
{
  static const double X[9] = {0.3, 1.7, 2.5, 0.9, 2.1, 1.4, 0.6, 2.8, 1.1};
  static const double Y[9] = {0.4, 0.3, 1.6, 2.3, 2.5, 1.3, 1.8, 0.9, 0.2};
  static const double ZA[9] = {1.2, -0.4, 0.7, 2.1, -1.3, 0.2, 0.9, 1.6, -0.5};
  static const double ZB[9] = {0.1, 2.4, -1.7, 0.3, 1.1, -0.8, 2.2, -0.6, 0.4};
  VectorDouble tab;
  for (double x : X) tab.push_back(x);
  for (double y : Y) tab.push_back(y);
  for (int i = 0; i < 9; i++) tab.push_back(d == 2 ? ZB[i] : ZA[i]);
  Db* db = Db::createFromSamples(9, ELoadBy::COLUMN, tab, {"x1", "x2", "z1"}, {"x1", "x2", "z1"}, false);
  if (d == 3) { VectorDouble sel = {1, 1, 0, 1, 1, 0, 1, 1, 1}; db->addColumns(sel, "sel", ELoc::SEL); }
  return db;
}
static std::string projVario(const Vario* v)
{
  std::string s = std::to_string(v->getDirectionNumber()) + "|";
  for (int idir = 0; idir < v->getDirectionNumber(); idir++)
    s += join(v->getSwVec(idir, 0, 0)) + "|" + join(v->getHhVec(idir, 0, 0)) + "|" + join(v->getGgVec(idir, 0, 0)) + "|";
  s += "var=" + num(v->getVar(0, 0));
  return s;
}

// ---------------------------------------------------------------- covaniso
struct CDef { VectorDouble ranges, angles; };
static CDef cdef(int d)
{
  if (d == 1) return {{2., 1.}, {30., 0.}};
  if (d == 2) return {{3., 1.5}, {0., 0.}};
  return {{1.5, 1.5}, {60., 0.}};                 // isotropic ranges with a (meaningless but harmless) rotation
}
static std::string projCov(const CovAniso* c)
{
  static const double H[5][2] = {{0.5, 0.}, {0., 0.5}, {0.7, 0.7}, {-0.4, 1.1}, {1.3, -0.2}};
  std::string s = join(c->getRanges()) + "|";
  for (auto& h : H)
  {
    SpacePoint p1(VectorDouble{0., 0.}), p2(VectorDouble{h[0], h[1]});
    s += num(c->eval(p1, p2, 0, 0)) + ",";
  }
  return s;
}

// ---------------------------------------------------------------- ballneigh
static void layout(Db* db, int d)
{
  static const double X[8] = {0.31, 1.72, 2.55, 0.93, 2.11, 1.37, 0.58, 2.83};
  static const double Y[8] = {0.42, 0.27, 1.61, 2.33, 2.48, 1.29, 1.77, 0.94};
  for (int i = 0; i < 8; i++)
  {
    double x = X[i], y = Y[i];
    if (d == 2) { x = 3. - X[i]; y = Y[(i + 3) % 8]; }
    if (d == 3) { x = Y[i]; y = 3. - X[(i + 5) % 8]; }
    db->setCoordinate(i, 0, x); db->setCoordinate(i, 1, y);
  }
}
static Db* neighDb(int d)
{
  VectorDouble tab(24, 0.);
  for (int i = 0; i < 8; i++) tab[16 + i] = 0.5 * i;
  Db* db = Db::createFromSamples(8, ELoadBy::COLUMN, tab, {"x1", "x2", "z1"}, {"x1", "x2", "z1"}, false);
  layout(db, d);
  return db;
}
static std::string projNeigh(NeighMoving* n, Db* db)
{
  std::string s;
  for (int t = 0; t < db->getSampleNumber(); t++)
  {
    VectorInt r; n->select(t, r);
    std::vector<int> a(r.begin(), r.end()); std::sort(a.begin(), a.end());
    for (int x : a) s += std::to_string(x) + ",";
    s += ";";
  }
  return s;
}
static NeighMoving* makeBall(Db* db)
{
  NeighMoving* n = NeighMoving::create(false, 3, 5.);
  n->setBallSearch(true, 2);
  n->attach(db, db);
  return n;
}

Value run(const Value& script)
{
  defineDefaultSpace(ESpaceType::RN, 2);
  std::string cls = script.at("cls").s();
  Value obs = Value::array();
  // the object under test (one per class)
  Grid grid(2);
  DbGrid* dbgrid = DbGrid::create({2, 2}, {1., 1.}, {0., 0.});
  VarioParam* vp = VarioParam::createOmniDirection(4, 0.8);
  Vario* vario = Vario::create(*vp);
  CovContext ctxt(1, 2);
  CovAniso* cov = new CovAniso(ECov::SPHERICAL, ctxt);
  Db* ndb = neighDb(1);
  NeighMoving* neigh = makeBall(ndb);
  Db* vdb = nullptr;
  for (auto& h : script.at("hist").arr)
  {
    std::string op = h.at("op").s();
    int d = h.at("d").i(), order = h.at("order").i();
    std::string got, fresh;
    if (cls == "grid")
    {
      GDef g = gdef(d);
      if (op == "define") grid.resetFromVector(g.nx, g.dx, g.x0, g.angles);
      else { VectorDouble c = grid.getCoordinatesByRank(grid.getNTotal() - 1); (void)grid.coordinateToRank(c); VectorInt idx(2, 1); (void)grid.indiceToRank(idx); }
      Grid f(2); f.resetFromVector(g.nx, g.dx, g.x0, g.angles);
      got = projGrid(grid); fresh = projGrid(f);
    }
    else if (cls == "dbgrid")
    {
      GDef g = gdef(d);
      if (op == "define") dbgrid->reset(g.nx, g.dx, g.x0, g.angles);
      else { VectorDouble c = dbgrid->getGrid().getCoordinatesByRank(dbgrid->getSampleNumber() - 1); (void)dbgrid->getGrid().coordinateToRank(c); }
      DbGrid* f = DbGrid::create(g.nx, g.dx, g.x0, g.angles);
      got = projDbGrid(dbgrid); fresh = projDbGrid(f);
      delete f;
    }
    else if (cls == "vario")
    {
      if (op == "define") { delete vdb; vdb = varioDb(d); vario->compute(vdb); }
      else { (void)vario->getGgVec(0, 0, 0); (void)vario->getVar(0, 0); }
      Db* fdb = varioDb(d);
      Vario* f = Vario::create(*vp); f->compute(fdb);
      got = projVario(vario); fresh = projVario(f);
      delete f; delete fdb;
    }
    else if (cls == "covaniso")
    {
      CDef c = cdef(d);
      if (op == "define")
      {
        if (order == 1) { cov->setAnisoAngles(c.angles); cov->setRanges(c.ranges); }
        else { cov->setRanges(c.ranges); cov->setAnisoAngles(c.angles); }
      }
      else { SpacePoint p1(VectorDouble{0., 0.}), p2(VectorDouble{0.3, 0.2}); (void)cov->eval(p1, p2, 0, 0); }
      CovAniso* f = CovAniso::createAnisotropic(ctxt, ECov::SPHERICAL, c.ranges, 1., 1., c.angles);
      got = projCov(cov); fresh = projCov(f);
      delete f;
    }
    else if (cls == "ballneigh")
    {
      if (op == "define") { layout(ndb, d); neigh->attach(ndb, ndb); }
      else { VectorInt r; neigh->select(2, r); }
      Db* fdb = neighDb(d);
      NeighMoving* f = makeBall(fdb);
      got = projNeigh(neigh, ndb); fresh = projNeigh(f, fdb);
      delete f; delete fdb;
    }
    Value o = Value::object();
    o["equal"] = Value(got == fresh);
    if (got != fresh) { o["got"] = Value(got); o["fresh"] = Value(fresh); }
    obs.push(o);
  }
  delete dbgrid; delete vario; delete vp; delete cov; delete neigh; delete ndb; delete vdb;
  return obs;
}
}  // namespace rd
