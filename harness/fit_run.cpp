// C17 binding: executes fitting requests (emitted by TLC from FitContract.tla) on the REAL automatic
// fitting entry points of gstlearn and logs the PROJECTION of what came back.  Nothing is decided
// here: every verdict (PSD, constraint met, option respected, usable for kriging ...) is taken by
// TLC (TraceFitContract) from the integers / booleans written below, with the tolerances that are
// constants of the specification.
//
// A request carries: entry point, nvar, ndim, directions (degrees), number of lags, recipe of the
// experimental values (a 'true' model evaluated by the closed formulas below - not by gstlearn -,
// then perturbed), pattern of empty lags, list of basic structures, constraint items (values in
// micro-units), constant-sill constraint, Option_VarioFit flags, Option_AutoFit variants.
//
// One child process per request (the fitting code keeps file-static state): a crash, an abort or
// a hang (> HANG_S seconds of CPU time) of the library is a record {"crash": ...} of that request.
//
// usage: fit_run <requests.ndjson> <out.ndjson> <first> <last(excl)> <seed> <scratch dir>
#include "vjson.hpp"
#include "Basic/VectorNumT.hpp"
#include "Basic/AException.hpp"
#include "Db/Db.hpp"
#include "Db/DbGrid.hpp"
#include "Model/Model.hpp"
#include "Model/Constraints.hpp"
#include "Model/ConsItem.hpp"
#include "Model/Option_AutoFit.hpp"
#include "Model/Option_VarioFit.hpp"
#include "Model/ModelOptimVario.hpp"
#include "Model/ModelOptimSillsVario.hpp"
#include "Covariances/CovAniso.hpp"
#include "Covariances/CovCalcMode.hpp"
#include "Variogram/Vario.hpp"
#include "Variogram/VarioParam.hpp"
#include "Variogram/DirParam.hpp"
#include "Neigh/NeighUnique.hpp"
#include "Estimation/CalcKriging.hpp"
#include "Space/ASpaceObject.hpp"
#include "Space/SpaceRN.hpp"
#include "Enum/ESpaceType.hpp"
#include "Enum/ECov.hpp"
#include "Enum/ELoadBy.hpp"
#include "Enum/EConsElem.hpp"
#include "Enum/EConsType.hpp"
#include "Enum/ECalcVario.hpp"
#include <csignal>
#include <unistd.h>
#include <sys/wait.h>
#include <sys/time.h>
#include <sys/resource.h>
#include <cstring>
#include <cstdint>
#include <algorithm>

using vj::Value;

// CPU seconds granted to one request (CPU time, so that the verdict does not depend on the machine load).
// Legitimate fits that run to the default limit of 1000 iterations were measured at up to 90 s (3-D rotation,
// Bessel functions, maps): the limit leaves a factor of six.
static int HANG_S = 600;
static const double PI_ = 3.14159265358979323846;
static const double DPAS = 10.;          // lag size (length unit)
static const double MICRO = 1.e6;

// ---------------------------------------------------------------- helpers
static long long clipi(double x, double lim = 2.0e9)
{
  if (std::isnan(x)) return 2147483647LL;          // marker for "not a number"
  if (x > lim) return (long long)lim;
  if (x < -lim) return (long long)-lim;
  return std::llround(x);
}
static Value I(long long v) { return Value((long long)v); }
static Value B(bool b) { return Value(b); }

static uint64_t splitmix(uint64_t x)
{
  x += 0x9E3779B97F4A7C15ULL;
  x = (x ^ (x >> 30)) * 0xBF58476D1CE4E5B9ULL;
  x = (x ^ (x >> 27)) * 0x94D049BB133111EBULL;
  return x ^ (x >> 31);
}
// deterministic pseudo-noise in [-1, 1) from (seed, request id, index)
static double unoise(uint64_t seed, uint64_t id, uint64_t k)
{
  uint64_t h = splitmix(splitmix(seed * 1000003ULL + id) + k * 7919ULL);
  return ((h >> 11) * (1.0 / 9007199254740992.0)) * 2. - 1.;
}

// eigenvalues of a symmetric matrix n <= 3 by cyclic Jacobi (own code: the verdict on the sills must
// not rest on the library's eigen solver)
static bool symEigMin(std::vector<double> a, int n, double& emin, double& emax)
{
  for (double v : a) if (!std::isfinite(v)) return false;
  for (int sweep = 0; sweep < 60; sweep++)
  {
    double off = 0.;
    for (int p = 0; p < n; p++) for (int q = p + 1; q < n; q++) off += a[p * n + q] * a[p * n + q];
    if (off < 1e-300) break;
    for (int p = 0; p < n; p++)
      for (int q = p + 1; q < n; q++)
      {
        double apq = a[p * n + q];
        if (apq == 0.) continue;
        double theta = (a[q * n + q] - a[p * n + p]) / (2. * apq);
        double t = (theta >= 0 ? 1. : -1.) / (std::fabs(theta) + std::sqrt(theta * theta + 1.));
        double c = 1. / std::sqrt(t * t + 1.), s = t * c;
        for (int k = 0; k < n; k++)
        {
          double akp = a[k * n + p], akq = a[k * n + q];
          a[k * n + p] = c * akp - s * akq;
          a[k * n + q] = s * akp + c * akq;
        }
        for (int k = 0; k < n; k++)
        {
          double apk = a[p * n + k], aqk = a[q * n + k];
          a[p * n + k] = c * apk - s * aqk;
          a[q * n + k] = s * apk + c * aqk;
        }
      }
  }
  emin = emax = a[0];
  for (int i = 1; i < n; i++) { emin = std::min(emin, a[i * n + i]); emax = std::max(emax, a[i * n + i]); }
  return true;
}

// ---------------------------------------------------------------- the 'true' model of a recipe
struct Truth
{
  int nvar, ndim;
  std::string recipe;
  double nug = 0.15, s1 = 0.50, s2 = 0.35;   // proportions: nugget, spherical, exponential
  double r1 = 35., r2 = 80.;                 // ranges along the main axis
  double ratio = 1., angle = 0.;             // anisotropy: range across = range / ratio; rotation (deg, about Z)
  int nest = 2;                              // 1: nugget + spherical; 2: + exponential
  double nu = 0.;                            // > 0: nugget + Matern (K-Bessel) structure of this shape parameter instead
  double var[3] = {1., 2., 0.5};             // variances of the variables
  double rho[3] = {0.3, 0.6, 0.8};           // correlation (AR(1) pattern) per structure: nugget, sph, exp

  double redDist(const std::vector<double>& h, double r) const
  {
    double th = angle * PI_ / 180.;
    double hx = h[0], hy = ndim > 1 ? h[1] : 0., hz = ndim > 2 ? h[2] : 0.;
    double u = hx * std::cos(th) + hy * std::sin(th);
    double v = -hx * std::sin(th) + hy * std::cos(th);
    double w = hz;
    double ru = r, rv = r / ratio, rw = r / 2.;
    return std::sqrt(u * u / (ru * ru) + v * v / (rv * rv) + w * w / (rw * rw));
  }
  double corr(int k, int i, int j) const
  {
    double r = rho[k];
    if (recipe == "negcross") r = -r;
    if (recipe == "perfcorr") r = 1.;
    return std::pow(std::fabs(r), std::abs(i - j)) * ((r < 0 && (std::abs(i - j) % 2)) ? -1. : 1.);
  }
  // variogram (i, j) at vector h
  double gam(const std::vector<double>& h, int i, int j) const
  {
    double d = 0.;
    for (double x : h) d += x * x;
    d = std::sqrt(d);
    double sc = std::sqrt(var[i] * var[j]);
    if (recipe == "nugget") return d > 0 ? sc * corr(0, i, j) : 0.;
    if (recipe == "linear") return sc * corr(1, i, j) * redDist(h, 100.);
    if (nu > 0.)
    {
      // Matern correlation 2^(1-nu) / Gamma(nu) x^nu K_nu(x), x = 2 sqrt(nu) * reduced distance / 0.6
      double x = 2. * std::sqrt(nu) * redDist(h, r1) / 0.6;
      double c = x < 1e-10 ? 1. : std::pow(2., 1. - nu) / std::tgamma(nu) * std::pow(x, nu) * std::cyl_bessel_k(nu, x);
      double gm = (d > 0 ? nug * corr(0, i, j) : 0.) + (1. - nug) * corr(1, i, j) * (1. - c);
      return sc * gm;
    }
    double g = 0.;
    if (d > 0) g += nug * corr(0, i, j);
    double d1 = redDist(h, r1);
    g += s1 * corr(1, i, j) * (d1 < 1. ? 1.5 * d1 - 0.5 * d1 * d1 * d1 : 1.);
    if (nest >= 2)
    {
      double d2 = redDist(h, r2);
      g += s2 * corr(2, i, j) * (1. - std::exp(-3. * d2));
    }
    else
      g *= 1. / (nug + s1);
    return sc * g;
  }
  double total(int i, int j) const
  {
    double sc = std::sqrt(var[i] * var[j]);
    if (recipe == "nugget") return sc * corr(0, i, j);
    if (recipe == "linear") return sc * corr(1, i, j);
    if (nu > 0.) return sc * (nug * corr(0, i, j) + (1. - nug) * corr(1, i, j));
    if (nest >= 2) return sc * (nug * corr(0, i, j) + s1 * corr(1, i, j) + s2 * corr(2, i, j));
    return sc * (nug * corr(0, i, j) + s1 * corr(1, i, j)) / (nug + s1);
  }
};

static Truth makeTruth(const Value& rq)
{
  Truth t;
  t.nvar = rq.at("nvar").i();
  t.ndim = rq.at("ndim").i();
  t.recipe = rq.at("recipe").s();
  const Value& tr = rq.at("truth");
  t.ratio = tr.at("ratio").i();
  t.angle = tr.at("angle").i();
  t.nest = tr.at("nest").i();
  t.nu = tr.geti("nu", 0) / 1000.;
  return t;
}

static std::vector<double> codirOf(const Value& d, int ndim)
{
  double az = d[0].d() * PI_ / 180., dip = d[1].d() * PI_ / 180.;
  std::vector<double> c(ndim, 0.);
  if (ndim == 1) { c[0] = 1.; return c; }
  if (ndim == 2) { c[0] = std::cos(az); c[1] = std::sin(az); return c; }
  c[0] = std::cos(dip) * std::cos(az); c[1] = std::cos(dip) * std::sin(az); c[2] = std::sin(dip);
  for (double& x : c) if (std::fabs(x) < 1e-15) x = 0.;
  return c;
}

// perturbation of one experimental value
static double perturb(const Truth& t, double g, double gii, double gjj, int i, int j, uint64_t seed, uint64_t id, uint64_t k)
{
  if (t.recipe == "exact" || t.recipe == "nugget" || t.recipe == "linear") return g;
  double amp = 0.25;
  if (t.recipe == "incoherent" && i != j) return 1.4 * std::sqrt(std::max(gii, 0.) * std::max(gjj, 0.));
  return g * (1. + amp * unoise(seed, id, k));
}

static Vario* buildVario(const Value& rq, const Truth& t, uint64_t seed)
{
  int nvar = t.nvar, ndim = t.ndim;
  int nlag = rq.at("nlag").i();
  std::string empty = rq.at("empty").s();
  const Value& dirs = rq.at("dirs");
  int ndir = (int)dirs.size();
  VarioParam vp;
  SpaceRN space(ndim);
  for (int id = 0; id < ndir; id++)
  {
    std::vector<double> cd = codirOf(dirs[id], ndim);
    VectorDouble codir(cd.begin(), cd.end());
    DirParam dp(nlag, DPAS, 0.5, ndir == 1 ? 90. : 22.5, 0, 0, TEST, TEST, 0., VectorDouble(), codir, TEST, &space);
    vp.addDir(dp);
  }
  Vario* vario = Vario::create(vp);
  vario->setNVar(nvar);
  vario->internalVariableResize();
  vario->internalDirectionResize();
  vario->setCalcul(ECalcVario::VARIOGRAM);
  for (int i = 0; i < nvar; i++)
    for (int j = 0; j < nvar; j++) vario->setVar(t.total(i, j), i, j);
  uint64_t id0 = (uint64_t)rq.at("id").i();
  for (int id = 0; id < ndir; id++)
  {
    std::vector<double> cd = codirOf(dirs[id], ndim);
    for (int ip = 0; ip < nlag; ip++)
    {
      double hh = ip == 0 ? 0.3 * DPAS : ip * DPAS;
      std::vector<double> h(ndim);
      for (int k = 0; k < ndim; k++) h[k] = hh * cd[k];
      bool isEmpty = false;
      if (empty == "first" && ip == 0) isEmpty = true;
      if (empty == "middle" && (ip == nlag / 2 || ip == nlag / 2 - 1)) isEmpty = true;
      if (empty == "last" && ip >= nlag - 2) isEmpty = true;
      if (empty == "dir" && id == ndir - 1) isEmpty = true;
      if (empty == "sparse" && (ip % 2) == 1) isEmpty = true;
      for (int i = 0; i < nvar; i++)
        for (int j = 0; j <= i; j++)
        {
          int iad = vario->getDirAddress(id, i, j, ip, false, 0);
          if (isEmpty)
          {
            vario->setSwByIndex(id, iad, 0.);
            vario->setHhByIndex(id, iad, TEST);
            vario->setGgByIndex(id, iad, TEST);
            continue;
          }
          double g = t.gam(h, i, j), gii = t.gam(h, i, i), gjj = t.gam(h, j, j);
          uint64_t k = ((uint64_t)id * 64 + ip) * 16 + i * 4 + j;
          g = perturb(t, g, gii, gjj, i, j, seed, id0, k);
          vario->setGgByIndex(id, iad, g);
          vario->setHhByIndex(id, iad, hh);
          vario->setSwByIndex(id, iad, ip == 0 ? 20. : 50. + 10. * ip);
        }
    }
  }
  return vario;
}

// variogram map: a grid of (2n+1)^ndim cells centred on the origin holding the variogram at the offsets
static DbGrid* buildVMap(const Value& rq, const Truth& t, uint64_t seed)
{
  int nvar = t.nvar, ndim = t.ndim;
  std::string empty = rq.at("empty").s();
  int n = rq.at("nlag").i() >= 10 ? 6 : 2;
  int nv = ndim == 3 ? 3 : n;
  VectorInt nx; VectorDouble dx, x0;
  double step = 8.;
  for (int k = 0; k < ndim; k++)
  {
    int nn = (k == 2) ? nv : n;
    nx.push_back(2 * nn + 1); dx.push_back(step); x0.push_back(-nn * step);
  }
  DbGrid* g = DbGrid::create(nx, dx, x0);
  int nech = g->getSampleNumber();
  uint64_t id0 = (uint64_t)rq.at("id").i();
  int ij = 0;
  for (int i = 0; i < nvar; i++)
    for (int j = 0; j <= i; j++, ij++)
    {
      VectorDouble tab(nech);
      for (int ie = 0; ie < nech; ie++)
      {
        VectorDouble c = g->getSampleCoordinates(ie);
        std::vector<double> h(c.begin(), c.end());
        double d = 0.; for (double x : h) d += x * x; d = std::sqrt(d);
        double v = t.gam(h, i, j), vii = t.gam(h, i, i), vjj = t.gam(h, j, j);
        v = perturb(t, v, vii, vjj, i, j, seed, id0, (uint64_t)ie * 16 + i * 4 + j);
        bool isEmpty = false;
        if (empty == "first" && d > 0 && d < 1.5 * step) isEmpty = true;
        if (empty == "middle" && d > 2.5 * step && d < 3.5 * step) isEmpty = true;
        if (empty == "last" && d > (n - 1) * step) isEmpty = true;
        if (empty == "dir" && std::fabs(h[ndim - 1]) < 1e-9 && d > 0) isEmpty = true;
        if (empty == "sparse" && (ie % 2) == 1) isEmpty = true;
        tab[ie] = isEmpty ? TEST : v;
      }
      g->addColumns(tab, "VMAP.v" + std::to_string(i + 1) + "v" + std::to_string(j + 1), ELoc::Z, ij);
    }
  return g;
}

// ---------------------------------------------------------------- projection of the returned model
static std::vector<double> sillOf(const Model* m, int ic)
{
  int nvar = m->getVariableNumber();
  std::vector<double> s(nvar * nvar);
  for (int i = 0; i < nvar; i++) for (int j = 0; j < nvar; j++) s[i * nvar + j] = m->getSill(ic, i, j);
  return s;
}

static Value eigClass(const std::vector<double>& s, int n)
{
  // min eigenvalue relative to the trace in units of 1e-9 (clipped), trace in micro-units, finite flag
  Value o = Value::object();
  double emin = 0, emax = 0, tr = 0;
  bool fin = symEigMin(s, n, emin, emax);
  bool sym = true;
  for (int i = 0; i < n; i++) { tr += s[i * n + i]; for (int j = 0; j < i; j++) if (!(std::fabs(s[i * n + j] - s[j * n + i]) <= 1e-12 * (std::fabs(s[i * n + i]) + std::fabs(s[j * n + j]) + 1e-300))) sym = false; }
  o["finite"] = B(fin);
  o["sym"] = B(sym);
  double scale = std::max(std::fabs(tr), std::fabs(emax));
  o["trace"] = I(clipi(tr * MICRO));
  if (!fin) o["minrel"] = I(0);
  else if (scale < 1e-300) o["minrel"] = I(0);
  else o["minrel"] = I(clipi(emin / scale * 1e9, 1.0e9));
  return o;
}

static Value projectModel(const Model* m, const std::vector<double>& d0)
{
  Value out = Value::object();
  int nvar = m->getVariableNumber(), ndim = m->getDimensionNumber();
  out["nvar"] = I(nvar); out["ndim"] = I(ndim);
  int nc = m->getCovaNumber();
  Value covs = Value::array();
  std::vector<double> tot(nvar * nvar, 0.);
  for (int ic = 0; ic < nc; ic++)
  {
    const CovAniso* c = m->getCova(ic);
    Value o = Value::object();
    o["type"] = Value(std::string{c->getType().getKey()});
    int hr = c->hasRange();
    o["hasrange"] = I(hr);
    std::vector<double> s = sillOf(m, ic);
    for (size_t k = 0; k < s.size(); k++) tot[k] += s[k];
    o["eig"] = eigClass(s, nvar);
    Value sl = Value::array();
    for (double v : s) sl.push(I(clipi(v * MICRO)));
    o["sill"] = sl;
    // ranges
    Value rpos = Value::array(), rng = Value::array();
    bool rfin = true;
    double r0 = 0, dev = 0, dev2d = 0;
    if (hr != 0)
    {
      VectorDouble r = c->getRanges();
      r0 = r[0];
      for (int k = 0; k < ndim; k++)
      {
        rpos.push(B(r[k] > 0.));
        rng.push(I(clipi(r[k] * MICRO)));
        if (!std::isfinite(r[k])) rfin = false;
        double dv = std::fabs(r[k] - r0) / std::max(std::fabs(r0), 1e-300);
        dev = std::max(dev, dv);
        if (k < 2) dev2d = std::max(dev2d, dv);
      }
    }
    o["rpos"] = rpos; o["ranges"] = rng; o["rfinite"] = B(rfin);
    o["anis"] = I(clipi(dev * 1e9, 1.0e9));       // max relative departure of the ranges from the first one (1e-9)
    o["anis2d"] = I(clipi(dev2d * 1e9, 1.0e9));   // same, first two directions only
    // rotation: matrix (1e-6), its action on the first direction of the variogram (both ways)
    Value rot = Value::array(), ax = Value::array(), axT = Value::array(), ang = Value::array();
    if (hr != 0)
    {
      const MatrixSquareGeneral& R = c->getAnisoRotMat();
      bool hasR = (R.getNRows() == ndim);
      for (int a = 0; a < ndim; a++)
        for (int b = 0; b < ndim; b++) rot.push(I(clipi((hasR ? R.getValue(a, b) : (a == b ? 1. : 0.)) * MICRO)));
      for (int a = 0; a < ndim; a++)
      {
        double v = 0, w = 0;
        for (int b = 0; b < ndim; b++)
        {
          double rab = hasR ? R.getValue(a, b) : (a == b ? 1. : 0.);
          double rba = hasR ? R.getValue(b, a) : (a == b ? 1. : 0.);
          v += rab * d0[b]; w += rba * d0[b];
        }
        ax.push(I(clipi(v * MICRO))); axT.push(I(clipi(w * MICRO)));
      }
      VectorDouble an = c->getAnisoAngles();
      for (int a = 0; a < (int)an.size(); a++) ang.push(I(clipi(an[a] * MICRO)));
    }
    o["rot"] = rot; o["ax"] = ax; o["axT"] = axT; o["angles"] = ang;
    o["hasparam"] = B(c->hasParam());
    o["param"] = I(clipi(c->getParam() * MICRO));
    covs.push(o);
  }
  out["covs"] = covs;
  out["total"] = eigClass(tot, nvar);
  Value ts = Value::array();
  for (int i = 0; i < nvar; i++) ts.push(I(clipi(tot[i * nvar + i] * MICRO)));
  out["sumsill"] = ts;
  return out;
}

// evaluation of the model (variogram mode) at fixed probe vectors: used to compare the reloaded model
static std::vector<double> probeModel(const Model* m)
{
  int nvar = m->getVariableNumber(), ndim = m->getDimensionNumber();
  static const double P[5][3] = {{3., 0., 0.}, {0., 7., 0.}, {11., 5., 2.}, {-20., 33., 6.}, {60., -45., 15.}};
  CovCalcMode mode(ECalcMember::LHS);
  mode.setAsVario(true);
  std::vector<double> out;
  for (int p = 0; p < 5; p++)
  {
    VectorDouble dir(ndim); double n = 0;
    for (int k = 0; k < ndim; k++) { dir[k] = P[p][k]; n += dir[k] * dir[k]; }
    n = std::sqrt(n);
    if (n == 0) { dir[0] = 1.; n = 4.; }
    for (int k = 0; k < ndim; k++) dir[k] /= (n > 0 ? n : 1.);
    for (int i = 0; i < nvar; i++)
      for (int j = 0; j <= i; j++) out.push_back(m->evalIvarIpas(n, dir, i, j, &mode));
  }
  return out;
}

static Value reloadCheck(Model* m, const std::string& scratch, int id)
{
  Value o = Value::object();
  std::string path = scratch + "/model_" + std::to_string(id) + "_" + std::to_string((int)getpid()) + ".ascii";
  bool saved = m->dumpToNF(path, false);
  o["saved"] = B(saved);
  Model* m2 = saved ? Model::createFromNF(path, false) : nullptr;
  o["loaded"] = B(m2 != nullptr);
  long long diff = 0;
  bool same = false;
  if (m2 != nullptr)
  {
    same = m2->getCovaNumber() == m->getCovaNumber() && m2->getVariableNumber() == m->getVariableNumber() &&
           m2->getDimensionNumber() == m->getDimensionNumber();
    if (same)
      for (int ic = 0; ic < m->getCovaNumber(); ic++)
        if (m->getCovaType(ic) != m2->getCovaType(ic)) same = false;
    if (same)
    {
      std::vector<double> a = probeModel(m), b = probeModel(m2);
      double mx = 0, df = 0;
      bool nan = false;
      for (size_t k = 0; k < a.size(); k++)
      {
        if (std::isnan(a[k]) != std::isnan(b[k])) nan = true;
        if (std::isnan(a[k]) || std::isnan(b[k])) continue;
        mx = std::max(mx, std::fabs(a[k])); df = std::max(df, std::fabs(a[k] - b[k]));
      }
      diff = nan ? 1000000000LL : clipi(df / std::max(mx, 1e-300) * 1e12, 1.0e9);
      // the parameters themselves
      double pd = 0;
      for (int ic = 0; ic < m->getCovaNumber(); ic++)
      {
        const CovAniso* c1 = m->getCova(ic); const CovAniso* c2 = m2->getCova(ic);
        int nvar = m->getVariableNumber();
        double tr = 0;
        for (int i = 0; i < nvar; i++) tr += std::fabs(m->getSill(ic, i, i));
        for (int i = 0; i < nvar; i++)
          for (int j = 0; j < nvar; j++)
            pd = std::max(pd, std::fabs(m->getSill(ic, i, j) - m2->getSill(ic, i, j)) / std::max(tr, 1e-300));
        if (c1->hasRange() > 0)
          for (int k = 0; k < m->getDimensionNumber(); k++)
            pd = std::max(pd, std::fabs(c1->getRange(k) - c2->getRange(k)) / std::max(std::fabs(c1->getRange(k)), 1e-300));
        if (c1->hasParam()) pd = std::max(pd, std::fabs(c1->getParam() - c2->getParam()) / std::max(std::fabs(c1->getParam()), 1e-300));
      }
      diff = std::max(diff, clipi(pd * 1e12, 1.0e9));
    }
    delete m2;
  }
  unlink(path.c_str());
  o["same_shape"] = B(same);
  o["diff"] = I(diff);          // max relative difference, unit 1e-12, clipped to 1e9
  return o;
}

// kriging on a small fixed data set
static Db* krigData(int ndim, int nvar)
{
  static const double X[8] = {12., 71., 33., 88., 52., 7., 64., 41.};
  static const double Y[8] = {18., 9., 62., 44., 83., 91., 27., 49.};
  static const double Z[8] = {5., 22., 14., 31., 9., 27., 18., 12.};
  static const double V[3][8] = {{1.2, -0.4, 0.7, 2.1, -1.3, 0.2, 0.9, -0.6},
                                 {0.3, 1.4, -0.8, 0.5, 1.9, -0.6, 1.1, 0.1},
                                 {-0.2, 0.6, 0.4, -1.1, 0.8, 1.5, -0.9, 0.3}};
  VectorDouble tab; VectorString names, locs;
  auto add = [&](const double* v, const std::string& n, const std::string& l) {
    for (int i = 0; i < 8; i++) tab.push_back(v[i]);
    names.push_back(n); locs.push_back(l);
  };
  add(X, "x1", "x1");
  if (ndim >= 2) add(Y, "x2", "x2");
  if (ndim >= 3) add(Z, "x3", "x3");
  for (int i = 0; i < nvar; i++) add(V[i], "z" + std::to_string(i + 1), "z" + std::to_string(i + 1));
  return Db::createFromSamples(8, ELoadBy::COLUMN, tab, names, locs, false);
}
static Db* krigTargets(int ndim)
{
  static const double X[3] = {25., 50., 80.};
  static const double Y[3] = {40., 55., 70.};
  static const double Z[3] = {10., 16., 24.};
  VectorDouble tab; VectorString names, locs;
  auto add = [&](const double* v, const std::string& n, const std::string& l) {
    for (int i = 0; i < 3; i++) tab.push_back(v[i]);
    names.push_back(n); locs.push_back(l);
  };
  add(X, "x1", "x1");
  if (ndim >= 2) add(Y, "x2", "x2");
  if (ndim >= 3) add(Z, "x3", "x3");
  return Db::createFromSamples(3, ELoadBy::COLUMN, tab, names, locs, false);
}

static Value krigOnce(Model* model, int ndim, int nvar)
{
  Value o = Value::object();
  Db* din = krigData(ndim, nvar);
  Db* dout = krigTargets(ndim);
  SpaceRN space(ndim);
  NeighUnique* nb = NeighUnique::create(false, &space);
  int before = dout->getColumnNumber();
  int err = kriging(din, dout, model, nb, EKrigOpt::POINT, true, true, false);
  o["err"] = I(err);
  bool fin = true, stdok = true;
  int nnew = dout->getColumnNumber() - before;
  o["ncols"] = I(nnew);
  if (err == 0)
  {
    for (int c = 0; c < nnew; c++)
    {
      VectorDouble col = dout->getColumnByColIdx(before + c, false, false);
      bool isStd = c >= nnew / 2;
      for (double v : col)
      {
        if (FFFF(v) || !std::isfinite(v)) { if (isStd) stdok = false; else fin = false; }
        else if (isStd && v < 0.) stdok = false;
      }
    }
    if (nnew != 2 * nvar) fin = false;
  }
  o["finite"] = B(err == 0 && fin);
  o["stdok"] = B(err == 0 && stdok);
  delete nb; delete din; delete dout;
  return o;
}

static Value krigCheck(Model* fitted)
{
  Value o = Value::object();
  int nvar = fitted->getVariableNumber(), ndim = fitted->getDimensionNumber();
  Value uni = Value::array();
  for (int iv = 0; iv < nvar; iv++)
  {
    Model* m1 = nvar == 1 ? fitted->clone() : fitted->createReduce({iv});
    if (m1 == nullptr) { Value e = Value::object(); e["err"] = I(-9); e["finite"] = B(false); e["stdok"] = B(false); e["ncols"] = I(0); uni.push(e); continue; }
    m1->setDriftIRF(0);
    uni.push(krigOnce(m1, ndim, 1));
    delete m1;
  }
  o["uni"] = uni;
  if (nvar > 1)
  {
    Model* mc = fitted->clone();
    mc->setDriftIRF(0);
    o["co"] = krigOnce(mc, ndim, nvar);
    delete mc;
  }
  return o;
}

// ---------------------------------------------------------------- one request
static const EConsElem& elemOf(const std::string& s)
{
  if (s == "RANGE") return EConsElem::RANGE;
  if (s == "SILL") return EConsElem::SILL;
  if (s == "ANGLE") return EConsElem::ANGLE;
  if (s == "PARAM") return EConsElem::PARAM;
  if (s == "SCALE") return EConsElem::SCALE;
  throw std::runtime_error("unknown constraint element " + s);
}
static const EConsType& typeOf(const std::string& s)
{
  if (s == "LOWER") return EConsType::LOWER;
  if (s == "UPPER") return EConsType::UPPER;
  if (s == "EQUAL") return EConsType::EQUAL;
  if (s == "DEFAULT") return EConsType::DEFAULT;
  throw std::runtime_error("unknown constraint type " + s);
}

static Value runRequest(const Value& rq, uint64_t seed, const std::string& scratch)
{
  Value out = Value::object();
  int nvar = rq.at("nvar").i(), ndim = rq.at("ndim").i();
  std::string entry = rq.at("entry").s();
  defineDefaultSpace(ESpaceType::RN, ndim);
  Truth t = makeTruth(rq);
  std::vector<double> d0 = codirOf(rq.at("dirs")[0], ndim);
  if (entry == "vmap") { d0.assign(ndim, 0.); d0[0] = 1.; }

  VectorECov types;
  for (const std::string& s : rq.at("types").strings()) types.push_back(ECov::fromKey(s));

  Constraints cons;
  const Value& cl = rq.at("cons");
  for (size_t k = 0; k < cl.size(); k++)
  {
    const Value& c = cl[k];
    cons.addItemFromParamId(elemOf(c.at("elem").s()), c.at("icov").i(), c.at("iv1").i(), c.at("iv2").i(),
                            typeOf(c.at("type").s()), c.at("val").d() / MICRO);
  }
  if (rq.at("csill").i() > 0) cons.setConstantSillValue(rq.at("csill").d() / MICRO);

  const Value& op = rq.at("opt");
  Option_VarioFit optvar(op.at("noreduce").boolean(), op.at("aniso").boolean(), op.at("rot").boolean(),
                         op.at("samerot").boolean(), op.at("rot2d").boolean(), op.at("no3d").boolean(),
                         op.at("iso2d").boolean());
  optvar.setFlagGoulardUsed(op.at("goulard").boolean());
  optvar.setKeepIntstr(op.at("keepint").boolean());
  optvar.setFlagIntrinsic(op.at("intrinsic").boolean());
  Option_AutoFit mauto;
  mauto.setWmode(rq.at("wmode").i());
  if (rq.at("maxiter").i() >= 0) mauto.setMaxiter(rq.at("maxiter").i());

  Model* model = Model::createFromEnvironment(nvar, ndim);
  Vario* vario = nullptr;
  DbGrid* vmap = nullptr;
  int status = -1;
  std::string exc;
  try
  {
    if (entry == "vmap")
    {
      vmap = buildVMap(rq, t, seed);
      status = model->fitFromVMap(vmap, types, cons, optvar, mauto, false);
    }
    else
    {
      vario = buildVario(rq, t, seed);
      if (entry == "fit")
        status = model->fit(vario, types, cons, optvar, mauto, false);
      else if (entry == "fitcov")
        status = model->fitFromCovIndices(vario, types, cons, optvar, mauto, false);
      else if (entry == "sills" || entry == "optim")
      {
        // the newer classes work on a model that already holds its structures: ranges spread over the
        // variogram extent, unit sills
        double hmax = DPAS * (rq.at("nlag").i() - 1);
        int nr = 0;
        for (auto& ty : types) if (ty != ECov::NUGGET) nr++;
        int kr = 0;
        VectorDouble sill(nvar * nvar, 0.);
        for (int i = 0; i < nvar; i++) sill[i * nvar + i] = 1.;
        for (auto& ty : types)
        {
          double range = 0.;
          if (ty != ECov::NUGGET) { kr++; range = hmax * kr / (nr + 1.); }
          model->addCovFromParam(ty, range, 0., 1., VectorDouble(), sill);
        }
        model->setField(hmax);     // as the automatic fit does (a model without field is not kept by save + reload: C08's business)
        if (entry == "sills")
        {
          ModelOptimSillsVario mo(model, &cons, mauto, optvar);
          status = mo.fit(vario, mauto.getWmode(), false);
        }
        else
        {
          ModelOptimVario mo(model, &cons, mauto, optvar);
          status = mo.fit(vario, op.at("goulard").boolean(), mauto.getWmode(), false);
        }
      }
      else
        throw std::runtime_error("unknown entry " + entry);
    }
  }
  catch (const std::runtime_error& e) { if (std::string(e.what()).rfind("unknown", 0) == 0) throw; exc = e.what(); }
  catch (const std::exception& e) { exc = e.what(); }
  catch (...) { exc = "unknown exception"; }

  out["status"] = I(status);
  out["exception"] = B(!exc.empty());
  if (!exc.empty()) out["what"] = Value(exc.substr(0, 200));
  if (exc.empty() && status == 0)
  {
    out["model"] = projectModel(model, d0);
    // values of the constrained parameters are read by TLC from the projection; here only the
    // save / reload round trip and the kriging run
    try { out["reload"] = reloadCheck(model, scratch, rq.at("id").i()); }
    catch (...) { Value o = Value::object(); o["saved"] = B(false); o["loaded"] = B(false); o["same_shape"] = B(false); o["diff"] = I(1000000000); o["exception"] = B(true); out["reload"] = o; }
    try { out["krig"] = krigCheck(model); }
    catch (...) { Value o = Value::object(); o["uni"] = Value::array(); o["exception"] = B(true); out["krig"] = o; }
  }
  delete model; delete vario; delete vmap;
  return out;
}

// ---------------------------------------------------------------- driver: one child per request
int main(int argc, char** argv)
{
  if (argc < 7) { fprintf(stderr, "usage: fit_run req.ndjson out.ndjson first last seed scratch\n"); return 2; }
  std::vector<Value> reqs = vj::readNdjson(argv[1]);
  FILE* fo = fopen(argv[2], "a");
  if (!fo) return 2;
  int first = atoi(argv[3]), last = std::min((int)reqs.size(), atoi(argv[4]));
  uint64_t seed = strtoull(argv[5], nullptr, 10);
  std::string scratch = argv[6];
  if (getenv("VERIF_FIT_HANG_S")) HANG_S = atoi(getenv("VERIF_FIT_HANG_S"));   // investigations only
  if (!getenv("VERIF_FIT_SHOW"))          // investigations only: let the library's messages through
  {
    if (!freopen("/dev/null", "w", stdout)) return 2;
    if (!freopen("/dev/null", "w", stderr)) return 2;
  }

  for (int ir = first; ir < last; ir++)
  {
    const Value& rq = reqs[ir];
    int fd[2];
    if (pipe(fd) != 0) return 2;
    fflush(fo);
    pid_t pid = fork();
    if (pid < 0) return 2;
    if (pid == 0)
    {
      close(fd[0]);
      struct rlimit rl; rl.rlim_cur = (rlim_t)HANG_S; rl.rlim_max = (rlim_t)HANG_S + 5;
      setrlimit(RLIMIT_CPU, &rl);       // SIGXCPU after HANG_S seconds of CPU: recorded as a hang
      std::string s;
      try { s = vj::dump(runRequest(rq, seed, scratch)); }
      catch (const std::exception& e) { s = std::string("{\"harness_error\":\"") + e.what() + "\"}"; }
      size_t off = 0;
      while (off < s.size()) { ssize_t w = write(fd[1], s.data() + off, s.size() - off); if (w <= 0) break; off += (size_t)w; }
      close(fd[1]);
      _exit(0);
    }
    close(fd[1]);
    // read with a deadline
    std::string got;
    struct timeval t0; gettimeofday(&t0, nullptr);
    bool hang = false;
    while (true)
    {
      fd_set rs; FD_ZERO(&rs); FD_SET(fd[0], &rs);
      struct timeval now; gettimeofday(&now, nullptr);
      double el = (now.tv_sec - t0.tv_sec) + 1e-6 * (now.tv_usec - t0.tv_usec);
      if (el > 20. * HANG_S) { hang = true; break; }     // last resort (a child that does not even burn CPU)
      struct timeval tv; tv.tv_sec = 1; tv.tv_usec = 0;
      int r = select(fd[0] + 1, &rs, nullptr, nullptr, &tv);
      if (r > 0)
      {
        char buf[65536];
        ssize_t n = read(fd[0], buf, sizeof buf);
        if (n <= 0) break;
        got.append(buf, (size_t)n);
      }
    }
    close(fd[0]);
    int st = 0;
    if (hang) { kill(pid, SIGKILL); }
    struct rusage ru; memset(&ru, 0, sizeof ru);
    wait4(pid, &st, 0, &ru);
    long long cpu_ms = (long long)ru.ru_utime.tv_sec * 1000 + ru.ru_utime.tv_usec / 1000 + (long long)ru.ru_stime.tv_sec * 1000 + ru.ru_stime.tv_usec / 1000;
    struct timeval t1; gettimeofday(&t1, nullptr);
    double el = (t1.tv_sec - t0.tv_sec) + 1e-6 * (t1.tv_usec - t0.tv_usec);
    std::string line = "{\"req\":" + vj::dump(rq) + ",\"ms\":" + std::to_string((long long)(el * 1000)) + ",\"cpu_ms\":" + std::to_string(cpu_ms) + ",";
    if (hang || (WIFSIGNALED(st) && (WTERMSIG(st) == SIGXCPU || WTERMSIG(st) == SIGKILL))) line += "\"crash\":\"hang\"}";
    else if (WIFSIGNALED(st)) line += "\"crash\":\"signal " + std::to_string(WTERMSIG(st)) + "\"}";
    else if (got.empty() || got[0] != '{') line += "\"crash\":\"no output (exit " + std::to_string(WEXITSTATUS(st)) + ")\"}";
    else line += "\"out\":" + got + "}";
    fprintf(fo, "%s\n", line.c_str());
  }
  fclose(fo);
  return 0;
}
