// Minimal JSON value / parser / writer used by the verification harnesses (no third-party code).
#pragma once
#include <string>
#include <vector>
#include <map>
#include <memory>
#include <cstdio>
#include <cstdlib>
#include <cmath>
#include <cstring>
#include <stdexcept>
#include <sstream>
#include <fstream>
#include <iostream>

namespace vj {

struct Value;
typedef std::shared_ptr<Value> P;

struct Value {
  enum Kind { Null, Bool, Num, Str, Arr, Obj } kind = Null;
  bool b = false;
  double num = 0;
  bool isInt = false;
  std::string str;
  std::vector<Value> arr;
  std::vector<std::pair<std::string, Value>> obj;   // insertion ordered

  Value() {}
  Value(bool v) : kind(Bool), b(v) {}
  Value(int v) : kind(Num), num(v), isInt(true) {}
  Value(long v) : kind(Num), num((double)v), isInt(true) {}
  Value(long long v) : kind(Num), num((double)v), isInt(true) {}
  Value(size_t v) : kind(Num), num((double)v), isInt(true) {}
  Value(double v) : kind(Num), num(v), isInt(false) {}
  Value(const char* s) : kind(Str), str(s) {}
  Value(const std::string& s) : kind(Str), str(s) {}
  static Value array() { Value v; v.kind = Arr; return v; }
  static Value object() { Value v; v.kind = Obj; return v; }
  template <class C> static Value arrayOf(const C& xs) {
    Value v = array(); for (const auto& x : xs) v.arr.push_back(Value(x)); return v;
  }

  bool isNull() const { return kind == Null; }
  bool has(const std::string& k) const {
    for (auto& kv : obj) if (kv.first == k) return true;
    return false;
  }
  const Value& at(const std::string& k) const {
    for (auto& kv : obj) if (kv.first == k) return kv.second;
    throw std::runtime_error("vjson: missing key " + k);
  }
  Value& operator[](const std::string& k) {
    if (kind == Null) kind = Obj;
    for (auto& kv : obj) if (kv.first == k) return kv.second;
    obj.push_back({k, Value()});
    return obj.back().second;
  }
  const Value& operator[](size_t i) const { return arr.at(i); }
  size_t size() const { return kind == Arr ? arr.size() : obj.size(); }
  void push(const Value& v) { if (kind == Null) kind = Arr; arr.push_back(v); }
  int i() const { return (int)std::llround(num); }
  double d() const { return num; }
  const std::string& s() const { return str; }
  bool boolean() const { return kind == Bool ? b : (num != 0); }
  int geti(const std::string& k, int def) const { return has(k) ? at(k).i() : def; }
  double getd(const std::string& k, double def) const { return has(k) ? at(k).d() : def; }
  std::string gets(const std::string& k, const std::string& def) const { return has(k) ? at(k).s() : def; }
  bool getb(const std::string& k, bool def) const { return has(k) ? at(k).boolean() : def; }
  std::vector<int> ints() const { std::vector<int> r; for (auto& e : arr) r.push_back(e.i()); return r; }
  std::vector<double> doubles() const {
    std::vector<double> r;
    for (auto& e : arr) r.push_back(e.kind == Null ? std::nan("") : e.d());
    return r;
  }
  std::vector<std::string> strings() const { std::vector<std::string> r; for (auto& e : arr) r.push_back(e.s()); return r; }
};

inline void escape(const std::string& s, std::string& out) {
  out.push_back('"');
  for (unsigned char c : s) {
    switch (c) {
      case '"': out += "\\\""; break;
      case '\\': out += "\\\\"; break;
      case '\n': out += "\\n"; break;
      case '\r': out += "\\r"; break;
      case '\t': out += "\\t"; break;
      default:
        if (c < 0x20) { char buf[8]; snprintf(buf, sizeof buf, "\\u%04x", c); out += buf; }
        else out.push_back((char)c);
    }
  }
  out.push_back('"');
}

inline void dump(const Value& v, std::string& out) {
  switch (v.kind) {
    case Value::Null: out += "null"; break;
    case Value::Bool: out += v.b ? "true" : "false"; break;
    case Value::Num: {
      char buf[40];
      if (v.isInt) snprintf(buf, sizeof buf, "%lld", (long long)std::llround(v.num));
      else if (std::isnan(v.num) || std::isinf(v.num)) snprintf(buf, sizeof buf, "null");
      else snprintf(buf, sizeof buf, "%.17g", v.num);
      out += buf; break;
    }
    case Value::Str: escape(v.str, out); break;
    case Value::Arr: {
      out.push_back('[');
      for (size_t i = 0; i < v.arr.size(); i++) { if (i) out.push_back(','); dump(v.arr[i], out); }
      out.push_back(']'); break;
    }
    case Value::Obj: {
      out.push_back('{');
      for (size_t i = 0; i < v.obj.size(); i++) {
        if (i) out.push_back(',');
        escape(v.obj[i].first, out); out.push_back(':'); dump(v.obj[i].second, out);
      }
      out.push_back('}'); break;
    }
  }
}
inline std::string dump(const Value& v) { std::string s; dump(v, s); return s; }

struct Parser {
  const char* p; const char* end;
  Parser(const std::string& s) : p(s.data()), end(s.data() + s.size()) {}
  void ws() { while (p < end && (*p == ' ' || *p == '\n' || *p == '\t' || *p == '\r')) p++; }
  [[noreturn]] void fail(const char* m) { throw std::runtime_error(std::string("vjson parse: ") + m); }
  Value parse() {
    ws();
    if (p >= end) fail("eof");
    char c = *p;
    if (c == '{') {
      p++; Value v = Value::object(); ws();
      if (p < end && *p == '}') { p++; return v; }
      while (true) {
        ws(); Value k = parse(); if (k.kind != Value::Str) fail("key");
        ws(); if (p >= end || *p != ':') fail("colon"); p++;
        Value x = parse(); v.obj.push_back({k.str, x});
        ws(); if (p < end && *p == ',') { p++; continue; }
        if (p < end && *p == '}') { p++; break; }
        fail("object");
      }
      return v;
    }
    if (c == '[') {
      p++; Value v = Value::array(); ws();
      if (p < end && *p == ']') { p++; return v; }
      while (true) {
        v.arr.push_back(parse());
        ws(); if (p < end && *p == ',') { p++; continue; }
        if (p < end && *p == ']') { p++; break; }
        fail("array");
      }
      return v;
    }
    if (c == '"') {
      p++; Value v; v.kind = Value::Str;
      while (p < end && *p != '"') {
        if (*p == '\\') {
          p++; if (p >= end) fail("escape");
          switch (*p) {
            case 'n': v.str.push_back('\n'); break;
            case 't': v.str.push_back('\t'); break;
            case 'r': v.str.push_back('\r'); break;
            case 'b': v.str.push_back('\b'); break;
            case 'f': v.str.push_back('\f'); break;
            case 'u': {
              if (end - p < 5) fail("u");
              unsigned code = (unsigned)strtoul(std::string(p + 1, 4).c_str(), nullptr, 16);
              p += 4;
              if (code < 0x80) v.str.push_back((char)code);
              else if (code < 0x800) { v.str.push_back((char)(0xC0 | (code >> 6))); v.str.push_back((char)(0x80 | (code & 0x3F))); }
              else { v.str.push_back((char)(0xE0 | (code >> 12))); v.str.push_back((char)(0x80 | ((code >> 6) & 0x3F))); v.str.push_back((char)(0x80 | (code & 0x3F))); }
              break;
            }
            default: v.str.push_back(*p);
          }
          p++;
        } else v.str.push_back(*p++);
      }
      if (p >= end) fail("string");
      p++; return v;
    }
    if (!strncmp(p, "true", 4) && end - p >= 4) { p += 4; return Value(true); }
    if (!strncmp(p, "false", 5) && end - p >= 5) { p += 5; return Value(false); }
    if (!strncmp(p, "null", 4) && end - p >= 4) { p += 4; return Value(); }
    char* q = nullptr;
    double d = strtod(p, &q);
    if (q == p) fail("value");
    bool isInt = true;
    for (const char* r = p; r < q; r++) if (*r == '.' || *r == 'e' || *r == 'E') isInt = false;
    p = q;
    Value v(d); v.isInt = isInt; return v;
  }
};
inline Value parse(const std::string& s) { Parser ps(s); return ps.parse(); }

inline std::vector<Value> readNdjson(const std::string& path) {
  std::ifstream f(path);
  if (!f) throw std::runtime_error("cannot open " + path);
  std::vector<Value> out; std::string line;
  while (std::getline(f, line)) {
    size_t k = line.find_first_not_of(" \t\r");
    if (k == std::string::npos) continue;
    out.push_back(parse(line));
  }
  return out;
}
// Same, but only the lines first .. first+count-1 (0-based, blank lines not counted) are parsed: the others are left as
// null values, so that indices stay aligned (large case files shared by several worker processes)
inline std::vector<Value> readNdjsonSlice(const std::string& path, long first, long count) {
  std::ifstream f(path);
  if (!f) throw std::runtime_error("cannot open " + path);
  std::vector<Value> out; std::string line;
  long idx = 0;
  while (std::getline(f, line)) {
    size_t k = line.find_first_not_of(" \t\r");
    if (k == std::string::npos) continue;
    if (idx >= first && idx < first + count) out.push_back(parse(line)); else out.push_back(Value());
    idx++;
  }
  return out;
}
inline Value readFile(const std::string& path) {
  std::ifstream f(path);
  if (!f) throw std::runtime_error("cannot open " + path);
  std::stringstream ss; ss << f.rdbuf();
  return parse(ss.str());
}

}  // namespace vj
