// C11 binding: replays the behaviours emitted by TLC from the TLA+ module MatrixAlg (operation sequences
// with the expected register contents after each operation) into the real gstlearn matrix classes, in
// every storage: MatrixRectangular, MatrixSquareGeneral, MatrixSquareSymmetric, MatrixSparse (Eigen
// back-end and cs back-end), and compares what the library holds (read back through the public getters,
// through every reading route) with the expected values.  The harness never computes an expected value:
// expected contents come from TLC; the only arithmetic done here is the Kronecker inflation
// (A (x) J_n, A (x) I_n, factor n^p: the law itself is a checked property of the specification) and the
// residual identities of the factorisations (documented in the specification MatrixAlgChol).
//
// usage: matrix_run machine <behaviours.ndjson> <out.ndjson> [threads=N] [infl=N] [inflonly=0|1]
//        matrix_run chol    <cases.json>        <out.ndjson> [threads=N] [infl=N]
//        matrix_run vec     <cases.json>        <out.ndjson>
// Output: one JSON line per disagreement / crash / refusal, and a last line {"stats":...}.
#include "vjson.hpp"
#include "Matrix/AMatrix.hpp"
#include "Matrix/AMatrixDense.hpp"
#include "Matrix/MatrixRectangular.hpp"
#include "Matrix/MatrixSquareGeneral.hpp"
#include "Matrix/MatrixSquareSymmetric.hpp"
#include "Matrix/MatrixSparse.hpp"
#include "Matrix/MatrixFactory.hpp"
#include "Matrix/NF_Triplet.hpp"
#include "LinearOp/CholeskyDense.hpp"
#include "LinearOp/CholeskySparse.hpp"
#include "Basic/VectorNumT.hpp"
#include "Basic/VectorHelper.hpp"
#include "Basic/AException.hpp"
#include "Enum/EOperator.hpp"
#include "geoslib_io.h"
#include <map>
#include <set>
#include <unordered_map>
#include <functional>
#include <algorithm>
#include <csignal>
#include <unistd.h>
#include <sys/mman.h>
#include <sys/wait.h>
#include <omp.h>
#include <csetjmp>

using vj::Value;
typedef long long ll;

// ------------------------------------------------------------------------------------------------
// expected values (exact rationals over a common denominator)

struct QMat
{
  int r = 0, c = 0;
  std::vector<ll> m;   // row major
  ll d = 1;
  ll at(int i, int j) const { return m[(size_t)i * c + j]; }
  double val(int i, int j) const { return (double)at(i, j) / (double)d; }
  bool square() const { return r == c; }
};
struct QVec
{
  std::vector<ll> x;
  ll d = 1;
  double val(int i) const { return (double)x[i] / (double)d; }
};

static QMat readQMat(const Value& v)
{
  QMat q;
  const Value& m = v.at("m");
  q.r = (int)m.arr.size();
  q.c = q.r ? (int)m.arr[0].arr.size() : 0;
  for (auto& row : m.arr)
    for (auto& e : row.arr) q.m.push_back((ll)std::llround(e.num));
  q.d = (ll)std::llround(v.at("d").num);
  return q;
}
static QVec readQVec(const Value& v)
{
  QVec q;
  for (auto& e : v.at("x").arr) q.x.push_back((ll)std::llround(e.num));
  q.d = (ll)std::llround(v.at("d").num);
  return q;
}
static Value qmatJson(const QMat& q)
{
  Value o = Value::object();
  Value rows = Value::array();
  for (int i = 0; i < q.r; i++)
  {
    Value row = Value::array();
    for (int j = 0; j < q.c; j++) row.push(Value((long long)q.at(i, j)));
    rows.push(row);
  }
  o["m"] = rows;
  o["d"] = Value((long long)q.d);
  return o;
}
static Value qvecJson(const QVec& q)
{
  Value o = Value::object();
  Value xs = Value::array();
  for (ll e : q.x) xs.push(Value((long long)e));
  o["x"] = xs;
  o["d"] = Value((long long)q.d);
  return o;
}

// observed values
struct DMat
{
  int r = 0, c = 0;
  std::vector<double> m;   // row major
  double at(int i, int j) const { return m[(size_t)i * c + j]; }
};
static Value dmatJson(const DMat& q)
{
  Value rows = Value::array();
  if (q.r * (ll)q.c > 400)
  {
    Value o = Value::object();
    o["r"] = Value(q.r); o["c"] = Value(q.c);
    return o;
  }
  for (int i = 0; i < q.r; i++)
  {
    Value row = Value::array();
    for (int j = 0; j < q.c; j++) row.push(Value(q.at(i, j)));
    rows.push(row);
  }
  return rows;
}
static Value dvecJson(const std::vector<double>& v)
{
  Value a = Value::array();
  size_t n = std::min<size_t>(v.size(), 40);
  for (size_t i = 0; i < n; i++) a.push(Value(v[i]));
  return a;
}

static const double TOL = 1e-9;
static bool closeTo(double obs, double expv, bool exact)
{
  if (std::isnan(obs) || std::isinf(obs)) return false;
  if (exact) return obs == expv;
  return std::fabs(obs - expv) <= TOL * std::max(1., std::fabs(expv));
}
static bool sameMat(const DMat& o, const QMat& e, bool exact)
{
  if (o.r != e.r || o.c != e.c) return false;
  bool ex = exact && e.d == 1;
  for (int i = 0; i < e.r; i++)
    for (int j = 0; j < e.c; j++)
      if (!closeTo(o.at(i, j), e.val(i, j), ex)) return false;
  return true;
}
static bool sameVec(const std::vector<double>& o, const QVec& e, bool exact)
{
  if (o.size() != e.x.size()) return false;
  bool ex = exact && e.d == 1;
  for (size_t i = 0; i < o.size(); i++)
    if (!closeTo(o[i], e.val((int)i), ex)) return false;
  return true;
}

// ------------------------------------------------------------------------------------------------
// storages

enum Prof { RECT = 0, SQG = 1, SYM = 2, SPE = 3, SPC = 4, NPROF = 5 };
static const char* PROFNAME[NPROF] = {"rect", "sqg", "sym", "spe", "spc"};
static bool isSparseProf(int p) { return p == SPE || p == SPC; }
static const char* storageClass(int p)
{
  switch (p)
  {
    case RECT: return "MatrixRectangular";
    case SQG: return "MatrixSquareGeneral";
    case SYM: return "MatrixSquareSymmetric";
    case SPE: return "MatrixSparse(Eigen)";
    default: return "MatrixSparse(cs)";
  }
}

// error messages of the library are counted (an operation "refused with an error message")
static long g_errcount = 0;
static std::string g_lasterr;
static void errHook(const char* s)
{
  g_errcount++;
  if (g_lasterr.size() < 300) g_lasterr += s;
}
static void msgHook(const char*) {}
struct ExitRequested { };
static void exitHook() { throw ExitRequested(); }

static AMatrix* newEmpty(int p, int r, int c)
{
  switch (p)
  {
    case RECT: return new MatrixRectangular(r, c);
    case SQG: return new MatrixSquareGeneral(r);
    case SYM: return new MatrixSquareSymmetric(r);
    case SPE: return new MatrixSparse(r, c, 1);
    default: return new MatrixSparse(r, c, 0);
  }
}

// builds a real matrix holding the (rational) contents; dense storages through setValue, sparse storages
// through a triplet of the non-zero terms (dimensions forced)
static AMatrix* buildFrom(int p, int r, int c, const std::function<double(int, int)>& f)
{
  if (!isSparseProf(p))
  {
    AMatrix* a = newEmpty(p, r, c);
    for (int i = 0; i < r; i++)
      for (int j = 0; j < c; j++)
      {
        if (p == SYM && j > i) continue;
        a->setValue(i, j, f(i, j));
      }
    return a;
  }
  NF_Triplet t;
  for (int j = 0; j < c; j++)
    for (int i = 0; i < r; i++)
    {
      double x = f(i, j);
      if (x != 0.) t.add(i, j, x);
    }
  t.force(r, c);
  return MatrixSparse::createFromTriplet(t, r, c, p == SPE ? 1 : 0);
}
static AMatrix* build(int p, const QMat& q)
{
  return buildFrom(p, q.r, q.c, [&q](int i, int j) { return q.val(i, j); });
}
static VectorDouble buildVec(const QVec& q)
{
  VectorDouble v(q.x.size());
  for (size_t i = 0; i < q.x.size(); i++) v[i] = q.val((int)i);
  return v;
}
static DMat readBack(const AMatrix* a)
{
  DMat d;
  d.r = a->getNRows();
  d.c = a->getNCols();
  d.m.resize((size_t)d.r * d.c);
  for (int i = 0; i < d.r; i++)
    for (int j = 0; j < d.c; j++) d.m[(size_t)i * d.c + j] = a->getValue(i, j);
  return d;
}
static std::vector<double> toStd(const VectorDouble& v) { return std::vector<double>(v.begin(), v.end()); }

// ------------------------------------------------------------------------------------------------
// operations

struct OpRec
{
  std::string op;
  int i = 0, j = 0, k = 0, l = 0;
  std::vector<int> rs, cs;   // 1-based
  std::string key;           // canonical text
};
static OpRec readOp(const Value& v)
{
  OpRec o;
  o.op = v.at("op").s();
  o.i = v.at("i").i(); o.j = v.at("j").i(); o.k = v.at("k").i(); o.l = v.at("l").i();
  o.rs = v.at("rs").ints(); o.cs = v.at("cs").ints();
  o.key = vj::dump(v);
  return o;
}
static Value opJson(const OpRec& o)
{
  Value v = Value::object();
  v["op"] = Value(o.op);
  v["i"] = Value(o.i); v["j"] = Value(o.j); v["k"] = Value(o.k); v["l"] = Value(o.l);
  v["rs"] = Value::arrayOf(o.rs); v["cs"] = Value::arrayOf(o.cs);
  return v;
}

struct Regs
{
  AMatrix* A = nullptr;
  AMatrix* B = nullptr;
  VectorDouble v;
  Regs() {}
  Regs(const Regs&) = delete;
  Regs& operator=(const Regs&) = delete;
  ~Regs() { delete A; delete B; }
  Regs* clone() const
  {
    Regs* r = new Regs();
    r->A = dynamic_cast<AMatrix*>(A->clone());
    r->B = dynamic_cast<AMatrix*>(B->clone());
    r->v = v;
    return r;
  }
};

// result of one route of an operation
struct Outcome
{
  std::string route;
  char target = 'A';          // 'A', 'B', 'v', 'S' (A and B), 'x' scalar
  bool refused = false;       // the library returned a null object / nothing
  int status = 0;             // error status returned by the library (0 = success)
  int crashed = 0;            // signal number of a fault inside the call
  std::string exception;      // text of a caught exception
  long errors = 0;            // error messages printed during the call
  std::string errtext;
  bool haveMat = false, haveMatB = false, haveVec = false;
  DMat mat, matB;
  std::vector<double> vec;
};

static VectorInt zeroBased(const std::vector<int>& l)
{
  VectorInt v;
  for (int x : l) v.push_back(x - 1);
  return v;
}
static VectorInt seqv(int n)
{
  VectorInt v(n);
  for (int i = 0; i < n; i++) v[i] = i;
  return v;
}
static VectorInt complementOf(int n, const VectorInt& l)
{
  VectorInt v;
  for (int i = 0; i < n; i++)
    if (std::find(l.begin(), l.end(), i) == l.end()) v.push_back(i);
  return v;
}
static bool ascending(const VectorInt& l)
{
  for (size_t i = 1; i < l.size(); i++)
    if (l[i] <= l[i - 1]) return false;
  return true;
}

// output vectors handed to the library have the documented size, with spare capacity behind them so
// that a call which writes a few values too many is seen as a wrong result and not as a corrupted heap
static VectorDouble outVec(int n, double fill)
{
  VectorDouble y;
  y.reserve((size_t)n + 64);
  y.resize(n, fill);
  return y;
}

typedef std::function<void(Regs&, Outcome&)> RouteFn;
struct Route
{
  std::string name;
  RouteFn fn;
};

static AMatrixDense* asDense(AMatrix* a) { return dynamic_cast<AMatrixDense*>(a); }
static MatrixSparse* asSparse(AMatrix* a) { return dynamic_cast<MatrixSparse*>(a); }
static void setMat(Outcome& o, const AMatrix* a) { o.haveMat = true; o.mat = readBack(a); }
static void setVec(Outcome& o, const VectorDouble& v) { o.haveVec = true; o.vec = toStd(v); }

// the routes of an operation in a storage; the first one is the primary route (its result becomes the
// register); the others are evaluated on clones of the registers and only compared
static std::vector<Route> routesOf(const OpRec& o, int p, const Regs& pre)
{
  std::vector<Route> R;
  const std::string& op = o.op;
  int r = pre.A->getNRows(), c = pre.A->getNCols();
  bool sp = isSparseProf(p);
  int eig = (p == SPE) ? 1 : 0;
  auto add = [&R](const std::string& n, RouteFn f) { R.push_back(Route{n, f}); };

  if (op == "SetValue")
  {
    int i = o.i - 1, j = o.j - 1; double k = o.k;
    add("setValue", [=](Regs& g, Outcome&) { g.A->setValue(i, j, k); });
    add("setValue(flagCheck)", [=](Regs& g, Outcome&) { g.A->setFlagCheckAddress(true); g.A->setValue(i, j, k, true); g.A->setFlagCheckAddress(false); });
    add("addValue", [=](Regs& g, Outcome&) { double old = g.A->getValue(i, j); g.A->addValue(i, j, k - old); });
    add("updValue(ADD)", [=](Regs& g, Outcome&) { double old = g.A->getValue(i, j); g.A->updValue(i, j, EOperator::ADD, k - old); });
  }
  else if (op == "SetSym")
  {
    int i = o.i - 1, j = o.j - 1; double k = o.k;
    if (p == SYM)
    {
      add("setValue(i,j)", [=](Regs& g, Outcome&) { g.A->setValue(i, j, k); });
      add("setValue(j,i)", [=](Regs& g, Outcome&) { g.A->setValue(j, i, k); });
      add("updValue(ADD)", [=](Regs& g, Outcome&) { double old = g.A->getValue(i, j); g.A->updValue(i, j, EOperator::ADD, k - old); });
    }
    else
      add("setValue(i,j)+setValue(j,i)", [=](Regs& g, Outcome&) { g.A->setValue(i, j, k); g.A->setValue(j, i, k); });
  }
  else if (op == "SetRow")
  {
    int i = o.i - 1;
    add("setRow", [=](Regs& g, Outcome&) { g.A->setRow(i, g.v); });
    add("setRow(flagCheck)", [=](Regs& g, Outcome&) { g.A->setFlagCheckAddress(true); g.A->setRow(i, g.v, true); g.A->setFlagCheckAddress(false); });
  }
  else if (op == "SetCol")
  {
    int j = o.j - 1;
    add("setColumn", [=](Regs& g, Outcome&) { g.A->setColumn(j, g.v); });
    add("setColumn(flagCheck)", [=](Regs& g, Outcome&) { g.A->setFlagCheckAddress(true); g.A->setColumn(j, g.v, true); g.A->setFlagCheckAddress(false); });
  }
  else if (op == "SetDiag")
  {
    add("setDiagonal", [=](Regs& g, Outcome&) { g.A->setDiagonal(g.v); });
    add("setDiagonal(flagCheck)", [=](Regs& g, Outcome&) { g.A->setDiagonal(g.v, true); });
    if (sp)
      add("MatrixSparse::diagVec", [=](Regs& g, Outcome& out) {
        MatrixSparse* m = MatrixSparse::diagVec(g.v, eig);
        if (m == nullptr) { out.refused = true; return; }
        delete g.A; g.A = m; });
  }
  else if (op == "SetDiagConst")
  {
    double k = o.k;
    add("setDiagonalToConstant", [=](Regs& g, Outcome&) { g.A->setDiagonalToConstant(k); });
    if (sp)
      add("MatrixSparse::diagConstant", [=](Regs& g, Outcome& out) {
        MatrixSparse* m = MatrixSparse::diagConstant(g.A->getNRows(), k, eig);
        if (m == nullptr) { out.refused = true; return; }
        delete g.A; g.A = m; });
  }
  else if (op == "TransposeInPlace")
  {
    add("transposeInPlace", [=](Regs& g, Outcome&) { g.A->transposeInPlace(); });
    add("transpose", [=](Regs& g, Outcome& out) {
      AMatrix* t = g.A->transpose();
      if (t == nullptr) { out.refused = true; return; }
      delete g.A; g.A = t; });
  }
  else if (op == "AddScalar")
  {
    double k = o.k;
    add("addScalar", [=](Regs& g, Outcome&) { g.A->addScalar(k); });
  }
  else if (op == "AddScalarDiag")
  {
    double k = o.k;
    add("addScalarDiag", [=](Regs& g, Outcome&) { g.A->addScalarDiag(k); });
  }
  else if (op == "ProdScalar")
  {
    double k = o.k;
    add("prodScalar", [=](Regs& g, Outcome&) { g.A->prodScalar(k); });
  }
  else if (op == "Fill")
  {
    double k = o.k;
    add("fill", [=](Regs& g, Outcome&) { g.A->fill(k); });
    if (!sp && p == RECT)
      add("resetFromValue", [=](Regs& g, Outcome&) { g.A->resetFromValue(g.A->getNRows(), g.A->getNCols(), k); });
  }
  else if (op == "SetIdentity")
  {
    double k = o.k;
    add("setIdentity", [=](Regs& g, Outcome&) { g.A->setIdentity(k); });
  }
  else if (op == "MultiplyRow")
    add("multiplyRow", [=](Regs& g, Outcome&) { g.A->multiplyRow(g.v); });
  else if (op == "MultiplyColumn")
    add("multiplyColumn", [=](Regs& g, Outcome&) { g.A->multiplyColumn(g.v); });
  else if (op == "DivideRow")
    add("divideRow", [=](Regs& g, Outcome&) { g.A->divideRow(g.v); });
  else if (op == "DivideColumn")
    add("divideColumn", [=](Regs& g, Outcome&) { g.A->divideColumn(g.v); });
  else if (op == "AddMat")
  {
    double cx = o.k, cy = o.l;
    if (!sp)
      add("AMatrixDense::addMatInPlace", [=](Regs& g, Outcome&) { asDense(g.A)->addMatInPlace(*asDense(g.B), cx, cy); });
    else
    {
      add("MatrixSparse::addMatInPlace", [=](Regs& g, Outcome&) { asSparse(g.A)->addMatInPlace(*asSparse(g.B), cx, cy); });
      add("MatrixSparse::addMatMat", [=](Regs& g, Outcome& out) {
        MatrixSparse* m = MatrixSparse::addMatMat(asSparse(g.A), asSparse(g.B), cx, cy);
        if (m == nullptr) { out.refused = true; return; }
        delete g.A; g.A = m; });
    }
    // (element-wise assignment: the cs storage documents that it cannot create a non-zero term in place)
    if (p != SPC)
      add("AMatrix::addMatInPlace", [=](Regs& g, Outcome&) { g.A->AMatrix::addMatInPlace(*g.B, cx, cy); });
  }
  else if (op == "LinComb")
  {
    double c1 = o.k, c2 = o.l;
    add("linearCombination(fresh)", [=](Regs& g, Outcome&) {
      AMatrix* res = newEmpty(p, g.A->getNRows(), g.A->getNCols());
      if (isSparseProf(p)) res->fill(1.);
      res->linearCombination(c1, g.A, c2, g.B);
      delete g.A; g.A = res; });
    add("linearCombination(this)", [=](Regs& g, Outcome&) { g.A->linearCombination(c1, g.A, c2, g.B); });
  }
  else if (op == "ProdMatMat")
  {
    bool ta = o.i == 1, tb = o.j == 1;
    int nr = ta ? c : r;
    int nc = tb ? pre.B->getNRows() : pre.B->getNCols();
    add("prodMatMatInPlace", [=](Regs& g, Outcome&) {
      AMatrix* res = newEmpty(p, nr, nc);
      res->prodMatMatInPlace(g.A, g.B, ta, tb);
      delete g.A; g.A = res; });
    add("MatrixFactory::prodMatMat", [=](Regs& g, Outcome& out) {
      AMatrix* res = MatrixFactory::prodMatMat(g.A, g.B, ta, tb);
      if (res == nullptr) { out.refused = true; return; }
      delete g.A; g.A = res; });
    add("MatrixFactory::prodMatMat<T>", [=](Regs& g, Outcome& out) {
      AMatrix* res = nullptr;
      if (p == RECT) res = MatrixFactory::prodMatMat<MatrixRectangular>(g.A, g.B, ta, tb);
      else if (p == SQG) res = MatrixFactory::prodMatMat<MatrixSquareGeneral>(g.A, g.B, ta, tb);
      else if (p == SYM) res = MatrixFactory::prodMatMat<MatrixSquareSymmetric>(g.A, g.B, ta, tb);
      else
        res = MatrixFactory::prodMatMat<MatrixSparse>(g.A, g.B, ta, tb);
      if (res == nullptr) { out.refused = true; return; }
      delete g.A; g.A = res; });
    if (!ta && nc == c)
      add("prodMatInPlace", [=](Regs& g, Outcome&) { g.A->prodMatInPlace(g.B, tb); });
  }
  else if (op == "ProdNormMatMat" || op == "ProdNormMatVec" || op == "ProdNormMat")
  {
    bool t = o.i == 1;
    int n = t ? c : r;
    bool withM = op == "ProdNormMatMat", withV = op == "ProdNormMatVec";
    auto vecOf = [=](Regs& g) { return withV ? g.v : VectorDouble(); };
    if (!sp)
    {
      add("AMatrixDense::prodNorm*InPlace", [=](Regs& g, Outcome&) {
        AMatrix* res = newEmpty(p, n, n);
        if (withM) asDense(res)->prodNormMatMatInPlace(asDense(g.A), asDense(g.B), t);
        else asDense(res)->prodNormMatVecInPlace(*asDense(g.A), vecOf(g), t);
        delete g.A; g.A = res; });
      add("prodNormMatMat/prodNormMat(free)", [=](Regs& g, Outcome& out) {
        MatrixSquareGeneral* res = withM ? prodNormMatMat(asDense(g.A), asDense(g.B), t) : prodNormMat(*asDense(g.A), vecOf(g), t);
        if (res == nullptr) { out.refused = true; return; }
        delete g.A; g.A = res; });
      add("AMatrix::prodNorm*InPlace", [=](Regs& g, Outcome&) {
        AMatrix* res = newEmpty(p, n, n);
        if (withM) res->AMatrix::prodNormMatMatInPlace(g.A, g.B, t);
        else res->AMatrix::prodNormMatVecInPlace(*g.A, vecOf(g), t);
        delete g.A; g.A = res; });
      if (!withV && (!withM || pre.B->isSymmetric()))
        add("MatrixSquareSymmetric::normMatrix", [=](Regs& g, Outcome&) {
          // normMatrix(y, x, T): t(Y) X Y for T = false, Y X t(Y) for T = true
          MatrixSquareSymmetric* res = new MatrixSquareSymmetric(n);
          if (withM)
          {
            MatrixSquareGeneral x(*g.B);
            res->normMatrix(*g.A, x, !t);
          }
          else
            res->normMatrix(*g.A, AMatrixSquare(), !t);
          delete g.A; g.A = res; });
    }
    else
    {
      add("MatrixSparse::prodNorm*InPlace", [=](Regs& g, Outcome&) {
        MatrixSparse* res = new MatrixSparse(n, n, eig);
        if (withM) res->prodNormMatMatInPlace(asSparse(g.A), asSparse(g.B), t);
        else res->prodNormMatVecInPlace(asSparse(g.A), vecOf(g), t);
        delete g.A; g.A = res; });
      add("prodNormMatMat/prodNormMat(free)", [=](Regs& g, Outcome& out) {
        MatrixSparse* res = withM ? prodNormMatMat(asSparse(g.A), asSparse(g.B), t) : prodNormMat(asSparse(g.A), vecOf(g), t);
        if (res == nullptr) { out.refused = true; return; }
        delete g.A; g.A = res; });
    }
  }
  else if (op == "Pick" || op == "PickInv")
  {
    bool inv = op == "PickInv";
    VectorInt rs0 = zeroBased(o.rs), cs0 = zeroBased(o.cs);
    VectorInt rows = rs0.empty() ? seqv(r) : (inv ? complementOf(r, rs0) : rs0);
    VectorInt cols = cs0.empty() ? seqv(c) : (inv ? complementOf(c, cs0) : cs0);
    int nr = (int)rows.size(), nc = (int)cols.size();
    bool invR = inv && !rs0.empty(), invC = inv && !cs0.empty();
    if (!sp)
    {
      add("copyReduce", [=](Regs& g, Outcome&) {
        AMatrix* res = newEmpty(p, nr, nc);
        res->copyReduce(g.A, rows, cols);
        delete g.A; g.A = res; });
      add("MatrixRectangular::sample", [=](Regs& g, Outcome& out) {
        MatrixRectangular* res = MatrixRectangular::sample(g.A, rs0, cs0, invR, invC);
        if (res == nullptr) { out.refused = true; return; }
        delete g.A; g.A = res; });
      if (p == SYM)
        add("MatrixSquareSymmetric::sample", [=](Regs& g, Outcome& out) {
          MatrixSquareSymmetric* res = MatrixSquareSymmetric::sample(dynamic_cast<MatrixSquareSymmetric*>(g.A), rs0, invR);
          if (res == nullptr) { out.refused = true; return; }
          delete g.A; g.A = res; });
      if (ascending(rs0) && ascending(cs0))
        add("MatrixFactory::createReduce", [=](Regs& g, Outcome& out) {
          AMatrix* res = MatrixFactory::createReduce(g.A, rs0, cs0, !invR, !invC);
          if (res == nullptr) { out.refused = true; return; }
          delete g.A; g.A = res; });
    }
    else
    {
      add("extractSubmatrixByRanks", [=](Regs& g, Outcome& out) {
        VectorInt rr(g.A->getNRows(), -1), rc(g.A->getNCols(), -1);
        for (int a = 0; a < nr; a++) rr[rows[a]] = a;
        for (int b = 0; b < nc; b++) rc[cols[b]] = b;
        MatrixSparse* res = asSparse(g.A)->extractSubmatrixByRanks(rr, rc);
        if (res == nullptr) { out.refused = true; return; }
        delete g.A; g.A = res; });
      add("MatrixRectangular::sample(sparse)", [=](Regs& g, Outcome& out) {
        MatrixRectangular* res = MatrixRectangular::sample(g.A, rs0, cs0, invR, invC);
        if (res == nullptr) { out.refused = true; return; }
        delete g.A; g.A = res; });
      add("copyReduce", [=](Regs& g, Outcome&) {
        AMatrix* res = newEmpty(p, nr, nc);
        res->copyReduce(g.A, rows, cols);
        delete g.A; g.A = res; });
    }
  }
  else if (op == "Glue")
  {
    bool sr = o.i == 1, scol = o.j == 1;
    if (!sp)
    {
      add("MatrixRectangular::glue", [=](Regs& g, Outcome& out) {
        MatrixRectangular* res = MatrixRectangular::glue(g.A, g.B, sr, scol);
        if (res == nullptr) { out.refused = true; return; }
        delete g.A; g.A = res; });
      bool okFactory = (!sr || c == pre.B->getNCols()) && (!scol || r == pre.B->getNRows());
      if (okFactory)
        add("MatrixFactory::createGlue", [=](Regs& g, Outcome& out) {
          AMatrix* res = MatrixFactory::createGlue(g.A, g.B, sr, scol);
          if (res == nullptr) { out.refused = true; return; }
          delete g.A; g.A = res; });
    }
    else
    {
      add("MatrixSparse::glue", [=](Regs& g, Outcome& out) {
        MatrixSparse* res = MatrixSparse::glue(asSparse(g.A), asSparse(g.B), sr, scol);
        if (res == nullptr) { out.refused = true; return; }
        delete g.A; g.A = res; });
      add("MatrixSparse::glueInPlace", [=](Regs& g, Outcome&) { MatrixSparse::glueInPlace(asSparse(g.A), asSparse(g.B), sr, scol); });
      add("MatrixFactory::createGlue", [=](Regs& g, Outcome& out) {
        AMatrix* res = MatrixFactory::createGlue(g.A, g.B, sr, scol);
        if (res == nullptr) { out.refused = true; return; }
        delete g.A; g.A = res; });
    }
  }
  else if (op == "Invert")
  {
    add("invert", [=](Regs& g, Outcome& out) { out.status = g.A->invert(); });
    if (p == SYM)
      add("computeGeneralizedInverse", [=](Regs& g, Outcome& out) {
        MatrixSquareSymmetric* s = dynamic_cast<MatrixSquareSymmetric*>(g.A);
        MatrixSquareSymmetric* res = new MatrixSquareSymmetric(s->getNRows());
        out.status = s->computeGeneralizedInverse(*res);
        delete g.A; g.A = res; });
  }
  else if (op == "Solve")
  {
    add("solve", [=](Regs& g, Outcome& out) {
      VectorDouble x(g.v.size(), 0.);
      out.status = g.A->solve(g.v, x);
      g.v = x; });
  }
  else if (op == "Swap")
    add("swap", [=](Regs& g, Outcome&) { std::swap(g.A, g.B); });
  else if (op == "Copy")
  {
    add("clone", [=](Regs& g, Outcome&) { AMatrix* b = dynamic_cast<AMatrix*>(g.A->clone()); delete g.B; g.B = b; });
    add("copy constructor", [=](Regs& g, Outcome&) {
      AMatrix* b = nullptr;
      if (p == RECT) b = new MatrixRectangular(*dynamic_cast<MatrixRectangular*>(g.A));
      else if (p == SQG) b = new MatrixSquareGeneral(*dynamic_cast<MatrixSquareGeneral*>(g.A));
      else if (p == SYM) b = new MatrixSquareSymmetric(*dynamic_cast<MatrixSquareSymmetric*>(g.A));
      else b = new MatrixSparse(*asSparse(g.A));
      delete g.B; g.B = b; });
    add("assignment", [=](Regs& g, Outcome&) {
      if (p == RECT) *dynamic_cast<MatrixRectangular*>(g.B) = *dynamic_cast<MatrixRectangular*>(g.A);
      else if (p == SQG) *dynamic_cast<MatrixSquareGeneral*>(g.B) = *dynamic_cast<MatrixSquareGeneral*>(g.A);
      else if (p == SYM) *dynamic_cast<MatrixSquareSymmetric*>(g.B) = *dynamic_cast<MatrixSquareSymmetric*>(g.A);
      else *asSparse(g.B) = *asSparse(g.A); });
    if (!sp)
    {
      add("constructor from AMatrix", [=](Regs& g, Outcome&) {
        const AMatrix& a = *g.A;
        AMatrix* b = nullptr;
        if (p == RECT) b = new MatrixRectangular(a);
        else if (p == SQG) b = new MatrixSquareGeneral(a);
        else b = new MatrixSquareSymmetric(a);
        delete g.B; g.B = b; });
      add("dense->sparse(Eigen)->dense", [=](Regs& g, Outcome& out) {
        MatrixSparse* s = createFromAnyMatrix(g.A, 1);
        if (s == nullptr) { out.refused = true; return; }
        delete g.B; g.B = s; });
      add("dense->sparse(cs)->dense", [=](Regs& g, Outcome& out) {
        MatrixSparse* s = createFromAnyMatrix(g.A, 0);
        if (s == nullptr) { out.refused = true; return; }
        delete g.B; g.B = s; });
    }
    else
    {
      add("sparse->MatrixRectangular", [=](Regs& g, Outcome&) {
        const AMatrix& a = *g.A;
        AMatrix* b = new MatrixRectangular(a);
        delete g.B; g.B = b; });
      add("createFromAnyMatrix(sparse)", [=](Regs& g, Outcome& out) {
        MatrixSparse* s = createFromAnyMatrix(g.A, eig);
        if (s == nullptr) { out.refused = true; return; }
        delete g.B; g.B = s; });
      add("triplet round trip", [=](Regs& g, Outcome& out) {
        NF_Triplet t = g.A->getMatrixToTriplet();
        MatrixSparse* s = MatrixSparse::createFromTriplet(t, g.A->getNRows(), g.A->getNCols(), eig);
        if (s == nullptr) { out.refused = true; return; }
        delete g.B; g.B = s; });
    }
  }
  else if (op == "MatVec")
  {
    bool t = o.i == 1;
    int nout = t ? c : r;
    add("prodMatVec", [=](Regs& g, Outcome&) { g.v = g.A->prodMatVec(g.v, t); });
    add("prodMatVecInPlace", [=](Regs& g, Outcome&) { VectorDouble y = outVec(nout, 7.); g.A->prodMatVecInPlace(g.v, y, t); g.v = y; });
    add("prodMatVecInPlace(span)", [=](Regs& g, Outcome& out) {
      VectorDouble y = outVec(nout, 7.);
      constvect xs(g.v.data(), g.v.size());
      vect ys(y.data(), y.size());
      if (g.A->prodMatVecInPlace(xs, ys, t) != 0) { out.refused = true; return; }
      g.v = y; });
    add("prodMatVecInPlacePtr", [=](Regs& g, Outcome&) { VectorDouble y = outVec(nout, 7.); g.A->prodMatVecInPlacePtr(g.v.data(), y.data(), t); g.v = y; });
    add("addProdMatVecInPlace", [=](Regs& g, Outcome& out) {
      VectorDouble y = outVec(nout, 0.);
      constvect xs(g.v.data(), g.v.size());
      vect ys(y.data(), y.size());
      if (g.A->addProdMatVecInPlace(xs, ys, t) != 0) { out.refused = true; return; }
      g.v = y; });
    if (sp)
    {
      add("addProdMatVecInPlaceToDest", [=](Regs& g, Outcome&) {
        VectorDouble y = outVec(nout, 0.);
        constvect xs(g.v.data(), g.v.size());
        vect ys(y.data(), y.size());
        asSparse(g.A)->addProdMatVecInPlaceToDest(xs, ys, t);
        g.v = y; });
      if (!t)
        add("addVecInPlaceVD", [=](Regs& g, Outcome& out) {
          VectorDouble y = outVec(nout, 0.);
          if (asSparse(g.A)->addVecInPlaceVD(g.v, y) != 0) { out.refused = true; return; }
          g.v = y; });
      if (!t && r == c)
        add("ALinearOp::evalDirect", [=](Regs& g, Outcome& out) {
          VectorDouble y = outVec(nout, 7.);
          if (asSparse(g.A)->evalDirect(g.v, y) != 0) { out.refused = true; return; }
          g.v = y; });
    }
  }
  else if (op == "VecMat")
  {
    bool t = o.i == 1;
    int nout = t ? r : c;
    add("prodVecMat", [=](Regs& g, Outcome&) { g.v = g.A->prodVecMat(g.v, t); });
    add("prodVecMatInPlace", [=](Regs& g, Outcome&) { VectorDouble y = outVec(nout, 7.); g.A->prodVecMatInPlace(g.v, y, t); g.v = y; });
    add("prodVecMatInPlacePtr", [=](Regs& g, Outcome&) { VectorDouble y = outVec(nout, 7.); g.A->prodVecMatInPlacePtr(g.v.data(), y.data(), t); g.v = y; });
  }
  else if (op == "GetRow")
  {
    int i = o.i - 1;
    add("getRow", [=](Regs& g, Outcome&) { g.v = g.A->getRow(i); });
  }
  else if (op == "GetCol")
  {
    int j = o.j - 1;
    add("getColumn", [=](Regs& g, Outcome&) { g.v = g.A->getColumn(j); });
    if (!sp)
      add("getColumnPtr", [=](Regs& g, Outcome&) { constvect cv = asDense(g.A)->getColumnPtr(j); g.v = VectorDouble(cv.begin(), cv.end()); });
    if (p == SPE)
      add("getColumnAsMatrixSparse", [=](Regs& g, Outcome& out) {
        MatrixSparse* m = asSparse(g.A)->getColumnAsMatrixSparse(j, 1.);
        if (m == nullptr) { out.refused = true; return; }
        VectorDouble x(m->getNRows());
        for (int i = 0; i < m->getNRows(); i++) x[i] = m->getValue(i, 0);
        delete m;
        g.v = x; });
  }
  else if (op == "GetDiag")
  {
    int sh = o.k;
    add("getDiagonal", [=](Regs& g, Outcome&) { g.v = g.A->getDiagonal(sh); });
    if (sp && sh == 0)
      add("extractDiag", [=](Regs& g, Outcome&) { g.v = asSparse(g.A)->extractDiag(1); });
  }
  return R;
}

// the registers of a storage profile always hold objects of the class of the profile: a result returned
// in another class (e.g. MatrixRectangular::glue, prodNormMat returning a MatrixSquareGeneral) is
// converted through the public converting constructors / triplets
static bool isProfClass(int p, const AMatrix* a)
{
  switch (p)
  {
    case RECT: return dynamic_cast<const MatrixRectangular*>(a) != nullptr && dynamic_cast<const AMatrixSquare*>(a) == nullptr;
    case SQG: return dynamic_cast<const MatrixSquareGeneral*>(a) != nullptr;
    case SYM: return dynamic_cast<const MatrixSquareSymmetric*>(a) != nullptr;
    case SPE: { const MatrixSparse* s = dynamic_cast<const MatrixSparse*>(a); return s != nullptr && s->isFlagEigen(); }
    default: { const MatrixSparse* s = dynamic_cast<const MatrixSparse*>(a); return s != nullptr && !s->isFlagEigen(); }
  }
}
static void coerce(int p, AMatrix*& a)
{
  if (isProfClass(p, a)) return;
  AMatrix* b = buildFrom(p, a->getNRows(), a->getNCols(), [a](int i, int j) { return a->getValue(i, j); });
  delete a;
  a = b;
}

static char targetOf(const std::string& op)
{
  if (op == "MatVec" || op == "VecMat" || op == "GetRow" || op == "GetCol" || op == "GetDiag" || op == "Solve") return 'v';
  if (op == "Copy") return 'B';
  if (op == "Swap") return 'S';
  return 'A';
}

// ------------------------------------------------------------------------------------------------
// behaviours

struct Node
{
  int id0 = 0;
  std::vector<OpRec> h;
  QMat A, B;
  QVec v;
  bool ap = false;
  bool pf[NPROF] = {false, false, false, false, false};
  bool mr[NPROF] = {false, false, false, false, false};
  int kj = -1, ki = -1;
  Value obs;
  std::vector<int> children;
  int parent = -1;
};
static std::vector<Node> NODES;

static int profIndex(const std::string& s)
{
  for (int p = 0; p < NPROF; p++)
    if (s == PROFNAME[p]) return p;
  return -1;
}

static std::string histKey(int id0, const std::vector<OpRec>& h, size_t n)
{
  std::string k = std::to_string(id0);
  for (size_t i = 0; i < n; i++) { k += "|"; k += h[i].key; }
  return k;
}

static void loadBehaviours(const std::string& path)
{
  std::ifstream f(path);
  if (!f) throw std::runtime_error("cannot open " + path);
  std::string line;
  std::unordered_map<std::string, int> index;
  while (std::getline(f, line))
  {
    if (line.empty()) continue;
    Value v = vj::parse(line);
    if (v.kind == Value::Str) v = vj::parse(v.str);   // TLC prints a JSON string literal
    Node n;
    n.id0 = v.at("id").i();
    for (auto& o : v.at("h").arr) n.h.push_back(readOp(o));
    std::string key = histKey(n.id0, n.h, n.h.size());
    if (index.count(key)) continue;
    n.A = readQMat(v.at("A"));
    n.B = readQMat(v.at("B"));
    n.v = readQVec(v.at("v"));
    n.ap = v.at("ap").boolean();
    for (auto& s : v.at("pf").arr) { int p = profIndex(s.s()); if (p >= 0) n.pf[p] = true; }
    for (auto& s : v.at("mr").arr) { int p = profIndex(s.s()); if (p >= 0) n.mr[p] = true; }
    n.kj = v.at("kj").i();
    n.ki = v.at("ki").i();
    n.obs = v.at("obs");
    index[key] = (int)NODES.size();
    NODES.push_back(std::move(n));
  }
  for (size_t i = 0; i < NODES.size(); i++)
  {
    Node& n = NODES[i];
    if (n.h.empty()) continue;
    auto it = index.find(histKey(n.id0, n.h, n.h.size() - 1));
    if (it == index.end()) throw std::runtime_error("behaviour without its prefix (id " + std::to_string(n.id0) + ")");
    n.parent = it->second;
    NODES[it->second].children.push_back((int)i);
  }
}

// ------------------------------------------------------------------------------------------------
// reporting

static FILE* OUT = nullptr;
static std::map<std::string, long> STATS;
static void stat(const std::string& k, long n = 1) { STATS[k] += n; }

// progress marker shared with the parent process (crash containment)
struct Marker
{
  int node;
  int prof;
  int route;
  int phase;    // 0 machine, 1 inflation
  int extra;
  char text[200];
};
static Marker* MARK = nullptr;
static std::set<std::string> SKIP;   // node:prof:route:phase:extra triples that crashed in a previous attempt
static std::string markKey(int node, int prof, int route, int phase, int extra)
{
  return std::to_string(node) + ":" + std::to_string(prof) + ":" + std::to_string(route) + ":" + std::to_string(phase) + ":" + std::to_string(extra);
}
static bool enter(int node, int prof, int route, int phase, int extra, const std::string& text)
{
  if (SKIP.count(markKey(node, prof, route, phase, extra))) return false;
  if (MARK)
  {
    MARK->node = node; MARK->prof = prof; MARK->route = route; MARK->phase = phase; MARK->extra = extra;
    snprintf(MARK->text, sizeof MARK->text, "%s", text.c_str());
  }
  return true;
}

static Value histJson(const Node& n)
{
  Value h = Value::array();
  for (auto& o : n.h) h.push(opJson(o));
  return h;
}
static std::string shapeClass(int r, int c)
{
  if (r == c) return "square";
  if (r == 1 || c == 1) return r < c ? "row-vector" : "column-vector";
  return r < c ? "wide" : "tall";
}

static void report(const char* kind, const Node& n, const Node* pre, int p, const std::string& route, const std::string& what,
                   const Value& expected, const Value& observed, const std::string& note, const std::string& variant = "")
{
  Value rec = Value::object();
  rec["kind"] = Value(kind);
  rec["id"] = Value(n.id0);
  rec["op"] = Value(n.h.empty() ? std::string("init") : n.h.back().op);
  rec["storage"] = Value(std::string(PROFNAME[p]));
  rec["class"] = Value(std::string(storageClass(p)));
  rec["route"] = Value(route);
  rec["what"] = Value(what);
  const QMat& ref = pre ? pre->A : n.A;
  rec["shape"] = Value(shapeClass(ref.r, ref.c));
  if (!n.h.empty())
  {
    const OpRec& o = n.h.back();
    bool tflag = (o.op == "ProdMatMat" || o.op == "MatVec" || o.op == "VecMat" || o.op.rfind("ProdNorm", 0) == 0);
    if (tflag) rec["transpose"] = Value(o.i == 1);
    if (o.op == "ProdMatMat") rec["transposeB"] = Value(o.j == 1);
  }
  rec["depth"] = Value((int)n.h.size());
  if (!variant.empty()) rec["variant"] = Value(variant);
  rec["h"] = histJson(n);
  if (pre)
  {
    Value pr = Value::object();
    pr["A"] = qmatJson(pre->A); pr["B"] = qmatJson(pre->B); pr["v"] = qvecJson(pre->v);
    rec["pre"] = pr;
  }
  rec["expected"] = expected;
  rec["observed"] = observed;
  if (!note.empty()) rec["note"] = Value(note);
  // symptom: the observed matrix has lost trailing empty rows / columns (dimension = extent of the non-zero terms)
  if (observed.kind == Value::Obj && observed.has("A") && observed.at("A").kind == Value::Arr)
  {
    const QMat& e = (what == "B") ? n.B : n.A;
    const Value& oa = observed.at(what == "B" ? "B" : "A");
    int orow = (int)oa.arr.size(), ocol = orow ? (int)oa.arr[0].arr.size() : 0;
    int er = 0, ec = 0;
    for (int i = 0; i < e.r; i++) for (int j = 0; j < e.c; j++) if (e.at(i, j) != 0) { er = std::max(er, i + 1); ec = std::max(ec, j + 1); }
    if (orow != e.r || ocol != e.c)
      rec["symptom"] = Value(std::string((orow == std::max(er, 1) || orow == e.r) && (ocol == std::max(ec, 1) || ocol == e.c) ? "dims-shrunk-to-nonzero-extent" : "wrong-dims"));
  }
  std::string s = vj::dump(rec);
  fprintf(OUT, "%s\n", s.c_str());
  fflush(OUT);
}

// ------------------------------------------------------------------------------------------------
// one step in one storage

struct StepResult
{
  bool ok = true;        // primary route agreed (the registers can be used further)
};

// in-process recovery from a fault inside a library call (the fork of runContained remains the fallback
// when the fault has corrupted the heap)
static sigjmp_buf g_jmp;
static volatile sig_atomic_t g_armed = 0;
static volatile sig_atomic_t g_sig = 0;
static void faultHandler(int sig)
{
  if (g_armed && sig != SIGABRT)
  {
    g_armed = 0;
    g_sig = sig;
    siglongjmp(g_jmp, 1);
  }
  signal(sig, SIG_DFL);
  raise(sig);
}
static void installFaultHandler()
{
  struct sigaction sa;
  memset(&sa, 0, sizeof sa);
  sa.sa_handler = faultHandler;
  sa.sa_flags = SA_NODEFER;
  sigaction(SIGSEGV, &sa, nullptr);
  sigaction(SIGBUS, &sa, nullptr);
  sigaction(SIGFPE, &sa, nullptr);
  sigaction(SIGABRT, &sa, nullptr);
}

// runs fn on g, containing exceptions and faults; fills out
static void runRoute(const Route& rt, Regs& g, Outcome& out)
{
  out.route = rt.name;
  long e0 = g_errcount;
  g_lasterr.clear();
  if (sigsetjmp(g_jmp, 1) != 0)
  {
    out.crashed = (int)g_sig;
    out.errors = g_errcount - e0;
    return;
  }
  g_armed = 1;
  try
  {
    rt.fn(g, out);
    g_armed = 0;
  }
  catch (const AException& e) { out.exception = std::string("AException: ") + e.what(); }
  catch (const std::exception& e) { out.exception = std::string("std::exception: ") + e.what(); }
  catch (const char* s) { out.exception = std::string("throw: ") + s; }
  catch (const std::string& s) { out.exception = std::string("throw: ") + s; }
  catch (const ExitRequested&) { out.exception = "messageAbort"; }
  catch (...) { out.exception = "unknown exception"; }
  g_armed = 0;
  out.errors = g_errcount - e0;
  out.errtext = g_lasterr;
}

static Value regsObserved(const Regs& g)
{
  Value o = Value::object();
  try { o["A"] = dmatJson(readBack(g.A)); } catch (...) { o["A"] = Value("unreadable"); }
  try { o["B"] = dmatJson(readBack(g.B)); } catch (...) { o["B"] = Value("unreadable"); }
  o["v"] = dvecJson(toStd(g.v));
  return o;
}
static Value regsExpected(const Node& n)
{
  Value o = Value::object();
  o["A"] = qmatJson(n.A); o["B"] = qmatJson(n.B); o["v"] = qvecJson(n.v);
  return o;
}

// compares the three registers with the expectation of node n; returns the name of the first register
// that differs ("" when all agree)
static std::string compareRegs(const Regs& g, const Node& n, bool exact)
{
  DMat a = readBack(g.A);
  if (!sameMat(a, n.A, exact)) return "A";
  DMat b = readBack(g.B);
  if (!sameMat(b, n.B, exact)) return "B";
  if (!sameVec(toStd(g.v), n.v, exact)) return "v";
  return "";
}

// reading routes and observers of the accumulator
static bool checkReaders(const Regs& g, const Node& n, const Node* pre, int p, int nodeIdx)
{
  bool allOk = true;
  const AMatrix* A = g.A;
  const QMat& e = n.A;
  bool exact = !n.ap;
  int r = e.r, c = e.c;
  auto fail = [&](const std::string& route, const Value& obs) {
    allOk = false;
    stat("reader_mismatch");
    report("mismatch", n, pre, p, route, "read", qmatJson(e), obs, "reading route disagrees with the expected contents of A");
  };
  int route = 100;
  auto guarded = [&](const std::string& name, const std::function<void()>& f) {
    route++;
    if (!enter(nodeIdx, p, route, 0, 0, name)) return;
    long e0 = g_errcount;
    try { f(); }
    catch (const AException& ex) { allOk = false; report("exception", n, pre, p, name, "read", qmatJson(e), Value(std::string(ex.what())), ""); stat("reader_exception"); }
    catch (const ExitRequested&) { allOk = false; report("exception", n, pre, p, name, "read", qmatJson(e), Value("messageAbort"), ""); stat("reader_exception"); }
    catch (...) { allOk = false; report("exception", n, pre, p, name, "read", qmatJson(e), Value("exception"), ""); stat("reader_exception"); }
    (void)e0;
    stat("readers");
  };
  guarded("getValues(byCol)", [&]() {
    VectorDouble v = A->getValues(true);
    DMat d; d.r = r; d.c = c; d.m.assign((size_t)r * c, NAN);
    if ((int)v.size() == r * c)
      for (int j = 0; j < c; j++) for (int i = 0; i < r; i++) d.m[(size_t)i * c + j] = v[(size_t)j * r + i];
    if (!sameMat(d, e, exact)) fail("getValues(byCol)", dmatJson(d)); });
  guarded("getValues(byRow)", [&]() {
    VectorDouble v = A->getValues(false);
    DMat d; d.r = r; d.c = c; d.m.assign((size_t)r * c, NAN);
    if ((int)v.size() == r * c)
      for (int i = 0; i < r; i++) for (int j = 0; j < c; j++) d.m[(size_t)i * c + j] = v[(size_t)i * c + j];
    if (!sameMat(d, e, exact)) fail("getValues(byRow)", dmatJson(d)); });
  guarded("getRow(all)", [&]() {
    DMat d; d.r = r; d.c = c; d.m.assign((size_t)r * c, NAN);
    for (int i = 0; i < r; i++) { VectorDouble v = A->getRow(i); if ((int)v.size() == c) for (int j = 0; j < c; j++) d.m[(size_t)i * c + j] = v[j]; }
    if (!sameMat(d, e, exact)) fail("getRow(all)", dmatJson(d)); });
  guarded("getColumn(all)", [&]() {
    DMat d; d.r = r; d.c = c; d.m.assign((size_t)r * c, NAN);
    for (int j = 0; j < c; j++) { VectorDouble v = A->getColumn(j); if ((int)v.size() == r) for (int i = 0; i < r; i++) d.m[(size_t)i * c + j] = v[i]; }
    if (!sameMat(d, e, exact)) fail("getColumn(all)", dmatJson(d)); });
  guarded("operator()", [&]() {
    DMat d; d.r = r; d.c = c; d.m.assign((size_t)r * c, NAN);
    for (int i = 0; i < r; i++) for (int j = 0; j < c; j++) d.m[(size_t)i * c + j] = (*A)(i, j);
    if (!sameMat(d, e, exact)) fail("operator()", dmatJson(d)); });
  guarded("getMatrixToTriplet", [&]() {
    NF_Triplet t = A->getMatrixToTriplet();
    DMat d; d.r = r; d.c = c; d.m.assign((size_t)r * c, 0.);
    bool bad = false;
    for (int k = 0; k < t.getNumber(); k++)
    {
      int i = t.getRow(k), j = t.getCol(k);
      if (i < 0 || i >= r || j < 0 || j >= c) { bad = true; continue; }
      d.m[(size_t)i * c + j] += t.getValue(k);
    }
    if (bad || !sameMat(d, e, exact)) fail("getMatrixToTriplet", dmatJson(d)); });
  if (!isSparseProf(p)) guarded("transpose().getValue", [&]() {
    AMatrix* t = A->transpose();
    DMat d; d.r = r; d.c = c; d.m.assign((size_t)r * c, NAN);
    if (t != nullptr && t->getNRows() == c && t->getNCols() == r)
      for (int i = 0; i < r; i++) for (int j = 0; j < c; j++) d.m[(size_t)i * c + j] = t->getValue(j, i);
    delete t;
    if (!sameMat(d, e, exact)) fail("transpose().getValue", dmatJson(d)); });
  guarded("size/empty/isSquare", [&]() {
    bool ok = A->size() == r * c && !A->empty() && A->isSquare() == (r == c) && A->isSparse() == isSparseProf(p) && A->isDense() == !isSparseProf(p);
    if (!ok) fail("size/empty/isSquare", Value((long long)A->size())); });
  if (!n.obs.getb("def", false)) return allOk;
  auto failObs = [&](const std::string& name, double expv, double obsv) {
    allOk = false;
    stat("observer_mismatch");
    report("mismatch", n, pre, p, name, "observer", Value(expv), Value(obsv), "observer of A disagrees");
  };
  guarded("getMinimum", [&]() { double x = A->getMinimum(); double w = n.obs.getd("min", 0); if (!closeTo(x, w, exact)) failObs("getMinimum", w, x); });
  guarded("getMaximum", [&]() { double x = A->getMaximum(); double w = n.obs.getd("max", 0); if (!closeTo(x, w, exact)) failObs("getMaximum", w, x); });
  guarded("getNormInf", [&]() { double x = A->getNormInf(); double w = n.obs.getd("ninf", 0); if (!closeTo(x, w, exact)) failObs("getNormInf", w, x); });
  guarded("isSymmetric", [&]() { bool x = A->isSymmetric(); bool w = n.obs.getb("sym", false); if (x != w) failObs("isSymmetric", w, x); });
  guarded("isIdentity", [&]() { if (r != c) return; bool x = A->isIdentity(); bool w = n.obs.getb("ident", false); if (x != w) failObs("isIdentity", w, x); });
  guarded("isNonNegative", [&]() { bool x = A->isNonNegative(); bool w = n.obs.getb("nonneg", false); if (x != w) failObs("isNonNegative", w, x); });
  if (r == c && !isSparseProf(p))
  {
    const AMatrixSquare* S = dynamic_cast<const AMatrixSquare*>(A);
    if (S != nullptr)
    {
      guarded("trace", [&]() { double x = S->trace(); double w = n.obs.getd("tr", 0); if (!closeTo(x, w, exact)) failObs("trace", w, x); });
      if (n.obs.getb("hasdet", false))
        guarded("determinant", [&]() { double x = S->determinant(); double w = n.obs.getd("det", 0); if (!closeTo(x, w, false)) failObs("determinant", w, x); });
    }
  }
  return allOk;
}

static int g_threads = 0;

// executes the last operation of node n on the registers 'pre' (which hold the contents of the parent
// node pn) in storage p.  Returns the new registers (primary route) or nullptr when the branch is cut.
// evaluates one route of the last operation of node n on a clone of the registers 'pre'.
// Returns true when the route agrees with the expectation; *result receives the new registers when asked.
static bool evalRoute(const Route& rt, const Node& n, const Node& pn, int p, const Regs& pre, Regs** result)
{
  const OpRec& o = n.h.back();
  bool exact = !n.ap;
  char target = targetOf(o.op);
  Regs* g = pre.clone();
  Outcome out;
  runRoute(rt, *g, out);
  stat("routes_executed");
  stat(std::string("op:") + o.op + ":" + PROFNAME[p]);
  std::string diff;
  Value observed;
  if (out.crashed)
  {
    stat("disagreements");
    stat("crashes_recovered");
    report("crash", n, &pn, p, rt.name, "crash", regsExpected(n), Value(out.crashed), "fault (signal) inside the library call");
    return false;   // the clone is abandoned (it may be inconsistent)
  }
  if (out.exception.empty() && !out.refused)
  {
    // reading back is also protected: a call may leave an object that faults when it is read
    if (sigsetjmp(g_jmp, 1) != 0)
    {
      stat("disagreements");
      stat("crashes_recovered");
      report("crash", n, &pn, p, rt.name, "crash", regsExpected(n), Value((int)g_sig), "fault (signal) when reading the result back");
      return false;
    }
    g_armed = 1;
    try { diff = compareRegs(*g, n, exact); }
    catch (...) { diff = "unreadable"; }
    if (!diff.empty()) observed = regsObserved(*g);
    g_armed = 0;
  }
  if (out.exception.empty() && !out.refused && diff.empty() && out.status != 0)
  {
    // right values, but the call reports a failure
    stat("disagreements");
    report("status", n, &pn, p, rt.name, "status", Value(0), Value(out.status), "the call returns a non-zero error status although the result is the expected one");
  }
  bool bad = !out.exception.empty() || out.refused || !diff.empty();
  if (bad)
  {
    bool refusal = (!out.exception.empty() || out.refused || out.errors > 0);
    const char* kind = !out.exception.empty() ? "exception" : (out.refused ? "refused" : (out.errors > 0 ? "refused" : "mismatch"));
    std::string note = out.exception;
    if (out.errors > 0) note += (note.empty() ? "" : " | ") + std::string("library error message: ") + out.errtext;
    if (refusal && n.mr[p])
    {
      stat("refused_as_documented");
      stat(std::string("refused:") + o.op + ":" + PROFNAME[p]);
    }
    else
    {
      stat("disagreements");
      report(kind, n, &pn, p, rt.name, diff.empty() ? std::string(1, target) : diff, regsExpected(n),
             observed.isNull() ? Value(note) : observed, note);
    }
    delete g;
    return false;
  }
  if (result != nullptr) { coerce(p, g->A); coerce(p, g->B); *result = g; } else delete g;
  return true;
}

// routes listed by the caller (operation|storage|route) are evaluated in a forked process: they are known
// to write outside their buffers, which would otherwise corrupt the heap of the replay
static std::set<std::string> ISOLATE;
static bool g_isolated = false;

// returns 0 agreed, 1 disagreed (reported), 2 died (reported as crash)
static int evalIsolated(const Route& rt, const Node& n, const Node& pn, int p, const Regs& pre)
{
  int fd[2];
  if (pipe(fd) != 0) return 1;
  fflush(OUT);
  pid_t pid = fork();
  if (pid == 0)
  {
    close(fd[0]);
    g_isolated = true;
    FILE* w = fdopen(fd[1], "w");
    OUT = w;
    STATS.clear();
    bool ok = evalRoute(rt, n, pn, p, pre, nullptr);
    fflush(w);
    _exit(ok ? 0 : 1);
  }
  close(fd[1]);
  std::string buf;
  char tmp[4096];
  ssize_t k;
  while ((k = read(fd[0], tmp, sizeof tmp)) > 0) buf.append(tmp, (size_t)k);
  close(fd[0]);
  int status = 0;
  waitpid(pid, &status, 0);
  stat("routes_isolated");
  if (WIFEXITED(status))
  {
    if (!buf.empty()) { fwrite(buf.data(), 1, buf.size(), OUT); }
    if (WEXITSTATUS(status) != 0) stat("disagreements");
    return WEXITSTATUS(status) == 0 ? 0 : 1;
  }
  // partial lines of a dying process are dropped; the death itself is the disagreement
  stat("disagreements");
  stat("crashes_isolated");
  report("crash", n, &pn, p, rt.name, "crash", regsExpected(n), Value(WIFSIGNALED(status) ? WTERMSIG(status) : -1),
         "the library call (run in an isolated process) died");
  return 2;
}

// executes the last operation of node n on the registers 'pre' (which hold the contents of the parent
// node pn) in storage p.  Returns the new registers (primary route) or nullptr when the branch is cut.
static Regs* step(int nodeIdx, const Node& n, const Node& pn, int p, const Regs& pre)
{
  const OpRec& o = n.h.back();
  std::vector<Route> routes = routesOf(o, p, pre);
  Regs* result = nullptr;
  bool primaryOk = true;
  for (size_t k = 0; k < routes.size(); k++)
  {
    if (!enter(nodeIdx, p, (int)k, 0, 0, o.op + "/" + routes[k].name))
    {
      if (k == 0) primaryOk = false;
      continue;
    }
    bool iso = !g_isolated && ISOLATE.count(o.op + "|" + PROFNAME[p] + "|" + routes[k].name) > 0;
    bool ok;
    if (iso)
    {
      ok = evalIsolated(routes[k], n, pn, p, pre) == 0;
      if (ok && k == 0) ok = evalRoute(routes[k], n, pn, p, pre, &result);   // it behaved: now for real
    }
    else
      ok = evalRoute(routes[k], n, pn, p, pre, k == 0 ? &result : nullptr);
    if (!ok && k == 0) primaryOk = false;   // the branch is cut for this storage (the other routes are still evaluated)
  }
  if (!primaryOk) { delete result; return nullptr; }
  return result;
}

// ------------------------------------------------------------------------------------------------
// Kronecker inflation of one transition

static QMat kronQ(const QMat& q, int n, bool ones, ll factor)
{
  QMat k;
  k.r = q.r * n; k.c = q.c * n; k.d = q.d;
  k.m.assign((size_t)k.r * k.c, 0);
  for (int i = 0; i < q.r; i++)
    for (int j = 0; j < q.c; j++)
    {
      ll x = q.at(i, j) * factor;
      if (x == 0) continue;
      for (int a = 0; a < n; a++)
      {
        if (ones)
          for (int b = 0; b < n; b++) k.m[(size_t)(i * n + a) * k.c + (j * n + b)] = x;
        else
          k.m[(size_t)(i * n + a) * k.c + (j * n + a)] = x;
      }
    }
  return k;
}
static QVec kronV(const QVec& q, int n, ll factor)
{
  QVec k;
  k.d = q.d;
  for (ll x : q.x)
    for (int a = 0; a < n; a++) k.x.push_back(x * factor);
  return k;
}
static ll ipow(ll n, int p) { ll r = 1; for (int i = 0; i < p; i++) r *= n; return r; }

static int g_infl = 0;

static void inflate(int nodeIdx, const Node& n, const Node& pn)
{
  const OpRec& o = n.h.back();
  char target = targetOf(o.op);
  for (int kind = 0; kind < 2; kind++)    // 0: J_n (all ones), 1: I_n
  {
    int pw = kind == 0 ? n.kj : n.ki;
    if (pw < 0) continue;
    bool ones = kind == 0;
    int N = g_infl;
    // inflated operands and expectation
    Node big, bigPre;
    bigPre.A = kronQ(pn.A, N, ones, 1); bigPre.B = kronQ(pn.B, N, ones, 1); bigPre.v = kronV(pn.v, N, 1);
    ll f = ipow(N, pw);
    big.id0 = n.id0; big.h = n.h; big.ap = n.ap; big.obs = Value::object();
    big.A = kronQ(n.A, N, ones, target == 'A' ? f : 1);
    big.B = kronQ(n.B, N, ones, 1);
    big.v = kronV(n.v, N, target == 'v' ? f : 1);
    for (int p = 0; p < NPROF; p++)
    {
      if (!n.pf[p]) continue;
      if (ones && isSparseProf(p) && (o.op == "AddScalar") ) {}   // all terms stored: allowed
      if (!enter(nodeIdx, p, 0, 1, kind, o.op + "/inflated")) continue;
      setGlobalFlagEigen(p != SPC);
      Regs pre;
      pre.A = build(p, bigPre.A); pre.B = build(p, bigPre.B); pre.v = buildVec(bigPre.v);
      std::vector<Route> routes = routesOf(o, p, pre);
      size_t nroutes = std::min<size_t>(routes.size(), 3);
      for (size_t k = 0; k < nroutes; k++)
      {
        if (!enter(nodeIdx, p, (int)k, 1, kind, o.op + "/inflated/" + routes[k].name)) continue;
        Regs* g = pre.clone();
        Outcome out;
        runRoute(routes[k], *g, out);
        stat("inflated_executed");
        stat(std::string("infl:") + o.op + ":" + PROFNAME[p]);
        std::string diff;
        if (out.exception.empty() && !out.refused && !out.crashed)
        {
          try { diff = compareRegs(*g, big, !n.ap); } catch (...) { diff = "unreadable"; }
        }
        if (out.crashed) { diff = "crash"; }
        if (out.crashed || !out.exception.empty() || out.refused || !diff.empty())
        {
          stat("disagreements");
          Value ob = Value::object();
          ob["register"] = Value(diff);
          ob["note"] = Value(out.exception);
          std::string variant = std::string(ones ? "kron J_" : "kron I_") + std::to_string(N) + " threads=" + std::to_string(g_threads);
          report(out.crashed ? "crash" : !out.exception.empty() ? "exception" : (out.refused ? "refused" : "mismatch"), n, &pn, p, routes[k].name,
                 diff.empty() ? std::string(1, target) : diff, regsExpected(n), ob,
                 "inflated operands disagree with n^p (small result (x) K)", variant);
        }
        if (!out.crashed) delete g;
      }
    }
  }
}

// ------------------------------------------------------------------------------------------------
// depth-first replay of the behaviours of one initial state in one storage

static void dfs(int nodeIdx, int p, const Regs& regs, bool inflonly)
{
  const Node& n = NODES[nodeIdx];
  for (int ci : n.children)
  {
    const Node& c = NODES[ci];
    if (!c.pf[p]) { stat("steps_not_promised"); continue; }
    Regs* g = step(ci, c, n, p, regs);
    stat("steps");
    if (g == nullptr) continue;
    // a state whose reading routes disagree is not used further (one root cause, one report)
    bool consistent = inflonly || checkReaders(*g, c, &n, p, ci);
    if (consistent) dfs(ci, p, *g, inflonly);
    delete g;
  }
}

static void runRoot(int rootIdx, bool inflonly)
{
  const Node& root = NODES[rootIdx];
  if (!inflonly || true)
  {
    for (int p = 0; p < NPROF; p++)
    {
      if (!root.pf[p]) continue;
      if (inflonly) continue;
      if (!enter(rootIdx, p, 0, 0, 0, "build")) continue;
      setGlobalFlagEigen(p != SPC);   // the two sparse back-ends are never mixed (documented restriction)
      Regs regs;
      regs.A = build(p, root.A); regs.B = build(p, root.B); regs.v = buildVec(root.v);
      std::string diff = compareRegs(regs, root, true);
      stat("roots");
      if (!diff.empty())
      {
        stat("disagreements");
        report("mismatch", root, nullptr, p, "construction", diff, regsExpected(root), regsObserved(regs), "initial contents not read back");
        continue;
      }
      if (checkReaders(regs, root, nullptr, p, rootIdx)) dfs(rootIdx, p, regs, false);
    }
  }
  if (g_infl > 0)
  {
    // inflation of every transition of depth 1 .. of this root (expected values follow from the small case)
    std::vector<int> stack(root.children.begin(), root.children.end());
    while (!stack.empty())
    {
      int ci = stack.back(); stack.pop_back();
      const Node& c = NODES[ci];
      if (c.kj >= 0 || c.ki >= 0) inflate(ci, c, NODES[c.parent]);
      // only the first operation of a behaviour is inflated (the operands of deeper steps are covered
      // as initial contents of other behaviours)
    }
  }
}

static void setupLibrary(int threads)
{
  redefine_error(errHook);
  redefine_message(msgHook);
  redefine_exit(exitHook);
  installFaultHandler();
  setUpdateNonZeroValue(2);   // the cs storage throws when asked to create a non-zero term in place
  g_threads = threads;
  if (threads > 0) setMultiThread(threads);
}

static void writeStats()
{
  Value s = Value::object();
  for (auto& kv : STATS) s[kv.first] = Value((long long)kv.second);
  s["omp_max_threads"] = Value(omp_get_max_threads());
  s["eigen_threads"] = Value((int)Eigen::nbThreads());
  Value o = Value::object();
  o["stats"] = s;
  fprintf(OUT, "%s\n", vj::dump(o).c_str());
  fflush(OUT);
}

static std::map<std::string, std::string> parseOpts(int argc, char** argv, int from)
{
  std::map<std::string, std::string> m;
  for (int i = from; i < argc; i++)
  {
    std::string a = argv[i];
    size_t k = a.find('=');
    if (k != std::string::npos) m[a.substr(0, k)] = a.substr(k + 1);
  }
  return m;
}

// runs 'work(rootIdx)' for every root in child processes (one child per chunk); a crash is recorded as a
// disagreement of the marked step and the chunk is restarted without that step
static int runContained(const std::vector<int>& roots, const std::string& outPath, const std::function<void(int)>& work,
                        const std::function<const Node&(int)>& nodeOf)
{
  MARK = (Marker*)mmap(nullptr, sizeof(Marker), PROT_READ | PROT_WRITE, MAP_SHARED | MAP_ANONYMOUS, -1, 0);
  long* rootPos = (long*)mmap(nullptr, sizeof(long), PROT_READ | PROT_WRITE, MAP_SHARED | MAP_ANONYMOUS, -1, 0);
  size_t startAt = 0;
  int crashes = 0, attempts = 0;
  std::string statsPath = outPath + ".stats";
  std::map<std::string, long> total;
  while (startAt < roots.size())
  {
    MARK->node = -1;
    *rootPos = (long)startAt;
    fflush(OUT);
    pid_t pid = fork();
    if (pid == 0)
    {
      FILE* real = OUT;
      for (size_t k = startAt; k < roots.size(); k++)
      {
        *rootPos = (long)k;
        STATS.clear();
        char* buf = nullptr; size_t len = 0;
        OUT = open_memstream(&buf, &len);
        work(roots[k]);
        fclose(OUT);
        OUT = real;
        if (len > 0) fwrite(buf, 1, len, real);
        fflush(real);
        free(buf);
        FILE* sf = fopen(statsPath.c_str(), "a");
        for (auto& kv : STATS) fprintf(sf, "%s %ld\n", kv.first.c_str(), kv.second);
        fprintf(sf, "omp_max_threads %d\n", omp_get_max_threads());
        fclose(sf);
        MARK->node = -1;
      }
      _exit(0);
    }
    int status = 0;
    waitpid(pid, &status, 0);
    if (WIFEXITED(status) && WEXITSTATUS(status) == 0) break;
    // crash: record it and restart at the root in progress, without the marked step
    crashes++;
    if ((size_t)*rootPos == startAt) attempts++; else attempts = 1;
    startAt = (size_t)*rootPos;
    int sig = WIFSIGNALED(status) ? WTERMSIG(status) : -WEXITSTATUS(status);
    if (MARK->node < 0 || attempts > 300)
    {
      fprintf(stderr, "matrix_run: child died (signal %d) outside a marked step or too many crashes\n", sig);
      return 3;
    }
    const Node& n = nodeOf(MARK->node);
    Value rec = Value::object();
    rec["kind"] = Value("crash");
    rec["id"] = Value(n.id0);
    rec["op"] = Value(n.h.empty() ? std::string("init") : n.h.back().op);
    rec["storage"] = Value(std::string(PROFNAME[MARK->prof]));
    rec["class"] = Value(std::string(storageClass(MARK->prof)));
    std::string txt = MARK->text;
    size_t slash = txt.find('/');
    rec["route"] = Value(slash == std::string::npos ? txt : txt.substr(slash + 1));
    rec["what"] = Value("crash");
    rec["signal"] = Value(sig);
    const QMat& ref = n.parent >= 0 ? nodeOf(n.parent).A : n.A;
    rec["shape"] = Value(shapeClass(ref.r, ref.c));
    rec["depth"] = Value((int)n.h.size());
    if (!n.h.empty())
    {
      const OpRec& o = n.h.back();
      bool tflag = (o.op == "ProdMatMat" || o.op == "MatVec" || o.op == "VecMat" || o.op.rfind("ProdNorm", 0) == 0);
      if (tflag) rec["transpose"] = Value(o.i == 1);
      if (o.op == "ProdMatMat") rec["transposeB"] = Value(o.j == 1);
    }
    rec["h"] = histJson(n);
    if (MARK->phase == 1) rec["variant"] = Value(std::string(MARK->extra == 0 ? "kron J" : "kron I"));
    if (n.parent >= 0)
    {
      const Node& pn = nodeOf(n.parent);
      Value pr = Value::object();
      pr["A"] = qmatJson(pn.A); pr["B"] = qmatJson(pn.B); pr["v"] = qvecJson(pn.v);
      rec["pre"] = pr;
    }
    fprintf(OUT, "%s\n", vj::dump(rec).c_str());
    fflush(OUT);
    SKIP.insert(markKey(MARK->node, MARK->prof, MARK->route, MARK->phase, MARK->extra));
  }
  // merge statistics
  std::ifstream sf(statsPath);
  std::string k; long v;
  int ompmax = 0;
  while (sf >> k >> v)
  {
    if (k == "omp_max_threads") { ompmax = std::max<int>(ompmax, (int)v); continue; }
    total[k] += v;
  }
  STATS = total;
  STATS["crashes"] = crashes;
  STATS["omp_max_threads_seen"] = ompmax;
  remove(statsPath.c_str());
  return 0;
}

int mainChol(int argc, char** argv);
int mainVec(int argc, char** argv);

int main(int argc, char** argv)
{
  if (argc < 4)
  {
    fprintf(stderr, "usage: matrix_run machine|chol|vec <in> <out> [threads=N] [infl=N] [inflonly=1]\n");
    return 2;
  }
  std::string mode = argv[1];
  if (freopen("/dev/null", "w", stdout) == nullptr) {}
  try
  {
    if (mode == "chol") return mainChol(argc, argv);
    if (mode == "vec") return mainVec(argc, argv);
    auto opts = parseOpts(argc, argv, 4);
    int threads = opts.count("threads") ? atoi(opts["threads"].c_str()) : 0;
    g_infl = opts.count("infl") ? atoi(opts["infl"].c_str()) : 0;
    bool inflonly = opts.count("inflonly") && opts["inflonly"] == "1";
    if (opts.count("isolate"))
    {
      std::ifstream f(opts["isolate"]);
      std::string line;
      while (std::getline(f, line)) if (!line.empty()) ISOLATE.insert(line);
    }
    setupLibrary(threads);
    loadBehaviours(argv[2]);
    OUT = fopen(argv[3], "w");
    if (!OUT) throw std::runtime_error("cannot write output");
    std::vector<int> roots;
    for (size_t i = 0; i < NODES.size(); i++)
      if (NODES[i].h.empty()) roots.push_back((int)i);
    remove((std::string(argv[3]) + ".stats").c_str());
    int rc = runContained(roots, argv[3], [inflonly](int r) { runRoot(r, inflonly); }, [](int i) -> const Node& { return NODES[i]; });
    if (rc != 0) return rc;
    STATS["nodes"] = (long)NODES.size();
    STATS["roots_loaded"] = (long)roots.size();
    writeStats();
    fclose(OUT);
    return 0;
  }
  catch (const std::exception& e)
  {
    fprintf(stderr, "matrix_run: %s\n", e.what());
    return 3;
  }
}

// ------------------------------------------------------------------------------------------------
// CASES-BEGIN
int mainChol(int, char**) { return 2; }
int mainVec(int, char**) { return 2; }
// CASES-END
