// C11 binding: replays the behaviours emitted by TLC from the TLA+ module MatrixAlg (operation sequences
// with the expected register contents after each operation) into the real gstlearn matrix classes, in
// every storage: MatrixRectangular, MatrixSquareGeneral, MatrixSquareSymmetric, MatrixSparse (Eigen
// back-end and cs back-end), and compares what the library holds (read back through the public getters,
// through every reading route) with the expected values.  The harness never computes an expected value:
// expected contents come from TLC; the only arithmetic done here is the Kronecker inflation
// (A (x) J_n, A (x) I_n, factor n^p: the law itself is a checked property of the specification) and the
// residual identities of the factorisations (documented in the specification MatrixAlgChol).
//
// usage: matrix_run machine <behaviours.ndjson> <out.ndjson> [threads=N] [infl=N] [isolate=file]
//        matrix_run chol    <cases.json>        <out.ndjson> [threads=N] [infl=N]
//        matrix_run vec     <cases.json>        <out.ndjson>
// Output: one JSON line per disagreement / crash / refusal, and a last line {"stats":...}.
#include "vjson.hpp"
#include "Matrix/AMatrix.hpp"
#include "Matrix/AMatrixDense.hpp"
#include "Matrix/MatrixRectangular.hpp"
#include "Matrix/MatrixSquareGeneral.hpp"
#include "Matrix/MatrixSquareSymmetric.hpp"
#include "Matrix/MatrixSparse.hpp"
#include "Matrix/MatrixFactory.hpp"
#include "Matrix/NF_Triplet.hpp"
#include "Matrix/LinkMatrixSparse.hpp"
#include "LinearOp/CholeskyDense.hpp"
#include "LinearOp/CholeskySparse.hpp"
#include "Basic/VectorNumT.hpp"
#include "Basic/VectorHelper.hpp"
#include "Basic/AException.hpp"
#include "Enum/EOperator.hpp"
#include "geoslib_io.h"
#include <map>
#include <set>
#include <unordered_map>
#include <functional>
#include <algorithm>
#include <csignal>
#include <unistd.h>
#include <sys/mman.h>
#include <sys/wait.h>
#include <omp.h>
#include <csetjmp>
#include <cstdint>

using vj::Value;
typedef long long ll;

// ------------------------------------------------------------------------------------------------
// expected values (exact rationals over a common denominator)

struct QMat
{
  int r = 0, c = 0;
  std::vector<ll> m;   // row major
  ll d = 1;
  ll at(int i, int j) const { return m[(size_t)i * c + j]; }
  double val(int i, int j) const { return (double)at(i, j) / (double)d; }
  bool square() const { return r == c; }
};
struct QVec
{
  std::vector<ll> x;
  ll d = 1;
  double val(int i) const { return (double)x[i] / (double)d; }
};

static QMat readQMat(const Value& v)
{
  QMat q;
  const Value& m = v.at("m");
  q.r = (int)m.arr.size();
  q.c = q.r ? (int)m.arr[0].arr.size() : 0;
  for (auto& row : m.arr)
    for (auto& e : row.arr) q.m.push_back((ll)std::llround(e.num));
  q.d = (ll)std::llround(v.at("d").num);
  return q;
}
static QVec readQVec(const Value& v)
{
  QVec q;
  for (auto& e : v.at("x").arr) q.x.push_back((ll)std::llround(e.num));
  q.d = (ll)std::llround(v.at("d").num);
  return q;
}
static Value qmatJson(const QMat& q)
{
  Value o = Value::object();
  Value rows = Value::array();
  for (int i = 0; i < q.r; i++)
  {
    Value row = Value::array();
    for (int j = 0; j < q.c; j++) row.push(Value((long long)q.at(i, j)));
    rows.push(row);
  }
  o["m"] = rows;
  o["d"] = Value((long long)q.d);
  return o;
}
static Value qvecJson(const QVec& q)
{
  Value o = Value::object();
  Value xs = Value::array();
  for (ll e : q.x) xs.push(Value((long long)e));
  o["x"] = xs;
  o["d"] = Value((long long)q.d);
  return o;
}

// observed values
struct DMat
{
  int r = 0, c = 0;
  std::vector<double> m;   // row major
  double at(int i, int j) const { return m[(size_t)i * c + j]; }
};
static Value dmatJson(const DMat& q)
{
  Value rows = Value::array();
  if (q.r * (ll)q.c > 400)
  {
    Value o = Value::object();
    o["r"] = Value(q.r); o["c"] = Value(q.c);
    return o;
  }
  for (int i = 0; i < q.r; i++)
  {
    Value row = Value::array();
    for (int j = 0; j < q.c; j++) row.push(Value(q.at(i, j)));
    rows.push(row);
  }
  return rows;
}
static Value dvecJson(const std::vector<double>& v)
{
  Value a = Value::array();
  size_t n = std::min<size_t>(v.size(), 40);
  for (size_t i = 0; i < n; i++) a.push(Value(v[i]));
  return a;
}

static const double TOL = 1e-9;
static bool closeTo(double obs, double expv, bool exact)
{
  if (std::isnan(obs) || std::isinf(obs)) return false;
  if (exact) return obs == expv;
  return std::fabs(obs - expv) <= TOL * std::max(1., std::fabs(expv));
}
static bool sameMat(const DMat& o, const QMat& e, bool exact)
{
  if (o.r != e.r || o.c != e.c) return false;
  bool ex = exact && e.d == 1;
  for (int i = 0; i < e.r; i++)
    for (int j = 0; j < e.c; j++)
      if (!closeTo(o.at(i, j), e.val(i, j), ex)) return false;
  return true;
}
static bool sameVec(const std::vector<double>& o, const QVec& e, bool exact)
{
  if (o.size() != e.x.size()) return false;
  bool ex = exact && e.d == 1;
  for (size_t i = 0; i < o.size(); i++)
    if (!closeTo(o[i], e.val((int)i), ex)) return false;
  return true;
}

// ------------------------------------------------------------------------------------------------
// storages

enum Prof { RECT = 0, SQG = 1, SYM = 2, SPE = 3, SPC = 4, NPROF = 5 };
static const char* PROFNAME[NPROF] = {"rect", "sqg", "sym", "spe", "spc"};
static bool isSparseProf(int p) { return p == SPE || p == SPC; }
static const char* storageClass(int p)
{
  switch (p)
  {
    case RECT: return "MatrixRectangular";
    case SQG: return "MatrixSquareGeneral";
    case SYM: return "MatrixSquareSymmetric";
    case SPE: return "MatrixSparse(Eigen)";
    default: return "MatrixSparse(cs)";
  }
}

// error messages of the library are counted (an operation "refused with an error message")
static long g_errcount = 0;
static std::string g_lasterr;
static void errHook(const char* s)
{
  g_errcount++;
  if (g_lasterr.size() < 300) g_lasterr += s;
}
static void msgHook(const char*) {}
struct ExitRequested { };
static void exitHook() { throw ExitRequested(); }

static AMatrix* newEmpty(int p, int r, int c)
{
  switch (p)
  {
    case RECT: return new MatrixRectangular(r, c);
    case SQG: return new MatrixSquareGeneral(r);
    case SYM: return new MatrixSquareSymmetric(r);
    case SPE: return new MatrixSparse(r, c, 1);
    default: return new MatrixSparse(r, c, 0);
  }
}

// builds a real matrix holding the (rational) contents; dense storages through setValue, sparse storages
// through a triplet of the non-zero terms (dimensions forced)
static AMatrix* buildFrom(int p, int r, int c, const std::function<double(int, int)>& f)
{
  if (!isSparseProf(p))
  {
    AMatrix* a = newEmpty(p, r, c);
    for (int i = 0; i < r; i++)
      for (int j = 0; j < c; j++)
      {
        if (p == SYM && j > i) continue;
        a->setValue(i, j, f(i, j));
      }
    return a;
  }
  NF_Triplet t;
  for (int j = 0; j < c; j++)
    for (int i = 0; i < r; i++)
    {
      double x = f(i, j);
      if (x != 0.) t.add(i, j, x);
    }
  // dimensions forced by a fictitious zero term in the corner, unless the corner holds a term already
  // (NF_Triplet::force would add a second term there, which the cs storage does not merge)
  if (f(r - 1, c - 1) == 0.) t.force(r, c);
  return MatrixSparse::createFromTriplet(t, r, c, p == SPE ? 1 : 0);
}
static AMatrix* build(int p, const QMat& q)
{
  return buildFrom(p, q.r, q.c, [&q](int i, int j) { return q.val(i, j); });
}
static VectorDouble buildVec(const QVec& q)
{
  VectorDouble v(q.x.size());
  for (size_t i = 0; i < q.x.size(); i++) v[i] = q.val((int)i);
  return v;
}
static DMat readBack(const AMatrix* a)
{
  DMat d;
  d.r = a->getNRows();
  d.c = a->getNCols();
  d.m.resize((size_t)d.r * d.c);
  for (int i = 0; i < d.r; i++)
    for (int j = 0; j < d.c; j++) d.m[(size_t)i * d.c + j] = a->getValue(i, j);
  return d;
}
static std::vector<double> toStd(const VectorDouble& v) { return std::vector<double>(v.begin(), v.end()); }

// ------------------------------------------------------------------------------------------------
// operations

struct OpRec
{
  std::string op;
  int i = 0, j = 0, k = 0, l = 0;
  std::vector<int> rs, cs;   // 1-based
  std::string key;           // canonical text
};
static OpRec readOp(const Value& v)
{
  OpRec o;
  o.op = v.at("op").s();
  o.i = v.at("i").i(); o.j = v.at("j").i(); o.k = v.at("k").i(); o.l = v.at("l").i();
  o.rs = v.at("rs").ints(); o.cs = v.at("cs").ints();
  o.key = vj::dump(v);
  return o;
}
static Value opJson(const OpRec& o)
{
  Value v = Value::object();
  v["op"] = Value(o.op);
  v["i"] = Value(o.i); v["j"] = Value(o.j); v["k"] = Value(o.k); v["l"] = Value(o.l);
  v["rs"] = Value::arrayOf(o.rs); v["cs"] = Value::arrayOf(o.cs);
  return v;
}

struct Regs
{
  AMatrix* A = nullptr;
  AMatrix* B = nullptr;
  VectorDouble v;
  Regs() {}
  Regs(const Regs&) = delete;
  Regs& operator=(const Regs&) = delete;
  ~Regs() { delete A; delete B; }
  Regs* clone() const
  {
    Regs* r = new Regs();
    r->A = dynamic_cast<AMatrix*>(A->clone());
    r->B = dynamic_cast<AMatrix*>(B->clone());
    r->v = v;
    return r;
  }
};

// result of one route of an operation
struct Outcome
{
  std::string route;
  char target = 'A';          // 'A', 'B', 'v', 'S' (A and B), 'x' scalar
  bool refused = false;       // the library returned a null object / nothing
  int status = 0;             // error status returned by the library (0 = success)
  int crashed = 0;            // signal number of a fault inside the call
  std::string exception;      // text of a caught exception
  long errors = 0;            // error messages printed during the call
  std::string errtext;
  bool haveMat = false, haveMatB = false, haveVec = false;
  DMat mat, matB;
  std::vector<double> vec;
};

static VectorInt zeroBased(const std::vector<int>& l)
{
  VectorInt v;
  for (int x : l) v.push_back(x - 1);
  return v;
}
static VectorInt seqv(int n)
{
  VectorInt v(n);
  for (int i = 0; i < n; i++) v[i] = i;
  return v;
}
static VectorInt complementOf(int n, const VectorInt& l)
{
  VectorInt v;
  for (int i = 0; i < n; i++)
    if (std::find(l.begin(), l.end(), i) == l.end()) v.push_back(i);
  return v;
}
static bool ascending(const VectorInt& l)
{
  for (size_t i = 1; i < l.size(); i++)
    if (l[i] <= l[i - 1]) return false;
  return true;
}

// output vectors handed to the library have the documented size, with spare capacity behind them so
// that a call which writes a few values too many is seen as a wrong result and not as a corrupted heap
static VectorDouble outVec(int n, double fill)
{
  VectorDouble y;
  y.reserve((size_t)n + 64);
  y.resize(n, fill);
  return y;
}

typedef std::function<void(Regs&, Outcome&)> RouteFn;
struct Route
{
  std::string name;
  RouteFn fn;
};

static AMatrixDense* asDense(AMatrix* a) { return dynamic_cast<AMatrixDense*>(a); }
static MatrixSparse* asSparse(AMatrix* a) { return dynamic_cast<MatrixSparse*>(a); }
static void setMat(Outcome& o, const AMatrix* a) { o.haveMat = true; o.mat = readBack(a); }
static void setVec(Outcome& o, const VectorDouble& v) { o.haveVec = true; o.vec = toStd(v); }

// the routes of an operation in a storage; the first one is the primary route (its result becomes the
// register); the others are evaluated on clones of the registers and only compared
// storage kinds for the mixed-storage routes: 0 dense (MatrixRectangular), 1 sparse Eigen, 2 sparse cs
static int ownKind(int p) { return p == SPE ? 1 : (p == SPC ? 2 : 0); }
static int otherKind(int p) { return isSparseProf(p) ? 0 : 1; }
static const char* kindName(int k) { return k == 0 ? "dense" : (k == 1 ? "sparse(Eigen)" : "sparse(cs)"); }
static AMatrix* newEmptyKind(int k, int r, int c)
{
  if (k == 0) return new MatrixRectangular(r, c);
  return new MatrixSparse(r, c, k == 1 ? 1 : 0);
}
static AMatrix* convertKind(const AMatrix* a, int k)
{
  return buildFrom(k == 0 ? RECT : (k == 1 ? SPE : SPC), a->getNRows(), a->getNCols(), [a](int i, int j) { return a->getValue(i, j); });
}

static std::vector<Route> routesOf(const OpRec& o, int p, const Regs& pre, bool mixed = false)
{
  std::vector<Route> R;
  const std::string& op = o.op;
  int r = pre.A->getNRows(), c = pre.A->getNCols();
  bool sp = isSparseProf(p);
  int eig = (p == SPE) ? 1 : 0;
  auto add = [&R](const std::string& n, RouteFn f) { R.push_back(Route{n, f}); };

  if (op == "SetValue")
  {
    int i = o.i - 1, j = o.j - 1; double k = o.k;
    add("setValue", [=](Regs& g, Outcome&) { g.A->setValue(i, j, k); });
    add("setValue(flagCheck)", [=](Regs& g, Outcome&) { g.A->setFlagCheckAddress(true); g.A->setValue(i, j, k, true); g.A->setFlagCheckAddress(false); });
    add("addValue", [=](Regs& g, Outcome&) { double old = g.A->getValue(i, j); g.A->addValue(i, j, k - old); });
    add("updValue(ADD)", [=](Regs& g, Outcome&) { double old = g.A->getValue(i, j); g.A->updValue(i, j, EOperator::ADD, k - old); });
  }
  else if (op == "SetSym")
  {
    int i = o.i - 1, j = o.j - 1; double k = o.k;
    if (p == SYM)
    {
      add("setValue(i,j)", [=](Regs& g, Outcome&) { g.A->setValue(i, j, k); });
      add("setValue(j,i)", [=](Regs& g, Outcome&) { g.A->setValue(j, i, k); });
      add("updValue(ADD)", [=](Regs& g, Outcome&) { double old = g.A->getValue(i, j); g.A->updValue(i, j, EOperator::ADD, k - old); });
    }
    else
      add("setValue(i,j)+setValue(j,i)", [=](Regs& g, Outcome&) { g.A->setValue(i, j, k); g.A->setValue(j, i, k); });
  }
  else if (op == "SetRow")
  {
    int i = o.i - 1;
    add("setRow", [=](Regs& g, Outcome&) { g.A->setRow(i, g.v); });
    add("setRow(flagCheck)", [=](Regs& g, Outcome&) { g.A->setFlagCheckAddress(true); g.A->setRow(i, g.v, true); g.A->setFlagCheckAddress(false); });
  }
  else if (op == "SetCol")
  {
    int j = o.j - 1;
    add("setColumn", [=](Regs& g, Outcome&) { g.A->setColumn(j, g.v); });
    add("setColumn(flagCheck)", [=](Regs& g, Outcome&) { g.A->setFlagCheckAddress(true); g.A->setColumn(j, g.v, true); g.A->setFlagCheckAddress(false); });
  }
  else if (op == "SetDiag")
  {
    add("setDiagonal", [=](Regs& g, Outcome&) { g.A->setDiagonal(g.v); });
    add("setDiagonal(flagCheck)", [=](Regs& g, Outcome&) { g.A->setDiagonal(g.v, true); });
    if (sp)
      add("MatrixSparse::diagVec", [=](Regs& g, Outcome& out) {
        MatrixSparse* m = MatrixSparse::diagVec(g.v, eig);
        if (m == nullptr) { out.refused = true; return; }
        delete g.A; g.A = m; });
  }
  else if (op == "SetDiagConst")
  {
    double k = o.k;
    add("setDiagonalToConstant", [=](Regs& g, Outcome&) { g.A->setDiagonalToConstant(k); });
    if (sp)
      add("MatrixSparse::diagConstant", [=](Regs& g, Outcome& out) {
        MatrixSparse* m = MatrixSparse::diagConstant(g.A->getNRows(), k, eig);
        if (m == nullptr) { out.refused = true; return; }
        delete g.A; g.A = m; });
  }
  else if (op == "TransposeInPlace")
  {
    add("transposeInPlace", [=](Regs& g, Outcome&) { g.A->transposeInPlace(); });
    add("transpose", [=](Regs& g, Outcome& out) {
      AMatrix* t = g.A->transpose();
      if (t == nullptr) { out.refused = true; return; }
      delete g.A; g.A = t; });
  }
  else if (op == "AddScalar")
  {
    double k = o.k;
    add("addScalar", [=](Regs& g, Outcome&) { g.A->addScalar(k); });
  }
  else if (op == "AddScalarDiag")
  {
    double k = o.k;
    add("addScalarDiag", [=](Regs& g, Outcome&) { g.A->addScalarDiag(k); });
  }
  else if (op == "ProdScalar")
  {
    double k = o.k;
    add("prodScalar", [=](Regs& g, Outcome&) { g.A->prodScalar(k); });
  }
  else if (op == "Fill")
  {
    double k = o.k;
    add("fill", [=](Regs& g, Outcome&) { g.A->fill(k); });
    if (!sp && p == RECT)
      add("resetFromValue", [=](Regs& g, Outcome&) { g.A->resetFromValue(g.A->getNRows(), g.A->getNCols(), k); });
  }
  else if (op == "SetIdentity")
  {
    double k = o.k;
    add("setIdentity", [=](Regs& g, Outcome&) { g.A->setIdentity(k); });
  }
  else if (op == "MultiplyRow")
    add("multiplyRow", [=](Regs& g, Outcome&) { g.A->multiplyRow(g.v); });
  else if (op == "MultiplyColumn")
    add("multiplyColumn", [=](Regs& g, Outcome&) { g.A->multiplyColumn(g.v); });
  else if (op == "DivideRow")
    add("divideRow", [=](Regs& g, Outcome&) { g.A->divideRow(g.v); });
  else if (op == "DivideColumn")
    add("divideColumn", [=](Regs& g, Outcome&) { g.A->divideColumn(g.v); });
  else if (op == "AddMat")
  {
    double cx = o.k, cy = o.l;
    if (!sp)
      add("AMatrixDense::addMatInPlace", [=](Regs& g, Outcome&) { asDense(g.A)->addMatInPlace(*asDense(g.B), cx, cy); });
    else
    {
      add("MatrixSparse::addMatInPlace", [=](Regs& g, Outcome&) { asSparse(g.A)->addMatInPlace(*asSparse(g.B), cx, cy); });
      add("MatrixSparse::addMatMat", [=](Regs& g, Outcome& out) {
        MatrixSparse* m = MatrixSparse::addMatMat(asSparse(g.A), asSparse(g.B), cx, cy);
        if (m == nullptr) { out.refused = true; return; }
        delete g.A; g.A = m; });
    }
    // (element-wise assignment: the cs storage documents that it cannot create a non-zero term in place)
    if (p != SPC)
      add("AMatrix::addMatInPlace", [=](Regs& g, Outcome&) { g.A->AMatrix::addMatInPlace(*g.B, cx, cy); });
  }
  else if (op == "LinComb")
  {
    double c1 = o.k, c2 = o.l;
    add("linearCombination(fresh)", [=](Regs& g, Outcome&) {
      AMatrix* res = newEmpty(p, g.A->getNRows(), g.A->getNCols());
      if (isSparseProf(p)) res->fill(1.);
      res->linearCombination(c1, g.A, c2, g.B);
      delete g.A; g.A = res; });
    add("linearCombination(this)", [=](Regs& g, Outcome&) { g.A->linearCombination(c1, g.A, c2, g.B); });
  }
  else if (op == "ProdMatMat")
  {
    bool ta = o.i == 1, tb = o.j == 1;
    int nr = ta ? c : r;
    int nc = tb ? pre.B->getNRows() : pre.B->getNCols();
    add("prodMatMatInPlace", [=](Regs& g, Outcome&) {
      AMatrix* res = newEmpty(p, nr, nc);
      res->prodMatMatInPlace(g.A, g.B, ta, tb);
      delete g.A; g.A = res; });
    add("MatrixFactory::prodMatMat", [=](Regs& g, Outcome& out) {
      AMatrix* res = MatrixFactory::prodMatMat(g.A, g.B, ta, tb);
      if (res == nullptr) { out.refused = true; return; }
      delete g.A; g.A = res; });
    add("MatrixFactory::prodMatMat<T>", [=](Regs& g, Outcome& out) {
      AMatrix* res = nullptr;
      if (p == RECT) res = MatrixFactory::prodMatMat<MatrixRectangular>(g.A, g.B, ta, tb);
      else if (p == SQG) res = MatrixFactory::prodMatMat<MatrixSquareGeneral>(g.A, g.B, ta, tb);
      else if (p == SYM) res = MatrixFactory::prodMatMat<MatrixSquareSymmetric>(g.A, g.B, ta, tb);
      else
        res = MatrixFactory::prodMatMat<MatrixSparse>(g.A, g.B, ta, tb);
      if (res == nullptr) { out.refused = true; return; }
      delete g.A; g.A = res; });
    if (!ta && nc == c)
      add("prodMatInPlace", [=](Regs& g, Outcome&) { g.A->prodMatInPlace(g.B, tb); });
  }
  else if (op == "ProdNormMatMat" || op == "ProdNormMatVec" || op == "ProdNormMat")
  {
    bool t = o.i == 1;
    int n = t ? c : r;
    bool withM = op == "ProdNormMatMat", withV = op == "ProdNormMatVec";
    auto vecOf = [=](Regs& g) { return withV ? g.v : VectorDouble(); };
    if (!sp)
    {
      add("AMatrixDense::prodNorm*InPlace", [=](Regs& g, Outcome&) {
        AMatrix* res = newEmpty(p, n, n);
        if (withM) asDense(res)->prodNormMatMatInPlace(asDense(g.A), asDense(g.B), t);
        else asDense(res)->prodNormMatVecInPlace(*asDense(g.A), vecOf(g), t);
        delete g.A; g.A = res; });
      add("prodNormMatMat/prodNormMat(free)", [=](Regs& g, Outcome& out) {
        MatrixSquareGeneral* res = withM ? prodNormMatMat(asDense(g.A), asDense(g.B), t) : prodNormMat(*asDense(g.A), vecOf(g), t);
        if (res == nullptr) { out.refused = true; return; }
        delete g.A; g.A = res; });
      add("AMatrix::prodNorm*InPlace", [=](Regs& g, Outcome&) {
        AMatrix* res = newEmpty(p, n, n);
        if (withM) res->AMatrix::prodNormMatMatInPlace(g.A, g.B, t);
        else res->AMatrix::prodNormMatVecInPlace(*g.A, vecOf(g), t);
        delete g.A; g.A = res; });
      if (!withV && (!withM || pre.B->isSymmetric()))
        add("MatrixSquareSymmetric::normMatrix", [=](Regs& g, Outcome&) {
          // normMatrix(y, x, T): t(Y) X Y for T = false, Y X t(Y) for T = true
          MatrixSquareSymmetric* res = new MatrixSquareSymmetric(n);
          if (withM)
          {
            MatrixSquareGeneral x(*g.B);
            res->normMatrix(*g.A, x, !t);
          }
          else
            res->normMatrix(*g.A, AMatrixSquare(), !t);
          delete g.A; g.A = res; });
    }
    else
    {
      add("MatrixSparse::prodNorm*InPlace", [=](Regs& g, Outcome&) {
        MatrixSparse* res = new MatrixSparse(n, n, eig);
        if (withM) res->prodNormMatMatInPlace(asSparse(g.A), asSparse(g.B), t);
        else res->prodNormMatVecInPlace(asSparse(g.A), vecOf(g), t);
        delete g.A; g.A = res; });
      add("prodNormMatMat/prodNormMat(free)", [=](Regs& g, Outcome& out) {
        MatrixSparse* res = withM ? prodNormMatMat(asSparse(g.A), asSparse(g.B), t) : prodNormMat(asSparse(g.A), vecOf(g), t);
        if (res == nullptr) { out.refused = true; return; }
        delete g.A; g.A = res; });
    }
  }
  else if (op == "Pick" || op == "PickInv")
  {
    bool inv = op == "PickInv";
    VectorInt rs0 = zeroBased(o.rs), cs0 = zeroBased(o.cs);
    VectorInt rows = rs0.empty() ? seqv(r) : (inv ? complementOf(r, rs0) : rs0);
    VectorInt cols = cs0.empty() ? seqv(c) : (inv ? complementOf(c, cs0) : cs0);
    int nr = (int)rows.size(), nc = (int)cols.size();
    bool invR = inv && !rs0.empty(), invC = inv && !cs0.empty();
    if (!sp)
    {
      add("copyReduce", [=](Regs& g, Outcome&) {
        AMatrix* res = newEmpty(p, nr, nc);
        res->copyReduce(g.A, rows, cols);
        delete g.A; g.A = res; });
      add("MatrixRectangular::sample", [=](Regs& g, Outcome& out) {
        MatrixRectangular* res = MatrixRectangular::sample(g.A, rs0, cs0, invR, invC);
        if (res == nullptr) { out.refused = true; return; }
        delete g.A; g.A = res; });
      if (p == SYM)
        add("MatrixSquareSymmetric::sample", [=](Regs& g, Outcome& out) {
          MatrixSquareSymmetric* res = MatrixSquareSymmetric::sample(dynamic_cast<MatrixSquareSymmetric*>(g.A), rs0, invR);
          if (res == nullptr) { out.refused = true; return; }
          delete g.A; g.A = res; });
      if (ascending(rs0) && ascending(cs0))
        add("MatrixFactory::createReduce", [=](Regs& g, Outcome& out) {
          AMatrix* res = MatrixFactory::createReduce(g.A, rs0, cs0, !invR, !invC);
          if (res == nullptr) { out.refused = true; return; }
          delete g.A; g.A = res; });
    }
    else
    {
      add("extractSubmatrixByRanks", [=](Regs& g, Outcome& out) {
        VectorInt rr(g.A->getNRows(), -1), rc(g.A->getNCols(), -1);
        for (int a = 0; a < nr; a++) rr[rows[a]] = a;
        for (int b = 0; b < nc; b++) rc[cols[b]] = b;
        MatrixSparse* res = asSparse(g.A)->extractSubmatrixByRanks(rr, rc);
        if (res == nullptr) { out.refused = true; return; }
        delete g.A; g.A = res; });
      add("MatrixRectangular::sample(sparse)", [=](Regs& g, Outcome& out) {
        MatrixRectangular* res = MatrixRectangular::sample(g.A, rs0, cs0, invR, invC);
        if (res == nullptr) { out.refused = true; return; }
        delete g.A; g.A = res; });
      add("copyReduce", [=](Regs& g, Outcome&) {
        AMatrix* res = newEmpty(p, nr, nc);
        res->copyReduce(g.A, rows, cols);
        delete g.A; g.A = res; });
    }
  }
  else if (op == "Glue")
  {
    bool sr = o.i == 1, scol = o.j == 1;
    if (!sp)
    {
      add("MatrixRectangular::glue", [=](Regs& g, Outcome& out) {
        MatrixRectangular* res = MatrixRectangular::glue(g.A, g.B, sr, scol);
        if (res == nullptr) { out.refused = true; return; }
        delete g.A; g.A = res; });
      bool okFactory = (!sr || c == pre.B->getNCols()) && (!scol || r == pre.B->getNRows());
      if (okFactory)
        add("MatrixFactory::createGlue", [=](Regs& g, Outcome& out) {
          AMatrix* res = MatrixFactory::createGlue(g.A, g.B, sr, scol);
          if (res == nullptr) { out.refused = true; return; }
          delete g.A; g.A = res; });
    }
    else
    {
      add("MatrixSparse::glue", [=](Regs& g, Outcome& out) {
        MatrixSparse* res = MatrixSparse::glue(asSparse(g.A), asSparse(g.B), sr, scol);
        if (res == nullptr) { out.refused = true; return; }
        delete g.A; g.A = res; });
      add("MatrixSparse::glueInPlace", [=](Regs& g, Outcome&) { MatrixSparse::glueInPlace(asSparse(g.A), asSparse(g.B), sr, scol); });
      add("MatrixFactory::createGlue", [=](Regs& g, Outcome& out) {
        AMatrix* res = MatrixFactory::createGlue(g.A, g.B, sr, scol);
        if (res == nullptr) { out.refused = true; return; }
        delete g.A; g.A = res; });
    }
  }
  else if (op == "Invert")
  {
    add("invert", [=](Regs& g, Outcome& out) { out.status = g.A->invert(); });
    if (p == SYM)
      add("computeGeneralizedInverse", [=](Regs& g, Outcome& out) {
        MatrixSquareSymmetric* s = dynamic_cast<MatrixSquareSymmetric*>(g.A);
        MatrixSquareSymmetric* res = new MatrixSquareSymmetric(s->getNRows());
        out.status = s->computeGeneralizedInverse(*res);
        delete g.A; g.A = res; });
  }
  else if (op == "Solve")
  {
    add("solve", [=](Regs& g, Outcome& out) {
      VectorDouble x(g.v.size(), 0.);
      out.status = g.A->solve(g.v, x);
      g.v = x; });
  }
  else if (op == "Swap")
    add("swap", [=](Regs& g, Outcome&) { std::swap(g.A, g.B); });
  else if (op == "Copy")
  {
    add("clone", [=](Regs& g, Outcome&) { AMatrix* b = dynamic_cast<AMatrix*>(g.A->clone()); delete g.B; g.B = b; });
    add("copy constructor", [=](Regs& g, Outcome&) {
      AMatrix* b = nullptr;
      if (p == RECT) b = new MatrixRectangular(*dynamic_cast<MatrixRectangular*>(g.A));
      else if (p == SQG) b = new MatrixSquareGeneral(*dynamic_cast<MatrixSquareGeneral*>(g.A));
      else if (p == SYM) b = new MatrixSquareSymmetric(*dynamic_cast<MatrixSquareSymmetric*>(g.A));
      else b = new MatrixSparse(*asSparse(g.A));
      delete g.B; g.B = b; });
    add("assignment", [=](Regs& g, Outcome&) {
      if (p == RECT) *dynamic_cast<MatrixRectangular*>(g.B) = *dynamic_cast<MatrixRectangular*>(g.A);
      else if (p == SQG) *dynamic_cast<MatrixSquareGeneral*>(g.B) = *dynamic_cast<MatrixSquareGeneral*>(g.A);
      else if (p == SYM) *dynamic_cast<MatrixSquareSymmetric*>(g.B) = *dynamic_cast<MatrixSquareSymmetric*>(g.A);
      else *asSparse(g.B) = *asSparse(g.A); });
    if (!sp)
    {
      add("constructor from AMatrix", [=](Regs& g, Outcome&) {
        const AMatrix& a = *g.A;
        AMatrix* b = nullptr;
        if (p == RECT) b = new MatrixRectangular(a);
        else if (p == SQG) b = new MatrixSquareGeneral(a);
        else b = new MatrixSquareSymmetric(a);
        delete g.B; g.B = b; });
      add("dense->sparse(Eigen)->dense", [=](Regs& g, Outcome& out) {
        MatrixSparse* s = createFromAnyMatrix(g.A, 1);
        if (s == nullptr) { out.refused = true; return; }
        delete g.B; g.B = s; });
      add("dense->sparse(cs)->dense", [=](Regs& g, Outcome& out) {
        MatrixSparse* s = createFromAnyMatrix(g.A, 0);
        if (s == nullptr) { out.refused = true; return; }
        delete g.B; g.B = s; });
    }
    else
    {
      add("sparse->MatrixRectangular", [=](Regs& g, Outcome&) {
        const AMatrix& a = *g.A;
        AMatrix* b = new MatrixRectangular(a);
        delete g.B; g.B = b; });
      add("createFromAnyMatrix(sparse)", [=](Regs& g, Outcome& out) {
        MatrixSparse* s = createFromAnyMatrix(g.A, eig);
        if (s == nullptr) { out.refused = true; return; }
        delete g.B; g.B = s; });
      add("triplet round trip", [=](Regs& g, Outcome& out) {
        NF_Triplet t = g.A->getMatrixToTriplet();
        MatrixSparse* s = MatrixSparse::createFromTriplet(t, g.A->getNRows(), g.A->getNCols(), eig);
        if (s == nullptr) { out.refused = true; return; }
        delete g.B; g.B = s; });
    }
  }
  else if (op == "MatVec")
  {
    bool t = o.i == 1;
    int nout = t ? c : r;
    add("prodMatVec", [=](Regs& g, Outcome&) { g.v = g.A->prodMatVec(g.v, t); });
    add("prodMatVecInPlace", [=](Regs& g, Outcome&) { VectorDouble y = outVec(nout, 7.); g.A->prodMatVecInPlace(g.v, y, t); g.v = y; });
    add("prodMatVecInPlace(span)", [=](Regs& g, Outcome& out) {
      VectorDouble y = outVec(nout, 7.);
      constvect xs(g.v.data(), g.v.size());
      vect ys(y.data(), y.size());
      if (g.A->prodMatVecInPlace(xs, ys, t) != 0) { out.refused = true; return; }
      g.v = y; });
    add("prodMatVecInPlacePtr", [=](Regs& g, Outcome&) { VectorDouble y = outVec(nout, 7.); g.A->prodMatVecInPlacePtr(g.v.data(), y.data(), t); g.v = y; });
    add("addProdMatVecInPlace", [=](Regs& g, Outcome& out) {
      VectorDouble y = outVec(nout, 0.);
      constvect xs(g.v.data(), g.v.size());
      vect ys(y.data(), y.size());
      if (g.A->addProdMatVecInPlace(xs, ys, t) != 0) { out.refused = true; return; }
      g.v = y; });
    if (sp)
    {
      add("addProdMatVecInPlaceToDest", [=](Regs& g, Outcome&) {
        VectorDouble y = outVec(nout, 0.);
        constvect xs(g.v.data(), g.v.size());
        vect ys(y.data(), y.size());
        asSparse(g.A)->addProdMatVecInPlaceToDest(xs, ys, t);
        g.v = y; });
      if (!t)
        add("addVecInPlaceVD", [=](Regs& g, Outcome& out) {
          VectorDouble y = outVec(nout, 0.);
          if (asSparse(g.A)->addVecInPlaceVD(g.v, y) != 0) { out.refused = true; return; }
          g.v = y; });
      if (!t && r == c)
        add("ALinearOp::evalDirect", [=](Regs& g, Outcome& out) {
          VectorDouble y = outVec(nout, 7.);
          if (asSparse(g.A)->evalDirect(g.v, y) != 0) { out.refused = true; return; }
          g.v = y; });
    }
  }
  else if (op == "VecMat")
  {
    bool t = o.i == 1;
    int nout = t ? r : c;
    add("prodVecMat", [=](Regs& g, Outcome&) { g.v = g.A->prodVecMat(g.v, t); });
    add("prodVecMatInPlace", [=](Regs& g, Outcome&) { VectorDouble y = outVec(nout, 7.); g.A->prodVecMatInPlace(g.v, y, t); g.v = y; });
    add("prodVecMatInPlacePtr", [=](Regs& g, Outcome&) { VectorDouble y = outVec(nout, 7.); g.A->prodVecMatInPlacePtr(g.v.data(), y.data(), t); g.v = y; });
  }
  else if (op == "GetRow")
  {
    int i = o.i - 1;
    add("getRow", [=](Regs& g, Outcome&) { g.v = g.A->getRow(i); });
  }
  else if (op == "GetCol")
  {
    int j = o.j - 1;
    add("getColumn", [=](Regs& g, Outcome&) { g.v = g.A->getColumn(j); });
    if (!sp)
      add("getColumnPtr", [=](Regs& g, Outcome&) { constvect cv = asDense(g.A)->getColumnPtr(j); g.v = VectorDouble(cv.begin(), cv.end()); });
    if (p == SPE)
      add("getColumnAsMatrixSparse", [=](Regs& g, Outcome& out) {
        MatrixSparse* m = asSparse(g.A)->getColumnAsMatrixSparse(j, 1.);
        if (m == nullptr) { out.refused = true; return; }
        VectorDouble x(m->getNRows());
        for (int i = 0; i < m->getNRows(); i++) x[i] = m->getValue(i, 0);
        delete m;
        g.v = x; });
  }
  else if (op == "GetDiag")
  {
    int sh = o.k;
    add("getDiagonal", [=](Regs& g, Outcome&) { g.v = g.A->getDiagonal(sh); });
    if (sp && sh == 0)
      add("extractDiag", [=](Regs& g, Outcome&) { g.v = asSparse(g.A)->extractDiag(1); });
  }
  // mixed storages: the destination and the operands are held in different storages, which sends the call to the
  // generic (element by element) implementations of the AMatrix base class.  Every combination the API accepts,
  // except a cs destination (it cannot receive new non-zero terms in place).
  if (mixed)
  {
    int kinds[2] = {ownKind(p), otherKind(p)};
    auto label = [](const std::string& what, int dk, int k1, int k2) {
      std::string s = "mixed " + what + " [dest=" + kindName(dk) + ", " + kindName(k1);
      if (k2 >= 0) s += std::string(", ") + kindName(k2);
      return s + "]"; };
    if (op == "ProdMatMat")
    {
      bool ta = o.i == 1, tb = o.j == 1;
      int nr = ta ? c : r;
      int nc = tb ? pre.B->getNRows() : pre.B->getNCols();
      for (int dk : kinds) for (int xk : kinds) for (int yk : kinds)
      {
        if (dk == 2 || (dk == kinds[0] && xk == kinds[0] && yk == kinds[0])) continue;
        add(label("prodMatMatInPlace", dk, xk, yk), [=](Regs& g, Outcome&) {
          AMatrix* x = convertKind(g.A, xk); AMatrix* y = convertKind(g.B, yk);
          AMatrix* res = newEmptyKind(dk, nr, nc);
          res->prodMatMatInPlace(x, y, ta, tb);
          delete x; delete y; delete g.A; g.A = res; });
      }
    }
    else if (op == "ProdNormMatMat")
    {
      bool t = o.i == 1;
      int n = t ? c : r;
      for (int dk : kinds) for (int ak : kinds) for (int mk : kinds)
      {
        if (dk == 2 || (!sp && dk == kinds[0] && ak == kinds[0] && mk == kinds[0])) continue;
        add(label("AMatrix::prodNormMatMatInPlace", dk, ak, mk), [=](Regs& g, Outcome&) {
          AMatrix* a = convertKind(g.A, ak); AMatrix* m = convertKind(g.B, mk);
          AMatrix* res = newEmptyKind(dk, n, n);
          res->AMatrix::prodNormMatMatInPlace(a, m, t);
          delete a; delete m; delete g.A; g.A = res; });
      }
    }
    else if (op == "ProdNormMatVec" || op == "ProdNormMat")
    {
      bool t = o.i == 1;
      int n = t ? c : r;
      bool withV = op == "ProdNormMatVec";
      for (int dk : kinds) for (int ak : kinds)
      {
        if (dk == 2 || (!sp && dk == kinds[0] && ak == kinds[0])) continue;
        add(label("AMatrix::prodNormMatVecInPlace", dk, ak, -1), [=](Regs& g, Outcome&) {
          AMatrix* a = convertKind(g.A, ak);
          AMatrix* res = newEmptyKind(dk, n, n);
          res->AMatrix::prodNormMatVecInPlace(*a, withV ? g.v : VectorDouble(), t);
          delete a; delete g.A; g.A = res; });
      }
    }
    else if (op == "AddMat")
    {
      double cx = o.k, cy = o.l;
      for (int tk : kinds) for (int yk : kinds)
      {
        if (tk == 2 || (p != SPC && tk == kinds[0] && yk == kinds[0])) continue;
        add(label("AMatrix::addMatInPlace", tk, yk, -1), [=](Regs& g, Outcome&) {
          AMatrix* x = convertKind(g.A, tk); AMatrix* y = convertKind(g.B, yk);
          x->AMatrix::addMatInPlace(*y, cx, cy);
          delete y; delete g.A; g.A = x; });
      }
    }
    else if (op == "LinComb")
    {
      double c1 = o.k, c2 = o.l;
      for (int dk : kinds) for (int k1 : kinds) for (int k2 : kinds)
      {
        if (dk == 2 || (dk == kinds[0] && k1 == kinds[0] && k2 == kinds[0])) continue;
        add(label("linearCombination", dk, k1, k2), [=](Regs& g, Outcome&) {
          AMatrix* m1 = convertKind(g.A, k1); AMatrix* m2 = convertKind(g.B, k2);
          AMatrix* res = newEmptyKind(dk, g.A->getNRows(), g.A->getNCols());
          res->linearCombination(c1, m1, c2, m2);
          delete m1; delete m2; delete g.A; g.A = res; });
      }
    }
  }
  return R;
}

// the registers of a storage profile always hold objects of the class of the profile: a result returned
// in another class (e.g. MatrixRectangular::glue, prodNormMat returning a MatrixSquareGeneral) is
// converted through the public converting constructors / triplets
static bool isProfClass(int p, const AMatrix* a)
{
  switch (p)
  {
    case RECT: return dynamic_cast<const MatrixRectangular*>(a) != nullptr && dynamic_cast<const AMatrixSquare*>(a) == nullptr;
    case SQG: return dynamic_cast<const MatrixSquareGeneral*>(a) != nullptr;
    case SYM: return dynamic_cast<const MatrixSquareSymmetric*>(a) != nullptr;
    case SPE: { const MatrixSparse* s = dynamic_cast<const MatrixSparse*>(a); return s != nullptr && s->isFlagEigen(); }
    default: { const MatrixSparse* s = dynamic_cast<const MatrixSparse*>(a); return s != nullptr && !s->isFlagEigen(); }
  }
}
static void coerce(int p, AMatrix*& a)
{
  if (isProfClass(p, a)) return;
  AMatrix* b = buildFrom(p, a->getNRows(), a->getNCols(), [a](int i, int j) { return a->getValue(i, j); });
  delete a;
  a = b;
}

static char targetOf(const std::string& op)
{
  if (op == "MatVec" || op == "VecMat" || op == "GetRow" || op == "GetCol" || op == "GetDiag" || op == "Solve") return 'v';
  if (op == "Copy") return 'B';
  if (op == "Swap") return 'S';
  return 'A';
}

// ------------------------------------------------------------------------------------------------
// behaviours

struct Node
{
  int id0 = 0;
  std::vector<OpRec> h;
  QMat A, B;
  QVec v;
  bool ap = false;
  bool pf[NPROF] = {false, false, false, false, false};
  bool mr[NPROF] = {false, false, false, false, false};
  int kj = -1, ki = -1;
  Value obs;
  std::vector<int> children;
  int parent = -1;
};
static std::vector<Node> NODES;

static int profIndex(const std::string& s)
{
  for (int p = 0; p < NPROF; p++)
    if (s == PROFNAME[p]) return p;
  return -1;
}

static std::string histKey(int id0, const std::vector<OpRec>& h, size_t n)
{
  std::string k = std::to_string(id0);
  for (size_t i = 0; i < n; i++) { k += "|"; k += h[i].key; }
  return k;
}

static void loadBehaviours(const std::string& path)
{
  std::ifstream f(path);
  if (!f) throw std::runtime_error("cannot open " + path);
  std::string line;
  std::unordered_map<std::string, int> index;
  while (std::getline(f, line))
  {
    if (line.empty()) continue;
    Value v = vj::parse(line);
    if (v.kind == Value::Str) v = vj::parse(v.str);   // TLC prints a JSON string literal
    Node n;
    n.id0 = v.at("id").i();
    for (auto& o : v.at("h").arr) n.h.push_back(readOp(o));
    std::string key = histKey(n.id0, n.h, n.h.size());
    if (index.count(key)) continue;
    n.A = readQMat(v.at("A"));
    n.B = readQMat(v.at("B"));
    n.v = readQVec(v.at("v"));
    n.ap = v.at("ap").boolean();
    for (auto& s : v.at("pf").arr) { int p = profIndex(s.s()); if (p >= 0) n.pf[p] = true; }
    for (auto& s : v.at("mr").arr) { int p = profIndex(s.s()); if (p >= 0) n.mr[p] = true; }
    n.kj = v.at("kj").i();
    n.ki = v.at("ki").i();
    n.obs = v.at("obs");
    index[key] = (int)NODES.size();
    NODES.push_back(std::move(n));
  }
  for (size_t i = 0; i < NODES.size(); i++)
  {
    Node& n = NODES[i];
    if (n.h.empty()) continue;
    auto it = index.find(histKey(n.id0, n.h, n.h.size() - 1));
    if (it == index.end()) throw std::runtime_error("behaviour without its prefix (id " + std::to_string(n.id0) + ")");
    n.parent = it->second;
    NODES[it->second].children.push_back((int)i);
  }
}

// ------------------------------------------------------------------------------------------------
// reporting

static FILE* OUT = nullptr;
static std::map<std::string, long> STATS;
static void stat(const std::string& k, long n = 1) { STATS[k] += n; }

// progress marker shared with the parent process (crash containment)
struct Marker
{
  int node;
  int prof;
  int route;
  int phase;    // 0 machine, 1 inflation
  int extra;
  char text[200];
};
static Marker* MARK = nullptr;
static std::set<std::string> SKIP;   // node:prof:route:phase:extra triples that crashed in a previous attempt
static std::string markKey(int node, int prof, int route, int phase, int extra)
{
  return std::to_string(node) + ":" + std::to_string(prof) + ":" + std::to_string(route) + ":" + std::to_string(phase) + ":" + std::to_string(extra);
}
static bool enter(int node, int prof, int route, int phase, int extra, const std::string& text)
{
  if (SKIP.count(markKey(node, prof, route, phase, extra))) return false;
  if (MARK)
  {
    MARK->node = node; MARK->prof = prof; MARK->route = route; MARK->phase = phase; MARK->extra = extra;
    snprintf(MARK->text, sizeof MARK->text, "%s", text.c_str());
  }
  return true;
}

static Value histJson(const Node& n)
{
  Value h = Value::array();
  for (auto& o : n.h) h.push(opJson(o));
  return h;
}
static std::string shapeClass(int r, int c)
{
  if (r == c) return "square";
  if (r == 1 || c == 1) return r < c ? "row-vector" : "column-vector";
  return r < c ? "wide" : "tall";
}

static void report(const char* kind, const Node& n, const Node* pre, int p, const std::string& route, const std::string& what,
                   const Value& expected, const Value& observed, const std::string& note, const std::string& variant = "")
{
  Value rec = Value::object();
  rec["kind"] = Value(kind);
  rec["id"] = Value(n.id0);
  rec["op"] = Value(n.h.empty() ? std::string("init") : n.h.back().op);
  rec["storage"] = Value(std::string(PROFNAME[p]));
  rec["class"] = Value(std::string(storageClass(p)));
  rec["route"] = Value(route);
  rec["what"] = Value(what);
  const QMat& ref = pre ? pre->A : n.A;
  rec["shape"] = Value(shapeClass(ref.r, ref.c));
  const QMat& refB = pre ? pre->B : n.B;
  rec["shapeB"] = Value(shapeClass(refB.r, refB.c));
  if (!n.h.empty())
  {
    const OpRec& o = n.h.back();
    bool tflag = (o.op == "ProdMatMat" || o.op == "MatVec" || o.op == "VecMat" || o.op.rfind("ProdNorm", 0) == 0);
    if (tflag) rec["transpose"] = Value(o.i == 1);
    if (o.op == "ProdMatMat") rec["transposeB"] = Value(o.j == 1);
  }
  rec["depth"] = Value((int)n.h.size());
  if (!variant.empty()) rec["variant"] = Value(variant);
  rec["h"] = histJson(n);
  if (pre)
  {
    Value pr = Value::object();
    pr["A"] = qmatJson(pre->A); pr["B"] = qmatJson(pre->B); pr["v"] = qvecJson(pre->v);
    rec["pre"] = pr;
  }
  rec["expected"] = expected;
  rec["observed"] = observed;
  if (!note.empty()) rec["note"] = Value(note);
  // symptom: the observed matrix has lost trailing empty rows / columns (dimension = extent of the non-zero terms)
  if (what.find("(storage dimensions)") != std::string::npos) rec["symptom"] = Value("storage-dimensions");
  else if (observed.kind == Value::Obj && observed.has(what == "B" ? "B" : "A") && observed.at(what == "B" ? "B" : "A").kind == Value::Arr)
  {
    const QMat& e = (what == "B") ? n.B : n.A;
    const Value& oa = observed.at(what == "B" ? "B" : "A");
    int orow = (int)oa.arr.size(), ocol = orow ? (int)oa.arr[0].arr.size() : 0;
    int er = 0, ec = 0;
    for (int i = 0; i < e.r; i++) for (int j = 0; j < e.c; j++) if (e.at(i, j) != 0) { er = std::max(er, i + 1); ec = std::max(ec, j + 1); }
    if (orow != e.r || ocol != e.c)
      rec["symptom"] = Value(std::string((orow == std::max(er, 1) || orow == e.r) && (ocol == std::max(ec, 1) || ocol == e.c) ? "dims-shrunk-to-nonzero-extent" : "wrong-dims"));
  }
  std::string s = vj::dump(rec);
  fprintf(OUT, "%s\n", s.c_str());
  fflush(OUT);
}

// ------------------------------------------------------------------------------------------------
// one step in one storage

struct StepResult
{
  bool ok = true;        // primary route agreed (the registers can be used further)
};

// in-process recovery from a fault inside a library call (the fork of runContained remains the fallback
// when the fault has corrupted the heap)
static sigjmp_buf g_jmp;
static volatile sig_atomic_t g_armed = 0;
static volatile sig_atomic_t g_sig = 0;
static void faultHandler(int sig, siginfo_t* info, void*)
{
  // only a fault at a small address (null array dereferenced) is recovered in place: a fault anywhere else
  // may have interrupted the allocator (corrupted heap), the process must die and be restarted by its parent
  bool nullish = (sig == SIGSEGV || sig == SIGBUS) && info != nullptr && (uintptr_t)info->si_addr < (uintptr_t)(1 << 20);
  if (g_armed && nullish)
  {
    g_armed = 0;
    g_sig = sig;
    siglongjmp(g_jmp, 1);
  }
  signal(sig, SIG_DFL);
  raise(sig);
}
static void installFaultHandler()
{
  struct sigaction sa;
  memset(&sa, 0, sizeof sa);
  sa.sa_sigaction = faultHandler;
  sa.sa_flags = SA_NODEFER | SA_SIGINFO;
  sigaction(SIGSEGV, &sa, nullptr);
  sigaction(SIGBUS, &sa, nullptr);
  sigaction(SIGFPE, &sa, nullptr);
  sigaction(SIGABRT, &sa, nullptr);
}

// runs fn on g, containing exceptions and faults; fills out
static void runRoute(const Route& rt, Regs& g, Outcome& out)
{
  out.route = rt.name;
  long e0 = g_errcount;
  g_lasterr.clear();
  if (sigsetjmp(g_jmp, 1) != 0)
  {
    out.crashed = (int)g_sig;
    out.errors = g_errcount - e0;
    return;
  }
  g_armed = 1;
  try
  {
    rt.fn(g, out);
    g_armed = 0;
  }
  catch (const AException& e) { out.exception = std::string("AException: ") + e.what(); }
  catch (const std::exception& e) { out.exception = std::string("std::exception: ") + e.what(); }
  catch (const char* s) { out.exception = std::string("throw: ") + s; }
  catch (const std::string& s) { out.exception = std::string("throw: ") + s; }
  catch (const ExitRequested&) { out.exception = "messageAbort"; }
  catch (...) { out.exception = "unknown exception"; }
  g_armed = 0;
  out.errors = g_errcount - e0;
  out.errtext = g_lasterr;
}

// the storage of a matrix (Eigen dense / Eigen sparse / cs) must have the dimensions the object announces:
// otherwise every reading is an access outside the storage (undefined values)
static bool storageConsistent(const AMatrix* a)
{
  const AMatrixDense* d = dynamic_cast<const AMatrixDense*>(a);
  if (d != nullptr) return d->getTab()->rows() == a->getNRows() && d->getTab()->cols() == a->getNCols();
  const MatrixSparse* s = dynamic_cast<const MatrixSparse*>(a);
  if (s == nullptr) return true;
  if (s->isFlagEigen()) return s->getEigenMatrix().rows() == a->getNRows() && s->getEigenMatrix().cols() == a->getNCols();
  const cs* c = s->getCS();
  if (c == nullptr) return false;
  return cs_get_nrow(c) == a->getNRows() && cs_get_ncol(c) == a->getNCols();
}

static Value regsObserved(const Regs& g)
{
  Value o = Value::object();
  if (!storageConsistent(g.A)) o["A"] = Value("storage dimensions differ from getNRows() x getNCols()");
  else try { o["A"] = dmatJson(readBack(g.A)); } catch (...) { o["A"] = Value("unreadable"); }
  if (!storageConsistent(g.B)) o["B"] = Value("storage dimensions differ from getNRows() x getNCols()");
  else try { o["B"] = dmatJson(readBack(g.B)); } catch (...) { o["B"] = Value("unreadable"); }
  o["v"] = dvecJson(toStd(g.v));
  return o;
}
static Value regsExpected(const Node& n)
{
  Value o = Value::object();
  o["A"] = qmatJson(n.A); o["B"] = qmatJson(n.B); o["v"] = qvecJson(n.v);
  return o;
}

// compares the three registers with the expectation of node n; returns the name of the first register
// that differs ("" when all agree)
static std::string compareRegs(const Regs& g, const Node& n, bool exact)
{
  if (g.A->getNRows() == n.A.r && g.A->getNCols() == n.A.c && !storageConsistent(g.A)) return "A(storage dimensions)";
  if (g.B->getNRows() == n.B.r && g.B->getNCols() == n.B.c && !storageConsistent(g.B)) return "B(storage dimensions)";
  DMat a = readBack(g.A);
  if (!sameMat(a, n.A, exact)) return "A";
  DMat b = readBack(g.B);
  if (!sameMat(b, n.B, exact)) return "B";
  if (!sameVec(toStd(g.v), n.v, exact)) return "v";
  return "";
}

// reading routes and observers of the accumulator
static bool checkReaders(const Regs& g, const Node& n, const Node* pre, int p, int nodeIdx)
{
  bool allOk = true;
  const AMatrix* A = g.A;
  const QMat& e = n.A;
  bool exact = !n.ap;
  int r = e.r, c = e.c;
  auto fail = [&](const std::string& route, const Value& obs) {
    allOk = false;
    stat("reader_mismatch");
    report("mismatch", n, pre, p, route, "read", qmatJson(e), obs, "reading route disagrees with the expected contents of A");
  };
  int route = 100;
  auto guarded = [&](const std::string& name, const std::function<void()>& f) {
    route++;
    if (!enter(nodeIdx, p, route, 0, 0, name)) return;
    long e0 = g_errcount;
    try { f(); }
    catch (const AException& ex) { allOk = false; report("exception", n, pre, p, name, "read", qmatJson(e), Value(std::string(ex.what())), ""); stat("reader_exception"); }
    catch (const ExitRequested&) { allOk = false; report("exception", n, pre, p, name, "read", qmatJson(e), Value("messageAbort"), ""); stat("reader_exception"); }
    catch (...) { allOk = false; report("exception", n, pre, p, name, "read", qmatJson(e), Value("exception"), ""); stat("reader_exception"); }
    (void)e0;
    stat("readers");
  };
  guarded("getValues(byCol)", [&]() {
    VectorDouble v = A->getValues(true);
    DMat d; d.r = r; d.c = c; d.m.assign((size_t)r * c, NAN);
    if ((int)v.size() == r * c)
      for (int j = 0; j < c; j++) for (int i = 0; i < r; i++) d.m[(size_t)i * c + j] = v[(size_t)j * r + i];
    if (!sameMat(d, e, exact)) fail("getValues(byCol)", dmatJson(d)); });
  guarded("getValues(byRow)", [&]() {
    VectorDouble v = A->getValues(false);
    DMat d; d.r = r; d.c = c; d.m.assign((size_t)r * c, NAN);
    if ((int)v.size() == r * c)
      for (int i = 0; i < r; i++) for (int j = 0; j < c; j++) d.m[(size_t)i * c + j] = v[(size_t)i * c + j];
    if (!sameMat(d, e, exact)) fail("getValues(byRow)", dmatJson(d)); });
  guarded("getRow(all)", [&]() {
    DMat d; d.r = r; d.c = c; d.m.assign((size_t)r * c, NAN);
    for (int i = 0; i < r; i++) { VectorDouble v = A->getRow(i); if ((int)v.size() == c) for (int j = 0; j < c; j++) d.m[(size_t)i * c + j] = v[j]; }
    if (!sameMat(d, e, exact)) fail("getRow(all)", dmatJson(d)); });
  guarded("getColumn(all)", [&]() {
    DMat d; d.r = r; d.c = c; d.m.assign((size_t)r * c, NAN);
    for (int j = 0; j < c; j++) { VectorDouble v = A->getColumn(j); if ((int)v.size() == r) for (int i = 0; i < r; i++) d.m[(size_t)i * c + j] = v[i]; }
    if (!sameMat(d, e, exact)) fail("getColumn(all)", dmatJson(d)); });
  guarded("operator()", [&]() {
    DMat d; d.r = r; d.c = c; d.m.assign((size_t)r * c, NAN);
    for (int i = 0; i < r; i++) for (int j = 0; j < c; j++) d.m[(size_t)i * c + j] = (*A)(i, j);
    if (!sameMat(d, e, exact)) fail("operator()", dmatJson(d)); });
  guarded("getMatrixToTriplet", [&]() {
    NF_Triplet t = A->getMatrixToTriplet();
    DMat d; d.r = r; d.c = c; d.m.assign((size_t)r * c, 0.);
    bool bad = false;
    for (int k = 0; k < t.getNumber(); k++)
    {
      int i = t.getRow(k), j = t.getCol(k);
      if (i < 0 || i >= r || j < 0 || j >= c) { bad = true; continue; }
      d.m[(size_t)i * c + j] += t.getValue(k);
    }
    if (bad || !sameMat(d, e, exact)) fail("getMatrixToTriplet", dmatJson(d)); });
  if (!isSparseProf(p)) guarded("transpose().getValue", [&]() {
    AMatrix* t = A->transpose();
    DMat d; d.r = r; d.c = c; d.m.assign((size_t)r * c, NAN);
    if (t != nullptr && t->getNRows() == c && t->getNCols() == r)
      for (int i = 0; i < r; i++) for (int j = 0; j < c; j++) d.m[(size_t)i * c + j] = t->getValue(j, i);
    delete t;
    if (!sameMat(d, e, exact)) fail("transpose().getValue", dmatJson(d)); });
  guarded("size/empty/isSquare", [&]() {
    bool ok = A->size() == r * c && !A->empty() && A->isSquare() == (r == c) && A->isSparse() == isSparseProf(p) && A->isDense() == !isSparseProf(p);
    if (!ok) fail("size/empty/isSquare", Value((long long)A->size())); });
  if (!n.obs.getb("def", false)) return allOk;
  auto failObs = [&](const std::string& name, double expv, double obsv) {
    allOk = false;
    stat("observer_mismatch");
    report("mismatch", n, pre, p, name, "observer", Value(expv), Value(obsv), "observer of A disagrees");
  };
  guarded("getMinimum", [&]() { double x = A->getMinimum(); double w = n.obs.getd("min", 0); if (!closeTo(x, w, exact)) failObs("getMinimum", w, x); });
  guarded("getMaximum", [&]() { double x = A->getMaximum(); double w = n.obs.getd("max", 0); if (!closeTo(x, w, exact)) failObs("getMaximum", w, x); });
  guarded("getNormInf", [&]() { double x = A->getNormInf(); double w = n.obs.getd("ninf", 0); if (!closeTo(x, w, exact)) failObs("getNormInf", w, x); });
  guarded("isSymmetric", [&]() { bool x = A->isSymmetric(); bool w = n.obs.getb("sym", false); if (x != w) failObs("isSymmetric", w, x); });
  guarded("isIdentity", [&]() { if (r != c) return; bool x = A->isIdentity(); bool w = n.obs.getb("ident", false); if (x != w) failObs("isIdentity", w, x); });
  if (exact) guarded("isNonNegative", [&]() { bool x = A->isNonNegative(); bool w = n.obs.getb("nonneg", false); if (x != w) failObs("isNonNegative", w, x); });
  if (r == c && !isSparseProf(p))
  {
    const AMatrixSquare* S = dynamic_cast<const AMatrixSquare*>(A);
    if (S != nullptr)
    {
      guarded("trace", [&]() { double x = S->trace(); double w = n.obs.getd("tr", 0); if (!closeTo(x, w, exact)) failObs("trace", w, x); });
      if (n.obs.getb("hasdet", false))
        guarded("determinant", [&]() { double x = S->determinant(); double w = n.obs.getd("det", 0); if (!closeTo(x, w, false)) failObs("determinant", w, x); });
    }
  }
  return allOk;
}

static int g_threads = 0;

// executes the last operation of node n on the registers 'pre' (which hold the contents of the parent
// node pn) in storage p.  Returns the new registers (primary route) or nullptr when the branch is cut.
// evaluates one route of the last operation of node n on a clone of the registers 'pre'.
// Returns true when the route agrees with the expectation; *result receives the new registers when asked.
static bool evalRoute(const Route& rt, const Node& n, const Node& pn, int p, const Regs& pre, Regs** result)
{
  const OpRec& o = n.h.back();
  bool exact = !n.ap;
  char target = targetOf(o.op);
  Regs* g = pre.clone();
  Outcome out;
  runRoute(rt, *g, out);
  stat("routes_executed");
  if (rt.name.rfind("mixed ", 0) == 0) stat("routes_mixed_storage");
  stat(std::string("op:") + o.op + ":" + PROFNAME[p]);
  std::string diff;
  Value observed;
  if (out.crashed)
  {
    stat("disagreements");
    stat("crashes_recovered");
    report("crash", n, &pn, p, rt.name, "crash", regsExpected(n), Value(out.crashed), "fault (signal) inside the library call");
    return false;   // the clone is abandoned (it may be inconsistent)
  }
  if (out.exception.empty() && !out.refused)
  {
    // reading back is also protected: a call may leave an object that faults when it is read
    if (sigsetjmp(g_jmp, 1) != 0)
    {
      stat("disagreements");
      stat("crashes_recovered");
      report("crash", n, &pn, p, rt.name, "crash", regsExpected(n), Value((int)g_sig), "fault (signal) when reading the result back");
      return false;
    }
    g_armed = 1;
    try { diff = compareRegs(*g, n, exact); }
    catch (...) { diff = "unreadable"; }
    if (!diff.empty()) observed = regsObserved(*g);
    g_armed = 0;
  }
  if (out.exception.empty() && !out.refused && diff.empty() && out.status != 0)
  {
    // right values, but the call reports a failure
    stat("disagreements");
    report("status", n, &pn, p, rt.name, "status", Value(0), Value(out.status), "the call returns a non-zero error status although the result is the expected one");
  }
  bool bad = !out.exception.empty() || out.refused || !diff.empty();
  if (bad)
  {
    bool refusal = (!out.exception.empty() || out.refused || out.errors > 0);
    const char* kind = !out.exception.empty() ? "exception" : (out.refused ? "refused" : (out.errors > 0 ? "refused" : "mismatch"));
    std::string note = out.exception;
    if (out.errors > 0) note += (note.empty() ? "" : " | ") + std::string("library error message: ") + out.errtext;
    if (refusal && n.mr[p])
    {
      stat("refused_as_documented");
      stat(std::string("refused:") + o.op + ":" + PROFNAME[p]);
    }
    else
    {
      stat("disagreements");
      report(kind, n, &pn, p, rt.name, diff.empty() ? std::string(1, target) : diff, regsExpected(n),
             observed.isNull() ? Value(note) : observed, note);
    }
    delete g;
    return false;
  }
  if (result != nullptr) { coerce(p, g->A); coerce(p, g->B); *result = g; } else delete g;
  return true;
}

// routes listed by the caller (operation|storage|route) are evaluated in a forked process: they are known
// to write outside their buffers, which would otherwise corrupt the heap of the replay
static std::set<std::string> ISOLATE;
static std::set<std::string> NOINFLATE;   // routes of recorded findings: wrong anyway, not worth inflating (and unsafe)
static bool g_isolated = false;

// returns 0 agreed, 1 disagreed (reported), 2 died (reported as crash)
static int evalIsolated(const Route& rt, const Node& n, const Node& pn, int p, const Regs& pre)
{
  int fd[2];
  if (pipe(fd) != 0) return 1;
  fflush(OUT);
  pid_t pid = fork();
  if (pid == 0)
  {
    close(fd[0]);
    alarm(300);
    g_isolated = true;
    FILE* w = fdopen(fd[1], "w");
    OUT = w;
    STATS.clear();
    bool ok = evalRoute(rt, n, pn, p, pre, nullptr);
    fflush(w);
    _exit(ok ? 0 : 1);
  }
  close(fd[1]);
  std::string buf;
  char tmp[4096];
  ssize_t k;
  while ((k = read(fd[0], tmp, sizeof tmp)) > 0) buf.append(tmp, (size_t)k);
  close(fd[0]);
  int status = 0;
  waitpid(pid, &status, 0);
  stat("routes_isolated");
  if (WIFEXITED(status))
  {
    if (!buf.empty()) { fwrite(buf.data(), 1, buf.size(), OUT); }
    if (WEXITSTATUS(status) != 0) stat("disagreements");
    return WEXITSTATUS(status) == 0 ? 0 : 1;
  }
  // partial lines of a dying process are dropped; the death itself is the disagreement
  stat("disagreements");
  stat("crashes_isolated");
  report("crash", n, &pn, p, rt.name, "crash", regsExpected(n), Value(WIFSIGNALED(status) ? WTERMSIG(status) : -1),
         "the library call (run in an isolated process) died");
  return 2;
}

// executes the last operation of node n on the registers 'pre' (which hold the contents of the parent
// node pn) in storage p.  Returns the new registers (primary route) or nullptr when the branch is cut.
static Regs* step(int nodeIdx, const Node& n, const Node& pn, int p, const Regs& pre, std::vector<char>* okRoutes = nullptr)
{
  const OpRec& o = n.h.back();
  std::vector<Route> routes = routesOf(o, p, pre, n.h.size() == 1);
  Regs* result = nullptr;
  bool primaryOk = true;
  if (okRoutes) okRoutes->assign(routes.size(), 0);
  for (size_t k = 0; k < routes.size(); k++)
  {
    if (!enter(nodeIdx, p, (int)k, 0, 0, o.op + "/" + routes[k].name))
    {
      if (k == 0) primaryOk = false;
      continue;
    }
    bool iso = !g_isolated && ISOLATE.count(o.op + "|" + PROFNAME[p] + "|" + routes[k].name) > 0;
    bool ok;
    if (iso)
    {
      ok = evalIsolated(routes[k], n, pn, p, pre) == 0;
      if (ok && k == 0) ok = evalRoute(routes[k], n, pn, p, pre, &result);   // it behaved: now for real
    }
    else
      ok = evalRoute(routes[k], n, pn, p, pre, k == 0 ? &result : nullptr);
    if (okRoutes) (*okRoutes)[k] = ok ? 1 : 0;
    if (!ok && k == 0) primaryOk = false;   // the branch is cut for this storage (the other routes are still evaluated)
  }
  if (!primaryOk) { delete result; return nullptr; }
  return result;
}

// ------------------------------------------------------------------------------------------------
// Kronecker inflation of one transition

static QMat kronQ(const QMat& q, int n, bool ones, ll factor)
{
  QMat k;
  k.r = q.r * n; k.c = q.c * n; k.d = q.d;
  k.m.assign((size_t)k.r * k.c, 0);
  for (int i = 0; i < q.r; i++)
    for (int j = 0; j < q.c; j++)
    {
      ll x = q.at(i, j) * factor;
      if (x == 0) continue;
      for (int a = 0; a < n; a++)
      {
        if (ones)
          for (int b = 0; b < n; b++) k.m[(size_t)(i * n + a) * k.c + (j * n + b)] = x;
        else
          k.m[(size_t)(i * n + a) * k.c + (j * n + a)] = x;
      }
    }
  return k;
}
static QVec kronV(const QVec& q, int n, ll factor)
{
  QVec k;
  k.d = q.d;
  for (ll x : q.x)
    for (int a = 0; a < n; a++) k.x.push_back(x * factor);
  return k;
}
static ll ipow(ll n, int p) { ll r = 1; for (int i = 0; i < p; i++) r *= n; return r; }

static int g_infl = 0;
static std::vector<std::pair<int, int>> COMBOS;   // (threads, inflation size) pairs of the thread-independence pass
// operations whose cost grows with the size (the ones Eigen / OpenMP may run in parallel): only those are inflated
static bool heavyOp(const std::string& op)
{
  static const std::set<std::string> H = {"ProdMatMat", "ProdNormMatMat", "ProdNormMatVec", "ProdNormMat", "MatVec", "VecMat",
                                           "AddMat", "LinComb", "TransposeInPlace", "Invert", "Solve", "MultiplyRow",
                                           "MultiplyColumn", "ProdScalar", "AddScalar"};
  return H.count(op) > 0;
}

static void inflate(int nodeIdx, const Node& n, const Node& pn, int p, const std::vector<char>& okRoutes, int combo)
{
  const OpRec& o = n.h.back();
  char target = targetOf(o.op);
  for (int kind = 0; kind < 2; kind++)    // 0: J_n (all ones), 1: I_n
  {
    int extra = 2 * combo + kind;
    int pw = kind == 0 ? n.kj : n.ki;
    if (pw < 0) continue;
    bool ones = kind == 0;
    int N = g_infl;
    // inflated operands and expectation:  n^p (small result (x) K)
    Node big, bigPre;
    bigPre.A = kronQ(pn.A, N, ones, 1); bigPre.B = kronQ(pn.B, N, ones, 1); bigPre.v = kronV(pn.v, N, 1);
    ll f = ipow(N, pw);
    big.id0 = n.id0; big.h = n.h; big.ap = n.ap; big.obs = Value::object();
    big.A = kronQ(n.A, N, ones, target == 'A' ? f : 1);
    big.B = kronQ(n.B, N, ones, 1);
    big.v = kronV(n.v, N, target == 'v' ? f : 1);
    std::string variant = std::string(ones ? "kron J_" : "kron I_") + std::to_string(N) + " threads=" + std::to_string(g_threads);
    if (!enter(nodeIdx, p, 0, 1, extra, o.op + "/build inflated operands")) continue;
    Regs pre;
    pre.A = build(p, bigPre.A); pre.B = build(p, bigPre.B); pre.v = buildVec(bigPre.v);
    std::vector<Route> routes = routesOf(o, p, pre, true);
    int maxdim = std::max(std::max(pre.A->getNRows(), pre.A->getNCols()), std::max(pre.B->getNRows(), pre.B->getNCols()));
    for (size_t k = 0; k < routes.size() && k < okRoutes.size(); k++)
    {
      if (!okRoutes[k]) continue;   // a route that is wrong on the small case is not inflated
      if (ISOLATE.count(o.op + "|" + PROFNAME[p] + "|" + routes[k].name)) continue;   // nor a route known to overrun
      if (NOINFLATE.count(o.op + "|" + PROFNAME[p] + "|" + routes[k].name)) continue;
      // the generic element-by-element implementations cost n^3 / n^4 virtual calls: inflated up to a moderate size only
      bool generic = routes[k].name.rfind("mixed ", 0) == 0 || routes[k].name.find("AMatrix::prodNorm") != std::string::npos ||
                     routes[k].name.find("normMatrix") != std::string::npos;
      bool quartic = generic && o.op == "ProdNormMatMat";   // n^4 virtual calls
      if (generic && maxdim > (quartic ? 22 : 40)) continue;
      if (!enter(nodeIdx, p, (int)k, 1, extra, o.op + "/" + routes[k].name)) continue;
      Regs* g = pre.clone();
      Outcome out;
      runRoute(routes[k], *g, out);
      stat("inflated_executed");
      if (generic) stat("inflated_generic_routes");
      stat(std::string("infl:") + o.op + ":" + PROFNAME[p]);
      stat(std::string("inflthreads:") + std::to_string(g_threads) + ":" + std::to_string(N));
      std::string diff;
      if (out.crashed) diff = "crash";
      if (out.exception.empty() && !out.refused && !out.crashed)
      {
        if (sigsetjmp(g_jmp, 1) != 0) { diff = "crash"; out.crashed = (int)g_sig; }
        else
        {
          g_armed = 1;
          try { diff = compareRegs(*g, big, !n.ap); } catch (...) { diff = "unreadable"; }
          g_armed = 0;
        }
      }
      bool refusal = !out.exception.empty() || out.refused || out.errors > 0;
      if (refusal && !out.crashed && n.mr[p])
        stat("refused_as_documented");
      else if (out.crashed || !out.exception.empty() || out.refused || !diff.empty())
      {
        stat("disagreements");
        Value ob = Value::object();
        ob["register"] = Value(diff);
        ob["note"] = Value(out.exception);
        report(out.crashed ? "crash" : !out.exception.empty() ? "exception" : (out.refused ? "refused" : "mismatch"), n, &pn, p, routes[k].name,
               diff.empty() ? std::string(1, target) : diff, regsExpected(n), ob,
               "inflated operands disagree with n^p (small result (x) K)", variant);
      }
      if (!out.crashed) delete g;
    }
  }
}

// ------------------------------------------------------------------------------------------------
// depth-first replay of the behaviours of one initial state in one storage

static void dfs(int nodeIdx, int p, const Regs& regs, bool inflonly)
{
  const Node& n = NODES[nodeIdx];
  for (int ci : n.children)
  {
    const Node& c = NODES[ci];
    if (!c.pf[p]) { stat("steps_not_promised"); continue; }
    std::vector<char> okRoutes;
    Regs* g = step(ci, c, n, p, regs, &okRoutes);
    stat("steps");
    if (!COMBOS.empty() && c.h.size() == 1 && (c.kj >= 0 || c.ki >= 0) && heavyOp(c.h.back().op))
    {
      int baseThreads = g_threads;
      for (size_t q = 0; q < COMBOS.size(); q++)
      {
        g_threads = COMBOS[q].first;
        g_infl = COMBOS[q].second;
        if (g_threads > 0) setMultiThread(g_threads);   // taken into account by every matrix allocated from now on
        inflate(ci, c, n, p, okRoutes, (int)q);
      }
      g_threads = baseThreads;
      if (baseThreads > 0) setMultiThread(baseThreads);
    }
    if (g == nullptr) continue;
    // a state whose reading routes disagree is not used further (one root cause, one report)
    bool consistent = inflonly || checkReaders(*g, c, &n, p, ci);
    if (consistent) dfs(ci, p, *g, inflonly);
    delete g;
  }
}

static void runRoot(int rootIdx, bool inflonly)
{
  const Node& root = NODES[rootIdx];
  {
    for (int p = 0; p < NPROF; p++)
    {
      if (!root.pf[p]) continue;
      if (!enter(rootIdx, p, 0, 0, 0, "build")) continue;
      setGlobalFlagEigen(p != SPC);   // the two sparse back-ends are never mixed (documented restriction)
      Regs regs;
      regs.A = build(p, root.A); regs.B = build(p, root.B); regs.v = buildVec(root.v);
      std::string diff = compareRegs(regs, root, true);
      stat("roots");
      if (!diff.empty())
      {
        stat("disagreements");
        report("mismatch", root, nullptr, p, "construction", diff, regsExpected(root), regsObserved(regs), "initial contents not read back");
        continue;
      }
      if (checkReaders(regs, root, nullptr, p, rootIdx)) dfs(rootIdx, p, regs, false);
    }
  }
}

static void setupLibrary(int threads)
{
  redefine_error(errHook);
  redefine_message(msgHook);
  redefine_exit(exitHook);
  installFaultHandler();
  setUpdateNonZeroValue(2);   // the cs storage throws when asked to create a non-zero term in place
  g_threads = threads;
  if (threads > 0) setMultiThread(threads);
}

static void writeStats()
{
  Value s = Value::object();
  for (auto& kv : STATS) s[kv.first] = Value((long long)kv.second);
  s["omp_max_threads"] = Value(omp_get_max_threads());
  s["eigen_threads"] = Value((int)Eigen::nbThreads());
  Value o = Value::object();
  o["stats"] = s;
  fprintf(OUT, "%s\n", vj::dump(o).c_str());
  fflush(OUT);
}

static std::map<std::string, std::string> parseOpts(int argc, char** argv, int from)
{
  std::map<std::string, std::string> m;
  for (int i = from; i < argc; i++)
  {
    std::string a = argv[i];
    size_t k = a.find('=');
    if (k != std::string::npos) m[a.substr(0, k)] = a.substr(k + 1);
  }
  return m;
}

// runs 'work(rootIdx)' for every root in child processes (one child per chunk); a crash is recorded as a
// disagreement of the marked step and the chunk is restarted without that step
static int runContained(const std::vector<int>& roots, const std::string& outPath, const std::function<void(int)>& work,
                        const std::function<const Node&(int)>& nodeOf)
{
  MARK = (Marker*)mmap(nullptr, sizeof(Marker), PROT_READ | PROT_WRITE, MAP_SHARED | MAP_ANONYMOUS, -1, 0);
  long* rootPos = (long*)mmap(nullptr, sizeof(long), PROT_READ | PROT_WRITE, MAP_SHARED | MAP_ANONYMOUS, -1, 0);
  size_t startAt = 0;
  int crashes = 0, attempts = 0;
  std::string statsPath = outPath + ".stats";
  std::map<std::string, long> total;
  while (startAt < roots.size())
  {
    MARK->node = -1;
    *rootPos = (long)startAt;
    fflush(OUT);
    pid_t pid = fork();
    if (pid == 0)
    {
      FILE* real = OUT;
      for (size_t k = startAt; k < roots.size(); k++)
      {
        *rootPos = (long)k;
        alarm(900);   // watchdog: a hang is a crash of the marked step
        STATS.clear();
        char* buf = nullptr; size_t len = 0;
        OUT = open_memstream(&buf, &len);
        work(roots[k]);
        fclose(OUT);
        OUT = real;
        if (len > 0) fwrite(buf, 1, len, real);
        fflush(real);
        free(buf);
        FILE* sf = fopen(statsPath.c_str(), "a");
        for (auto& kv : STATS) fprintf(sf, "%s %ld\n", kv.first.c_str(), kv.second);
        fprintf(sf, "omp_max_threads %d\n", omp_get_max_threads());
        fclose(sf);
        MARK->node = -1;
      }
      _exit(0);
    }
    int status = 0;
    waitpid(pid, &status, 0);
    if (WIFEXITED(status) && WEXITSTATUS(status) == 0) break;
    // crash: record it and restart at the root in progress, without the marked step
    crashes++;
    if ((size_t)*rootPos == startAt) attempts++; else attempts = 1;
    startAt = (size_t)*rootPos;
    int sig = WIFSIGNALED(status) ? WTERMSIG(status) : -WEXITSTATUS(status);
    if (MARK->node < 0 || attempts > 300)
    {
      fprintf(stderr, "matrix_run: child died (signal %d) outside a marked step or too many crashes\n", sig);
      return 3;
    }
    const Node& n = nodeOf(MARK->node);
    Value rec = Value::object();
    rec["kind"] = Value("crash");
    rec["id"] = Value(n.id0);
    rec["op"] = Value(n.h.empty() ? std::string("init") : n.h.back().op);
    rec["storage"] = Value(std::string(PROFNAME[MARK->prof]));
    rec["class"] = Value(std::string(storageClass(MARK->prof)));
    std::string txt = MARK->text;
    size_t slash = txt.find('/');
    rec["route"] = Value(slash == std::string::npos ? txt : txt.substr(slash + 1));
    rec["what"] = Value("crash");
    rec["signal"] = Value(sig);
    const QMat& ref = n.parent >= 0 ? nodeOf(n.parent).A : n.A;
    rec["shape"] = Value(shapeClass(ref.r, ref.c));
    rec["depth"] = Value((int)n.h.size());
    if (!n.h.empty())
    {
      const OpRec& o = n.h.back();
      bool tflag = (o.op == "ProdMatMat" || o.op == "MatVec" || o.op == "VecMat" || o.op.rfind("ProdNorm", 0) == 0);
      if (tflag) rec["transpose"] = Value(o.i == 1);
      if (o.op == "ProdMatMat") rec["transposeB"] = Value(o.j == 1);
    }
    rec["h"] = histJson(n);
    if (MARK->phase == 1)
    {
      size_t q = (size_t)(MARK->extra / 2);
      int th = q < COMBOS.size() ? COMBOS[q].first : 0, nn = q < COMBOS.size() ? COMBOS[q].second : 0;
      rec["variant"] = Value(std::string(MARK->extra % 2 == 0 ? "kron J_" : "kron I_") + std::to_string(nn) + " threads=" + std::to_string(th));
    }
    if (n.parent >= 0)
    {
      const Node& pn = nodeOf(n.parent);
      Value pr = Value::object();
      pr["A"] = qmatJson(pn.A); pr["B"] = qmatJson(pn.B); pr["v"] = qvecJson(pn.v);
      rec["pre"] = pr;
    }
    fprintf(OUT, "%s\n", vj::dump(rec).c_str());
    fflush(OUT);
    SKIP.insert(markKey(MARK->node, MARK->prof, MARK->route, MARK->phase, MARK->extra));
  }
  // merge statistics
  std::ifstream sf(statsPath);
  std::string k; long v;
  int ompmax = 0;
  while (sf >> k >> v)
  {
    if (k == "omp_max_threads") { ompmax = std::max<int>(ompmax, (int)v); continue; }
    total[k] += v;
  }
  STATS = total;
  STATS["crashes"] = crashes;
  STATS["omp_max_threads_seen"] = ompmax;
  remove(statsPath.c_str());
  return 0;
}

int mainChol(int argc, char** argv);
int mainVec(int argc, char** argv);

int main(int argc, char** argv)
{
  if (argc < 4)
  {
    fprintf(stderr, "usage: matrix_run machine|chol|vec <in> <out> [threads=N] [infl=N] [isolate=file]\n");
    return 2;
  }
  std::string mode = argv[1];
  if (freopen("/dev/null", "w", stdout) == nullptr) {}
  try
  {
    if (mode == "chol") return mainChol(argc, argv);
    if (mode == "vec") return mainVec(argc, argv);
    auto opts = parseOpts(argc, argv, 4);
    int threads = opts.count("threads") ? atoi(opts["threads"].c_str()) : 0;
    g_infl = opts.count("infl") ? atoi(opts["infl"].c_str()) : 0;
    if (g_infl > 0) COMBOS.push_back({threads, g_infl});
    if (opts.count("combos"))   // combos=threads:size,threads:size,...
    {
      std::stringstream ss(opts["combos"]);
      std::string item;
      while (std::getline(ss, item, ','))
      {
        size_t k = item.find(':');
        if (k != std::string::npos) COMBOS.push_back({atoi(item.substr(0, k).c_str()), atoi(item.substr(k + 1).c_str())});
      }
    }
    bool inflonly = opts.count("inflonly") && opts["inflonly"] == "1";
    if (opts.count("isolate"))
    {
      std::ifstream f(opts["isolate"]);
      std::string line;
      while (std::getline(f, line)) if (!line.empty()) ISOLATE.insert(line);
    }
    if (opts.count("noinflate"))
    {
      std::ifstream f(opts["noinflate"]);
      std::string line;
      while (std::getline(f, line)) if (!line.empty()) NOINFLATE.insert(line);
    }
    setupLibrary(threads);
    loadBehaviours(argv[2]);
    OUT = fopen(argv[3], "w");
    if (!OUT) throw std::runtime_error("cannot write output");
    std::vector<int> roots;
    for (size_t i = 0; i < NODES.size(); i++)
      if (NODES[i].h.empty()) roots.push_back((int)i);
    remove((std::string(argv[3]) + ".stats").c_str());
    int rc = runContained(roots, argv[3], [inflonly](int r) { runRoot(r, inflonly); }, [](int i) -> const Node& { return NODES[i]; });
    if (rc != 0) return rc;
    STATS["nodes"] = (long)NODES.size();
    STATS["roots_loaded"] = (long)roots.size();
    writeStats();
    fclose(OUT);
    return 0;
  }
  catch (const std::exception& e)
  {
    fprintf(stderr, "matrix_run: %s\n", e.what());
    return 3;
  }
}

// ------------------------------------------------------------------------------------------------
// CASES-BEGIN
// ------------------------------------------------------------------------------------------------
// factorisation cases (MatrixAlgChol.tla) and vector helper cases (MatrixAlgVec.tla)

static Value vecJsonD(const std::vector<double>& v) { return dvecJson(v); }
static void caseReport(const char* kind, const std::string& op, const std::string& storage, const std::string& route,
                       const std::string& caseName, const Value& input, const Value& expected, const Value& observed,
                       const std::string& note = "")
{
  Value rec = Value::object();
  rec["kind"] = Value(kind);
  rec["id"] = Value(0);
  rec["op"] = Value(op);
  rec["storage"] = Value(storage);
  rec["route"] = Value(route);
  rec["what"] = Value("value");
  rec["shape"] = Value("square");
  rec["case"] = Value(caseName);
  rec["input"] = input;
  rec["expected"] = expected;
  rec["observed"] = observed;
  if (!note.empty()) rec["note"] = Value(note);
  fprintf(OUT, "%s\n", vj::dump(rec).c_str());
  fflush(OUT);
  stat("disagreements");
}

// runs one check; f returns true when it agrees; faults and exceptions are disagreements
struct CaseCtx
{
  std::string caseName;
  std::string storage;
  Value input;
};
static void caseCheck(const CaseCtx& cx, const std::string& op, const std::string& route, const Value& expected,
                      const std::function<bool(Value&)>& f)
{
  stat("case_checks");
  stat(std::string("fn:") + op);
  Value observed;
  long e0 = g_errcount;
  g_lasterr.clear();
  if (sigsetjmp(g_jmp, 1) != 0)
  {
    caseReport("crash", op, cx.storage, route, cx.caseName, cx.input, expected, Value((int)g_sig), "fault inside the library call");
    return;
  }
  g_armed = 1;
  bool ok = false;
  std::string exc;
  try { ok = f(observed); }
  catch (const AException& e) { exc = std::string("AException: ") + e.what(); }
  catch (const std::exception& e) { exc = std::string("std::exception: ") + e.what(); }
  catch (const char* s) { exc = std::string("throw: ") + s; }
  catch (const ExitRequested&) { exc = "messageAbort"; }
  catch (...) { exc = "unknown exception"; }
  g_armed = 0;
  if (!exc.empty()) { caseReport("exception", op, cx.storage, route, cx.caseName, cx.input, expected, Value(exc)); return; }
  if (!ok)
  {
    std::string note = (g_errcount > e0) ? "library error message: " + g_lasterr : "";
    caseReport(g_errcount > e0 ? "refused" : "mismatch", op, cx.storage, route, cx.caseName, cx.input, expected, observed, note);
  }
}

static std::vector<std::vector<double>> matOf(const Value& v)
{
  std::vector<std::vector<double>> m;
  for (auto& row : v.arr) m.push_back(row.doubles());
  return m;
}
static bool nearD(double a, double b, double tol = TOL) { return !std::isnan(a) && !std::isinf(a) && std::fabs(a - b) <= tol * std::max(1., std::fabs(b)); }
static bool nearVec(const std::vector<double>& a, const std::vector<double>& b, double tol = TOL)
{
  if (a.size() != b.size()) return false;
  for (size_t i = 0; i < a.size(); i++) if (!nearD(a[i], b[i], tol)) return false;
  return true;
}
static bool nearMat(const AMatrix& a, const std::vector<std::vector<double>>& e, double den = 1., double tol = TOL)
{
  int r = (int)e.size(), c = r ? (int)e[0].size() : 0;
  if (a.getNRows() != r || a.getNCols() != c) return false;
  for (int i = 0; i < r; i++) for (int j = 0; j < c; j++) if (!nearD(a.getValue(i, j), e[i][j] / den, tol)) return false;
  return true;
}
static Value matObs(const AMatrix& a) { return dmatJson(readBack(&a)); }
static VectorDouble VD(const std::vector<double>& v) { return VectorDouble(v.begin(), v.end()); }
template <class M> static void fillDense(M& m, const std::vector<std::vector<double>>& e)
{
  for (size_t i = 0; i < e.size(); i++) for (size_t j = 0; j < e[i].size(); j++) m.setValue((int)i, (int)j, e[i][j]);
}
static MatrixSparse* sparseOf(const std::vector<std::vector<double>>& e, int eig, int kron = 1)
{
  NF_Triplet t;
  int n = (int)e.size(), c = n ? (int)e[0].size() : 0;
  for (int j = 0; j < c; j++) for (int i = 0; i < n; i++)
    if (e[i][j] != 0.) for (int a = 0; a < kron; a++) t.add(i * kron + a, j * kron + a, e[i][j]);
  if (e[n - 1][c - 1] == 0.) t.force(n * kron, c * kron);
  return MatrixSparse::createFromTriplet(t, n * kron, c * kron, eig);
}

static int g_caseInfl = 0;

static void runCholDense(const Value& c)
{
  int n = c.at("n").i();
  auto L = matOf(c.at("L")), A = matOf(c.at("A"));
  std::vector<double> y = c.at("y").doubles(), Ly = c.at("Ly").doubles(), Lty = c.at("Lty").doubles(), Ay = c.at("Ay").doubles();
  CaseCtx cx;
  cx.storage = "dense";
  cx.caseName = "cholesky n=" + std::to_string(n);
  Value in = Value::object(); in["L"] = c.at("L"); in["y"] = c.at("y");
  cx.input = in;
  MatrixSquareSymmetric S(n);
  for (int i = 0; i < n; i++) for (int j = 0; j <= i; j++) S.setValue(i, j, A[i][j]);
  CholeskyDense ch(&S);
  caseCheck(cx, "CholeskyDense::isReady", "constructor", Value(true), [&](Value& o) { o = Value(ch.isReady()); return ch.isReady(); });
  if (!ch.isReady()) return;
  caseCheck(cx, "CholeskyDense::getLowerTriangle", "packed", c.at("L"), [&](Value& o) {
    VectorDouble tl = ch.getLowerTriangle();
    o = dvecJson(toStd(tl));
    if ((int)tl.size() != n * (n + 1) / 2) return false;
    for (int j = 0; j < n; j++) for (int i = j; i < n; i++) if (!nearD(tl[j * n + i - j * (j + 1) / 2], L[i][j])) return false;
    return true; });
  caseCheck(cx, "CholeskyDense::getLowerTriangle", "(i,j)", c.at("L"), [&](Value& o) {
    bool ok = true; Value rows = Value::array();
    for (int i = 0; i < n; i++) { Value row = Value::array(); for (int j = 0; j < n; j++) { double x = ch.getLowerTriangle(i, j); row.push(Value(x)); if (!nearD(x, L[i][j])) ok = false; } rows.push(row); }
    o = rows; return ok; });
  auto Linv = matOf(c.at("Linv").at("m")); double dinv = c.at("Linv").at("d").d();
  caseCheck(cx, "CholeskyDense::getUpperTriangleInverse", "packed", c.at("Linv"), [&](Value& o) {
    VectorDouble xl = ch.getUpperTriangleInverse();
    o = dvecJson(toStd(xl));
    if ((int)xl.size() != n * (n + 1) / 2) return false;
    for (int j = 0; j < n; j++) for (int i = j; i < n; i++) if (!nearD(xl[j * n + i - j * (j + 1) / 2], Linv[i][j] / dinv)) return false;
    return true; });
  caseCheck(cx, "CholeskyDense::getUpperTriangleInverse", "(i,j)", c.at("Linv"), [&](Value& o) {
    bool ok = true; Value rows = Value::array();
    for (int i = 0; i < n; i++) { Value row = Value::array(); for (int j = 0; j < n; j++) { double x = ch.getUpperTriangleInverse(i, j); row.push(Value(x)); if (!nearD(x, Linv[i][j] / dinv)) ok = false; } rows.push(row); }
    o = rows; return ok; });
  auto vecOp = [&](const char* name, const std::vector<double>& in, const std::vector<double>& expect, int (ACholesky::*fn)(const constvect, vect) const) {
    caseCheck(cx, std::string("ACholesky::") + name, "dense", Value::arrayOf(expect), [&](Value& o) {
      VectorDouble x = VD(in), out(n, 7.);
      int st = (ch.*fn)(constvect(x.data(), x.size()), vect(out.data(), out.size()));
      o = dvecJson(toStd(out));
      return st == 0 && nearVec(toStd(out), expect); });
  };
  vecOp("LX", y, Ly, &ACholesky::LX);
  vecOp("LtX", y, Lty, &ACholesky::LtX);
  vecOp("InvLX", Ly, y, &ACholesky::InvLX);
  vecOp("InvLtX", Lty, y, &ACholesky::InvLtX);
  vecOp("solve", Ay, y, &ACholesky::solve);
  caseCheck(cx, "CholeskyDense::addLX", "accumulates", Value::arrayOf(Ly), [&](Value& o) {
    VectorDouble x = VD(y), out(n, 1.);
    ch.addLX(constvect(x.data(), x.size()), vect(out.data(), out.size()));
    o = dvecJson(toStd(out));
    for (int i = 0; i < n; i++) if (!nearD(out[i], Ly[i] + 1.)) return false;
    return true; });
  caseCheck(cx, "ASimulable::evalSimulate", "dense", Value::arrayOf(y), [&](Value& o) {
    VectorDouble out = ch.evalSimulate(VD(Lty));
    o = dvecJson(toStd(out));
    return nearVec(toStd(out), y); });
  caseCheck(cx, "ALinearOp::evalDirect", "dense", Value::arrayOf(Ly), [&](Value& o) {
    VectorDouble out = ch.evalDirect(VD(y));
    o = dvecJson(toStd(out));
    return nearVec(toStd(out), Ly); });
  caseCheck(cx, "ACholesky::solveMatrix", "dense", c.at("R"), [&](Value& o) {
    auto AR = matOf(c.at("AR")), R = matOf(c.at("R"));
    MatrixRectangular b(n, 2), x;
    fillDense(b, AR);
    int st = ch.solveMatrix(b, x);
    o = matObs(x);
    return st == 0 && nearMat(x, R); });
  caseCheck(cx, "CholeskyDense::computeLogDeterminant", "dense", c.at("det"), [&](Value& o) {
    double ld = ch.computeLogDeterminant();
    o = Value(std::exp(ld));
    return nearD(std::exp(ld), c.at("det").d()); });
  // triangular products
  const char* pm[6] = {"P0", "P1", "P2", "P3", "P4", "P5"};
  const char* pa[6] = {"R", "R", "Q", "Q", "W", "W"};
  for (int mode = 0; mode < 6; mode++)
    caseCheck(cx, "CholeskyDense::matProductInPlace", "mode " + std::to_string(mode), c.at(pm[mode]), [&](Value& o) {
      auto a = matOf(c.at(pa[mode])), e = matOf(c.at(pm[mode]));
      MatrixRectangular am((int)a.size(), (int)a[0].size()), x;
      fillDense(am, a);
      ch.matProductInPlace(mode, am, x);
      o = matObs(x);
      return nearMat(x, e); });
  for (int mode = 0; mode < 2; mode++)
  {
    caseCheck(cx, "CholeskyDense::normMatInPlace", "mode " + std::to_string(mode), c.at(mode == 0 ? "N0" : "N1"), [&](Value& o) {
      auto s = matOf(c.at("S")), e = matOf(c.at(mode == 0 ? "N0" : "N1"));
      MatrixSquareSymmetric sm(n), b;
      for (int i = 0; i < n; i++) for (int j = 0; j <= i; j++) sm.setValue(i, j, s[i][j]);
      ch.normMatInPlace(mode, n, sm, b);
      o = matObs(b);
      return nearMat(b, e); });
    caseCheck(cx, "CholeskyDense::normMatInPlace", "mode " + std::to_string(mode) + " (identity)", c.at(mode == 0 ? "N0I" : "N1I"), [&](Value& o) {
      auto e = matOf(c.at(mode == 0 ? "N0I" : "N1I"));
      MatrixSquareSymmetric b;
      ch.normMatInPlace(mode, n, MatrixSquareSymmetric(), b);
      o = matObs(b);
      return nearMat(b, e); });
  }
  caseCheck(cx, "CholeskyDense::setMatrix", "after default construction", Value::arrayOf(y), [&](Value& o) {
    CholeskyDense c2;
    if (c2.setMatrix(&S) != 0) return false;
    VectorDouble x = VD(Ay), out(n, 7.);
    c2.solve(constvect(x.data(), x.size()), vect(out.data(), out.size()));
    o = dvecJson(toStd(out));
    return nearVec(toStd(out), y); });
  caseCheck(cx, "MatrixSquareSymmetric::createFromTLTU", "from the factor", c.at("A"), [&](Value& o) {
    VectorDouble tl = ch.getLowerTriangle();
    MatrixSquareSymmetric* m = MatrixSquareSymmetric::createFromTLTU(n, tl);
    o = matObs(*m);
    bool ok = nearMat(*m, A);
    delete m; return ok; });
  caseCheck(cx, "MatrixSquareSymmetric::createFromTriangle", "mode 0 (lower)", c.at("L"), [&](Value& o) {
    VectorDouble tl = ch.getLowerTriangle();
    MatrixSquareSymmetric* m = MatrixSquareSymmetric::createFromTriangle(0, n, tl);
    o = matObs(*m);
    bool ok = true;   // a symmetric storage holds the lower triangle mirrored
    for (int i = 0; i < n; i++) for (int j = 0; j <= i; j++) if (!nearD(m->getValue(i, j), L[i][j])) ok = false;
    delete m; return ok; });
  if (g_caseInfl > 1)
  {
    int N = g_caseInfl;
    caseCheck(cx, "ACholesky::solve", "dense, A (x) I_" + std::to_string(N) + " threads=" + std::to_string(g_threads), Value::arrayOf(y), [&](Value& o) {
      MatrixSquareSymmetric big(n * N);
      for (int i = 0; i < n; i++) for (int j = 0; j <= i; j++) for (int a = 0; a < N; a++) big.setValue(i * N + a, j * N + a, A[i][j]);
      CholeskyDense cb(&big);
      VectorDouble x(n * N), out(n * N, 7.);
      for (int i = 0; i < n; i++) for (int a = 0; a < N; a++) x[i * N + a] = Ay[i];
      cb.solve(constvect(x.data(), x.size()), vect(out.data(), out.size()));
      bool ok = true;
      for (int i = 0; i < n; i++) for (int a = 0; a < N; a++) if (!nearD(out[i * N + a], y[i])) ok = false;
      double ld = cb.computeLogDeterminant();
      if (!nearD(std::exp(ld / N), c.at("det").d())) ok = false;
      o = Value(std::exp(ld / N));
      return ok; });
  }
}

static void runCholSparse(const Value& c, int eig)
{
  int n = c.at("n").i();
  auto A = matOf(c.at("A"));
  std::vector<double> y = c.at("y").doubles(), Ay = c.at("Ay").doubles();
  CaseCtx cx;
  cx.storage = eig ? "spe" : "spc";
  cx.caseName = "cholesky n=" + std::to_string(n);
  Value in = Value::object(); in["L"] = c.at("L"); in["y"] = c.at("y");
  cx.input = in;
  setGlobalFlagEigen(eig != 0);
  MatrixSparse* S = sparseOf(A, eig);
  CholeskySparse ch(S);
  caseCheck(cx, "CholeskySparse::isReady", "constructor", Value(true), [&](Value& o) { o = Value(ch.isReady()); return ch.isReady(); });
  if (!ch.isReady()) { delete S; return; }
  auto apply = [&](int (ACholesky::*fn)(const constvect, vect) const, const std::vector<double>& in, std::vector<double>& out) {
    VectorDouble x = VD(in), o(n, 7.);
    int st = (ch.*fn)(constvect(x.data(), x.size()), vect(o.data(), o.size()));
    out = toStd(o);
    return st; };
  caseCheck(cx, "ACholesky::solve", "sparse", Value::arrayOf(y), [&](Value& o) {
    std::vector<double> out; int st = apply(&ACholesky::solve, Ay, out);
    o = dvecJson(out); return st == 0 && nearVec(out, y); });
  caseCheck(cx, "CholeskySparse::computeLogDeterminant", "sparse", c.at("det"), [&](Value& o) {
    double ld = ch.computeLogDeterminant();
    o = Value(std::exp(ld)); return nearD(std::exp(ld), c.at("det").d()); });
  // simulation: X = [InvLtX(e_k)] satisfies X^T A X = I (covariance A^-1)
  caseCheck(cx, "ACholesky::InvLtX", "X^T A X = I", Value("identity"), [&](Value& o) {
    std::vector<std::vector<double>> X(n);
    for (int k = 0; k < n; k++) { std::vector<double> e(n, 0.); e[k] = 1.; if (apply(&ACholesky::InvLtX, e, X[k]) != 0) return false; }
    bool ok = true; Value rows = Value::array();
    for (int a = 0; a < n; a++) { Value row = Value::array(); for (int b = 0; b < n; b++) {
      double s = 0; for (int i = 0; i < n; i++) for (int j = 0; j < n; j++) s += X[a][i] * A[i][j] * X[b][j];
      row.push(Value(s)); if (!nearD(s, a == b ? 1. : 0.)) ok = false; } rows.push(row); }
    o = rows; return ok; });
  caseCheck(cx, "ASimulable::evalSimulate", "X^T A X = I", Value("identity"), [&](Value& o) {
    std::vector<std::vector<double>> X(n);
    for (int k = 0; k < n; k++) { VectorDouble e(n, 0.); e[k] = 1.; X[k] = toStd(ch.evalSimulate(e)); if ((int)X[k].size() != n) return false; }
    bool ok = true;
    for (int a = 0; a < n; a++) for (int b = 0; b < n; b++) {
      double s = 0; for (int i = 0; i < n; i++) for (int j = 0; j < n; j++) s += X[a][i] * A[i][j] * X[b][j];
      if (!nearD(s, a == b ? 1. : 0.)) ok = false; }
    o = Value(ok); return ok; });
  if (eig)
  {
    // M = [LX(e_k)] : M M^T = A ; LtX = M^T ; InvLX = M^-1 ; InvLtX = M^-T
    std::vector<std::vector<double>> M(n);   // M[k] = column k
    bool haveM = true;
    caseCheck(cx, "ACholesky::LX", "M M^T = A", c.at("A"), [&](Value& o) {
      for (int k = 0; k < n; k++) { std::vector<double> e(n, 0.); e[k] = 1.; if (apply(&ACholesky::LX, e, M[k]) != 0) { haveM = false; return false; } }
      bool ok = true; Value rows = Value::array();
      for (int i = 0; i < n; i++) { Value row = Value::array(); for (int j = 0; j < n; j++) {
        double s = 0; for (int k = 0; k < n; k++) s += M[k][i] * M[k][j];
        row.push(Value(s)); if (!nearD(s, A[i][j])) ok = false; } rows.push(row); }
      o = rows; if (!ok) haveM = false; return ok; });
    if (haveM)
    {
      caseCheck(cx, "ACholesky::LtX", "LtX(y) = M^T y", Value("M^T y"), [&](Value& o) {
        std::vector<double> out; if (apply(&ACholesky::LtX, y, out) != 0) return false;
        o = dvecJson(out);
        for (int k = 0; k < n; k++) { double s = 0; for (int i = 0; i < n; i++) s += M[k][i] * y[i]; if (!nearD(out[k], s)) return false; }
        return true; });
      caseCheck(cx, "ACholesky::InvLX", "InvLX(LX(y)) = y", Value::arrayOf(y), [&](Value& o) {
        std::vector<double> t, out; if (apply(&ACholesky::LX, y, t) != 0 || apply(&ACholesky::InvLX, t, out) != 0) return false;
        o = dvecJson(out); return nearVec(out, y); });
      caseCheck(cx, "ACholesky::InvLtX", "InvLtX(LtX(y)) = y", Value::arrayOf(y), [&](Value& o) {
        std::vector<double> t, out; if (apply(&ACholesky::LtX, y, t) != 0 || apply(&ACholesky::InvLtX, t, out) != 0) return false;
        o = dvecJson(out); return nearVec(out, y); });
    }
  }
  else
  {
    auto Ainv = matOf(c.at("Ainv").at("m")); double dA = c.at("Ainv").at("d").d();
    caseCheck(cx, "CholeskySparse::stdev", "variance = diag(A^-1)", c.at("Ainv"), [&](Value& o) {
      VectorDouble v(n, 7.);
      int st = ch.stdev(v, false);
      o = dvecJson(toStd(v));
      if (st != 0) return false;
      for (int i = 0; i < n; i++) if (!nearD(v[i], Ainv[i][i] / dA)) return false;
      return true; });
    caseCheck(cx, "CholeskySparse::stdev", "standard deviation squared = diag(A^-1)", c.at("Ainv"), [&](Value& o) {
      VectorDouble v(n, 7.);
      int st = ch.stdev(v, true);
      o = dvecJson(toStd(v));
      if (st != 0) return false;
      for (int i = 0; i < n; i++) if (!nearD(v[i] * v[i], Ainv[i][i] / dA)) return false;
      return true; });
  }
  if (g_caseInfl > 1)
  {
    int N = g_caseInfl;
    caseCheck(cx, "ACholesky::solve", "sparse, A (x) I_" + std::to_string(N) + " threads=" + std::to_string(g_threads), Value::arrayOf(y), [&](Value& o) {
      MatrixSparse* big = sparseOf(A, eig, N);
      CholeskySparse cb(big);
      VectorDouble x(n * N), out(n * N, 7.);
      for (int i = 0; i < n; i++) for (int a = 0; a < N; a++) x[i * N + a] = Ay[i];
      cb.solve(constvect(x.data(), x.size()), vect(out.data(), out.size()));
      bool ok = true;
      for (int i = 0; i < n; i++) for (int a = 0; a < N; a++) if (!nearD(out[i * N + a], y[i])) ok = false;
      double ld = cb.computeLogDeterminant();
      if (!nearD(std::exp(ld / N), c.at("det").d())) ok = false;
      o = Value(std::exp(ld / N));
      delete big;
      return ok; });
  }
  delete S;
  setGlobalFlagEigen(true);
}

static void runLU(const Value& c)
{
  int n = c.at("n").i();
  auto A = matOf(c.at("A")), Lu = matOf(c.at("Lu")), U = matOf(c.at("U"));
  CaseCtx cx; cx.storage = "dense"; cx.caseName = "LU n=" + std::to_string(n);
  Value in = Value::object(); in["A"] = c.at("A"); cx.input = in;
  Value ex = Value::object(); ex["tls"] = c.at("Lu"); ex["tus"] = c.at("U");
  caseCheck(cx, "MatrixSquareGeneral::decomposeLU", "no pivoting", ex, [&](Value& o) {
    MatrixSquareGeneral a(n), tls(n), tus(n);
    fillDense(a, A);
    int st = a.decomposeLU(tls, tus);
    Value ob = Value::object(); ob["status"] = Value(st); ob["tls"] = matObs(tls); ob["tus"] = matObs(tus); o = ob;
    return st == 0 && nearMat(tls, Lu) && nearMat(tus, U); });
}

static void eigenResiduals(const CaseCtx& cx, const std::string& op, const std::vector<std::vector<double>>& A,
                           const std::vector<std::vector<double>>* B, const VectorDouble& val, const MatrixSquareGeneral* vec,
                           double trExp, double detExp, const Value& expected)
{
  int n = (int)A.size();
  caseCheck(cx, op, "residual identities", expected, [&](Value& o) {
    Value ob = Value::object();
    ob["values"] = dvecJson(toStd(val));
    if (vec != nullptr) ob["vectors"] = matObs(*vec);
    o = ob;
    if ((int)val.size() != n || vec == nullptr || vec->getNRows() != n || vec->getNCols() != n) return false;
    double scale = 1.;
    for (int i = 0; i < n; i++) for (int j = 0; j < n; j++) scale = std::max(scale, std::fabs(A[i][j]));
    double tol = 1e-9 * scale;
    // A v_k = lambda_k (B) v_k
    for (int k = 0; k < n; k++)
      for (int i = 0; i < n; i++)
      {
        double l = 0, r = 0;
        for (int j = 0; j < n; j++)
        {
          l += A[i][j] * vec->getValue(j, k);
          r += (B ? (*B)[i][j] : (i == j ? 1. : 0.)) * vec->getValue(j, k);
        }
        if (!(std::fabs(l - val[k] * r) <= tol * std::max(1., std::fabs(val[k])))) return false;
      }
    // V^T (B) V = I
    for (int a = 0; a < n; a++) for (int b = 0; b < n; b++)
    {
      double s = 0;
      for (int i = 0; i < n; i++) for (int j = 0; j < n; j++) s += vec->getValue(i, a) * (B ? (*B)[i][j] : (i == j ? 1. : 0.)) * vec->getValue(j, b);
      if (!(std::fabs(s - (a == b ? 1. : 0.)) <= 1e-9)) return false;
    }
    double sum = 0, prod = 1;
    for (int k = 0; k < n; k++) { sum += val[k]; prod *= val[k]; }
    if (!(std::fabs(sum - trExp) <= tol * n)) return false;
    if (!(std::fabs(prod - detExp) <= 1e-8 * std::max(1., std::pow(scale, n)))) return false;
    return true; });
}

static void runEigen(const Value& c)
{
  int n = c.at("n").i();
  auto A = matOf(c.at("A"));
  CaseCtx cx; cx.storage = "sym"; cx.caseName = "eigen n=" + std::to_string(n);
  Value in = Value::object(); in["A"] = c.at("A"); cx.input = in;
  MatrixSquareSymmetric S(n);
  for (int i = 0; i < n; i++) for (int j = 0; j <= i; j++) S.setValue(i, j, A[i][j]);
  int st = -1;
  caseCheck(cx, "MatrixSquareSymmetric::computeEigen", "status", Value(0), [&](Value& o) { st = S.computeEigen(); o = Value(st); return st == 0; });
  if (st != 0) return;
  VectorDouble val = S.getEigenValues();
  const MatrixSquareGeneral* vec = S.getEigenVectors();
  Value ex = Value::object(); ex["trace"] = c.at("tr"); ex["det"] = c.at("det");
  eigenResiduals(cx, "MatrixSquareSymmetric::computeEigen", A, nullptr, val, vec, c.at("tr").d(), c.at("det").d(), ex);
  if (c.at("known").boolean())
    caseCheck(cx, "MatrixSquareSymmetric::getEigenValues", "known spectrum (as a multiset)", c.at("spectrum"), [&](Value& o) {
      std::vector<double> v = toStd(val), e = c.at("spectrum").doubles();
      o = dvecJson(v);
      std::sort(v.begin(), v.end()); std::sort(e.begin(), e.end());
      return nearVec(v, e, 1e-9 * 20); });
  caseCheck(cx, "AMatrix::makePositiveColumn", "eigen vectors (optionPositive)", Value("column sums >= 0"), [&](Value& o) {
    if (vec == nullptr) return false;
    for (int k = 0; k < n; k++) { double s = 0; for (int i = 0; i < n; i++) s += vec->getValue(i, k); if (s < -1e-9) { o = Value(s); return false; } }
    return true; });
  if (c.at("det").d() != 0.)
  {
    caseCheck(cx, "MatrixSquareSymmetric::isDefinitePositive", "non singular", c.at("spd"), [&](Value& o) {
      MatrixSquareSymmetric T(S); bool b = T.isDefinitePositive(); o = Value(b); return b == c.at("spd").boolean(); });
    caseCheck(cx, "MatrixSquareSymmetric::computeGeneralizedInverse", "non singular", c.at("inv"), [&](Value& o) {
      MatrixSquareSymmetric T(S), R(n);
      int s2 = T.computeGeneralizedInverse(R);
      o = matObs(R);
      return s2 == 0 && nearMat(R, matOf(c.at("inv").at("m")), c.at("inv").at("d").d(), 1e-8); });
  }
}

static void runGenEigen(const Value& c)
{
  int n = c.at("n").i();
  auto A = matOf(c.at("A")), B = matOf(c.at("B"));
  CaseCtx cx; cx.storage = "sym"; cx.caseName = "generalised eigen n=" + std::to_string(n);
  Value in = Value::object(); in["A"] = c.at("A"); in["B"] = c.at("B"); cx.input = in;
  MatrixSquareSymmetric S(n), T(n);
  for (int i = 0; i < n; i++) for (int j = 0; j <= i; j++) { S.setValue(i, j, A[i][j]); T.setValue(i, j, B[i][j]); }
  int st = -1;
  caseCheck(cx, "MatrixSquareSymmetric::computeGeneralizedEigen", "status", Value(0), [&](Value& o) { st = S.computeGeneralizedEigen(T); o = Value(st); return st == 0; });
  if (st != 0) return;
  Value ex = Value::object(); ex["trace"] = Value(c.at("trnum").d() / c.at("trden").d()); ex["det"] = Value(c.at("detnum").d() / c.at("detden").d());
  eigenResiduals(cx, "MatrixSquareSymmetric::computeGeneralizedEigen", A, &B, S.getEigenValues(), S.getEigenVectors(),
                 c.at("trnum").d() / c.at("trden").d(), c.at("detnum").d() / c.at("detden").d(), ex);
}

int mainChol(int argc, char** argv)
{
  auto opts = parseOpts(argc, argv, 4);
  int threads = opts.count("threads") ? atoi(opts["threads"].c_str()) : 0;
  g_caseInfl = opts.count("infl") ? atoi(opts["infl"].c_str()) : 0;
  setupLibrary(threads);
  Value cases = vj::readFile(argv[2]);
  OUT = fopen(argv[3], "w");
  if (!OUT) throw std::runtime_error("cannot write output");
  // every case in a child process (a fault that cannot be recovered is a recorded crash)
  for (size_t i = 0; i < cases.arr.size(); i++)
  {
    const Value& c = cases.arr[i];
    std::string kind = c.at("kind").s();
    fflush(OUT);
    int fd[2];
    if (pipe(fd) != 0) return 3;
    pid_t pid = fork();
    if (pid == 0)
    {
      close(fd[0]);
      alarm(600);
      STATS.clear();
      if (kind == "chol") { runCholDense(c); runCholSparse(c, 1); runCholSparse(c, 0); }
      else if (kind == "lu") runLU(c);
      else if (kind == "eigen") runEigen(c);
      else if (kind == "geneigen") runGenEigen(c);
      fflush(OUT);
      FILE* w = fdopen(fd[1], "w");
      for (auto& kv : STATS) fprintf(w, "%s\t%ld\n", kv.first.c_str(), kv.second);
      fclose(w);
      _exit(0);
    }
    close(fd[1]);
    FILE* r = fdopen(fd[0], "r");
    char key[300]; long v;
    std::map<std::string, long> got;
    while (fscanf(r, "%299[^\t]\t%ld\n", key, &v) == 2) got[key] = v;
    fclose(r);
    int status = 0;
    waitpid(pid, &status, 0);
    if (!(WIFEXITED(status) && WEXITSTATUS(status) == 0))
    {
      CaseCtx cx; cx.storage = "dense"; cx.caseName = kind + " case " + std::to_string(i); cx.input = c;
      caseReport("crash", kind, "any", "case process died", cx.caseName, c, Value(), Value(WIFSIGNALED(status) ? WTERMSIG(status) : -1));
    }
    for (auto& kv : got) STATS[kv.first] += kv.second;
    STATS["cases"]++;
    STATS[std::string("cases_") + kind]++;
  }
  writeStats();
  fclose(OUT);
  return 0;
}

// ------------------------------------------------------------------------------------------------
// vector helpers

static double g_na = 999999.;
static VectorDouble vdOf(const Value& v)
{
  VectorDouble r;
  for (auto& e : v.arr) r.push_back(e.d() == g_na ? TEST : e.d());
  return r;
}
static VectorInt viOf(const Value& v)
{
  VectorInt r;
  for (auto& e : v.arr) r.push_back(e.d() == g_na ? ITEST : e.i());
  return r;
}
static std::vector<double> stdOf(const Value& v)
{
  std::vector<double> r;
  for (auto& e : v.arr) r.push_back(e.d() == g_na ? TEST : e.d());
  return r;
}
static std::vector<double> intsToD(const VectorInt& v) { return std::vector<double>(v.begin(), v.end()); }
static bool sameExact(const std::vector<double>& a, const std::vector<double>& b)
{
  if (a.size() != b.size()) return false;
  for (size_t i = 0; i < a.size(); i++) if (!(a[i] == b[i])) return false;
  return true;
}

static void runVecCase(const Value& c)
{
  CaseCtx cx; cx.storage = "vector";
  cx.caseName = "u=" + vj::dump(c.at("u"));
  Value in = Value::object(); in["u"] = c.at("u"); in["w"] = c.at("w"); cx.input = in;
  const VectorDouble u = vdOf(c.at("u")), w = vdOf(c.at("w"));
  const VectorInt ui = viOf(c.at("u")), wi = viOf(c.at("w"));
  int n = c.at("n").i(), nd = c.at("nd").i();
  bool clean = c.at("clean").boolean();
  auto num = [&](const std::string& op, const std::string& route, const char* key, const std::function<double()>& f, bool exact = true) {
    caseCheck(cx, op, route, c.at(key), [&](Value& o) { double x = f(); o = Value(x); return exact ? x == c.at(key).d() : nearD(x, c.at(key).d()); }); };
  auto rat = [&](const std::string& op, const std::string& route, const char* key, const std::function<double()>& f) {
    caseCheck(cx, op, route, c.at(key), [&](Value& o) { double x = f(); o = Value(x); return nearD(x, c.at(key).arr[0].d() / c.at(key).arr[1].d(), 1e-12); }); };
  auto vec = [&](const std::string& op, const std::string& route, const char* key, const std::function<std::vector<double>()>& f) {
    caseCheck(cx, op, route, c.at(key), [&](Value& o) { std::vector<double> x = f(); o = dvecJson(x); return sameExact(x, stdOf(c.at(key))); }); };
  auto boolean = [&](const std::string& op, const std::string& route, const char* key, const std::function<bool()>& f) {
    caseCheck(cx, op, route, c.at(key), [&](Value& o) { bool x = f(); o = Value(x); return x == c.at(key).boolean(); }); };

  if (clean)
  {
    // ---- VectorNumT<double>, VectorNumT<int>
    num("VectorNumT<double>::sum", "method", "sum", [&]() { return u.sum(); });
    num("VectorNumT<int>::sum", "method", "sum", [&]() { return (double)ui.sum(); });
    if (n > 0)
    {
      num("VectorNumT<double>::minimum", "method", "mini", [&]() { return u.minimum(); });
      num("VectorNumT<double>::maximum", "method", "maxi", [&]() { return u.maximum(); });
      num("VectorNumT<int>::minimum", "method", "mini", [&]() { return (double)ui.minimum(); });
      num("VectorNumT<int>::maximum", "method", "maxi", [&]() { return (double)ui.maximum(); });
      rat("VectorNumT<double>::mean", "method", "mean", [&]() { return u.mean(); });
      rat("VectorNumT<int>::mean", "method", "mean", [&]() { return ui.mean(); });
    }
    num("VectorNumT<double>::norm", "squared", "norm2", [&]() { double x = u.norm(); return x * x; }, false);
    num("VectorNumT<double>::innerProduct", "method", "dot", [&]() { return u.innerProduct(w); });
    num("VectorNumT<int>::innerProduct", "method", "dot", [&]() { return ui.innerProduct(wi); });
    vec("VectorNumT<double>::add(vector)", "method", "plus", [&]() { VectorDouble x = u; x.add(w); return toStd(x); });
    vec("VectorNumT<double>::subtract(vector)", "method", "minus", [&]() { VectorDouble x = u; x.subtract(w); return toStd(x); });
    vec("VectorNumT<double>::multiply(vector)", "method", "times", [&]() { VectorDouble x = u; x.multiply(w); return toStd(x); });
    vec("VectorNumT<double>::divide(vector)", "(u*w)/w", "u", [&]() { VectorDouble x = u; x.multiply(w); x.divide(w); return toStd(x); });
    vec("VectorNumT<int>::add(vector)", "method", "plus", [&]() { VectorInt x = ui; x.add(wi); return intsToD(x); });
    vec("VectorNumT<int>::subtract(vector)", "method", "minus", [&]() { VectorInt x = ui; x.subtract(wi); return intsToD(x); });
    vec("VectorNumT<int>::multiply(vector)", "method", "times", [&]() { VectorInt x = ui; x.multiply(wi); return intsToD(x); });
    vec("VectorNumT<double>::add(scalar)", "method", "plus3", [&]() { VectorDouble x = u; x.add(3.); return toStd(x); });
    vec("VectorNumT<double>::subtract(scalar)", "method", "minus3", [&]() { VectorDouble x = u; x.subtract(3.); return toStd(x); });
    vec("VectorNumT<double>::multiply(scalar)", "method", "times2", [&]() { VectorDouble x = u; x.multiply(2.); return toStd(x); });
    vec("VectorNumT<double>::divide(scalar)", "(2u)/2", "u", [&]() { VectorDouble x = u; x.multiply(2.); x.divide(2.); return toStd(x); });
    vec("VectorNumT<double>::divide(scalar)", "u/0.5", "times2", [&]() { VectorDouble x = u; x.divide(0.5); return toStd(x); });
    boolean("VectorNumT<double>::isSame", "u vs w", "equalw", [&]() { return u.isSame(w); });
    boolean("VectorNumT<double>::isSame", "u vs u + 0.5", "isempty", [&]() { VectorDouble x = u; x.add(0.5); return u.isSame(x); });
    // ---- VH:: element-wise
    vec("VH::add", "function", "plus", [&]() { return toStd(VH::add(u, w)); });
    vec("VH::addInPlace(dest,src)", "function", "plus", [&]() { VectorDouble x = u; VH::addInPlace(x, w); return toStd(x); });
    vec("VH::addInPlace(a,b,res)", "function", "plus", [&]() { VectorDouble x; VH::addInPlace(u, w, x); return toStd(x); });
    vec("VH::subtract", "documented: vecb - veca", "wminusu", [&]() { return toStd(VH::subtract(u, w)); });
    vec("VH::subtract(int)", "documented: vecb - veca", "wminusu", [&]() { return intsToD(VH::subtract(ui, wi)); });
    vec("VH::subtractInPlace", "dest -= src", "minus", [&]() { VectorDouble x = u; VH::subtractInPlace(x, w); return toStd(x); });
    vec("VH::subtractInPlace(int)", "dest -= src", "minus", [&]() { VectorInt x = ui; VH::subtractInPlace(x, wi); return intsToD(x); });
    vec("VH::multiplyInPlace", "function", "times", [&]() { VectorDouble x = u; VH::multiplyInPlace(x, w); return toStd(x); });
    vec("VH::divideInPlace", "(u*w)/w", "u", [&]() { VectorDouble x = u; VH::multiplyInPlace(x, w); VH::divideInPlace(x, w); return toStd(x); });
    vec("VH::multiplyConstant", "function", "times2", [&]() { VectorDouble x = u; VH::multiplyConstant(x, 2.); return toStd(x); });
    vec("VH::multiplyConstantInPlace", "function", "timesm3", [&]() { VectorDouble x(u.size(), 7.); VH::multiplyConstantInPlace(u, -3., x); return toStd(x); });
    vec("VH::multiplyConstantSelfInPlace", "function", "timesm3", [&]() { VectorDouble x = u; VH::multiplyConstantSelfInPlace(x, -3.); return toStd(x); });
    vec("VH::divideConstant", "(2u)/2", "u", [&]() { VectorDouble x = u; VH::multiplyConstant(x, 2.); VH::divideConstant(x, 2.); return toStd(x); });
    vec("VH::addConstant", "function", "plus3", [&]() { VectorDouble x = u; VH::addConstant(x, 3.); return toStd(x); });
    vec("VH::addConstant(int)", "function", "plus3", [&]() { VectorInt x = ui; VH::addConstant(x, 3); return intsToD(x); });
    vec("VH::addMultiplyConstantInPlace", "u + 1*w", "plus", [&]() { VectorDouble x = u; VH::addMultiplyConstantInPlace(1., w, x, 0); return toStd(x); });
    vec("VH::linearCombinationInPlace", "2u - 3w", "lincomb", [&]() { VectorDouble x(u.size(), 7.); VH::linearCombinationInPlace(2., u, -3., w, x); return n == 0 ? std::vector<double>() : toStd(x); });
    vec("VH::cumulate", "a += 2 b + 1", "cumulate", [&]() { VectorDouble x = u; VH::cumulate(x, w, 2., 1.); return toStd(x); });
    vec("VH::power", "square", "square", [&]() { return toStd(VH::power(u, 2.)); });
    vec("VH::cumsum", "flagAddZero = false", "prefix", [&]() { return toStd(VH::cumsum(u, false)); });
    vec("VH::cumsum", "flagAddZero = true", "prefix0", [&]() { return toStd(VH::cumsum(u, true)); });
    vec("VH::cumulateInPlace", "function", "prefix", [&]() { VectorDouble x = u; VH::cumulateInPlace(x); return toStd(x); });
    num("VH::innerProduct", "function", "dot", [&]() { return VH::innerProduct(u, w); });
    num("VH::innerProduct(ptr)", "function", "dot", [&]() { return VH::innerProduct(u.data(), w.data(), n); });
    num("VH::norm", "squared", "norm2", [&]() { double x = VH::norm(u); return x * x; }, false);
    num("VH::normL1", "function", "l1", [&]() { return VH::normL1(u); });
    if (n > 0) num("VH::norminf", "function", "linf", [&]() { return VH::norminf(u); });
    num("VH::normDistance", "squared", "dist2", [&]() { double x = VH::normDistance(u, w); return x * x; }, false);
    if (n > 0)
    {
      num("VH::product", "function", "product", [&]() { return VH::product(u); });
      num("VH::product(int)", "function", "product", [&]() { return (double)VH::product(ui); });
      boolean("VH::isConstant", "function", "constant", [&]() { return VH::isConstant(u); });
      boolean("VH::isConstant(int)", "function", "constant", [&]() { return VH::isConstant(ui); });
      num("VH::maximum(VectorVectorDouble)", "{u, w}", "vvmax", [&]() { VectorVectorDouble vv; vv.push_back(u); vv.push_back(w); return VH::maximum(vv); });
      num("VH::minimum(VectorVectorDouble)", "{u, w}", "vvmin", [&]() { VectorVectorDouble vv; vv.push_back(u); vv.push_back(w); return VH::minimum(vv); });
      num("VH::rangeVals", "first", "mini", [&]() { return VH::rangeVals(u).first; });
      num("VH::rangeVals", "second", "maxi", [&]() { return VH::rangeVals(u).second; });
    }
    if (n == 3) vec("VH::crossProduct3D", "function", "cross", [&]() { return toStd(VH::crossProduct3D(u, w)); });
    boolean("VH::isEqual", "u vs w", "equalw", [&]() { return VH::isEqual(u, w); });
    boolean("VH::isEqual(int)", "u vs u", "clean", [&]() { return VH::isEqual(ui, ui); });
    // ---- sorting and ranking
    vec("VH::sort", "ascending", "sortasc", [&]() { return toStd(VH::sort(u, true)); });
    vec("VH::sort", "descending", "sortdesc", [&]() { return toStd(VH::sort(u, false)); });
    vec("VH::sort(int)", "ascending", "sortasc", [&]() { return intsToD(VH::sort(ui, true)); });
    vec("VH::sort(int)", "descending", "sortdesc", [&]() { return intsToD(VH::sort(ui, false)); });
    vec("VH::sortInPlace", "ascending", "sortasc", [&]() { VectorDouble x = u; VH::sortInPlace(x, true); return toStd(x); });
    vec("VH::sortInPlace", "descending", "sortdesc", [&]() { VectorDouble x = u; VH::sortInPlace(x, false); return toStd(x); });
    vec("VH::unique", "function", "uniq", [&]() { return toStd(VH::unique(u)); });
    vec("VH::unique(int)", "function", "uniq", [&]() { return intsToD(VH::unique(ui)); });
    vec("VH::orderRanks", "ascending", "orderasc", [&]() { return intsToD(VH::orderRanks(u, true)); });
    vec("VH::orderRanks", "descending", "orderdesc", [&]() { return intsToD(VH::orderRanks(u, false)); });
    vec("VH::orderRanks(int)", "ascending", "orderasc", [&]() { return intsToD(VH::orderRanks(ui, true)); });
    vec("VH::orderRanks(int)", "descending", "orderdesc", [&]() { return intsToD(VH::orderRanks(ui, false)); });
    vec("VH::sortRanks", "ascending", "ranksasc", [&]() { return intsToD(VH::sortRanks(u, true)); });
    vec("VH::reorder", "by orderRanks", "reordered", [&]() { return toStd(VH::reorder(u, VH::orderRanks(u, true))); });
    vec("VH::reorder(int)", "by orderRanks", "reordered", [&]() { return intsToD(VH::reorder(ui, VH::orderRanks(ui, true))); });
    vec("VH::arrangeInPlace", "values sorted, ranks carried", "sortasc", [&]() {
      VectorInt ranks = VH::sequence(n); VectorDouble x = u; VH::arrangeInPlace(0, ranks, x, true);
      if (n > 0 && !sameExact(intsToD(ranks), stdOf(c.at("orderasc")))) return std::vector<double>(1, NAN);
      return toStd(x); });
    if (c.at("adjnoties").boolean())
    {
      boolean("VH::isSorted", "ascending", "sortedasc", [&]() { return VH::isSorted(u, true); });
      boolean("VH::isSorted", "descending", "sorteddesc", [&]() { return VH::isSorted(u, false); });
    }
    vec("VH::filter", "[0,3[ ascending", "filterasc", [&]() { return intsToD(VH::filter(ui, 0, 3, true)); });
    vec("VH::filter", "[0,3[ descending", "filterdesc", [&]() { return intsToD(VH::filter(ui, 0, 3, false)); });
    vec("VH::complement", "of u within 0..4", "complin", [&]() { VectorInt sel = VH::filter(ui, 0, 5, true); return intsToD(VH::complement(VH::sequence(5), sel)); });
  }
  // ---- helpers defined with undefined values
  vec("VH::concatenate", "function", "concat", [&]() { return toStd(VH::concatenate(u, w)); });
  vec("VH::revert", "function", "reverse", [&]() { return toStd(VH::revert(u)); });
  if (clean) vec("VH::revert(int)", "function", "reverse", [&]() { return intsToD(VH::revert(ui)); });
  num("VH::countDefined", "function", "ndef", [&]() { return (double)VH::countDefined(u); });
  num("VH::countUndefined", "function", "nundef", [&]() { return (double)VH::countUndefined(u); });
  boolean("VH::hasUndefined", "function", "hasna", [&]() { return VH::hasUndefined(u); });
  num("VH::cumul", "function", "dsum", [&]() { return VH::cumul(u); });
  vec("VH::suppressTest", "function", "defined", [&]() { return toStd(VH::suppressTest(u)); });
  vec("VH::fillUndef", "repl = 7", "filled", [&]() { VectorDouble x = u; VH::fillUndef(x, 7.); return toStd(x); });
  boolean("VH::isInList", "item 2", "inlist2", [&]() { return VH::isInList(ui, 2); });
  num("VH::whereElement", "target 2", "where2", [&]() { return (double)VH::whereElement(ui, 2); });
  if (nd > 0)
  {
    num("VH::minimum", "function", "dmin", [&]() { return VH::minimum(u); });
    num("VH::maximum", "function", "dmax", [&]() { return VH::maximum(u); });
    num("VH::minimum", "flagAbs", "dminabs", [&]() { return VH::minimum(u, true); });
    num("VH::maximum", "flagAbs", "dmaxabs", [&]() { return VH::maximum(u, true); });
    num("VH::minimum(int)", "function", "dmin", [&]() { return (double)VH::minimum(ui); });
    num("VH::maximum(int)", "function", "dmax", [&]() { return (double)VH::maximum(ui); });
    num("VH::minimum(int)", "flagAbs", "dminabs", [&]() { return (double)VH::minimum(ui, true); });
    num("VH::maximum(int)", "flagAbs", "dmaxabs", [&]() { return (double)VH::maximum(ui, true); });
    rat("VH::mean", "function", "dmean", [&]() { return VH::mean(u); });
    rat("VH::median", "function", "median", [&]() { return VH::median(u); });
    if (c.at("wheremin").i() >= 0) num("VH::whereMinimum", "unique minimum", "wheremin", [&]() { return (double)VH::whereMinimum(u); });
    if (c.at("wheremax").i() >= 0) num("VH::whereMaximum", "unique maximum", "wheremax", [&]() { return (double)VH::whereMaximum(u); });
  }
  if (c.at("hasabove").boolean())
  {
    num("VH::maximum", "aux, mode > 0 (vec > aux)", "maxabove", [&]() { return VH::maximum(u, false, w, 1); });
    num("VH::minimum", "aux, mode > 0 (vec > aux)", "minabove", [&]() { return VH::minimum(u, false, w, 1); });
  }
  if (c.at("hasbelow").boolean())
  {
    num("VH::maximum", "aux, mode < 0 (vec < aux)", "maxbelow", [&]() { return VH::maximum(u, false, w, -1); });
    num("VH::minimum", "aux, mode < 0 (vec < aux)", "minbelow", [&]() { return VH::minimum(u, false, w, -1); });
  }
  if (nd > 0)
  {
    num("VH::maximum", "aux, mode = 0 (both defined)", "dmax", [&]() { return VH::maximum(u, false, w, 0); });
    num("VH::minimum", "aux, mode = 0 (both defined)", "dmin", [&]() { return VH::minimum(u, false, w, 0); });
  }
  if (nd > 1)
  {
    rat("VH::variance", "scaleByN = true", "varn", [&]() { return VH::variance(u, true); });
    rat("VH::variance", "scaleByN = false", "var1", [&]() { return VH::variance(u, false); });
    caseCheck(cx, "VH::stdv", "squared, scaleByN = false", c.at("var1"), [&](Value& o) {
      double x = VH::stdv(u, false); o = Value(x * x); return nearD(x * x, c.at("var1").arr[0].d() / c.at("var1").arr[1].d(), 1e-12); });
  }
  // ---- index selections
  if (n > 0) vec("VH::reduceOne", "index 0", "dropfirst", [&]() { return toStd(VH::reduceOne(u, 0)); });
  if (n >= 2)
  {
    vec("VH::reduce", "indices {n-1, n-2}", "droplast2", [&]() { VectorInt idx; idx.push_back(n - 1); idx.push_back(n - 2); return toStd(VH::reduce(u, idx)); });
    vec("VH::compress", "indices {n-1, 0}", "keeprev", [&]() { VectorInt idx; idx.push_back(n - 1); idx.push_back(0); return toStd(VH::compress(u, idx)); });
    vec("VH::sample", "indices {n-1, 0}", "keeprev", [&]() { VectorInt idx; idx.push_back(n - 1); idx.push_back(0); return toStd(VH::sample(u, idx)); });
    vec("VH::extractInPlace", "start 1", "dropfirst", [&]() { VectorDouble x(n - 1, 7.); VH::extractInPlace(u, x, 1); return toStd(x); });
    vec("VH::mergeInPlace", "u after one value", "concat", [&]() {
      VectorDouble x(2 * n, 7.); VH::mergeInPlace(u, x, 0); VH::mergeInPlace(w, x, n); return toStd(x); });
  }
  vec("VH::sample", "all (empty list)", "u", [&]() { return toStd(VH::sample(u, VectorInt())); });
  vec("VH::flatten", "{u, w}", "concat", [&]() { VectorVectorDouble vv; vv.push_back(u); vv.push_back(w); return toStd(VH::flatten(vv)); });
  vec("VH::unflatten", "sizes {n, n}, second part", "w", [&]() {
    VectorInt sizes; sizes.push_back(n); sizes.push_back(n);
    VectorVectorDouble vv = VH::unflatten(VH::concatenate(u, w), sizes);
    return vv.size() == 2 ? toStd(vv[1]) : std::vector<double>(1, NAN); });
  vec("VH::copy", "function", "u", [&]() { VectorDouble x(n, 7.); VH::copy(u, x); return toStd(x); });
}

static void runSeqCase(const Value& c)
{
  CaseCtx cx; cx.storage = "vector"; cx.caseName = "sequence";
  cx.input = c;
  int k = c.at("number").i(), a = c.at("ideb").i(), s = c.at("step").i();
  caseCheck(cx, "VH::sequence(int)", "number, ideb, step", c.at("seq"), [&](Value& o) {
    std::vector<double> x = intsToD(VH::sequence(k, a, s)); o = dvecJson(x); return sameExact(x, c.at("seq").doubles()); });
  if (s > 0 && k > 0)
    caseCheck(cx, "VH::sequence(double)", "from, to, step", c.at("upto"), [&](Value& o) {
      std::vector<double> x = toStd(VH::sequence((double)a, (double)c.at("last").i(), (double)s)); o = dvecJson(x);
      return sameExact(x, c.at("upto").doubles()); });
  caseCheck(cx, "VH::initVDouble/fill", "constant", Value(k), [&](Value& o) {
    VectorDouble x = VH::initVDouble(k, 2.5); VectorDouble y2; VH::fill(y2, 2.5, k);
    if ((int)x.size() != k) return false;
    for (int i = 0; i < k; i++) if (x[i] != 2.5 || (k > 0 && y2[i] != 2.5)) return false;
    return true; });
}

int mainVec(int argc, char** argv)
{
  setupLibrary(0);
  Value doc = vj::readFile(argv[2]);
  g_na = doc.at("na").d();
  OUT = fopen(argv[3], "w");
  if (!OUT) throw std::runtime_error("cannot write output");
  const Value& cases = doc.at("cases");
  // batches of cases in child processes
  size_t total = cases.arr.size() + doc.at("seqs").arr.size();
  size_t batch = 64;
  for (size_t b0 = 0; b0 < total; b0 += batch)
  {
    fflush(OUT);
    int fd[2];
    if (pipe(fd) != 0) return 3;
    pid_t pid = fork();
    if (pid == 0)
    {
      close(fd[0]);
      alarm(600);
      STATS.clear();
      for (size_t i = b0; i < std::min(total, b0 + batch); i++)
      {
        if (i < cases.arr.size()) runVecCase(cases.arr[i]); else runSeqCase(doc.at("seqs").arr[i - cases.arr.size()]);
        stat("cases");
      }
      fflush(OUT);
      FILE* w = fdopen(fd[1], "w");
      for (auto& kv : STATS) fprintf(w, "%s\t%ld\n", kv.first.c_str(), kv.second);
      fclose(w);
      _exit(0);
    }
    close(fd[1]);
    FILE* r = fdopen(fd[0], "r");
    char key[300]; long v;
    while (fscanf(r, "%299[^\t]\t%ld\n", key, &v) == 2) STATS[key] += v;
    fclose(r);
    int status = 0;
    waitpid(pid, &status, 0);
    if (!(WIFEXITED(status) && WEXITSTATUS(status) == 0))
      caseReport("crash", "vector batch", "vector", "batch process died", "batch " + std::to_string(b0), Value(), Value(), Value(WIFSIGNALED(status) ? WTERMSIG(status) : -1));
  }
  writeStats();
  fclose(OUT);
  return 0;
}
// CASES-END
