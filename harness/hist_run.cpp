// C10 binding: replays histories emitted by TLC (KrigCalcCache.tla, CovCache.tla, CowVector.tla)
// on the real objects; after each observed call the result is compared with the same call on a
// freshly built object holding the same final content (history independence).
//
// usage: hist_run <mode> <scripts.ndjson> <out.ndjson>       mode in {krigcalc, covcache, cow}
#include "vjson.hpp"
#include "Estimation/KrigingCalcul.hpp"
#include "Matrix/MatrixSquareSymmetric.hpp"
#include "Matrix/MatrixRectangular.hpp"
#include "Db/Db.hpp"
#include "Db/DbGrid.hpp"
#include "Model/Model.hpp"
#include "Covariances/CovAniso.hpp"
#include "Covariances/CovContext.hpp"
#include "Space/SpaceRN.hpp"
#include "Space/SpacePoint.hpp"
#include "Enum/ECov.hpp"
#include "Enum/ELoadBy.hpp"
#include "Basic/VectorNumT.hpp"
#include "Basic/VectorT.hpp"
#include "Basic/VectorHelper.hpp"
#include <type_traits>
#include <algorithm>
#include <functional>
#include "Neigh/NeighUnique.hpp"
#include "Estimation/CalcKriging.hpp"
#include <cmath>
#include <csignal>
#include <unistd.h>
#include <functional>

using vj::Value;

static char CUR[8192];
static int OUT_FD = -1;
static void onCrash(int sig)
{
  char buf[8400];
  int n = snprintf(buf, sizeof buf, "{\"script\":%s,\"crash\":%d}\n", CUR, sig);
  if (OUT_FD >= 0 && n > 0) { ssize_t w = write(OUT_FD, buf, (size_t)n); (void)w; }
  _exit(88);
}

static Value vec(const VectorDouble& v) { Value a = Value::array(); for (double x : v) a.push(Value(x)); return a; }
static VectorDouble flat(const AMatrix* m)
{
  VectorDouble v;
  if (m == nullptr) return v;
  for (int i = 0; i < m->getNRows(); i++)
    for (int j = 0; j < m->getNCols(); j++) v.push_back(m->getValue(i, j));
  return v;
}
static double maxRelDiff(const VectorDouble& a, const VectorDouble& b)
{
  if (a.size() != b.size()) return 1e300;
  double scale = 0, d = 0;
  for (size_t i = 0; i < a.size(); i++) scale = std::max(scale, std::max(std::fabs(a[i]), std::fabs(b[i])));
  if (scale == 0) return 0;
  for (size_t i = 0; i < a.size(); i++)
  {
    if (std::isnan(a[i]) != std::isnan(b[i])) return 1e300;
    if (!std::isnan(a[i])) d = std::max(d, std::fabs(a[i] - b[i]));
  }
  return d / scale;
}

// ============================================================== krigcalc
namespace kc {
static const int NS = 4, NV = 2;
static const double PX[NS] = {0.3, 1.7, 2.6, 0.9}, PY[NS] = {0.4, 0.2, 1.6, 2.3};
struct Inputs
{
  VectorDouble Z[2], Means, PriorMean[2], Zp[2];
  MatrixSquareSymmetric Sigma[2], Sigma00[2], PriorCov[2];
  MatrixRectangular X, Sigma0[2], X0;
  VectorInt rankColCok[2];
};
static double cov(int iv, int jv, double h, double range)
{
  static const double B[2][2] = {{1.0, 0.5}, {0.5, 2.0}};
  return B[iv][jv] * std::exp(-h / range);
}
static void build(Inputs& in)
{
  int neq = NS * NV;
  for (int v = 0; v < 2; v++)
  {
    double range = v == 0 ? 2.0 : 3.1;
    in.Sigma[v] = MatrixSquareSymmetric(neq);
    for (int iv = 0; iv < NV; iv++) for (int i = 0; i < NS; i++)
      for (int jv = 0; jv < NV; jv++) for (int j = 0; j < NS; j++)
      {
        double h = std::hypot(PX[i] - PX[j], PY[i] - PY[j]);
        in.Sigma[v].setValue(iv * NS + i, jv * NS + j, cov(iv, jv, h, range));
      }
    double tx = v == 0 ? 1.4 : 1.9, ty = v == 0 ? 1.1 : 0.7;
    in.Sigma0[v] = MatrixRectangular(neq, NV);
    for (int iv = 0; iv < NV; iv++) for (int i = 0; i < NS; i++) for (int jv = 0; jv < NV; jv++)
      in.Sigma0[v].setValue(iv * NS + i, jv, cov(iv, jv, std::hypot(PX[i] - tx, PY[i] - ty), 2.0));
    in.Sigma00[v] = MatrixSquareSymmetric(NV);
    for (int iv = 0; iv < NV; iv++) for (int jv = 0; jv < NV; jv++)
      in.Sigma00[v].setValue(iv, jv, cov(iv, jv, 0., 2.0) * (v == 0 ? 1.0 : 1.5));
    in.Z[v].resize(neq);
    for (int k = 0; k < neq; k++) in.Z[v][k] = (v == 0 ? 1.0 : -0.7) * std::sin(1.3 * k + 0.4 * v) + 0.2 * k;
    in.PriorMean[v] = v == 0 ? VectorDouble{0.5, -0.3} : VectorDouble{1.5, 0.8};
    in.PriorCov[v] = MatrixSquareSymmetric(NV);
    in.PriorCov[v].setValue(0, 0, v == 0 ? 0.8 : 2.0); in.PriorCov[v].setValue(1, 1, v == 0 ? 1.2 : 0.6);
    in.PriorCov[v].setValue(0, 1, v == 0 ? 0.1 : -0.2);
    in.Zp[v] = v == 0 ? VectorDouble{0.9, 0.} : VectorDouble{-1.1, 0.};
    in.rankColCok[v] = v == 0 ? VectorInt{0} : VectorInt{1};
    if (v == 1) in.Zp[v] = VectorDouble{0., 0.6};
  }
  in.Means = VectorDouble{0.1, -0.2};
  in.X = MatrixRectangular(neq, NV);
  for (int iv = 0; iv < NV; iv++) for (int i = 0; i < NS; i++) in.X.setValue(iv * NS + i, iv, 1.);
  in.X0 = MatrixRectangular(NV, NV);
  for (int iv = 0; iv < NV; iv++) in.X0.setValue(iv, iv, 1.);
}
// index of the concrete version of each input; Bayes / ColCok: -1 = option switched off
struct Versions { int Z = 0, LHS = 0, RHS = 0, Var = 0, Bayes = 0, ColCok = 0; };

// "inplace" style: the object under test always receives the addresses of these working objects, whose content is
// overwritten with the version to install before the setter is called
struct Work
{
  VectorDouble Z, PriorMean, Zp; MatrixSquareSymmetric Sigma, Sigma00, PriorCov; MatrixRectangular Sigma0; VectorInt rankColCok;
};
static void applySetterInPlace(KrigingCalcul& k, const std::string& s, const std::string& mode, Inputs& in, const Versions& v, Work& w)
{
  bool hasX = mode != "SK";
  if (s == "setData") { w.Z = in.Z[v.Z]; k.setData(&w.Z, &in.Means); }
  else if (s == "setLHS") { w.Sigma = in.Sigma[v.LHS]; k.setLHS(&w.Sigma, hasX ? &in.X : nullptr); }
  else if (s == "setRHS") { w.Sigma0 = in.Sigma0[v.RHS]; k.setRHS(&w.Sigma0, hasX ? &in.X0 : nullptr); }
  else if (s == "setVar") { w.Sigma00 = in.Sigma00[v.Var]; k.setVar(&w.Sigma00); }
  else if (s == "setBayes" || s == "unsetBayes")
  {
    if (v.Bayes < 0) k.setBayes(nullptr, nullptr);
    else { w.PriorMean = in.PriorMean[v.Bayes]; w.PriorCov = in.PriorCov[v.Bayes]; k.setBayes(&w.PriorMean, &w.PriorCov); }
  }
  else if (s == "setColCok" || s == "unsetColCok")
  {
    if (v.ColCok < 0) k.setColCokUnique(nullptr, nullptr);
    else { w.Zp = in.Zp[v.ColCok]; w.rankColCok = in.rankColCok[v.ColCok]; k.setColCokUnique(&w.Zp, &w.rankColCok); }
  }
}
static void applySetter(KrigingCalcul& k, const std::string& s, const std::string& mode, Inputs& in, const Versions& v)
{
  bool hasX = mode != "SK";
  if (s == "setData") k.setData(&in.Z[v.Z], &in.Means);
  else if (s == "setLHS") k.setLHS(&in.Sigma[v.LHS], hasX ? &in.X : nullptr);
  else if (s == "setRHS") k.setRHS(&in.Sigma0[v.RHS], hasX ? &in.X0 : nullptr);
  else if (s == "setVar") k.setVar(&in.Sigma00[v.Var]);
  else if (s == "setBayes" || s == "unsetBayes")
  {
    if (v.Bayes < 0) k.setBayes(nullptr, nullptr); else k.setBayes(&in.PriorMean[v.Bayes], &in.PriorCov[v.Bayes]);
  }
  else if (s == "setColCok" || s == "unsetColCok")
  {
    if (v.ColCok < 0) k.setColCokUnique(nullptr, nullptr); else k.setColCokUnique(&in.Zp[v.ColCok], &in.rankColCok[v.ColCok]);
  }
}
static void setAll(KrigingCalcul& k, const std::string& mode, Inputs& in, const Versions& v)
{
  applySetter(k, "setData", mode, in, v);
  applySetter(k, "setLHS", mode, in, v);
  applySetter(k, "setRHS", mode, in, v);
  applySetter(k, "setVar", mode, in, v);
  // (a freshly built object never sees an option that is switched off)
  if (mode == "BAYES" && v.Bayes >= 0) applySetter(k, "setBayes", mode, in, v);
  if (mode == "COLCOK" && v.ColCok >= 0) applySetter(k, "setColCok", mode, in, v);
}
static VectorDouble get(KrigingCalcul& k, const std::string& g)
{
  if (g == "Zstar") return k.getEstimation();
  if (g == "Stdv") return k.getStdv();
  if (g == "VarZ") return k.getVarianceZstar();
  if (g == "Beta") return k.getPostMean();
  if (g == "Sigmac") return flat(k.getPostCov());
  if (g == "MuUK") return flat(k.getMu());
  if (g == "Lambda0") return flat(k.getLambda0());
  if (g == "Lambda") return flat(k.getLambda());
  return VectorDouble();
}
static Value run(const Value& script)
{
  static Inputs in;
  static bool built = false;
  if (!built) { build(in); built = true; }
  std::string mode = script.at("mode").s();
  bool inplace = script.has("style") && script.at("style").s() == "inplace";
  KrigingCalcul k;
  Versions v;
  Work w;
  if (inplace)
  {
    for (const char* s : {"setData", "setLHS", "setRHS", "setVar"}) applySetterInPlace(k, s, mode, in, v, w);
    if (mode == "BAYES") applySetterInPlace(k, "setBayes", mode, in, v, w);
    if (mode == "COLCOK") applySetterInPlace(k, "setColCok", mode, in, v, w);
  }
  else
    setAll(k, mode, in, v);
  Value obs = Value::array();
  int step = 0;
  for (auto& h : script.at("hist").arr)
  {
    step++;
    std::string op = h.at("op").s();
    if (op == "get")
    {
      std::string g = h.at("g").s();
      VectorDouble r1 = get(k, g);
      KrigingCalcul fresh;
      setAll(fresh, mode, in, v);
      VectorDouble r2 = get(fresh, g);
      Value o = Value::object();
      o["step"] = Value(step); o["g"] = Value(g);
      o["n"] = Value((int)r1.size()); o["nfresh"] = Value((int)r2.size());
      o["reldiff"] = Value(maxRelDiff(r1, r2));
      o["value"] = vec(r1); o["fresh"] = vec(r2);
      obs.push(o);
    }
    else
    {
      if (op == "setData") v.Z = 1 - v.Z;
      else if (op == "setLHS") v.LHS = 1 - v.LHS;
      else if (op == "setRHS") v.RHS = 1 - v.RHS;
      else if (op == "setVar") v.Var = 1 - v.Var;
      else if (op == "setBayes") v.Bayes = (v.Bayes == 0) ? 1 : 0;
      else if (op == "setColCok") v.ColCok = (v.ColCok == 0) ? 1 : 0;
      else if (op == "unsetBayes") v.Bayes = -1;
      else if (op == "unsetColCok") v.ColCok = -1;
      if (inplace) applySetterInPlace(k, op, mode, in, v, w); else applySetter(k, op, mode, in, v);
    }
  }
  return obs;
}
}  // namespace kc

// ============================================================== dispatcher
namespace cc { Value run(const Value& script); }
namespace cow { Value run(const Value& script); }
#include "hist_covcache.hpp"
#include "hist_cow.hpp"
#include "hist_neigh.hpp"
#include "hist_copy.hpp"
#include "hist_modeledit.hpp"
#include "hist_redefine.hpp"

int main(int argc, char** argv)
{
  if (argc < 4) return 2;
  std::string mode = argv[1];
  std::vector<Value> scripts = vj::readNdjson(argv[2]);
  FILE* fo = fopen(argv[3], "a");
  if (!fo) return 2;
  setvbuf(fo, nullptr, _IOLBF, 0);
  OUT_FD = fileno(fo);
  int startAt = argc > 4 ? atoi(argv[4]) : 0;
  if (!freopen("/dev/null", "w", stdout)) return 2;
  std::set_terminate([]() { onCrash(6); });
  signal(SIGSEGV, onCrash); signal(SIGABRT, onCrash); signal(SIGFPE, onCrash); signal(SIGBUS, onCrash);
  for (int is = startAt; is < (int)scripts.size(); is++)
  {
    Value sc = scripts[is];
    sc["idx"] = Value(is);
    snprintf(CUR, sizeof CUR, "%s", vj::dump(sc).c_str());
    Value obs;
    if (mode == "krigcalc") obs = kc::run(sc);
    else if (mode == "covcache") obs = cc::run(sc);
    else if (mode == "cow") obs = cow::run(sc);
    else if (mode == "neighmemo") obs = nm::run(sc);
    else if (mode == "copy") obs = cp::run(sc);
    else if (mode == "modeledit") obs = me::run(sc);
    else if (mode == "redefine") obs = rd::run(sc);
    else return 2;
    Value rec = Value::object();
    rec["idx"] = Value(is);
    rec["obs"] = obs;
    fprintf(fo, "%s\n", vj::dump(rec).c_str());
  }
  fclose(fo);
  return 0;
}
