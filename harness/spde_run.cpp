// C15 binding: executes on the REAL gstlearn objects the cases emitted by TLC from SpdeMesh.tla (mode "proj":
// MeshETurbo / MeshEStandard / ProjMatrix) and SpdeOps.tla (mode "ops": ShiftOpCs, PrecisionOp, PrecisionOpCs,
// PrecisionOpMultiConditional(Cs), SPDE, LinearOpCGSolver, polynomials) and writes what the library did (one
// ndjson line per case).  Nothing is decided here: rows, matrices, discrepancies and residuals are MEASURED and
// written; expectations and tolerances come from the specification (through tools/checks/c15.py).
//
// usage: spde_run proj|ops <cases.ndjson> <observed.ndjson> [first line to execute (0-based), append mode]
// exit 0 = all cases executed; exit 88 = the library crashed in the case whose id is in the last line of
// <observed.ndjson> ({"id":..,"crash":signal,"line":n}); the caller restarts at line n+1.
#include "vjson.hpp"
#include "Basic/Grid.hpp"
#include "Basic/Law.hpp"
#include "Basic/VectorNumT.hpp"
#include "Basic/VectorHelper.hpp"
#include "Basic/AException.hpp"
#include "Db/Db.hpp"
#include "Db/DbGrid.hpp"
#include "Enum/ELoc.hpp"
#include "Enum/ELoadBy.hpp"
#include "Enum/ECov.hpp"
#include "Enum/EPowerPT.hpp"
#include "Enum/ESPDECalcMode.hpp"
#include "Mesh/AMesh.hpp"
#include "Mesh/MeshETurbo.hpp"
#include "Mesh/MeshEStandard.hpp"
#include "Matrix/MatrixRectangular.hpp"
#include "Matrix/MatrixInt.hpp"
#include "Matrix/MatrixSparse.hpp"
#include "Matrix/NF_Triplet.hpp"
#include "LinearOp/ProjMatrix.hpp"
#include "LinearOp/ProjMultiMatrix.hpp"
#include "LinearOp/ShiftOpCs.hpp"
#include "LinearOp/PrecisionOp.hpp"
#include "LinearOp/PrecisionOpCs.hpp"
#include "LinearOp/PrecisionOpMultiConditional.hpp"
#include "LinearOp/PrecisionOpMultiConditionalCs.hpp"
#include "LinearOp/CholeskySparse.hpp"
#include "LinearOp/LinearOpCGSolver.hpp"
#include "Polynomials/ClassicalPolynomial.hpp"
#include "Polynomials/Chebychev.hpp"
#include "Covariances/CovAniso.hpp"
#include "Covariances/CovContext.hpp"
#include "Model/Model.hpp"
#include "API/SPDE.hpp"
#include "API/SPDEParam.hpp"
#include "Space/ASpaceObject.hpp"
#include "Enum/ESpaceType.hpp"
#include <Eigen/Dense>
#include <csignal>
#include <unistd.h>
#include <fcntl.h>
#include <functional>
#include <memory>

using vj::Value;

static int g_outfd = -1;
static long long g_curid = -1, g_curline = -1;
static void onCrash(int sig)
{
  char buf[96];
  int n = snprintf(buf, sizeof buf, "{\"id\":%lld,\"crash\":%d,\"line\":%lld}\n", g_curid, sig, g_curline);
  if (g_outfd >= 0) { ssize_t w = write(g_outfd, buf, n); (void)w; }
  _exit(88);
}

static VectorInt vi(const Value& v) { VectorInt r; for (auto& e : v.arr) r.push_back(e.i()); return r; }
static VectorDouble vd(const Value& v) { VectorDouble r; for (auto& e : v.arr) r.push_back(e.d()); return r; }
static Value jv(const VectorDouble& v) { Value a = Value::array(); for (double x : v) a.push(Value(x)); return a; }
static Value jv(const std::vector<double>& v) { Value a = Value::array(); for (double x : v) a.push(Value(x)); return a; }
static Value jv(const VectorInt& v) { Value a = Value::array(); for (int x : v) a.push(Value(x)); return a; }

// ------------------------------------------------------------------------------------------------ projection

// a sparse matrix as {nrows, ncols, rows: [[ [col, value], ...], ...]} (stored zeros are left out)
static Value sparseRows(const MatrixSparse* m)
{
  Value o = Value::object();
  if (m == nullptr) { o["null"] = Value(1); return o; }
  int nr = m->getNRows(), nc = m->getNCols();
  o["nrows"] = Value(nr);
  o["ncols"] = Value(nc);
  std::vector<Value> rows(nr > 0 ? nr : 0, Value::array());
  NF_Triplet t = m->getMatrixToTriplet();
  for (int k = 0, n = t.getNumber(); k < n; k++)
  {
    int i = t.getRow(k), j = t.getCol(k);
    double v = t.getValue(k);
    if (v == 0. || i < 0 || i >= nr) continue;
    Value e = Value::array();
    e.push(Value(j));
    e.push(Value(v));
    rows[i].push(e);
  }
  Value a = Value::array();
  for (auto& r : rows) a.push(r);
  o["rows"] = a;
  return o;
}

// Db of the points 'idx' of the scene (coordinates x1.., variable z1 = 1 or undefined, optional selection)
static Db* makeDb(int nd, const std::vector<VectorDouble>& pts, const std::vector<int>& idx, const std::vector<int>* zdef,
                  const std::vector<int>* sel)
{
  int n = (int)idx.size();
  VectorDouble tab;
  VectorString names, locs;
  for (int d = 0; d < nd; d++)
  {
    for (int i = 0; i < n; i++) tab.push_back(pts[idx[i]][d]);
    names.push_back("x" + std::to_string(d + 1));
    locs.push_back("x" + std::to_string(d + 1));
  }
  for (int i = 0; i < n; i++) tab.push_back((zdef == nullptr || (*zdef)[idx[i]]) ? 1. + i : TEST);
  names.push_back("z1");
  locs.push_back("z1");
  if (sel != nullptr)
  {
    for (int i = 0; i < n; i++) tab.push_back((*sel)[idx[i]] ? 1. : 0.);
    names.push_back("sel");
    locs.push_back("sel");
  }
  return Db::createFromSamples(n, ELoadBy::COLUMN, tab, names, locs, false);
}

static Value meshStructure(const AMesh* mesh)
{
  Value o = Value::object();
  int nd = mesh->getNDim(), na = mesh->getNApices(), nm = mesh->getNMeshes(), nc = mesh->getNApexPerMesh();
  o["ndim"] = Value(nd);
  o["napices"] = Value(na);
  o["nmeshes"] = Value(nm);
  o["ncorner"] = Value(nc);
  Value ap = Value::array();
  for (int i = 0; i < na; i++)
  {
    Value p = Value::array();
    for (int d = 0; d < nd; d++) p.push(Value(mesh->getApexCoor(i, d)));
    ap.push(p);
  }
  o["apices"] = ap;
  Value ms = Value::array();
  Value mc = Value::array();
  for (int im = 0; im < nm; im++)
  {
    Value s = Value::array();
    Value c = Value::array();
    for (int k = 0; k < nc; k++)
    {
      s.push(Value(mesh->getApex(im, k)));
      Value p = Value::array();
      for (int d = 0; d < nd; d++) p.push(Value(mesh->getCoor(im, k, d)));
      c.push(p);
    }
    ms.push(s);
    mc.push(c);
  }
  o["meshes"] = ms;
  o["corners"] = mc;       // coordinates through getCoor(imesh, rank, idim)
  return o;
}

// a route that throws is recorded under its own name: the other routes of the scene are still examined
template <class F> static void guarded(Value& routes, const std::string& name, F f)
{
  try { f(); }
  catch (const std::exception& e) { Value x = Value::object(); x["exception"] = Value(std::string(e.what())); routes[name] = x; }
  catch (const std::string& e) { Value x = Value::object(); x["exception"] = Value(e); routes[name] = x; }
  catch (...) { Value x = Value::object(); x["exception"] = Value("unknown"); routes[name] = x; }
}
template <class F> static AMesh* guardedMesh(Value& failures, const std::string& name, F f)
{
  AMesh* m = nullptr;
  guarded(failures, name, [&]() { m = f(); });
  return m;
}

static void runProj(const Value& c, Value& o)
{
  Value mfail = Value::object();
  int nd = c.at("nd").i();
  defineDefaultSpace(ESpaceType::RN, nd);
  bool isTurbo = c.at("type").s() == "turbo";
  std::vector<VectorDouble> pts;
  for (auto& p : c.at("pts").arr) pts.push_back(vd(p));
  int np = (int)pts.size();
  std::vector<int> inside, sel, zdef;
  for (auto& e : c.at("inside").arr) inside.push_back(e.i());
  for (auto& e : c.at("sel").arr) sel.push_back(e.i());
  for (auto& e : c.at("zdef").arr) zdef.push_back(e.i());

  // ---- the real meshes (main one + the other public ways of building the same mesh)
  std::vector<std::pair<std::string, AMesh*>> meshes;     // first = main
  DbGrid* dbg = nullptr;
  if (isTurbo)
  {
    const Value& t = c.at("turbo");
    VectorInt nx = vi(t.at("nx"));
    VectorDouble dx = vd(t.at("dx")), x0 = vd(t.at("x0")), ang = vd(t.at("ang"));
    bool pol = t.at("pol").i() != 0;
    dbg = DbGrid::create(nx, dx, x0, ang);
    auto add = [&](const std::string& name, std::function<AMesh*()> f) { meshes.push_back({name, guardedMesh(mfail, "inside@" + name, f)}); };
    if (t.has("sel"))
    {
      // turbo mesh of a grid with a selection (masked nodes)
      VectorDouble sel = vd(t.at("sel"));
      dbg->addColumns(sel, "sel", ELoc::SEL, 0);
      meshes.push_back({"MeshETurbo::createFromGrid", MeshETurbo::createFromGrid(dbg, pol, false)});
      add("MeshETurbo::initFromGridByAngles", [&]() { MeshETurbo* t4 = new MeshETurbo(); t4->initFromGridByAngles(nx, dx, x0, ang, sel, pol, false); return t4; });
    }
    else
    {
      meshes.push_back({"MeshETurbo::create", MeshETurbo::create(nx, dx, x0, ang, pol, false)});
      add("MeshETurbo::createFromGrid", [&]() { return MeshETurbo::createFromGrid(dbg, pol, false); });
      add("MeshETurbo::createFromGridInfo", [&]() { return MeshETurbo::createFromGridInfo(&dbg->getGrid(), pol, false); });
      add("MeshETurbo::initFromGridByAngles", [&]() { MeshETurbo* t4 = new MeshETurbo(); t4->initFromGridByAngles(nx, dx, x0, ang, VectorDouble(), pol, false); return t4; });
    }
    add("MeshETurbo(copy)", [&]() { return new MeshETurbo(*dynamic_cast<MeshETurbo*>(meshes[0].second)); });
    add("MeshEStandard::resetFromTurbo", [&]() { MeshEStandard* st = new MeshEStandard(); st->resetFromTurbo(*dynamic_cast<MeshETurbo*>(meshes[0].second), false); return st; });
  }
  else
  {
    const Value& ap = c.at("apices");
    const Value& ms = c.at("meshes");
    int na = (int)ap.size(), nm = (int)ms.size(), nc = nd + 1;
    MatrixRectangular A(na, nd);
    MatrixInt M(nm, nc);
    VectorDouble arow, acol(na * nd);
    VectorInt mrow, mcol(nm * nc);
    for (int i = 0; i < na; i++)
      for (int d = 0; d < nd; d++)
      {
        double v = ap[i][d].d();
        A.setValue(i, d, v);
        arow.push_back(v);
        acol[d * na + i] = v;
      }
    for (int i = 0; i < nm; i++)
      for (int k = 0; k < nc; k++)
      {
        int v = ms[i][k].i();
        M.setValue(i, k, v);
        mrow.push_back(v);
        mcol[k * nm + i] = v;
      }
    meshes.push_back({"MeshEStandard::createFromExternal", MeshEStandard::createFromExternal(A, M, false)});
    auto add = [&](const std::string& name, std::function<AMesh*()> f) { meshes.push_back({name, guardedMesh(mfail, "inside@" + name, f)}); };
    add("MeshEStandard::reset(byRow)", [&]() { MeshEStandard* s2 = new MeshEStandard(); s2->reset(nd, nc, arow, mrow, false, false); return s2; });
    add("MeshEStandard::reset(byCol)", [&]() { MeshEStandard* s3 = new MeshEStandard(); s3->reset(nd, nc, acol, mcol, true, false); return s3; });
    add("MeshEStandard(copy)", [&]() { return new MeshEStandard(*dynamic_cast<MeshEStandard*>(meshes[0].second)); });
  }
  AMesh* mesh = meshes[0].second;
  o["mesh"] = meshStructure(mesh);
  Value routes = Value::object();

  // ---- layouts (which points, in which order) are chosen by the caller
  std::vector<int> all(np), rev(np), ins;
  for (int i = 0; i < np; i++) { all[i] = i; rev[i] = np - 1 - i; if (inside[i]) ins.push_back(i); }

  // every point alone in its own Db
  {
    Value a = Value::array();
    for (int i = 0; i < np; i++)
    {
      std::vector<int> one(1, i);
      Db* db = makeDb(nd, pts, one, nullptr, nullptr);
      ProjMatrix pm(db, mesh);
      a.push(sparseRows(&pm));
      delete db;
    }
    routes["single@ProjMatrix(db,mesh)"] = a;
  }
  // all points, in order and backwards
  {
    Db* db = makeDb(nd, pts, all, nullptr, nullptr);
    ProjMatrix* pm = ProjMatrix::create(db, mesh);
    routes["all@ProjMatrix::create"] = sparseRows(pm);
    delete pm;
    delete db;
    db = makeDb(nd, pts, rev, nullptr, nullptr);
    pm = mesh->createProjMatrix(db);
    routes["rev@AMesh::createProjMatrix"] = sparseRows(pm);
    delete pm;
    delete db;
  }
  // inside points only: plain, with a selection, with undefined values of the variable, other entry points
  if (!ins.empty())
  {
    Db* db = makeDb(nd, pts, ins, nullptr, nullptr);
    for (size_t im = 0; im < meshes.size(); im++)
    {
      std::string rn = "inside@" + meshes[im].first;
      if (meshes[im].second == nullptr) { if (mfail.has(rn)) routes[rn] = mfail.at(rn); else { Value n = Value::object(); n["null"] = Value(1); routes[rn] = n; } continue; }
      guarded(routes, rn, [&]() { ProjMatrix pm(db, meshes[im].second); routes[rn] = sparseRows(&pm); });
    }
    {
      ProjMatrix pm;
      pm.resetFromMeshAndDb(db, mesh);
      routes["inside@ProjMatrix::resetFromMeshAndDb"] = sparseRows(&pm);
      ProjMatrix pc(pm);
      routes["inside@ProjMatrix(copy)"] = sparseRows(&pc);
      // the matrix as an operator: point2mesh of the unit vectors gives the rows, mesh2point of the coordinate
      // functions (and of the constant 1) gives the affine functions at the points
      int nr = pm.getPointNumber(), nc = pm.getApexNumber();
      Value p2m = Value::object();
      p2m["nrows"] = Value(nr);
      p2m["ncols"] = Value(nc);
      Value rows = Value::array();
      for (int i = 0; i < nr; i++)
      {
        VectorDouble e(nr, 0.), out;
        e[i] = 1.;
        int err = pm.point2mesh(e, out);
        Value r = Value::array();
        if (err) { Value x = Value::array(); x.push(Value(-1)); x.push(Value(1.)); r.push(x); }
        for (int j = 0; j < (int)out.size(); j++)
          if (out[j] != 0.) { Value x = Value::array(); x.push(Value(j)); x.push(Value(out[j])); r.push(x); }
        rows.push(r);
      }
      p2m["rows"] = rows;
      routes["inside@IProjMatrix::point2mesh(unit vectors)"] = p2m;
      Value aff = Value::array();
      for (int d = 0; d <= nd; d++)
      {
        VectorDouble f(nc), out;
        for (int j = 0; j < nc; j++) f[j] = (d < nd) ? mesh->getApexCoor(j, d) : 1.;
        int err = pm.mesh2point(f, out);
        aff.push(err ? Value() : jv(out));
      }
      o["affine@IProjMatrix::mesh2point"] = aff;      // [coordinate 1.., constant][point]
    }
    {
      std::vector<const AMesh*> vm(1, mesh);
      ProjMultiMatrix pmm = ProjMultiMatrix::createFromDbAndMeshes(db, vm, false);
      routes["inside@ProjMultiMatrix::createFromDbAndMeshes"] = sparseRows(pmm.getProj());
    }
    delete db;
    db = makeDb(nd, pts, ins, nullptr, &sel);
    {
      ProjMatrix pm;
      pm.resetFromMeshAndDb(db, mesh);
      routes["insidesel@ProjMatrix::resetFromMeshAndDb"] = sparseRows(&pm);
    }
    delete db;
    db = makeDb(nd, pts, ins, &zdef, nullptr);
    {
      ProjMatrix pm(db, mesh, 0);
      routes["insidezdef@ProjMatrix(db,mesh,rankZ=0)"] = sparseRows(&pm);
    }
    delete db;
  }
  o["routes"] = routes;
  for (auto& m : meshes) delete m.second;
  delete dbg;
}

// ------------------------------------------------------------------------------------------------ operators
#include "spde_ops.hpp"

// ------------------------------------------------------------------------------------------------ driver

int main(int argc, char** argv)
{
  if (argc < 4) { fprintf(stderr, "usage: spde_run proj|ops cases.ndjson observed.ndjson [start]\n"); return 2; }
  std::string mode = argv[1];
  long long start = argc > 4 ? atoll(argv[4]) : 0;
  std::ifstream in(argv[2]);
  if (!in) { fprintf(stderr, "cannot open %s\n", argv[2]); return 2; }
  g_outfd = open(argv[3], O_WRONLY | O_CREAT | (start > 0 ? O_APPEND : O_TRUNC), 0644);
  if (g_outfd < 0) { fprintf(stderr, "cannot open %s\n", argv[3]); return 2; }
  // gstlearn prints diagnostics: keep them away
  int devnull = open("/dev/null", O_WRONLY);
  dup2(devnull, 1);
  int errfd = dup(2);
  dup2(devnull, 2);
  for (int s : {SIGSEGV, SIGABRT, SIGFPE, SIGBUS, SIGILL}) signal(s, onCrash);
  std::string line;
  long long n = -1;
  while (std::getline(in, line))
  {
    n++;
    if (n < start || line.empty()) continue;
    Value c = vj::parse(line);
    g_curid = (long long)c.at("id").d();
    g_curline = n;
    Value o = Value::object();
    o["id"] = Value(g_curid);
    try
    {
      if (mode == "proj") runProj(c, o);
      else runOps(c, o);
    }
    catch (const std::exception& e) { o["exception"] = Value(std::string(e.what())); }
    catch (const std::string& e) { o["exception"] = Value(e); }
    catch (const char* e) { o["exception"] = Value(std::string(e)); }
    catch (...) { o["exception"] = Value("unknown"); }
    std::string s = vj::dump(o);
    s.push_back('\n');
    size_t off = 0;
    while (off < s.size())
    {
      ssize_t w = write(g_outfd, s.data() + off, s.size() - off);
      if (w <= 0) { dprintf(errfd, "write failed\n"); return 2; }
      off += (size_t)w;
    }
  }
  close(g_outfd);
  return 0;
}
