// C12 binding: every case emitted by TLC from spec/MC_VarioPairs.tla is executed on the REAL
// gstlearn Vario (VarioParam / DirParam::create / DirParam::createFromGrid, Vario::computeFromDb,
// getSwVec / getHhVec / getGgVec) and the observed values are written as ndjson.  Nothing is judged
// here: the expected values come from TLC, the comparison is done by tools/checks/c12.py.
//
// Variants of a case (the same abstract data set presented differently to the library):
//   base    samples in the order of the case                      (general algorithm)
//   rev     samples in reverse order                               (general algorithm)
//   shuf    samples in a seeded random order                       (general algorithm)
//   tr      coordinates translated by an integer vector            (general algorithm)
//   dbgrid  the lattice as a DbGrid, absent nodes undefined        (general algorithm)
//   grid    the same DbGrid with DirParam::createFromGrid          (grid-specialised algorithm,
//           only the directions the specification declares grid-compatible; + general1..3)
// Algorithms: "gen" = ordinary call, "bys" = by-sample option (flag_sample = true).
// Data sets with several samples at one position are not presented as grids.
// A run whose numbers are bit-identical to the corresponding base run is written as {"same":true}
// (compression only).
//
// usage: vario_run <cases.ndjson> <out.ndjson> <seed>
// exit 0; crashes of the library are contained (fork per batch) and reported as {"id":..,"crash":..}.
#include "vjson.hpp"
#include "Variogram/Vario.hpp"
#include "Variogram/VarioParam.hpp"
#include "Variogram/DirParam.hpp"
#include "Db/Db.hpp"
#include "Db/DbGrid.hpp"
#include "Enum/ELoc.hpp"
#include "Enum/ELoadBy.hpp"
#include "Enum/ECalcVario.hpp"
#include "Space/ASpaceObject.hpp"
#include <random>
#include <algorithm>
#include <csignal>
#include <cmath>
#include <unistd.h>
#include <sys/wait.h>
#include <sys/mman.h>

using vj::Value;

struct Sample { std::vector<int> p; std::vector<int> z; int s; int w; };
struct DirSpec { int npas, p2, tn, td, tolang, bn, bd, cn, cd; std::vector<int> cod; bool grid; bool ok; };
struct Case {
  bool dup = false;   // several samples at one position: not representable as a DbGrid
  long id; std::vector<int> dims; int nvar; bool hasSel, hasW; std::vector<Sample> pts;
  std::vector<DirSpec> dirs; std::vector<std::string> modes;
};

static const int NA = -99;
static int g_nd = -1;

struct Progress { long id; char label[64]; };
static Progress* g_prog = nullptr;
static void mark(long id, const std::string& l)
{
  (void)id;
  strncpy(g_prog->label, l.c_str(), 63);
  g_prog->label[63] = 0;
}

static ECalcVario modeOf(const std::string& m)
{
  if (m == "vg") return ECalcVario::VARIOGRAM;
  if (m == "cov") return ECalcVario::COVARIANCE;
  if (m == "covnc") return ECalcVario::COVARIANCE_NC;
  if (m == "covg") return ECalcVario::COVARIOGRAM;
  if (m == "mado") return ECalcVario::MADOGRAM;
  if (m == "rodo") return ECalcVario::RODOGRAM;
  if (m == "poisson") return ECalcVario::POISSON;
  if (m == "order4") return ECalcVario::ORDER4;
  if (m == "trans1") return ECalcVario::TRANS1;
  if (m == "trans2") return ECalcVario::TRANS2;
  if (m == "binormal") return ECalcVario::BINORMAL;
  if (m == "general1") return ECalcVario::GENERAL1;
  if (m == "general2") return ECalcVario::GENERAL2;
  if (m == "general3") return ECalcVario::GENERAL3;
  return ECalcVario::UNDEFINED;
}

static void setSpace(int nd)
{
  if (nd != g_nd) { defineDefaultSpace(ESpaceType::RN, nd); g_nd = nd; }
}

static Case readCase(const Value& v)
{
  Case c;
  c.id = (long)v.at("id").d();
  c.dims = v.at("dims").ints();
  c.nvar = v.at("nvar").i();
  c.hasSel = v.at("hasSel").boolean();
  c.hasW = v.at("hasW").boolean();
  for (auto& e : v.at("pts").arr)
  {
    Sample s; s.p = e[0].ints(); s.z = e[1].ints(); s.s = e[2].i(); s.w = e[3].i();
    c.pts.push_back(s);
  }
  for (auto& e : v.at("dirs").arr)
  {
    DirSpec d;
    d.npas = e.at("npas").i(); d.p2 = e.at("p2").i(); d.tn = e.at("tn").i(); d.td = e.at("td").i();
    d.tolang = e.at("tolang").i(); d.bn = e.at("bn").i(); d.bd = e.at("bd").i(); d.cn = e.at("cn").i(); d.cd = e.at("cd").i();
    d.cod = e.at("cod").ints(); d.grid = e.getb("grid", false); d.ok = e.getb("ok", true);
    c.dirs.push_back(d);
  }
  c.modes = v.at("modes").strings();
  for (size_t a = 0; a < c.pts.size(); a++)
    for (size_t b = a + 1; b < c.pts.size(); b++)
      if (c.pts[a].p == c.pts[b].p) c.dup = true;
  return c;
}

// ---- the data presented to the library -------------------------------------------------------
static Db* makeDb(const Case& c, const std::vector<int>& order, const std::vector<int>& shift)
{
  int nd = (int)c.dims.size();
  int n = (int)c.pts.size();
  int ncol = nd + c.nvar + (c.hasSel ? 1 : 0) + (c.hasW ? 1 : 0);
  VectorDouble tab;
  tab.reserve(n * ncol);
  for (int k = 0; k < n; k++)
  {
    const Sample& s = c.pts[order[k]];
    for (int d = 0; d < nd; d++) tab.push_back((double)(s.p[d] + shift[d]));
    for (int i = 0; i < c.nvar; i++) tab.push_back(s.z[i] == NA ? TEST : (double)s.z[i]);
    if (c.hasSel) tab.push_back((double)s.s);
    if (c.hasW) tab.push_back((double)s.w);
  }
  VectorString names, locs;
  for (int d = 0; d < nd; d++) { names.push_back("x" + std::to_string(d + 1)); locs.push_back("x" + std::to_string(d + 1)); }
  for (int i = 0; i < c.nvar; i++) { names.push_back("v" + std::to_string(i + 1)); locs.push_back("z" + std::to_string(i + 1)); }
  if (c.hasSel) { names.push_back("mask"); locs.push_back("sel"); }
  if (c.hasW) { names.push_back("wgt"); locs.push_back("w1"); }
  Db* db = Db::createFromSamples(n, ELoadBy::SAMPLE, tab, names, locs, false);
  return db;
}

static DbGrid* makeGrid(const Case& c, const std::vector<int>& shift)
{
  int nd = (int)c.dims.size();
  VectorInt nx; VectorDouble dx, x0;
  int nnode = 1;
  for (int d = 0; d < nd; d++) { nx.push_back(c.dims[d]); dx.push_back(1.); x0.push_back((double)shift[d]); nnode *= c.dims[d]; }
  DbGrid* g = DbGrid::create(nx, dx, x0);
  std::vector<VectorDouble> z(c.nvar, VectorDouble(nnode, TEST));
  VectorDouble sel(nnode, 1.), wgt(nnode, 1.);
  for (auto& s : c.pts)
  {
    int rank = 0, mult = 1;
    for (int d = 0; d < nd; d++) { rank += s.p[d] * mult; mult *= c.dims[d]; }
    for (int i = 0; i < c.nvar; i++) z[i][rank] = s.z[i] == NA ? TEST : (double)s.z[i];
    sel[rank] = s.s; wgt[rank] = s.w;
  }
  for (int i = 0; i < c.nvar; i++) g->addColumns(z[i], "v" + std::to_string(i + 1), ELoc::Z, i);
  if (c.hasSel) g->addColumns(sel, "mask", ELoc::SEL, 0);
  if (c.hasW) g->addColumns(wgt, "wgt", ELoc::W, 0);
  return g;
}

static VarioParam* makeParam(const Case& c, const std::vector<int>& which)
{
  VarioParam* vp = new VarioParam();
  for (int x : which)
  {
    const DirSpec& d = c.dirs[x];
    VectorDouble codir;
    for (int v : d.cod) codir.push_back((double)v);
    double dpas = std::sqrt((double)d.p2);
    DirParam* dp = DirParam::create(d.npas, dpas, (double)d.tn / (double)d.td, (double)d.tolang, 0, 0,
                                    d.bn ? (double)d.bn / (double)d.bd : TEST,
                                    d.cn ? (double)d.cn / (double)d.cd : TEST,
                                    0., VectorDouble(), codir);
    vp->addDir(*dp);
    delete dp;
  }
  return vp;
}

static VarioParam* makeGridParam(const Case& c, const DbGrid* g, const std::vector<int>& which)
{
  VarioParam* vp = new VarioParam();
  for (int x : which)
  {
    const DirSpec& d = c.dirs[x];
    VectorInt grincr;
    for (int v : d.cod) grincr.push_back(v);
    DirParam* dp = DirParam::createFromGrid(g, d.npas, grincr);
    vp->addDir(*dp);
    delete dp;
  }
  return vp;
}

// ---- observation -----------------------------------------------------------------------------
static Value numv(double x)
{
  if (std::isnan(x)) return Value("nan");
  if (FFFF(x)) return Value();         // undefined (TEST)
  if (std::isinf(x)) return Value("inf");
  return Value(x);
}
static Value vecv(const VectorDouble& v)
{
  Value a = Value::array();
  for (double x : v) a.push(numv(x));
  return a;
}

struct RunOut { int err; int ndir; std::vector<double> flat; Value full; bool symread; };

static bool sameVec(const VectorDouble& a, const VectorDouble& b)
{
  if (a.size() != b.size()) return false;
  for (size_t k = 0; k < a.size(); k++)
    if (!(a[k] == b[k] || (std::isnan(a[k]) && std::isnan(b[k])))) return false;
  return true;
}

// The result of a pair of variables is read through the vector accessors with (i, j), j <= i; the same
// cell is then read again through the vector accessors with (j, i) and through the scalar accessors
// getSw / getHh / getGg with (i, j) and (j, i).  A reading that is not bit-identical to the first one is
// written out under "alt" and compared with the expectation like the first one.
static RunOut observe(Vario* v, int nvar)
{
  RunOut r; r.err = 0; r.symread = true;
  if (v == nullptr) { r.err = 1; r.ndir = 0; r.full = Value::array(); return r; }
  r.ndir = v->getDirectionNumber();
  bool asym = v->getFlagAsym();
  Value dirs = Value::array();
  for (int d = 0; d < r.ndir; d++)
  {
    Value vps = Value::array();
    for (int i = 0; i < nvar; i++)
      for (int j = 0; j <= i; j++)
      {
        VectorDouble sw = v->getSwVec(d, i, j, false), hh = v->getHhVec(d, i, j, false),
                     gg = v->getGgVec(d, i, j, false, false, false);
        Value o = Value::object();
        o["sw"] = vecv(sw); o["hh"] = vecv(hh); o["gg"] = vecv(gg);
        Value alts = Value::array();
        int nl = (int)sw.size();
        for (int mode = 0; mode < 3; mode++)
        {
          if (mode != 1 && i == j) continue;       // 0: vectors (j,i)  1: scalars (i,j)  2: scalars (j,i)
          int a = mode == 1 ? i : j, b = mode == 1 ? j : i;
          VectorDouble sw2, hh2, gg2;
          if (mode == 0)
          {
            sw2 = v->getSwVec(d, a, b, false); hh2 = v->getHhVec(d, a, b, false); gg2 = v->getGgVec(d, a, b, false, false, false);
          }
          else
            for (int k = 0; k < nl; k++)
            {
              sw2.push_back(v->getSw(d, a, b, k)); hh2.push_back(v->getHh(d, a, b, k));
              gg2.push_back(v->getGg(d, a, b, k, asym, false));
            }
          if (sameVec(sw, sw2) && sameVec(hh, hh2) && sameVec(gg, gg2)) continue;
          r.symread = false;
          Value al = Value::object();
          al["via"] = Value(mode == 0 ? "vec_ji" : mode == 1 ? "get_ij" : "get_ji");
          al["sw"] = vecv(sw2); al["hh"] = vecv(hh2); al["gg"] = vecv(gg2);
          alts.push(al);
        }
        if (alts.size() > 0) o["alt"] = alts;
        vps.push(o);
        for (double x : sw) r.flat.push_back(x);
        for (double x : hh) r.flat.push_back(x);
        for (double x : gg) r.flat.push_back(x);
      }
    dirs.push(vps);
  }
  r.full = dirs;
  return r;
}

static bool bitSame(const RunOut& a, const RunOut& b)
{
  if (a.err != b.err || a.ndir != b.ndir || a.flat.size() != b.flat.size() || !a.symread || !b.symread) return false;
  for (size_t k = 0; k < a.flat.size(); k++)
  {
    double x = a.flat[k], y = b.flat[k];
    if (std::isnan(x) && std::isnan(y)) continue;
    if (x != y) return false;
  }
  return true;
}

static Value runRecord(const char* variant, const char* algo, const std::string& mode, const std::vector<int>& which,
                       const RunOut& o, const RunOut* base)
{
  Value r = Value::object();
  r["v"] = Value(variant); r["algo"] = Value(algo); r["mode"] = Value(mode);
  Value w = Value::array();
  for (int x : which) w.push(Value(x));
  r["which"] = w;
  if (base != nullptr && bitSame(o, *base)) { r["same"] = Value(true); return r; }
  r["err"] = Value(o.err);
  r["symread"] = Value(o.symread);
  r["dirs"] = o.full;
  return r;
}

// A case is executed in up to three units, each written as its own line, so that a crash of the
// library in one unit loses that unit only:
//   phase 0  general algorithm (all variants, by-sample) + grid-specialised algorithm, usual estimators
//   phase 1  grid-specialised algorithm, covariogram
//   phase 2  grid-specialised algorithm, generalised variograms of order 1-3
static bool hasPhase(const Case& c, int phase)
{
  if (phase == 0) return true;
  if (c.dup) return false;
  bool gridable = false;
  for (auto& d : c.dirs) if (d.grid && d.ok) gridable = true;
  if (!gridable) return false;
  if (phase == 1)
  {
    if (c.hasW) return false;
    for (auto& m : c.modes) if (m == "covg") return true;
    return false;
  }
  return c.nvar == 1;
}

static void processCase(const Case& c, int phase, FILE* out, unsigned seed)
{
  int nd = (int)c.dims.size();
  int n = (int)c.pts.size();
  setSpace(nd);
  std::vector<int> ident(n), rev(n), shuf(n), zero(nd, 0), tr(nd);
  for (int k = 0; k < n; k++) { ident[k] = k; rev[k] = n - 1 - k; shuf[k] = k; }
  std::mt19937 rng(seed * 7919u + (unsigned)c.id);
  for (int k = n - 1; k > 0; k--) std::swap(shuf[k], shuf[rng() % (unsigned)(k + 1)]);
  static const int T1[1] = {7}, T2[2] = {5, -3}, T3[3] = {-2, 4, 9};
  for (int d = 0; d < nd; d++) tr[d] = nd == 1 ? T1[d] : nd == 2 ? T2[d] : T3[d];

  std::vector<int> all, gridable;
  for (int x = 0; x < (int)c.dirs.size(); x++) { all.push_back(x); if (c.dirs[x].grid && c.dirs[x].ok) gridable.push_back(x); }

  Value rec = Value::object();
  rec["id"] = Value((long long)c.id);
  rec["phase"] = Value(phase);
  Value runs = Value::array();

  struct Var { const char* name; Db* db; bool bys; };
  Db* dbBase = makeDb(c, ident, zero);
  Db* dbRev = makeDb(c, rev, zero);
  Db* dbShuf = makeDb(c, shuf, zero);
  Db* dbTr = makeDb(c, ident, tr);
  DbGrid* gBase = makeGrid(c, zero);
  DbGrid* gTr = makeGrid(c, tr);
  std::vector<Var> vars = {{"base", dbBase, true}, {"rev", dbRev, false}, {"shuf", dbShuf, false},
                           {"tr", dbTr, true}};
  if (!c.dup) vars.push_back({"dbgrid", gBase, false});
  VarioParam* vp = makeParam(c, all);

  for (const std::string& mode : c.modes)
  {
    if (phase != 0) break;
    ECalcVario calc = modeOf(mode);
    bool forcedBys = (mode == "covg");   // the library forces the by-sample algorithm for the covariogram
    RunOut base;
    for (size_t k = 0; k < vars.size(); k++)
    {
      if (forcedBys && !vars[k].bys) continue;
      mark(c.id, std::string(vars[k].name) + "/gen/" + mode);
      Vario* v = Vario::computeFromDb(*vp, vars[k].db, calc);
      RunOut o = observe(v, c.nvar);
      delete v;
      runs.push(runRecord(vars[k].name, forcedBys ? "bys" : "gen", mode, all, o, k == 0 ? nullptr : &base));
      if (k == 0) base = o;
    }
    if (mode == "vg" || mode == "covnc")
    {
      RunOut b2;
      int cnt = 0;
      for (size_t k = 0; k < vars.size(); k++)
      {
        if (!vars[k].bys) continue;
        mark(c.id, std::string(vars[k].name) + "/bys/" + mode);
        Vario* v = Vario::computeFromDb(*vp, vars[k].db, calc, true);
        RunOut o = observe(v, c.nvar);
        delete v;
        runs.push(runRecord(vars[k].name, "bys", mode, all, o, cnt == 0 ? nullptr : &b2));
        if (cnt == 0) b2 = o;
        cnt++;
      }
    }
  }
  // grid-specialised algorithm on the directions declared grid-compatible by the specification
  if (!gridable.empty() && !c.dup)
  {
    std::vector<std::string> gm;
    if (phase == 0) { for (auto& m : c.modes) if (m != "covg") gm.push_back(m); }
    if (phase == 1) gm.push_back("covg");
    if (phase == 2) { gm.push_back("general1"); gm.push_back("general2"); gm.push_back("general3"); }
    for (int t = 0; t < 2; t++)
    {
      DbGrid* g = t == 0 ? gBase : gTr;
      VarioParam* gp = makeGridParam(c, g, gridable);
      for (const std::string& mode : gm)
      {
        mark(c.id, std::string(t == 0 ? "grid" : "gridtr") + "/gen/" + mode);
        Vario* v = Vario::computeFromDb(*gp, g, modeOf(mode));
        RunOut o = observe(v, c.nvar);
        delete v;
        runs.push(runRecord(t == 0 ? "grid" : "gridtr", "gen", mode, gridable, o, nullptr));
      }
      delete gp;
    }
  }
  delete vp;
  delete dbBase; delete dbRev; delete dbShuf; delete dbTr; delete gBase; delete gTr;
  rec["runs"] = runs;
  std::string s = vj::dump(rec);
  fputs(s.c_str(), out);
  fputc('\n', out);
  fflush(out);
}

// Dependence on history: the library keeps the index of the current direction in a file-static
// variable that every pair loop has to set (a loop that forgets it stores its results under the
// direction left by the previous calculation, possibly out of bounds).  A by-sample calculation with ONE
// direction, fresh and after an ordinary calculation with TWO directions.  Run in a child process.
static void historyProbe(FILE* out)
{
  setSpace(2);
  VectorDouble tab;
  for (int y = 0; y < 3; y++) for (int x = 0; x < 3; x++) { tab.push_back(x); tab.push_back(y); tab.push_back(x + 10 * y); }
  Db* db = Db::createFromSamples(9, ELoadBy::SAMPLE, tab, {"x1", "x2", "v1"}, {"x1", "x2", "z1"}, false);
  VarioParam vp1, vp2;
  DirParam* d0 = DirParam::create(3, 1., 0.5, 0., 0, 0, TEST, TEST, 0., VectorDouble(), {1., 0.});
  DirParam* d1 = DirParam::create(3, 1., 0.5, 0., 0, 0, TEST, TEST, 0., VectorDouble(), {0., 1.});
  vp1.addDir(*d0); vp2.addDir(*d0); vp2.addDir(*d1);
  Value rec = Value::object();
  rec["history"] = Value(true);
  Vario* a = Vario::computeFromDb(vp1, db, ECalcVario::VARIOGRAM);           // ordinary, 1 direction
  Vario* f = Vario::computeFromDb(vp1, db, ECalcVario::VARIOGRAM, true);     // by-sample, fresh
  rec["fresh"] = observe(f, 1).full;
  fputs((vj::dump(rec) + "\n").c_str(), out); fflush(out);
  Vario* b = Vario::computeFromDb(vp2, db, ECalcVario::VARIOGRAM);           // ordinary, 2 directions
  Vario* h = Vario::computeFromDb(vp1, db, ECalcVario::VARIOGRAM, true);     // by-sample, after history
  Value rec2 = Value::object();
  rec2["history"] = Value(true);
  rec2["after"] = observe(h, 1).full;
  fputs((vj::dump(rec2) + "\n").c_str(), out); fflush(out);
}

int main(int argc, char** argv)
{
  if (argc < 4) { fprintf(stderr, "usage: vario_run cases.ndjson out.ndjson seed [history]\n"); return 2; }
  unsigned seed = (unsigned)atol(argv[3]);
  bool history = argc > 4 && std::string(argv[4]) == "history";
  FILE* out = fopen(argv[2], "w");
  if (!out) { fprintf(stderr, "cannot write %s\n", argv[2]); return 2; }
  if (!freopen("/dev/null", "w", stdout)) return 2;
  g_prog = (Progress*)mmap(nullptr, sizeof(Progress), PROT_READ | PROT_WRITE, MAP_SHARED | MAP_ANONYMOUS, -1, 0);
  g_prog->id = -1; g_prog->label[0] = 0;

  std::vector<Case> cases;
  {
    std::ifstream f(argv[1]);
    std::string line;
    while (std::getline(f, line))
    {
      if (line.find_first_not_of(" \t\r") == std::string::npos) continue;
      cases.push_back(readCase(vj::parse(line)));
    }
  }
  std::vector<std::pair<size_t, int>> units;
  for (size_t k = 0; k < cases.size(); k++)
    for (int ph = 0; ph < 3; ph++)
      if (hasPhase(cases[k], ph)) units.push_back({k, ph});
  const size_t BATCH = 600;
  size_t start = 0;
  while (start < units.size())
  {
    fflush(out);
    g_prog->id = -1;
    pid_t pid = fork();
    if (pid == 0)
    {
      FILE* devnull = freopen("/dev/null", "w", stderr);
      (void)devnull;
      size_t end = std::min(units.size(), start + BATCH);
      for (size_t u = start; u < end; u++)
      {
        g_prog->id = (long)u;
        g_prog->label[0] = 0;
        processCase(cases[units[u].first], units[u].second, out, seed);
      }
      fflush(out);
      _exit(0);
    }
    int status = 0;
    waitpid(pid, &status, 0);
    if (WIFEXITED(status) && WEXITSTATUS(status) == 0) { start = std::min(units.size(), start + BATCH); continue; }
    // crash (signal) or abort of the process by the library (exit): the unit being processed is lost
    long u = g_prog->id;
    if (u < (long)start || u >= (long)units.size()) u = (long)start;
    fseek(out, 0, SEEK_END);
    Value rec = Value::object();
    rec["id"] = Value((long long)cases[units[u].first].id);
    rec["phase"] = Value(units[u].second);
    rec["crash"] = Value(WIFSIGNALED(status) ? WTERMSIG(status) : -WEXITSTATUS(status));
    rec["label"] = Value(std::string(g_prog->label));
    fputs((vj::dump(rec) + "\n").c_str(), out);
    fflush(out);
    start = (size_t)u + 1;
  }
  if (history)
  {
    fflush(out);
    pid_t pid = fork();
    if (pid == 0) { FILE* dn = freopen("/dev/null", "w", stderr); (void)dn; historyProbe(out); fflush(out); _exit(0); }
    int status = 0;
    waitpid(pid, &status, 0);
    fseek(out, 0, SEEK_END);
    Value rec = Value::object();
    rec["history"] = Value(true);
    rec["exit"] = Value(WIFSIGNALED(status) ? WTERMSIG(status) : 0);
    fputs((vj::dump(rec) + "\n").c_str(), out);
  }
  fclose(out);
  return 0;
}
