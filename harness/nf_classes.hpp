// Per-class builders / projections / queries (included by nf_common.hpp).
#pragma once

namespace nf {

// ===================================================================== Db
inline Db* buildDb(const Value& o)
{
  int nech = o.at("nech").i();
  Db* db = Db::createFromSamples(nech, ELoadBy::SAMPLE, dbTab(o), dbNames(o), VectorString(), false);
  if (db) setLocators(db, o.at("locators"));
  return db;
}
inline Value projDb(Db* db) { Value p = Value::object(); projDbPart(db, p); return p; }

// ===================================================================== DbGrid
inline DbGrid* buildDbGrid(const Value& o)
{
  DbGrid* g = DbGrid::create(ints(o.at("nx")), nums(o.at("dx")), nums(o.at("x0")), nums(o.at("angles")), ELoadBy::SAMPLE,
                             dbTab(o), dbNames(o), VectorString(), false, false);
  if (g) setLocators(g, o.at("locators"));
  return g;
}
inline void projGridPart(const DbGrid* g, Value& p)
{
  int nd = g->getNDim();
  p["ndim"] = I(nd);
  Value nx = Value::array(), x0 = Value::array(), dx = Value::array(), an = Value::array();
  for (int d = 0; d < nd; d++) { nx.push(I(g->getNX(d))); x0.push(T(g->getX0(d))); dx.push(T(g->getDX(d))); an.push(T(g->getAngle(d))); }
  p["nx"] = nx; p["x0"] = x0; p["dx"] = dx; p["angles"] = an;
}
inline Value projDbGrid(DbGrid* g) { Value p = Value::object(); projGridPart(g, p); projDbPart(g, p); return p; }
inline Value queryDbGrid(DbGrid* g)
{
  Value q = queryDbPart(g);
  Value co = Value::array();
  int nd = g->getNDim();
  for (int e = 0; e < g->getSampleNumber(); e++)
  {
    VectorDouble c(nd);
    g->rankToCoordinatesInPlace(e, c);
    co.push(toks(c));
  }
  q["coords"] = co;
  q["ntotal"] = I(g->getGrid().getNTotal());
  return q;
}

// ===================================================================== Table
inline Table* buildTable(const Value& o)
{
  int nr = o.at("nrows").i(), nc = o.at("ncols").i();
  Table* t = Table::create(nr, nc);
  for (int r = 0; r < nr; r++) for (int c = 0; c < nc; c++) t->setValue(r, c, num(o.at("vals").arr[r * nc + c]));
  return t;
}
inline Value projTable(Table* t)
{
  Value p = Value::object();
  p["ncols"] = I(t->getNCols());
  p["nrows"] = I(t->getNRows());
  Value v = Value::array();
  for (int r = 0; r < t->getNRows(); r++) for (int c = 0; c < t->getNCols(); c++) v.push(T(t->getValue(r, c)));
  p["vals"] = v;
  return p;
}
inline Value queryTable(Table* t)
{
  Value q = Value::object();
  Value cols = Value::array();
  for (int c = 0; c < t->getNCols(); c++) cols.push(toks(t->getColumn(c)));
  q["columns"] = cols;
  return q;
}

// ===================================================================== Model
inline Model* buildModel(const Value& o)
{
  int ndim = o.at("ndim").i(), nvar = o.at("nvar").i();
  SpaceRN space(ndim);
  CovContext ctxt(nvar, &space);
  Model* m = Model::create(ctxt);
  for (auto& cv : o.at("covs").arr)
  {
    ECov type = ECov::fromValue(cv.at("type").i());
    double range = num(cv.at("range"));
    VectorDouble ranges, angles;
    if (cv.at("aniso").i() != 0) for (auto& k : cv.at("coeffs").arr) ranges.push_back(num(k) * range);
    if (cv.at("rot").i() != 0) angles = rotAngles(ndim);
    m->addCovFromParam(type, range, 1., num(cv.at("param")), ranges, nums(cv.at("sill")), angles, true);
  }
  int nd = (int)o.at("drifts").arr.size();
  if (nd > 0) m->setDriftIRF(nd == 1 ? 0 : 1);
  if (o.at("field").s() != "NA") m->setField(num(o.at("field")));
  for (size_t v = 0; v < o.at("means").arr.size(); v++) m->setMean(num(o.at("means").arr[v]), (int)v);
  for (int i = 0; i < nvar; i++) for (int j = 0; j < nvar; j++) m->setCovar0(i, j, num(o.at("covar0").arr[i * nvar + j]));
  return m;
}
inline Value projModel(Model* m)
{
  Value p = Value::object();
  int ndim = m->getDimensionNumber(), nvar = m->getVariableNumber();
  p["ndim"] = I(ndim);
  p["nvar"] = I(nvar);
  p["field"] = T(m->getField());
  Value covs = Value::array();
  for (int k = 0; k < m->getCovaNumber(); k++)
  {
    const CovAniso* cv = m->getCova(k);
    Value c = Value::object();
    c["type"] = I(cv->getType().getValue());
    c["range"] = T(cv->getRange());
    c["param"] = T(cv->getParam());
    bool an = cv->getFlagAniso(), ro = an && cv->getFlagRotation();
    c["aniso"] = I(an ? 1 : 0);
    c["coeffs"] = an ? toks(cv->getAnisoCoeffs()) : Value::array();
    c["rot"] = I(ro ? 1 : 0);
    Value rm = Value::array();
    if (ro) for (int i = 0; i < ndim; i++) for (int j = 0; j < ndim; j++) rm.push(T(cv->getAnisoRotMat(j, i)));
    c["rotmat"] = rm;
    Value sl = Value::array();
    for (int i = 0; i < nvar; i++) for (int j = 0; j < nvar; j++) sl.push(T(m->getSill(k, i, j)));
    c["sill"] = sl;
    covs.push(c);
  }
  p["covs"] = covs;
  Value dr = Value::array();
  for (int k = 0; k < m->getDriftNumber(); k++) dr.push(Value(m->getDrift(k)->getDriftName()));
  p["drifts"] = dr;
  Value mn = Value::array();
  if (m->getDriftNumber() <= 0) for (int v = 0; v < nvar; v++) mn.push(T(m->getMean(v)));
  p["means"] = mn;
  Value c0 = Value::array();
  for (int i = 0; i < nvar; i++) for (int j = 0; j < nvar; j++) c0.push(T(m->getCovar0(i, j)));
  p["covar0"] = c0;
  return p;
}
inline Value extraModel(Model* m)
{
  Value x = Value::object();
  Value rg = Value::array(), ang = Value::array();
  for (int k = 0; k < m->getCovaNumber(); k++)
  {
    const CovAniso* cv = m->getCova(k);
    rg.push(toks(cv->getRanges()));
    ang.push(cv->getFlagAniso() && cv->getFlagRotation() ? toks(cv->getAnisoAngles()) : Value::array());
  }
  x["ranges"] = rg;
  x["angles"] = ang;
  x["ncova"] = I(m->getCovaNumber());
  x["ndrift"] = I(m->getDriftNumber());
  return x;
}
inline Value queryModel(Model* m)
{
  Value q = Value::object();
  int ndim = m->getDimensionNumber(), nvar = m->getVariableNumber();
  if (m->getCovaNumber() <= 0) return q;
  Value ev = Value::array();
  std::vector<VectorDouble> lags;
  lags.push_back(VectorDouble(ndim, 0.));
  { VectorDouble l(ndim, 0.); l[0] = 1.; lags.push_back(l); }
  { VectorDouble l(ndim, 0.5); lags.push_back(l); }
  { VectorDouble l(ndim, 0.); l[ndim - 1] = 0.25; lags.push_back(l); }
  for (auto& l : lags)
  {
    double step = 0.;
    for (double c : l) step += c * c;
    step = sqrt(step);
    VectorDouble dir = l;
    if (step > 0) for (auto& c : dir) c /= step; else dir[0] = 1.;
    for (int i = 0; i < nvar; i++) for (int j = 0; j < nvar; j++) ev.push(T(m->evalIvarIpas(step, dir, i, j)));
  }
  q["cov"] = ev;
  return q;
}

// ===================================================================== neighbourhoods
// fixed data set for the selection queries
inline Db* neighData(int ndim)
{
  static const double P[8][3] = {{0.5, 0, 0}, {0, 1, 0}, {-1.5, 0, 0.5}, {0, -2, 0}, {2, 2, 1}, {-3, 1, 0}, {0.25, 0.25, 0.1}, {4, 0, 0}};
  VectorDouble tab;
  for (int e = 0; e < 8; e++) { for (int d = 0; d < ndim; d++) tab.push_back(P[e][d]); tab.push_back(e + 1.); }
  VectorString names, locs;
  for (int d = 0; d < ndim; d++) { names.push_back("x" + std::to_string(d + 1)); locs.push_back("x" + std::to_string(d + 1)); }
  names.push_back("z"); locs.push_back("z1");
  return Db::createFromSamples(8, ELoadBy::SAMPLE, tab, names, locs, false);
}
inline Value neighSelect(ANeigh* ng, int ndim)
{
  Value q = Value::object();
  if (ndim < 1 || ndim > 3) return q;
  defineDefaultSpace(ESpaceType::RN, ndim);
  Db* din = neighData(ndim);
  VectorDouble t0(ndim, 0.);
  VectorString names, locs;
  for (int d = 0; d < ndim; d++) { names.push_back("x" + std::to_string(d + 1)); locs.push_back("x" + std::to_string(d + 1)); }
  Db* dout = Db::createFromSamples(1, ELoadBy::SAMPLE, t0, names, locs, false);
  if (ng->attach(din, dout) == 0)
  {
    VectorInt ranks;
    ng->select(0, ranks);
    q["selected"] = toksI(ranks);
  }
  else q["selected"] = Value("attach-failed");
  delete din; delete dout;
  return q;
}
inline NeighUnique* buildNeighUnique(const Value& o) { return NeighUnique::create(false); }
inline Value projNeighUnique(NeighUnique* n) { Value p = Value::object(); p["ndim"] = I(n->getNDim()); return p; }
inline Value queryNeighUnique(NeighUnique* n) { return neighSelect(n, n->getNDim()); }

inline NeighBench* buildNeighBench(const Value& o) { return NeighBench::create(false, num(o.at("width"))); }
inline Value projNeighBench(NeighBench* n)
{
  Value p = Value::object();
  p["ndim"] = I(n->getNDim());
  p["width"] = T(n->getWidth());
  return p;
}
inline Value queryNeighBench(NeighBench* n) { return neighSelect(n, n->getNDim()); }

inline NeighCell* buildNeighCell(const Value& o) { return NeighCell::create(false, o.at("nmini").i()); }
inline Value projNeighCell(NeighCell* n) { Value p = Value::object(); p["ndim"] = I(n->getNDim()); p["nmini"] = I(n->getNMini()); return p; }

inline NeighImage* buildNeighImage(const Value& o) { return NeighImage::create(ints(o.at("radius")), o.at("skip").i()); }
inline Value projNeighImage(NeighImage* n)
{
  Value p = Value::object();
  p["ndim"] = I(n->getNDim());
  p["skip"] = I(n->getSkip());
  Value r = Value::array();
  for (int d = 0; d < (int)n->getNDim(); d++) r.push(I(n->getImageRadius(d)));
  p["radius"] = r;
  return p;
}

inline NeighMoving* buildNeighMoving(const Value& o)
{
  int ndim = o.at("ndim").i();
  VectorDouble coeffs, angles;
  if (o.at("aniso").i() != 0) coeffs = nums(o.at("coeffs"));
  if (o.at("rot").i() != 0) angles = rotAngles(ndim);
  return NeighMoving::create(false, o.at("nmaxi").i(), num(o.at("radius")), o.at("nmini").i(), o.at("nsect").i(), o.at("nsmax").i(),
                             coeffs, angles);
}
inline Value projNeighMoving(NeighMoving* n)
{
  Value p = Value::object();
  p["ndim"] = I(n->getNDim());
  p["sector"] = I(n->getFlagSector() ? 1 : 0);
  p["nmini"] = I(n->getNMini());
  p["nmaxi"] = I(n->getNMaxi());
  p["nsect"] = I(n->getNSect());
  p["nsmax"] = I(n->getNSMax());
  p["radius"] = T(n->getRadius());
  bool an = n->getFlagAniso(), ro = an && n->getFlagRotation();
  p["aniso"] = I(an ? 1 : 0);
  p["coeffs"] = an ? toks(n->getAnisoCoeffs()) : Value::array();
  p["rot"] = I(ro ? 1 : 0);
  p["rotmat"] = ro ? toks(n->getAnisoRotMats()) : Value::array();
  return p;
}
inline Value queryNeighMoving(NeighMoving* n)
{
  // (a selection with an absurd number of sectors allocates as much for an object built through the API)
  // (the distance checker of an isotropic neighbourhood is 2-D whatever the space: selections are asked only when the
  //  dimensions agree, as for an object built through the API)
  const BiTargetCheckDistance* b = n->getBiPtDist();
  bool sane = n->getNSect() <= 64 && b->getNDim() == (int)n->getNDim();
  // (undefined or non-positive anisotropy ratios break the selection of an object built through the API as well)
  if (n->getFlagAniso()) for (double c : n->getAnisoCoeffs()) if (FFFF(c) || c <= 0.) sane = false;
  Value q = sane ? neighSelect(n, n->getNDim()) : Value::object();
  VectorDouble dd(b->getNDim(), 1.);
  q["normdist"] = T(b->getNormalizedDistance(dd));
  return q;
}

// ===================================================================== Vario
inline Vario* buildVario(const Value& o)
{
  int ndim = o.at("ndim").i(), nvar = o.at("nvar").i();
  SpaceRN space(ndim);
  VarioParam vp(num(o.at("scale")));
  for (auto& d : o.at("dirs").arr)
  {
    DirParam dp(d.at("npas").i(), num(d.at("dpas")), num(d.at("toldis")), num(d.at("tolang")), d.at("optcode").i(), 0, TEST, TEST,
                num(d.at("tolcode")), VectorDouble(), nums(d.at("codir")), TEST, &space);
    if (d.at("grid").i() != 0) dp.setGrincr(ints(d.at("grincr")));
    vp.addDir(dp);
  }
  Vario* v = Vario::create(vp);
  v->setNVar(nvar);
  v->internalVariableResize();
  v->internalDirectionResize();
  v->setVars(nums(o.at("vars")));
  v->setVariableNames(o.at("names").strings());
  int idir = 0;
  for (auto& d : o.at("dirs").arr)
  {
    const Value& vals = d.at("vals");
    for (int i = 0; i < (int)vals.arr.size() / 3; i++)
    {
      v->setSwByIndex(idir, i, num(vals.arr[3 * i]));
      v->setHhByIndex(idir, i, num(vals.arr[3 * i + 1]));
      v->setGgByIndex(idir, i, num(vals.arr[3 * i + 2]));
    }
    idir++;
  }
  return v;
}
inline Value projVario(Vario* v)
{
  Value p = Value::object();
  int nvar = v->getVariableNumber(), ndir = v->getDirectionNumber();
  p["ndim"] = I(ndir > 0 ? v->getDimensionNumber() : 0);
  p["nvar"] = I(nvar);
  p["scale"] = T(v->getScale());
  p["names"] = strs(v->getVariableNames());
  Value vars = Value::array();
  for (int i = 0; i < nvar; i++) for (int j = 0; j < nvar; j++) vars.push(T(v->getVar(i, j)));
  p["vars"] = vars;
  Value dirs = Value::array();
  for (int k = 0; k < ndir; k++)
  {
    const DirParam& dp = v->getDirParam(k);
    Value d = Value::object();
    bool grid = dp.isDefinedForGrid();
    d["regular"] = I(dp.getFlagRegular() ? 1 : 0);
    d["npas"] = I(dp.getLagNumber());
    d["optcode"] = I(dp.getOptionCode());
    d["tolcode"] = T(dp.getTolCode());
    d["dpas"] = T(dp.getDPas());
    d["toldis"] = T(dp.getTolDist());
    d["grid"] = I(grid ? 1 : 0);
    d["tolang"] = grid ? Value("0") : T(dp.getTolAngle());
    d["codir"] = toks(dp.getCodirs());
    d["grincr"] = grid ? toksI(dp.getGrincrs()) : Value::array();
    Value vals = Value::array();
    for (int i = 0; i < v->getDirSize(k); i++) { vals.push(T(v->getSwByIndex(k, i))); vals.push(T(v->getHhByIndex(k, i))); vals.push(T(v->getGgByIndex(k, i))); }
    d["vals"] = vals;
    dirs.push(d);
  }
  p["dirs"] = dirs;
  return p;
}
inline Value queryVario(Vario* v)
{
  Value q = Value::object();
  int nvar = v->getVariableNumber();
  Value g = Value::array();
  for (int k = 0; k < v->getDirectionNumber(); k++)
    for (int i = 0; i < nvar; i++) for (int j = 0; j <= i; j++)
    {
      g.push(toks(v->getGgVec(k, i, j, false, false, false)));
      g.push(toks(v->getHhVec(k, i, j)));
      g.push(toks(v->getSwVec(k, i, j)));
    }
  q["vectors"] = g;
  return q;
}

// ===================================================================== Polygons, PolyLine2D
inline Polygons* buildPolygons(const Value& o)
{
  Polygons* p = Polygons::create();
  for (auto& e : o.at("elems").arr)
  {
    VectorDouble x, y;
    for (auto& pt : e.at("xy").arr) { x.push_back(num(pt.arr[0])); y.push_back(num(pt.arr[1])); }
    PolyElem pe(x, y, num(e.at("zmin")), num(e.at("zmax")));
    p->addPolyElem(pe);
  }
  return p;
}
inline Value projPolygons(Polygons* p)
{
  Value r = Value::object();
  Value elems = Value::array();
  for (int k = 0; k < p->getPolyElemNumber(); k++)
  {
    const PolyElem& pe = p->getPolyElem(k);
    Value e = Value::object();
    e["zmin"] = T(pe.getZmin());
    e["zmax"] = T(pe.getZmax());
    Value xy = Value::array();
    for (int i = 0; i < pe.getNPoints(); i++) { Value pt = Value::array(); pt.push(T(pe.getX(i))); pt.push(T(pe.getY(i))); xy.push(pt); }
    e["xy"] = xy;
    elems.push(e);
  }
  r["elems"] = elems;
  return r;
}
inline Value queryPolygons(Polygons* p)
{
  Value q = Value::object();
  static const double PT[5][3] = {{0.25, 0.25, 0}, {0.5, -0.5, 0.5}, {-0.5, 0.1, 2}, {2, 2, -0.5}, {0.1, 0.6, 1.3}};
  Value in = Value::array();
  for (int k = 0; k < 5; k++)
  {
    in.push(Value(p->inside({PT[k][0], PT[k][1]})));
    in.push(Value(p->inside({PT[k][0], PT[k][1], PT[k][2]})));
  }
  q["inside"] = in;
  return q;
}
inline PolyLine2D* buildPolyLine2D(const Value& o)
{
  VectorDouble x, y;
  for (auto& pt : o.at("xy").arr) { x.push_back(num(pt.arr[0])); y.push_back(num(pt.arr[1])); }
  return new PolyLine2D(x, y);
}
inline Value projPolyLine2D(PolyLine2D* p)
{
  Value r = Value::object();
  Value xy = Value::array();
  for (int i = 0; i < p->getNPoints(); i++) { Value pt = Value::array(); pt.push(T(p->getX(i))); pt.push(T(p->getY(i))); xy.push(pt); }
  r["xy"] = xy;
  return r;
}

// ===================================================================== DbLine, DbGraphO
inline VectorString dbLocNames(const Value& o) { VectorString l; for (auto& t : o.at("locators").arr) l.push_back(t.s() == "NA" ? std::string("") : t.s()); return l; }
inline DbLine* buildDbLine(const Value& o)
{
  VectorInt counts;
  for (auto& l : o.at("lines").arr) counts.push_back((int)l.arr.size());
  DbLine* db = DbLine::createFromSamples(o.at("nech").i(), ELoadBy::SAMPLE, dbTab(o), counts, dbNames(o), VectorString(), false);
  if (db) setLocators(db, o.at("locators"));
  return db;
}
inline Value projDbLine(DbLine* db)
{
  Value p = Value::object();
  p["ndim"] = I(db->getNDim());
  Value lines = Value::array();
  int start = 0;
  for (int l = 0; l < db->getLineNumber(); l++)
  {
    Value a = Value::array();
    int n = db->getLineSampleCount(l);
    // addresses of the samples of the line, recovered from getLineBySample
    for (int e = 0; e < db->getSampleNumber(); e++) if (db->getLineBySample(e) == l) a.push(I(e));
    if ((int)a.arr.size() != n) a.push(Value("count-mismatch"));
    lines.push(a);
    start += n;
  }
  p["lines"] = lines;
  projDbPart(db, p);
  return p;
}
inline DbGraphO* buildDbGraphO(const Value& o)
{
  NF_Triplet nft;
  int n = o.at("nech").i();
  for (auto& a : o.at("arcs").arr)
  {
    // (the arc (n-1, n-1, 0) that fixes the size of the matrix is added by createFromSamples itself)
    if ((int)num(a.arr[0]) == n - 1 && (int)num(a.arr[1]) == n - 1 && num(a.arr[2]) == 0.) continue;
    nft.add((int)num(a.arr[0]), (int)num(a.arr[1]), num(a.arr[2]));
  }
  DbGraphO* db = DbGraphO::createFromSamples(o.at("nech").i(), ELoadBy::SAMPLE, dbTab(o), nft, dbNames(o), VectorString(), false);
  if (db) setLocators(db, o.at("locators"));
  return db;
}
inline Value projDbGraphO(DbGraphO* db)
{
  Value p = Value::object();
  p["ndim"] = I(db->getNDim());
  Value arcs = Value::array();
  NF_Triplet nft = db->getMatArcs().getMatrixToTriplet();
  for (int i = 0; i < db->getArcNumber(); i++)
  {
    Value a = Value::array();
    a.push(T(nft.getRow(i))); a.push(T(nft.getCol(i))); a.push(T(nft.getValue(i)));
    arcs.push(a);
  }
  p["arcs"] = arcs;
  projDbPart(db, p);
  return p;
}
inline Value queryDbGraphO(DbGraphO* db)
{
  Value q = queryDbPart(db);
  q["nnodes"] = I(db->getNodeNumber());
  q["narcs"] = I(db->getArcNumber());
  Value v = Value::array();
  for (int i = 0; i < db->getArcNumber(); i++) v.push(T(db->getArcValue(i)));
  q["arcValues"] = v;
  q["orphans"] = toksI(db->getOrphans());
  q["endsDown"] = toksI(db->getEndsDown());
  return q;
}

// ===================================================================== anamorphoses
inline void setCont(AnamContinuous* a, const Value& c)
{
  a->setAzmin(num(c.arr[0])); a->setAzmax(num(c.arr[1])); a->setAymin(num(c.arr[2])); a->setAymax(num(c.arr[3]));
  a->setPzmin(num(c.arr[4])); a->setPzmax(num(c.arr[5])); a->setPymin(num(c.arr[6])); a->setPymax(num(c.arr[7]));
  a->setMean(num(c.arr[8])); a->setVariance(num(c.arr[9]));
}
inline Value projCont(const AnamContinuous* a)
{
  Value c = Value::array();
  c.push(T(a->getAzmin())); c.push(T(a->getAzmax())); c.push(T(a->getAymin())); c.push(T(a->getAymax()));
  c.push(T(a->getPzmin())); c.push(T(a->getPzmax())); c.push(T(a->getPymin())); c.push(T(a->getPymax()));
  c.push(T(a->getMean())); c.push(T(a->getVariance()));
  return c;
}
inline AnamHermite* buildAnamHermite(const Value& o)
{
  double r = num(o.at("rcoef"));
  AnamHermite* a = AnamHermite::create((int)o.at("psi").arr.size(), true, r);
  // the recipe gives the Hermite coefficients themselves (the change of support r is a separate parameter)
  VectorDouble psi = nums(o.at("psi"));
  Value c = o.at("cont");
  a->setPsiHns(psi);
  a->calculateMeanAndVariance();       // as after a fit: mean and variance are those of the coefficients
  a->setAzmin(num(c.arr[0])); a->setAzmax(num(c.arr[1])); a->setAymin(num(c.arr[2])); a->setAymax(num(c.arr[3]));
  a->setPzmin(num(c.arr[4])); a->setPzmax(num(c.arr[5])); a->setPymin(num(c.arr[6])); a->setPymax(num(c.arr[7]));
  return a;
}
inline Value projAnamHermite(AnamHermite* a)
{
  Value p = Value::object();
  Value c = projCont(a);
  c.arr[8] = Value("*"); c.arr[9] = Value("*");      // mean and variance are functions of the coefficients
  p["cont"] = c;
  p["rcoef"] = T(a->getRCoef());
  // getPsiHns() returns psi_n r^n: the coefficients themselves are recovered (r is a power of 2 here: exact division)
  VectorDouble psi = a->getPsiHns();
  double r = a->getRCoef(), rn = 1.;
  if (!FFFF(r) && r > 0.)
    for (size_t n = 0; n < psi.size(); n++) { if (psi[n] != TEST) psi[n] /= rn; rn *= r; }
  p["psi"] = toks(psi);
  return p;
}
inline Value queryAnamHermite(AnamHermite* a)
{
  Value q = Value::object();
  q["nbpoly"] = I(a->getNbPoly());
  q["mean"] = T(a->getMean());
  q["variance"] = T(a->getVariance());
  // (with a single coefficient transformToRawValue writes In[1] of a vector of size 1: Hermite.cpp:56, not a matter of files)
  if (a->getNbPoly() >= 2 && a->getNbPoly() <= 50)
  {
    bool fin = true;
    for (double v : a->getPsiHns()) if (FFFF(v) || std::fabs(v) > 1e10) fin = false;
    if (fin) { Value z = Value::array(); for (double y : {-1., 0., 0.5}) z.push(T(a->transformToRawValue(y))); q["z"] = z; }
  }
  return q;
}
inline AnamEmpirical* buildAnamEmpirical(const Value& o)
{
  AnamEmpirical* a = AnamEmpirical::create((int)o.at("z").arr.size(), num(o.at("sigma2e")));
  a->setDisc(nums(o.at("z")), nums(o.at("y")));
  setCont(a, o.at("cont"));
  return a;
}
inline Value projAnamEmpirical(AnamEmpirical* a)
{
  Value p = Value::object();
  p["cont"] = projCont(a);
  p["sigma2e"] = T(a->getSigma2e());
  p["z"] = toks(a->getZDisc());
  p["y"] = toks(a->getYDisc());
  return p;
}
inline Value extraAnamEmpirical(AnamEmpirical* a) { Value x = Value::object(); x["ndisc"] = I(a->getNDisc()); return x; }
inline AnamDiscreteIR* buildAnamDiscreteIR(const Value& o)
{
  AnamDiscreteIR* a = AnamDiscreteIR::create(num(o.at("rcoef")));
  a->setNCut(o.at("ncut").i());
  a->setNElem(o.at("nelem").i());
  a->setZCut(nums(o.at("zcut")));
  a->setStats(nums(o.at("stats")));
  return a;
}
inline Value projAnamDiscreteIR(AnamDiscreteIR* a)
{
  Value p = Value::object();
  p["ncut"] = I(a->getNCut());
  p["nelem"] = I(a->getNElem());
  p["zcut"] = toks(a->getZCut());
  p["stats"] = toks(a->getStats().getValues());
  p["rcoef"] = T(a->getRCoef());
  return p;
}
inline Value extraAnamDiscreteIR(AnamDiscreteIR* a) { Value x = Value::object(); x["nclass"] = I(a->getNClass()); return x; }

// ===================================================================== meshes
inline MeshEStandard* buildMeshEStandard(const Value& o)
{
  int ndim = o.at("ndim").i(), na = o.at("napices").i(), npm = o.at("npm").i(), nm = o.at("nmeshes").i();
  MatrixRectangular ap(na, ndim);
  ap.setValues(nums(o.at("apices")));
  MatrixInt ms(nm, npm);
  ms.setValues(ints(o.at("meshes")));
  return MeshEStandard::createFromExternal(ap, ms, false);
}
inline Value projMeshEStandard(MeshEStandard* m)
{
  Value p = Value::object();
  int ndim = m->getNDim(), na = m->getNApices(), npm = m->getNApexPerMesh(), nm = m->getNMeshes();
  p["ndim"] = I(ndim); p["napices"] = I(na); p["npm"] = I(npm); p["nmeshes"] = I(nm);
  // same storage order as MatrixRectangular::setValues / getValues of the recipe
  MatrixRectangular ap(na, ndim);
  for (int i = 0; i < na; i++) for (int d = 0; d < ndim; d++) ap.setValue(i, d, m->getApexCoor(i, d));
  p["apices"] = toks(ap.getValues());
  MatrixInt ms(nm, npm);
  for (int i = 0; i < nm; i++) for (int r = 0; r < npm; r++) ms.setValue(i, r, m->getApex(i, r));
  p["meshes"] = toksI(ms.getValues());
  return p;
}
inline Value queryMesh(AMesh* m)
{
  Value q = Value::object();
  Value sz = Value::array();
  if (m->getNDim() >= 2) for (int i = 0; i < m->getNMeshes() && i < 20; i++) sz.push(T(m->getMeshSize(i)));
  q["meshSizes"] = sz;
  Value ap = Value::array();
  for (int i = 0; i < m->getNMeshes() && i < 20; i++) for (int r = 0; r < m->getNApexPerMesh(); r++) ap.push(I(m->getApex(i, r)));
  q["apexRanks"] = ap;
  Value co = Value::array();
  for (int i = 0; i < m->getNApices() && i < 30; i++) for (int d = 0; d < (int)m->getNDim(); d++) co.push(T(m->getApexCoor(i, d)));
  q["coords"] = co;
  return q;
}
inline MeshETurbo* buildMeshETurbo(const Value& o)
{
  int ndim = o.at("ndim").i();
  VectorDouble angles(ndim, 0.);
  bool rot = ndim == 2 && num(o.at("rotmat").arr[0]) == 0.;
  if (rot) angles[0] = 90.;
  return MeshETurbo::create(ints(o.at("nx")), nums(o.at("dx")), nums(o.at("x0")), angles, o.at("polar").i() != 0, false);
}
inline Value projMeshETurbo(MeshETurbo* m)
{
  Value p = Value::object();
  const Grid& g = m->getGrid();
  int ndim = m->getNDim();
  p["ndim"] = I(ndim);
  p["nx"] = toksI(g.getNXs());
  p["dx"] = toks(g.getDXs());
  p["x0"] = toks(g.getX0s());
  p["rotmat"] = toks(g.getRotMat());
  // no getter for the polarisation: it is recognised on the connectivity (2-D / 3-D only)
  int polar = 0;
  if (ndim >= 2 && ndim <= 3 && m->getNMeshes() > 0 && m->getNMeshes() < 100000)
  {
    MeshETurbo* ref = MeshETurbo::createFromGridInfo(&g, false, false);
    if (ref && ref->getNMeshes() == m->getNMeshes())
      for (int i = 0; i < m->getNMeshes() && !polar; i++) for (int r = 0; r < m->getNApexPerMesh(); r++) if (ref->getApex(i, r) != m->getApex(i, r)) { polar = 1; break; }
    delete ref;
  }
  p["polar"] = I(polar);
  p["mode"] = I(m->getMeshIndirect().getMode());
  p["nmesh"] = I(m->getNMeshes());
  p["ngrid"] = I(m->getNApices());
  return p;
}

// ===================================================================== Faults, Rule, RuleShift, FracEnviron
inline Faults* buildFaults(const Value& o)
{
  Faults* f = new Faults();
  for (auto& xy : o.at("faults").arr)
  {
    VectorDouble x, y;
    for (auto& pt : xy.arr) { x.push_back(num(pt.arr[0])); y.push_back(num(pt.arr[1])); }
    f->addFault(PolyLine2D(x, y));
  }
  return f;
}
inline Value projFaults(Faults* f)
{
  Value p = Value::object();
  Value fs = Value::array();
  for (int k = 0; k < f->getNFaults(); k++)
  {
    const PolyLine2D& pl = f->getFault(k);
    Value xy = Value::array();
    for (int i = 0; i < pl.getNPoints(); i++) { Value pt = Value::array(); pt.push(T(pl.getX(i))); pt.push(T(pl.getY(i))); xy.push(pt); }
    fs.push(xy);
  }
  p["faults"] = fs;
  return p;
}
inline VectorString ruleNames(const Value& nodes)
{
  VectorString names;
  for (auto& r : nodes.arr)
  {
    int type = r.arr[3].i(), fac = r.arr[5].i();
    if (type == 1) names.push_back("S");
    else if (type == 2) names.push_back("T");
    else names.push_back("F" + std::to_string(fac));
  }
  return names;
}
inline void ruleRows(const Node* node, int ftype, int frank, int fvers, int* rank, Value& rows, int depth = 0)
{
  if (!node || depth > 64) return;
  Value r = Value::array();
  r.push(I(ftype)); r.push(I(frank)); r.push(I(fvers)); r.push(I(node->getOrient()));
  int cur;
  if (node->getFacies() <= 0) { cur = *rank = (*rank) + 1; r.push(I(cur)); r.push(I(0)); }
  else { cur = *rank; r.push(I(cur)); r.push(I(node->getFacies())); }
  rows.push(r);
  ruleRows(node->getR1(), node->getOrient(), cur, 1, rank, rows, depth + 1);
  ruleRows(node->getR2(), node->getOrient(), cur, 2, rank, rows, depth + 1);
}
inline void projRulePart(const Rule* r, Value& p)
{
  p["mode"] = I(r->getModeRule().getValue());
  p["rho"] = T(r->getRho());
  Value rows = Value::array();
  int rank = 0;
  ruleRows(r->getMainNode(), 0, 0, 0, &rank, rows);
  p["nodes"] = rows;
}
inline Rule* buildRule(const Value& o) { return Rule::createFromNames(ruleNames(o.at("nodes")), num(o.at("rho"))); }
inline Value projRule(Rule* r) { Value p = Value::object(); projRulePart(r, p); return p; }
inline Value queryRule(Rule* r)
{
  Value q = Value::object();
  if (!r->getMainNode()) return q;
  q["nfacies"] = I(r->getFaciesNumber());
  Value f = Value::array();
  static const double G[5][2] = {{0, 0}, {-1, 0.5}, {1, -0.5}, {0.3, 2}, {-2, -2}};
  for (int k = 0; k < 5; k++) f.push(I(r->getFaciesFromGaussian(G[k][0], G[k][1])));
  q["facies"] = f;
  return q;
}
inline RuleShift* buildRuleShift(const Value& o) { return RuleShift::createFromNames(ruleNames(o.at("nodes")), nums(o.at("shift"))); }
inline Value projRuleShift(RuleShift* r)
{
  Value p = Value::object();
  projRulePart(r, p);
  VectorDouble sh = r->getShift();
  sh.resize(3, 0.);
  p["shift"] = toks(sh);
  return p;
}
inline FracEnviron* buildFracEnviron(const Value& o)
{
  const Value& par = o.at("par");
  FracEnviron* e = FracEnviron::create(num(par.arr[0]), num(par.arr[1]), num(par.arr[2]), num(par.arr[3]), num(par.arr[4]), num(par.arr[5]));
  for (auto& f : o.at("fams").arr)
  {
    VectorDouble v = nums(f);
    e->addFamily(FracFamily(v[0], v[1], v[2], v[3], v[4], v[5], v[6], v[7], v[8], v[9]));
  }
  for (auto& f : o.at("faults").arr)
  {
    FracFault ft(num(f.at("coord")), num(f.at("orient")));
    for (size_t k = 0; k < f.at("thetal").arr.size(); k++)
      ft.addFaultPerFamily(num(f.at("thetal").arr[k]), num(f.at("thetar").arr[k]), num(f.at("rangel").arr[k]), num(f.at("ranger").arr[k]));
    e->addFault(ft);
  }
  return e;
}
inline Value projFracEnviron(FracEnviron* e)
{
  Value p = Value::object();
  Value par = Value::array();
  par.push(T(e->getXmax())); par.push(T(e->getYmax())); par.push(T(e->getDeltax())); par.push(T(e->getDeltay())); par.push(T(e->getMean())); par.push(T(e->getStdev()));
  p["par"] = par;
  Value fams = Value::array();
  for (int k = 0; k < e->getNFamilies(); k++)
  {
    const FracFamily& f = e->getFamily(k);
    Value v = Value::array();
    v.push(T(f.getOrient())); v.push(T(f.getDorient())); v.push(T(f.getTheta0())); v.push(T(f.getAlpha())); v.push(T(f.getRatcst()));
    v.push(T(f.getProp1())); v.push(T(f.getProp2())); v.push(T(f.getAterm())); v.push(T(f.getBterm())); v.push(T(f.getRange()));
    fams.push(v);
  }
  p["fams"] = fams;
  Value faults = Value::array();
  for (int k = 0; k < e->getNFaults(); k++)
  {
    const FracFault& f = e->getFault(k);
    Value v = Value::object();
    v["coord"] = T(f.getCoord()); v["orient"] = T(f.getOrient());
    v["thetal"] = toks(f.getThetal()); v["thetar"] = toks(f.getThetar()); v["rangel"] = toks(f.getRangel()); v["ranger"] = toks(f.getRanger());
    faults.push(v);
  }
  p["faults"] = faults;
  return p;
}

// ===================================================================== grid exchange formats (written and read)
inline std::string tok6(double x) { if (x == TEST || std::isnan(x) || std::isinf(x) || x > 1e29) return "NA"; char b[64]; snprintf(b, sizeof b, "%.6g", x); return b; }
inline Value projGridFmt(DbGrid* g)
{
  Value p = Value::object();
  int nd = g->getNDim();
  p["ndim_ge2"] = Value(nd >= 2);
  Value nx = Value::array(), x0 = Value::array(), dx = Value::array(), an = Value::array();
  for (int d = 0; d < 2 && d < nd; d++) { nx.push(I(g->getNX(d))); x0.push(Value(tok6(g->getX0(d)))); dx.push(Value(tok6(g->getDX(d)))); an.push(Value(tok6(g->getAngle(d)))); }
  for (int d = 2; d < nd; d++) nx.push(I(g->getNX(d)));      // further axes (layers) must be degenerate
  while (nx.arr.size() < 3) nx.push(I(1));
  p["nx"] = nx; p["x0"] = x0; p["dx"] = dx; p["angles"] = an;
  p["nech"] = I(g->getSampleNumber());
  Value v = Value::array();
  int ncol = g->getColumnNumber();
  int icol = g->getColIdxByLocator(ELoc::Z, 0);
  if (icol < 0) icol = ncol - 1;
  for (int e = 0; e < g->getSampleNumber() && icol >= 0; e++) v.push(Value(tok6(g->getValueByColIdx(e, icol))));
  p["values"] = v;
  return p;
}
template <class F> bool dumpGridFmt(DbGrid* g, const std::string& file)
{
  int icol = g->getColIdxByLocator(ELoc::Z, 0);
  if (icol < 0) icol = g->getColumnNumber() - 1;
  F f(file.c_str(), g);
  f.setCol(icol);
  return f.writeInFile() == 0;
}
template <class F> Handler mkGridFmt()
{
  std::function<Value(DbGrid*)> none = [](DbGrid*) { return Value::object(); };
  Handler h = mk<DbGrid>(buildDbGrid, projGridFmt, none, none, [](const Value&) { return 2; });
  h.dump = [](void* p, const std::string& f) { return dumpGridFmt<F>((DbGrid*)p, f); };
  h.load = [](const std::string& f) { F fmt(f.c_str()); return (void*)fmt.readGridFromFile(); };
  return h;
}

// ===================================================================== registry
inline int ndimField(const Value& o) { return o.has("ndim") ? o.at("ndim").i() : 2; }
template <class X> std::function<Value(X*)> noneOf() { return [](X*) { return Value::object(); }; }

inline std::map<std::string, Handler>& registry()
{
  static std::map<std::string, Handler> R;
  if (!R.empty()) return R;
  auto two = [](const Value&) { return 2; };
  R["Db"] = mk<Db>(buildDb, projDb, noneOf<Db>(), [](Db* d) { return queryDbPart(d); }, two);
  R["DbGrid"] = mk<DbGrid>(buildDbGrid, projDbGrid, noneOf<DbGrid>(), queryDbGrid, ndimField);
  R["Table"] = mk<Table>(buildTable, projTable, noneOf<Table>(), queryTable, two);
  R["Model"] = mk<Model>(buildModel, projModel, extraModel, queryModel, ndimField);
  R["NeighUnique"] = mk<NeighUnique>(buildNeighUnique, projNeighUnique, noneOf<NeighUnique>(), queryNeighUnique, ndimField);
  R["NeighBench"] = mk<NeighBench>(buildNeighBench, projNeighBench, noneOf<NeighBench>(), queryNeighBench, ndimField);
  R["NeighCell"] = mk<NeighCell>(buildNeighCell, projNeighCell, noneOf<NeighCell>(), noneOf<NeighCell>(), ndimField);
  R["NeighImage"] = mk<NeighImage>(buildNeighImage, projNeighImage, noneOf<NeighImage>(), noneOf<NeighImage>(), ndimField);
  R["NeighMoving"] = mk<NeighMoving>(buildNeighMoving, projNeighMoving, noneOf<NeighMoving>(), queryNeighMoving, ndimField);
  R["Vario"] = mk<Vario>(buildVario, projVario, noneOf<Vario>(), queryVario, ndimField);
  R["Polygons"] = mk<Polygons>(buildPolygons, projPolygons, noneOf<Polygons>(), queryPolygons, two);
  R["PolyLine2D"] = mk<PolyLine2D>(buildPolyLine2D, projPolyLine2D, noneOf<PolyLine2D>(), noneOf<PolyLine2D>(), two);
  R["DbLine"] = mk<DbLine>(buildDbLine, projDbLine, noneOf<DbLine>(), [](DbLine* d) { return queryDbPart(d); }, ndimField);
  R["DbGraphO"] = mk<DbGraphO>(buildDbGraphO, projDbGraphO, noneOf<DbGraphO>(), queryDbGraphO, ndimField);
  R["AnamHermite"] = mk<AnamHermite>(buildAnamHermite, projAnamHermite, noneOf<AnamHermite>(), queryAnamHermite, two);
  R["AnamEmpirical"] = mk<AnamEmpirical>(buildAnamEmpirical, projAnamEmpirical, extraAnamEmpirical, noneOf<AnamEmpirical>(), two);
  R["AnamDiscreteIR"] = mk<AnamDiscreteIR>(buildAnamDiscreteIR, projAnamDiscreteIR, extraAnamDiscreteIR, noneOf<AnamDiscreteIR>(), two);
  R["MeshEStandard"] = mk<MeshEStandard>(buildMeshEStandard, projMeshEStandard, noneOf<MeshEStandard>(), [](MeshEStandard* m) { return queryMesh(m); }, ndimField);
  R["MeshETurbo"] = mk<MeshETurbo>(buildMeshETurbo, projMeshETurbo, noneOf<MeshETurbo>(), [](MeshETurbo* m) { return queryMesh(m); }, ndimField);
  R["Faults"] = mk<Faults>(buildFaults, projFaults, noneOf<Faults>(), noneOf<Faults>(), two);
  R["Rule"] = mk<Rule>(buildRule, projRule, noneOf<Rule>(), queryRule, two);
  R["RuleShift"] = mk<RuleShift>(buildRuleShift, projRuleShift, noneOf<RuleShift>(), noneOf<RuleShift>(), two);
  // RuleShift has no createFromNF of its own: the only public loader is the one inherited from Rule
  R["RuleShift"].load = [](const std::string& f) {
    Rule* r = Rule::createFromNF(f, false);
    RuleShift* rs = dynamic_cast<RuleShift*>(r);
    if (r && !rs) delete r;
    return (void*)rs;
  };
  R["GridZycor"] = mkGridFmt<GridZycor>();
  R["GridIfpEn"] = mkGridFmt<GridIfpEn>();
  R["GridBmp"] = mkGridFmt<GridBmp>();
  R["FracEnviron"] = mk<FracEnviron>(buildFracEnviron, projFracEnviron, noneOf<FracEnviron>(), noneOf<FracEnviron>(), two);
  return R;
}

}  // namespace nf
