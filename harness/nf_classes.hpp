// Per-class builders / projections / queries (included by nf_common.hpp).
#pragma once

namespace nf {

// ===================================================================== Db
inline Db* buildDb(const Value& o)
{
  int nech = o.at("nech").i();
  Db* db = Db::createFromSamples(nech, ELoadBy::SAMPLE, dbTab(o), dbNames(o), VectorString(), false);
  if (db) setLocators(db, o.at("locators"));
  return db;
}
inline Value projDb(Db* db) { Value p = Value::object(); projDbPart(db, p); return p; }

// ===================================================================== DbGrid
inline DbGrid* buildDbGrid(const Value& o)
{
  DbGrid* g = DbGrid::create(ints(o.at("nx")), nums(o.at("dx")), nums(o.at("x0")), nums(o.at("angles")), ELoadBy::SAMPLE,
                             dbTab(o), dbNames(o), VectorString(), false, false);
  if (g) setLocators(g, o.at("locators"));
  return g;
}
inline void projGridPart(const DbGrid* g, Value& p)
{
  int nd = g->getNDim();
  p["ndim"] = I(nd);
  Value nx = Value::array(), x0 = Value::array(), dx = Value::array(), an = Value::array();
  for (int d = 0; d < nd; d++) { nx.push(I(g->getNX(d))); x0.push(T(g->getX0(d))); dx.push(T(g->getDX(d))); an.push(T(g->getAngle(d))); }
  p["nx"] = nx; p["x0"] = x0; p["dx"] = dx; p["angles"] = an;
}
inline Value projDbGrid(DbGrid* g) { Value p = Value::object(); projGridPart(g, p); projDbPart(g, p); return p; }
inline Value queryDbGrid(DbGrid* g)
{
  Value q = queryDbPart(g);
  Value co = Value::array();
  int nd = g->getNDim();
  for (int e = 0; e < g->getSampleNumber(); e++)
  {
    VectorDouble c(nd);
    g->rankToCoordinatesInPlace(e, c);
    co.push(toks(c));
  }
  q["coords"] = co;
  q["ntotal"] = I(g->getGrid().getNTotal());
  return q;
}

// ===================================================================== Table
inline Table* buildTable(const Value& o)
{
  int nr = o.at("nrows").i(), nc = o.at("ncols").i();
  Table* t = Table::create(nr, nc);
  for (int r = 0; r < nr; r++) for (int c = 0; c < nc; c++) t->setValue(r, c, num(o.at("vals").arr[r * nc + c]));
  return t;
}
inline Value projTable(Table* t)
{
  Value p = Value::object();
  p["ncols"] = I(t->getNCols());
  p["nrows"] = I(t->getNRows());
  Value v = Value::array();
  for (int r = 0; r < t->getNRows(); r++) for (int c = 0; c < t->getNCols(); c++) v.push(T(t->getValue(r, c)));
  p["vals"] = v;
  return p;
}
inline Value queryTable(Table* t)
{
  Value q = Value::object();
  Value cols = Value::array();
  for (int c = 0; c < t->getNCols(); c++) cols.push(toks(t->getColumn(c)));
  q["columns"] = cols;
  return q;
}

// ===================================================================== Model
inline Model* buildModel(const Value& o)
{
  int ndim = o.at("ndim").i(), nvar = o.at("nvar").i();
  SpaceRN space(ndim);
  CovContext ctxt(nvar, &space);
  Model* m = Model::create(ctxt);
  for (auto& cv : o.at("covs").arr)
  {
    ECov type = ECov::fromValue(cv.at("type").i());
    double range = num(cv.at("range"));
    VectorDouble ranges, angles;
    if (cv.at("aniso").i() != 0) for (auto& k : cv.at("coeffs").arr) ranges.push_back(num(k) * range);
    if (cv.at("rot").i() != 0) angles = rotAngles(ndim);
    m->addCovFromParam(type, range, 1., num(cv.at("param")), ranges, nums(cv.at("sill")), angles, true);
  }
  int nd = (int)o.at("drifts").arr.size();
  if (nd > 0) m->setDriftIRF(nd == 1 ? 0 : 1);
  if (o.at("field").s() != "NA") m->setField(num(o.at("field")));
  for (size_t v = 0; v < o.at("means").arr.size(); v++) m->setMean(num(o.at("means").arr[v]), (int)v);
  for (int i = 0; i < nvar; i++) for (int j = 0; j < nvar; j++) m->setCovar0(i, j, num(o.at("covar0").arr[i * nvar + j]));
  return m;
}
inline Value projModel(Model* m)
{
  Value p = Value::object();
  int ndim = m->getDimensionNumber(), nvar = m->getVariableNumber();
  p["ndim"] = I(ndim);
  p["nvar"] = I(nvar);
  p["field"] = T(m->getField());
  Value covs = Value::array();
  for (int k = 0; k < m->getCovaNumber(); k++)
  {
    const CovAniso* cv = m->getCova(k);
    Value c = Value::object();
    c["type"] = I(cv->getType().getValue());
    c["range"] = T(cv->getRange());
    c["param"] = T(cv->getParam());
    bool an = cv->getFlagAniso(), ro = an && cv->getFlagRotation();
    c["aniso"] = I(an ? 1 : 0);
    c["coeffs"] = an ? toks(cv->getAnisoCoeffs()) : Value::array();
    c["rot"] = I(ro ? 1 : 0);
    Value rm = Value::array();
    if (ro) for (int i = 0; i < ndim; i++) for (int j = 0; j < ndim; j++) rm.push(T(cv->getAnisoRotMat(j, i)));
    c["rotmat"] = rm;
    Value sl = Value::array();
    for (int i = 0; i < nvar; i++) for (int j = 0; j < nvar; j++) sl.push(T(m->getSill(k, i, j)));
    c["sill"] = sl;
    covs.push(c);
  }
  p["covs"] = covs;
  Value dr = Value::array();
  for (int k = 0; k < m->getDriftNumber(); k++) dr.push(Value(m->getDrift(k)->getDriftName()));
  p["drifts"] = dr;
  Value mn = Value::array();
  if (m->getDriftNumber() <= 0) for (int v = 0; v < nvar; v++) mn.push(T(m->getMean(v)));
  p["means"] = mn;
  Value c0 = Value::array();
  for (int i = 0; i < nvar; i++) for (int j = 0; j < nvar; j++) c0.push(T(m->getCovar0(i, j)));
  p["covar0"] = c0;
  return p;
}
inline Value extraModel(Model* m)
{
  Value x = Value::object();
  Value rg = Value::array(), ang = Value::array();
  for (int k = 0; k < m->getCovaNumber(); k++)
  {
    const CovAniso* cv = m->getCova(k);
    rg.push(toks(cv->getRanges()));
    ang.push(cv->getFlagAniso() && cv->getFlagRotation() ? toks(cv->getAnisoAngles()) : Value::array());
  }
  x["ranges"] = rg;
  x["angles"] = ang;
  x["ncova"] = I(m->getCovaNumber());
  x["ndrift"] = I(m->getDriftNumber());
  return x;
}
inline Value queryModel(Model* m)
{
  Value q = Value::object();
  int ndim = m->getDimensionNumber(), nvar = m->getVariableNumber();
  if (m->getCovaNumber() <= 0) return q;
  Value ev = Value::array();
  std::vector<VectorDouble> lags;
  lags.push_back(VectorDouble(ndim, 0.));
  { VectorDouble l(ndim, 0.); l[0] = 1.; lags.push_back(l); }
  { VectorDouble l(ndim, 0.5); lags.push_back(l); }
  { VectorDouble l(ndim, 0.); l[ndim - 1] = 0.25; lags.push_back(l); }
  for (auto& l : lags)
  {
    double step = 0.;
    for (double c : l) step += c * c;
    step = sqrt(step);
    VectorDouble dir = l;
    if (step > 0) for (auto& c : dir) c /= step; else dir[0] = 1.;
    for (int i = 0; i < nvar; i++) for (int j = 0; j < nvar; j++) ev.push(T(m->evalIvarIpas(step, dir, i, j)));
  }
  q["cov"] = ev;
  return q;
}

// ===================================================================== neighbourhoods
// fixed data set for the selection queries
inline Db* neighData(int ndim)
{
  static const double P[8][3] = {{0.5, 0, 0}, {0, 1, 0}, {-1.5, 0, 0.5}, {0, -2, 0}, {2, 2, 1}, {-3, 1, 0}, {0.25, 0.25, 0.1}, {4, 0, 0}};
  VectorDouble tab;
  for (int e = 0; e < 8; e++) { for (int d = 0; d < ndim; d++) tab.push_back(P[e][d]); tab.push_back(e + 1.); }
  VectorString names, locs;
  for (int d = 0; d < ndim; d++) { names.push_back("x" + std::to_string(d + 1)); locs.push_back("x" + std::to_string(d + 1)); }
  names.push_back("z"); locs.push_back("z1");
  return Db::createFromSamples(8, ELoadBy::SAMPLE, tab, names, locs, false);
}
inline Value neighSelect(ANeigh* ng, int ndim)
{
  Value q = Value::object();
  if (ndim < 1 || ndim > 3) return q;
  defineDefaultSpace(ESpaceType::RN, ndim);
  Db* din = neighData(ndim);
  VectorDouble t0(ndim, 0.);
  VectorString names, locs;
  for (int d = 0; d < ndim; d++) { names.push_back("x" + std::to_string(d + 1)); locs.push_back("x" + std::to_string(d + 1)); }
  Db* dout = Db::createFromSamples(1, ELoadBy::SAMPLE, t0, names, locs, false);
  if (ng->attach(din, dout) == 0)
  {
    VectorInt ranks;
    ng->select(0, ranks);
    q["selected"] = toksI(ranks);
  }
  else q["selected"] = Value("attach-failed");
  delete din; delete dout;
  return q;
}
inline NeighUnique* buildNeighUnique(const Value& o) { return NeighUnique::create(false); }
inline Value projNeighUnique(NeighUnique* n) { Value p = Value::object(); p["ndim"] = I(n->getNDim()); return p; }
inline Value queryNeighUnique(NeighUnique* n) { return neighSelect(n, n->getNDim()); }

inline NeighBench* buildNeighBench(const Value& o) { return NeighBench::create(false, num(o.at("width"))); }
inline Value projNeighBench(NeighBench* n)
{
  Value p = Value::object();
  p["ndim"] = I(n->getNDim());
  p["width"] = T(n->getWidth());
  return p;
}
inline Value queryNeighBench(NeighBench* n) { return neighSelect(n, n->getNDim()); }

inline NeighCell* buildNeighCell(const Value& o) { return NeighCell::create(false, o.at("nmini").i()); }
inline Value projNeighCell(NeighCell* n) { Value p = Value::object(); p["ndim"] = I(n->getNDim()); p["nmini"] = I(n->getNMini()); return p; }

inline NeighImage* buildNeighImage(const Value& o) { return NeighImage::create(ints(o.at("radius")), o.at("skip").i()); }
inline Value projNeighImage(NeighImage* n)
{
  Value p = Value::object();
  p["ndim"] = I(n->getNDim());
  p["skip"] = I(n->getSkip());
  Value r = Value::array();
  for (int d = 0; d < (int)n->getNDim(); d++) r.push(I(n->getImageRadius(d)));
  p["radius"] = r;
  return p;
}

inline NeighMoving* buildNeighMoving(const Value& o)
{
  int ndim = o.at("ndim").i();
  VectorDouble coeffs, angles;
  if (o.at("aniso").i() != 0) coeffs = nums(o.at("coeffs"));
  if (o.at("rot").i() != 0) angles = rotAngles(ndim);
  return NeighMoving::create(false, o.at("nmaxi").i(), num(o.at("radius")), o.at("nmini").i(), o.at("nsect").i(), o.at("nsmax").i(),
                             coeffs, angles);
}
inline Value projNeighMoving(NeighMoving* n)
{
  Value p = Value::object();
  p["ndim"] = I(n->getNDim());
  p["sector"] = I(n->getFlagSector() ? 1 : 0);
  p["nmini"] = I(n->getNMini());
  p["nmaxi"] = I(n->getNMaxi());
  p["nsect"] = I(n->getNSect());
  p["nsmax"] = I(n->getNSMax());
  p["radius"] = T(n->getRadius());
  bool an = n->getFlagAniso(), ro = an && n->getFlagRotation();
  p["aniso"] = I(an ? 1 : 0);
  p["coeffs"] = an ? toks(n->getAnisoCoeffs()) : Value::array();
  p["rot"] = I(ro ? 1 : 0);
  p["rotmat"] = ro ? toks(n->getAnisoRotMats()) : Value::array();
  return p;
}
inline Value queryNeighMoving(NeighMoving* n)
{
  // (a selection with an absurd number of sectors allocates as much for an object built through the API)
  // (the distance checker of an isotropic neighbourhood is 2-D whatever the space: selections are asked only when the
  //  dimensions agree, as for an object built through the API)
  const BiTargetCheckDistance* b = n->getBiPtDist();
  bool sane = n->getNSect() <= 64 && b->getNDim() == (int)n->getNDim();
  // (undefined or non-positive anisotropy ratios break the selection of an object built through the API as well)
  if (n->getFlagAniso()) for (double c : n->getAnisoCoeffs()) if (FFFF(c) || c <= 0.) sane = false;
  Value q = sane ? neighSelect(n, n->getNDim()) : Value::object();
  VectorDouble dd(b->getNDim(), 1.);
  q["normdist"] = T(b->getNormalizedDistance(dd));
  return q;
}

// ===================================================================== Vario
inline Vario* buildVario(const Value& o)
{
  int ndim = o.at("ndim").i(), nvar = o.at("nvar").i();
  SpaceRN space(ndim);
  VarioParam vp(num(o.at("scale")));
  for (auto& d : o.at("dirs").arr)
  {
    DirParam dp(d.at("npas").i(), num(d.at("dpas")), num(d.at("toldis")), num(d.at("tolang")), d.at("optcode").i(), 0, TEST, TEST,
                num(d.at("tolcode")), VectorDouble(), nums(d.at("codir")), TEST, &space);
    if (d.at("grid").i() != 0) dp.setGrincr(ints(d.at("grincr")));
    vp.addDir(dp);
  }
  Vario* v = Vario::create(vp);
  v->setNVar(nvar);
  v->internalVariableResize();
  v->internalDirectionResize();
  v->setVars(nums(o.at("vars")));
  v->setVariableNames(o.at("names").strings());
  int idir = 0;
  for (auto& d : o.at("dirs").arr)
  {
    const Value& vals = d.at("vals");
    for (int i = 0; i < (int)vals.arr.size() / 3; i++)
    {
      v->setSwByIndex(idir, i, num(vals.arr[3 * i]));
      v->setHhByIndex(idir, i, num(vals.arr[3 * i + 1]));
      v->setGgByIndex(idir, i, num(vals.arr[3 * i + 2]));
    }
    idir++;
  }
  return v;
}
inline Value projVario(Vario* v)
{
  Value p = Value::object();
  int nvar = v->getVariableNumber(), ndir = v->getDirectionNumber();
  p["ndim"] = I(ndir > 0 ? v->getDimensionNumber() : 0);
  p["nvar"] = I(nvar);
  p["scale"] = T(v->getScale());
  p["names"] = strs(v->getVariableNames());
  Value vars = Value::array();
  for (int i = 0; i < nvar; i++) for (int j = 0; j < nvar; j++) vars.push(T(v->getVar(i, j)));
  p["vars"] = vars;
  Value dirs = Value::array();
  for (int k = 0; k < ndir; k++)
  {
    const DirParam& dp = v->getDirParam(k);
    Value d = Value::object();
    bool grid = dp.isDefinedForGrid();
    d["regular"] = I(dp.getFlagRegular() ? 1 : 0);
    d["npas"] = I(dp.getLagNumber());
    d["optcode"] = I(dp.getOptionCode());
    d["tolcode"] = T(dp.getTolCode());
    d["dpas"] = T(dp.getDPas());
    d["toldis"] = T(dp.getTolDist());
    d["grid"] = I(grid ? 1 : 0);
    d["tolang"] = grid ? Value("0") : T(dp.getTolAngle());
    d["codir"] = toks(dp.getCodirs());
    d["grincr"] = grid ? toksI(dp.getGrincrs()) : Value::array();
    Value vals = Value::array();
    for (int i = 0; i < v->getDirSize(k); i++) { vals.push(T(v->getSwByIndex(k, i))); vals.push(T(v->getHhByIndex(k, i))); vals.push(T(v->getGgByIndex(k, i))); }
    d["vals"] = vals;
    dirs.push(d);
  }
  p["dirs"] = dirs;
  return p;
}
inline Value queryVario(Vario* v)
{
  Value q = Value::object();
  int nvar = v->getVariableNumber();
  Value g = Value::array();
  for (int k = 0; k < v->getDirectionNumber(); k++)
    for (int i = 0; i < nvar; i++) for (int j = 0; j <= i; j++)
    {
      g.push(toks(v->getGgVec(k, i, j, false, false, false)));
      g.push(toks(v->getHhVec(k, i, j)));
      g.push(toks(v->getSwVec(k, i, j)));
    }
  q["vectors"] = g;
  return q;
}

// ===================================================================== Polygons, PolyLine2D
inline Polygons* buildPolygons(const Value& o)
{
  Polygons* p = Polygons::create();
  for (auto& e : o.at("elems").arr)
  {
    VectorDouble x, y;
    for (auto& pt : e.at("xy").arr) { x.push_back(num(pt.arr[0])); y.push_back(num(pt.arr[1])); }
    PolyElem pe(x, y, num(e.at("zmin")), num(e.at("zmax")));
    p->addPolyElem(pe);
  }
  return p;
}
inline Value projPolygons(Polygons* p)
{
  Value r = Value::object();
  Value elems = Value::array();
  for (int k = 0; k < p->getPolyElemNumber(); k++)
  {
    const PolyElem& pe = p->getPolyElem(k);
    Value e = Value::object();
    e["zmin"] = T(pe.getZmin());
    e["zmax"] = T(pe.getZmax());
    Value xy = Value::array();
    for (int i = 0; i < pe.getNPoints(); i++) { Value pt = Value::array(); pt.push(T(pe.getX(i))); pt.push(T(pe.getY(i))); xy.push(pt); }
    e["xy"] = xy;
    elems.push(e);
  }
  r["elems"] = elems;
  return r;
}
inline Value queryPolygons(Polygons* p)
{
  Value q = Value::object();
  static const double PT[5][3] = {{0.25, 0.25, 0}, {0.5, -0.5, 0.5}, {-0.5, 0.1, 2}, {2, 2, -0.5}, {0.1, 0.6, 1.3}};
  Value in = Value::array();
  for (int k = 0; k < 5; k++)
  {
    in.push(Value(p->inside({PT[k][0], PT[k][1]})));
    in.push(Value(p->inside({PT[k][0], PT[k][1], PT[k][2]})));
  }
  q["inside"] = in;
  return q;
}
inline PolyLine2D* buildPolyLine2D(const Value& o)
{
  VectorDouble x, y;
  for (auto& pt : o.at("xy").arr) { x.push_back(num(pt.arr[0])); y.push_back(num(pt.arr[1])); }
  return new PolyLine2D(x, y);
}
inline Value projPolyLine2D(PolyLine2D* p)
{
  Value r = Value::object();
  Value xy = Value::array();
  for (int i = 0; i < p->getNPoints(); i++) { Value pt = Value::array(); pt.push(T(p->getX(i))); pt.push(T(p->getY(i))); xy.push(pt); }
  r["xy"] = xy;
  return r;
}

// ===================================================================== registry
inline int ndimField(const Value& o) { return o.has("ndim") ? o.at("ndim").i() : 2; }
template <class X> std::function<Value(X*)> noneOf() { return [](X*) { return Value::object(); }; }

inline std::map<std::string, Handler>& registry()
{
  static std::map<std::string, Handler> R;
  if (!R.empty()) return R;
  auto two = [](const Value&) { return 2; };
  R["Db"] = mk<Db>(buildDb, projDb, noneOf<Db>(), [](Db* d) { return queryDbPart(d); }, two);
  R["DbGrid"] = mk<DbGrid>(buildDbGrid, projDbGrid, noneOf<DbGrid>(), queryDbGrid, ndimField);
  R["Table"] = mk<Table>(buildTable, projTable, noneOf<Table>(), queryTable, two);
  R["Model"] = mk<Model>(buildModel, projModel, extraModel, queryModel, ndimField);
  R["NeighUnique"] = mk<NeighUnique>(buildNeighUnique, projNeighUnique, noneOf<NeighUnique>(), queryNeighUnique, ndimField);
  R["NeighBench"] = mk<NeighBench>(buildNeighBench, projNeighBench, noneOf<NeighBench>(), queryNeighBench, ndimField);
  R["NeighCell"] = mk<NeighCell>(buildNeighCell, projNeighCell, noneOf<NeighCell>(), noneOf<NeighCell>(), ndimField);
  R["NeighImage"] = mk<NeighImage>(buildNeighImage, projNeighImage, noneOf<NeighImage>(), noneOf<NeighImage>(), ndimField);
  R["NeighMoving"] = mk<NeighMoving>(buildNeighMoving, projNeighMoving, noneOf<NeighMoving>(), queryNeighMoving, ndimField);
  R["Vario"] = mk<Vario>(buildVario, projVario, noneOf<Vario>(), queryVario, ndimField);
  R["Polygons"] = mk<Polygons>(buildPolygons, projPolygons, noneOf<Polygons>(), queryPolygons, two);
  R["PolyLine2D"] = mk<PolyLine2D>(buildPolyLine2D, projPolyLine2D, noneOf<PolyLine2D>(), noneOf<PolyLine2D>(), two);
  return R;
}

}  // namespace nf
