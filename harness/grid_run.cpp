// C16 binding: executes the cases emitted by TLC from GridGeom.tla on the REAL gstlearn Grid, DbGrid
// and migrate, and writes what the library answered (one ndjson line per case).  No expectation is
// evaluated here: every observed value is written under the key "<quantity>@<api>", <quantity>
// being the name of the field of the case that the specification says it must equal.
// Ordinary cases of one grid share one Grid / DbGrid object (whatever it was asked before); a
// "history" case asks its operations, in order, to one NEW object ("steps" = one record per operation).
//
// usage: grid_run <cases.ndjson> <observed.ndjson> [first line to execute (0-based), append mode]
// exit 0 = all cases executed; exit 88 = the library crashed in the case whose id is in the last
// line of <observed.ndjson> ({"id":..,"crash":signal,"line":n}); the caller restarts at line n+1.
#include "vjson.hpp"
#include "Basic/Grid.hpp"
#include "Db/Db.hpp"
#include "Db/DbGrid.hpp"
#include "Enum/ELoc.hpp"
#include "Enum/ELoadBy.hpp"
#include "Basic/VectorNumT.hpp"
#include "Calculators/CalcMigrate.hpp"
#include "Geometry/Rotation.hpp"
#include "Geometry/GeometryHelper.hpp"
#include "Matrix/MatrixSquareGeneral.hpp"
#include "geoslib_old_f.h"
#include <unordered_map>
#include <csignal>
#include <unistd.h>
#include <fcntl.h>

using vj::Value;

static int g_outfd = -1;
static long long g_curid = -1, g_curline = -1;
static void onCrash(int sig)
{
  char buf[96];
  int n = snprintf(buf, sizeof buf, "{\"id\":%lld,\"crash\":%d,\"line\":%lld}\n", g_curid, sig, g_curline);
  if (g_outfd >= 0) { ssize_t w = write(g_outfd, buf, n); (void)w; }
  _exit(88);
}

struct Ctx
{
  int nd = 0;
  VectorInt nx;
  VectorDouble dx, x0, ang;
  Grid grid;
  DbGrid* db = nullptr;   // with rank and coordinate columns
  int uidv = -1;          // UID of the variable "v" (= node rank), added on demand
  bool byMatrix = false;  // rotation of 'grid' given as a matrix; 'ang' are then the angles the LIBRARY derives from it
  std::string key;        // the description of the grid, as received
};

static VectorInt vi(const Value& v) { VectorInt r; for (auto& e : v.arr) r.push_back(e.i()); return r; }
static VectorDouble vd(const Value& v) { VectorDouble r; for (auto& e : v.arr) r.push_back(e.d()); return r; }
static Value jv(const VectorDouble& v) { Value a = Value::array(); for (double x : v) a.push(Value(x)); return a; }
static Value jv(const std::vector<double>& v) { Value a = Value::array(); for (double x : v) a.push(Value(x)); return a; }
static Value jv(const VectorInt& v) { Value a = Value::array(); for (int x : v) a.push(Value(x)); return a; }
static Value jv(const std::vector<int>& v) { Value a = Value::array(); for (int x : v) a.push(Value(x)); return a; }

static VectorDouble dup(const VectorDouble& v) { VectorDouble r(v.size()); for (size_t i = 0; i < v.size(); i++) r[i] = v[i]; return r; }

static std::unordered_map<long long, Ctx*> CACHE;

static Ctx* freshContext(const Value& g);
static MatrixSquareGeneral matrixFrom(const Value& m)
{
  int nd = (int)m.arr.size();
  MatrixSquareGeneral r(nd);
  for (int i = 0; i < nd; i++)
    for (int j = 0; j < nd; j++) r.setValue(i, j, m.arr[i].arr[j].d());
  return r;
}
static VectorDouble columnMajor(const Value& m)
{
  int nd = (int)m.arr.size();
  VectorDouble v(nd * nd);
  for (int i = 0; i < nd; i++)
    for (int j = 0; j < nd; j++) v[j * nd + i] = m.arr[i].arr[j].d();
  return v;
}

// The grid of a case.  "ang" : rotation given by its angles (Grid::resetFromVector, DbGrid::create).
// "rotmat" (rows): rotation given as a matrix (Grid::setRotationByMatrix or, "by" = "vector",
// Grid::setRotationByVector); the grid data base and every derived grid are then created with the
// angles that the library derives from the matrix (Grid::getRotAngles), as DbGrid::createCoarse ... do.
static Ctx* context(const Value& c)
{
  long long gid = (long long)c.at("gid").d();
  const Value& g = c.at("g");
  std::string key = vj::dump(g);
  auto it = CACHE.find(gid);
  if (it != CACHE.end())
  {
    // the identifier is a hash of the grid: make sure that it is the same grid
    Ctx* y = it->second;
    if (y->key == key) return y;
    delete y->db;
    delete y;
    CACHE.erase(it);
  }
  if (CACHE.size() > 30000)
  {
    for (auto& kv : CACHE) { delete kv.second->db; delete kv.second; }
    CACHE.clear();
  }
  Ctx* x = freshContext(g);
  x->key = key;
  CACHE[gid] = x;
  return x;
}

// a new Grid and a new DbGrid, which have not been asked anything yet
static Ctx* freshContext(const Value& g)
{
  Ctx* x = new Ctx;
  x->nd = g.at("nd").i();
  x->nx = vi(g.at("nx"));
  x->dx = vd(g.at("dx"));
  x->x0 = vd(g.at("x0"));
  if (g.has("rotmat"))
  {
    x->byMatrix = true;
    x->grid.resetFromVector(x->nx, x->dx, x->x0);
    if (g.gets("by", "matrix") == "vector") x->grid.setRotationByVector(columnMajor(g.at("rotmat")));
    else x->grid.setRotationByMatrix(matrixFrom(g.at("rotmat")));
    x->ang = dup(x->grid.getRotAngles());
  }
  else
  {
    x->ang = vd(g.at("ang"));
    x->grid.resetFromVector(x->nx, x->dx, x->x0, x->ang);
  }
  x->db = DbGrid::create(x->nx, x->dx, x->x0, x->ang);
  return x;
}

// all node coordinates of a grid data base, rank order: through the geometry and through the stored columns
static Value nodesByGeometry(const DbGrid* db)
{
  Value a = Value::array();
  int nd = db->getNDim();
  for (int r = 0; r < db->getSampleNumber(); r++)
  {
    Value p = Value::array();
    for (int k = 0; k < nd; k++) p.push(Value(db->getCoordinate(r, k)));
    a.push(p);
  }
  return a;
}
static Value nodesByColumns(const DbGrid* db)
{
  int nd = db->getNDim();
  std::vector<VectorDouble> cols;
  for (int k = 0; k < nd; k++) cols.push_back(db->getColumnByLocator(ELoc::X, k));
  Value a = Value::array();
  for (int r = 0; r < db->getSampleNumber(); r++)
  {
    Value p = Value::array();
    for (int k = 0; k < nd; k++) p.push(r < (int)cols[k].size() ? Value(cols[k][r]) : Value());
    a.push(p);
  }
  return a;
}
static Value nodesOfGrid(const Grid& g)
{
  Value a = Value::array();
  for (int r = 0; r < g.getNTotal(); r++) a.push(jv(g.rankToCoordinates(r)));
  return a;
}
static Value matrixOf(const Rotation& rot, bool inverse)
{
  int nd = (int)rot.getNDim();
  Value m = Value::array();
  for (int i = 0; i < nd; i++)
  {
    Value row = Value::array();
    for (int j = 0; j < nd; j++) row.push(Value(inverse ? rot.getMatrixInverse(i, j) : rot.getMatrixDirect(i, j)));
    m.push(row);
  }
  return m;
}
static void childDb(Value& o, const std::string& api, DbGrid* ch, bool columns)
{
  if (ch == nullptr) { o["null@" + api] = Value(1); return; }
  o["nx@" + api] = jv(ch->getNXs());
  o["dx@" + api] = jv(ch->getDXs());
  o["X0@" + api] = jv(ch->getX0s());
  o["XS@" + api + ".getCoordinate"] = nodesByGeometry(ch);
  if (columns) o["XS@" + api + ".columns"] = nodesByColumns(ch);
  delete ch;
}

static void runGrid(const Value& c, Ctx* x, Value& o)
{
  const Grid& g = x->grid;
  o["ntot@Grid.getNTotal"] = Value(g.getNTotal());
  o["rotated@Grid.isRotated"] = Value((int)g.isRotated());
  o["M@Grid.getRotation.getMatrixDirect"] = matrixOf(g.getRotation(), false);
  o["MI@Grid.getRotation.getMatrixInverse"] = matrixOf(g.getRotation(), true);
  Grid g2(g);
  o["M@Grid(copy).getMatrixDirect"] = matrixOf(g2.getRotation(), false);
  o["g.x0@Grid(copy).getX0s"] = jv(g2.getX0s());
  Grid g3;
  Grid gsrc(g);
  g3.resetFromGrid(&gsrc);
  o["M@Grid.resetFromGrid.getMatrixDirect"] = matrixOf(g3.getRotation(), false);
  o["g.nx@Grid.resetFromGrid.getNXs"] = jv(g3.getNXs());
  o["g.dx@Grid.resetFromGrid.getDXs"] = jv(g3.getDXs());
  o["g.x0@Grid.resetFromGrid.getX0s"] = jv(g3.getX0s());
  {
    Grid g4(x->nd, x->nx, x->x0, x->dx);
    g4.copyParams(4, g);
    o["M@Grid.copyParams(4).getMatrixDirect"] = matrixOf(g4.getRotation(), false);
    Grid g5;
    g5.resetFromVector(x->nx, x->dx, x->x0, g.getRotAngles());
    o["M@Grid.resetFromVector(getRotAngles).getMatrixDirect"] = matrixOf(g5.getRotation(), false);
  }
  if (x->nd >= 2 && c.has("M"))
  {
    // angles -> matrix -> angles -> matrix is the identity on matrices (whatever angles are returned)
    int nd = x->nd;
    const Value& M = c.at("M");
    Rotation r1(nd);
    int e1 = r1.setMatrixDirect(matrixFrom(M));
    o["zero@Rotation.setMatrixDirect.err"] = Value(e1);
    o["M@Rotation.setMatrixDirect.getMatrixDirect"] = matrixOf(r1, false);
    o["MI@Rotation.setMatrixDirect.getMatrixInverse"] = matrixOf(r1, true);
    Rotation r2(nd);
    r2.setAngles(r1.getAngles());
    o["M@Rotation.setMatrixDirect.getAngles.setAngles.getMatrixDirect"] = matrixOf(r2, false);
    Rotation r3(nd);
    int e3 = r3.setMatrixDirectVec(columnMajor(M));
    o["zero@Rotation.setMatrixDirectVec.err"] = Value(e3);
    o["M@Rotation.setMatrixDirectVec.getMatrixDirect"] = matrixOf(r3, false);
    Rotation r4(nd);
    r4.setAngles(r3.getAngles());
    o["M@Rotation.setMatrixDirectVec.getAngles.setAngles.getMatrixDirect"] = matrixOf(r4, false);
    VectorDouble cm = columnMajor(M), ang(nd, 0.), back(nd * nd, 0.);
    GH::rotationGetAnglesInPlace(cm, ang);
    GH::rotationMatrixInPlace(nd, ang, back);
    Value mb = Value::array();
    for (int i = 0; i < nd; i++) { Value row = Value::array(); for (int j = 0; j < nd; j++) row.push(Value(back[j * nd + i])); mb.push(row); }
    o["M@GH.rotationGetAnglesInPlace.rotationMatrixInPlace"] = mb;
    Grid g6;
    g6.resetFromVector(x->nx, x->dx, x->x0);
    g6.setRotationByMatrix(matrixFrom(M));
    o["M@Grid.setRotationByMatrix.getMatrixDirect"] = matrixOf(g6.getRotation(), false);
    Grid g7;
    g7.resetFromGrid(&g6);
    o["M@Grid.setRotationByMatrix.resetFromGrid.getMatrixDirect"] = matrixOf(g7.getRotation(), false);
  }
  const DbGrid* db = x->db;
  o["ntot@DbGrid.getSampleNumber"] = Value(db->getSampleNumber());
  o["g.nd@DbGrid.getNDim"] = Value(db->getNDim());
  o["g.nx@DbGrid.getNXs"] = jv(db->getNXs());
  o["g.dx@DbGrid.getDXs"] = jv(db->getDXs());
  o["g.x0@DbGrid.getX0s"] = jv(db->getX0s());
  o["M@DbGrid.getGrid.getMatrixDirect"] = matrixOf(db->getGrid().getRotation(), false);
  DbGrid* cl = db->clone();
  o["M@DbGrid.clone.getMatrixDirect"] = matrixOf(cl->getGrid().getRotation(), false);
  o["g.x0@DbGrid.clone.getX0s"] = jv(cl->getX0s());
  delete cl;
  if (x->nd == 2)
  {
    DbGrid* d2 = DbGrid::createGrid2D(ELoadBy::SAMPLE, x->nx[0], x->nx[1], x->x0[0], x->x0[1], x->dx[0], x->dx[1], x->ang[0]);
    if (d2 != nullptr)
    {
      o["M@DbGrid.createGrid2D.getMatrixDirect"] = matrixOf(d2->getGrid().getRotation(), false);
      o["g.x0@DbGrid.createGrid2D.getX0s"] = jv(d2->getX0s());
      o["g.nx@DbGrid.createGrid2D.getNXs"] = jv(d2->getNXs());
      delete d2;
    }
  }
}

static void runNode(const Value& c, Ctx* x, Value& o)
{
  const Grid& g = x->grid;
  const DbGrid* db = x->db;
  int nd = x->nd;
  int rank = c.at("rank").i();
  VectorInt idx = vi(c.at("idx"));
  VectorDouble X = vd(c.at("X"));

  // rank <-> indices
  {
    std::vector<int> w(nd, -7);
    g.rankToIndice(rank, w);
    o["idx@Grid.rankToIndice"] = jv(w);
    o["rank@Grid.indiceToRank"] = Value(g.indiceToRank(idx));
    VectorInt w2(nd, -7);
    db->rankToIndice(rank, w2);
    o["idx@DbGrid.rankToIndice"] = jv(w2);
    o["rank@DbGrid.indiceToRank"] = Value(db->indiceToRank(idx));
  }
  // indices -> coordinates, rank -> coordinates
  VectorDouble own;   // the library's own coordinates of the node
  {
    own = dup(g.indicesToCoordinate(idx));   // (the returned vector may share a work array of the grid)
    o["X@Grid.indicesToCoordinate"] = jv(own);
    std::vector<double> w(nd, -7.);
    g.indicesToCoordinateInPlace(idx, w);
    o["X@Grid.indicesToCoordinateInPlace"] = jv(w);
    std::vector<double> w1(nd), w2(nd), w3(nd), w4(nd), w5(nd);
    for (int k = 0; k < nd; k++)
    {
      w1[k] = g.indiceToCoordinate(k, idx);
      w2[k] = g.rankToCoordinate(k, rank);
      w3[k] = g.getCoordinate(rank, k);
      w4[k] = db->getCoordinate(rank, k);
      w5[k] = g.getCoordinate(rank, k, false) - x->x0[k];
    }
    o["X@Grid.indiceToCoordinate"] = jv(w1);
    o["X@Grid.rankToCoordinate"] = jv(w2);
    o["X@Grid.getCoordinate"] = jv(w3);
    o["X@DbGrid.getCoordinate"] = jv(w4);
    o["F@Grid.getCoordinate(norotate)-x0"] = jv(w5);
    o["X@Grid.rankToCoordinates"] = jv(g.rankToCoordinates(rank));
    VectorDouble w6(nd, -7.);
    g.rankToCoordinatesInPlace(rank, w6);
    o["X@Grid.rankToCoordinatesInPlace"] = jv(w6);
    o["X@Grid.getCoordinatesByRank"] = jv(g.getCoordinatesByRank(rank));
    o["X@Grid.getCoordinatesByIndice"] = jv(g.getCoordinatesByIndice(idx));
    o["X@Grid.getCellCoordinatesByCorner"] = jv(g.getCellCoordinatesByCorner(rank));
    VectorDouble u = g.getCoordinatesByRank(rank, false);
    VectorDouble uu(nd);
    for (int k = 0; k < nd; k++) uu[k] = u[k] - x->x0[k];
    o["F@Grid.getCoordinatesByRank(norotate)-x0"] = jv(uu);
    u = g.getCoordinatesByIndice(idx, false);
    for (int k = 0; k < nd; k++) uu[k] = u[k] - x->x0[k];
    o["F@Grid.getCoordinatesByIndice(norotate)-x0"] = jv(uu);
    // grid data base: geometry and stored columns
    o["X@DbGrid.rankToCoordinates"] = jv(db->rankToCoordinates(rank));
    o["X@DbGrid.indicesToCoordinate"] = jv(db->indicesToCoordinate(idx));
    o["X@DbGrid.getCoordinatesPerSample"] = jv(db->getCoordinatesPerSample(rank));
    VectorDouble w7(nd, -7.);
    db->getCoordinatesPerSampleInPlace(rank, w7);
    o["X@DbGrid.getCoordinatesPerSampleInPlace"] = jv(w7);
    o["X@DbGrid.getSampleCoordinates"] = jv(db->getSampleCoordinates(rank));
    o["X@DbGrid.getSampleLocators(X)"] = jv(db->getSampleLocators(ELoc::X, rank));
    VectorDouble w8(nd);
    for (int k = 0; k < nd; k++) w8[k] = db->getFromLocator(ELoc::X, rank, k);
    o["X@DbGrid.getFromLocator(X)"] = jv(w8);
  }
  // coordinates -> indices / rank, at the coordinates given by the specification and at the library's own
  for (int pass = 0; pass < 2; pass++)
  {
    const VectorDouble& P = pass == 0 ? X : own;
    std::string at = pass == 0 ? "(X)" : "(indicesToCoordinate(idx))";
    for (int cen = 0; cen < 2; cen++)
    {
      std::string sfx = std::string(cen ? ".centered" : "") + at;
      VectorInt w(nd, -7);
      int err = g.coordinateToIndicesInPlace(P, w, cen != 0);
      o["out@Grid.coordinateToIndicesInPlace" + sfx] = Value(err);
      o["idx@Grid.coordinateToIndicesInPlace" + sfx] = jv(w);
      o["idx@Grid.coordinateToIndices" + sfx] = jv(g.coordinateToIndices(P, cen != 0));
      o["rank@Grid.coordinateToRank" + sfx] = Value(g.coordinateToRank(P, cen != 0));
      o["rank@DbGrid.coordinateToRank" + sfx] = Value(db->coordinateToRank(P, cen != 0));
      o["idx@DbGrid.coordinateToIndices" + sfx] = jv(db->coordinateToIndices(P, cen != 0));
      VectorDouble qq = dup(P);
      int e2 = db->centerCoordinateInPlace(qq, cen != 0, true);
      o["out@DbGrid.centerCoordinateInPlace" + sfx] = Value(e2 == 0 ? 0 : 1);
      o["X@DbGrid.centerCoordinateInPlace" + sfx] = jv(qq);
    }
  }
  {
    int indg[3] = {-7, -7, -7};
    int e = point_to_grid(db, X.data(), -1, indg);
    o["out@point_to_grid(X)"] = Value(e);
    o["idx@point_to_grid(X)"] = jv(std::vector<int>(indg, indg + nd));
    o["one@Grid.sampleBelongsToCell(X,rank)"] = Value((int)g.sampleBelongsToCell(X, rank));
  }
}

static void runPoint(const Value& c, Ctx* x, Value& o)
{
  const Grid& g = x->grid;
  const DbGrid* db = x->db;
  int nd = x->nd;
  VectorDouble P = vd(c.at("P"));
  VectorInt cellq = vi(c.at("cellq"));
  VectorInt p4 = vi(c.at("pct4"));
  VectorDouble pct(nd);
  for (int k = 0; k < nd; k++) pct[k] = p4[k] / 4.;
  int rcq = g.indiceToRank(cellq);   // only used to decide whether the rank-based entry points apply

  // indices + fraction of cell -> coordinates
  {
    VectorDouble r = g.indicesToCoordinate(cellq, pct);
    o["P@Grid.indicesToCoordinate(cellq,pct)"] = jv(r);
    std::vector<double> w(nd, -7.);
    g.indicesToCoordinateInPlace(cellq, w, pct);
    o["P@Grid.indicesToCoordinateInPlace(cellq,pct)"] = jv(w);
    std::vector<double> w1(nd);
    for (int k = 0; k < nd; k++) w1[k] = g.indiceToCoordinate(k, cellq, pct);
    o["P@Grid.indiceToCoordinate(cellq,pct)"] = jv(w1);
    o["P@DbGrid.indicesToCoordinate(cellq,pct)"] = jv(db->indicesToCoordinate(cellq, pct));
    if (c.at("oc").i() == 0 && rcq >= 0)
    {
      int rc = c.at("rc").i();
      o["P@Grid.rankToCoordinates(rc,pct)"] = jv(g.rankToCoordinates(rc, pct));
      VectorDouble w2(nd, -7.);
      g.rankToCoordinatesInPlace(rc, w2, pct);
      o["P@Grid.rankToCoordinatesInPlace(rc,pct)"] = jv(w2);
      std::vector<double> w3(nd);
      for (int k = 0; k < nd; k++) w3[k] = g.rankToCoordinate(k, rc, pct);
      o["P@Grid.rankToCoordinate(rc,pct)"] = jv(w3);
    }
  }
  // coordinates -> cell
  for (int cen = 0; cen < 2; cen++)
  {
    std::string I = cen ? "ii" : "ic", O = cen ? "oi" : "oc", R = cen ? "ri" : "rc", XN = cen ? "XI" : "XC";
    std::string sfx = cen ? ".centered" : "";
    VectorInt w(nd, -7);
    int err = g.coordinateToIndicesInPlace(P, w, cen != 0);
    o[O + "@Grid.coordinateToIndicesInPlace" + sfx] = Value(err);
    o[I + "@Grid.coordinateToIndicesInPlace" + sfx] = jv(w);
    VectorInt v = g.coordinateToIndices(P, cen != 0);
    o[O + "@Grid.coordinateToIndices" + sfx + ".isEmpty"] = Value((int)v.empty());
    if (!v.empty()) o[I + "@Grid.coordinateToIndices" + sfx] = jv(v);
    o[R + "@Grid.coordinateToRank" + sfx] = Value(g.coordinateToRank(P, cen != 0));
    VectorInt w2(nd, -7);
    int err2 = db->coordinateToIndicesInPlace(P, w2, cen != 0);
    o[O + "@DbGrid.coordinateToIndicesInPlace" + sfx] = Value(err2);
    o[I + "@DbGrid.coordinateToIndicesInPlace" + sfx] = jv(w2);
    o[R + "@DbGrid.coordinateToRank" + sfx] = Value(db->coordinateToRank(P, cen != 0));
    VectorDouble q = dup(P);
    int e3 = db->centerCoordinateInPlace(q, cen != 0, false);
    o["zero@DbGrid.centerCoordinateInPlace" + sfx] = Value(e3);
    o[XN + "@DbGrid.centerCoordinateInPlace" + sfx] = jv(q);
    VectorDouble q2 = dup(P);
    int e4 = db->centerCoordinateInPlace(q2, cen != 0, true);
    o[O + "@DbGrid.centerCoordinateInPlace" + sfx + "(stopIfOut)"] = Value(e4 == 0 ? 0 : 1);
  }
  // nearest node (db.cpp)
  {
    int indg[3] = {-7, -7, -7};
    int e = point_to_grid(db, P.data(), -1, indg);
    o["oi@point_to_grid(-1)"] = Value(e);
    o["ii@point_to_grid(-1)"] = jv(std::vector<int>(indg, indg + nd));
    int ind2[3] = {-7, -7, -7};
    e = point_to_grid(db, P.data(), 1, ind2);
    o["oi@point_to_grid(1)"] = Value(e);
    o["iiclip@point_to_grid(1)"] = jv(std::vector<int>(ind2, ind2 + nd));
  }
  // cell membership (cells centred on their nodes): the only cell the point belongs to
  {
    int found = -1;
    for (int r = 0; r < g.getNTotal(); r++)
      if (g.sampleBelongsToCell(P, r)) found = (found == -1) ? r : -2;
    o["ri@Grid.sampleBelongsToCell(unique)"] = Value(found);
  }
}

static VectorInt viOf(const std::vector<int>& v) { VectorInt r; for (int a : v) r.push_back(a); return r; }

static void runMult(const Value& c, Ctx* x, Value& o, bool divider)
{
  int nd = x->nd;
  VectorInt m = vi(c.at("m"));
  bool cell = c.at("cell").i() != 0;
  VectorInt nx(nd, -7);
  VectorDouble dx(nd, -7.), x0(nd, -7.);
  std::string api = divider ? "Grid.divider" : "Grid.multiple";
  if (divider) x->grid.divider(m, cell, nx, dx, x0);
  else x->grid.multiple(m, cell, nx, dx, x0);
  o["nx@" + api] = jv(nx);
  o["dx@" + api] = jv(dx);
  o["X0@" + api] = jv(x0);
  {
    bool ok = true;
    for (int k = 0; k < nd; k++) if (nx[k] < 1 || nx[k] > 64 || !(dx[k] > 0)) ok = false;
    if (ok)
    {
      Grid ch;
      ch.resetFromVector(nx, dx, x0, x->grid.getRotAngles());
      o["XS@" + api + ".nodes(getRotAngles)"] = nodesOfGrid(ch);
    }
  }
  if (divider)
  {
    childDb(o, "DbGrid.createRefine", DbGrid::createRefine(x->db, m, cell), true);
    if (cell) childDb(o, "DbGrid.createDivider", DbGrid::createDivider(x->db, m, true), true);
    else      childDb(o, "DbGrid.refine", x->db->refine(m), false);
  }
  else
  {
    childDb(o, "DbGrid.createCoarse", DbGrid::createCoarse(x->db, m, cell), true);
    if (cell)
    {
      childDb(o, "DbGrid.createMultiple", DbGrid::createMultiple(x->db, m, true), true);
      childDb(o, "DbGrid.coarsify", x->db->coarsify(m), false);
    }
  }
}

static void runDilate(const Value& c, Ctx* x, Value& o)
{
  int nd = x->nd;
  VectorInt s = vi(c.at("s"));
  int mode = c.at("mode").i();
  VectorInt nx(nd, -7);
  VectorDouble dx(nd, -7.), x0(nd, -7.);
  x->grid.dilate(mode, s, nx, dx, x0);
  o["nx@Grid.dilate"] = jv(nx);
  o["dx@Grid.dilate"] = jv(dx);
  o["X0@Grid.dilate"] = jv(x0);
  bool ok = true;
  for (int k = 0; k < nd; k++) if (nx[k] < 1 || nx[k] > 64 || !(dx[k] > 0)) ok = false;
  if (ok)
  {
    Grid ch;
    ch.resetFromVector(nx, dx, x0, x->grid.getRotAngles());
    o["XS@Grid.dilate.nodes(getRotAngles)"] = nodesOfGrid(ch);
  }
}

static void runSub(const Value& c, Ctx* x, Value& o)
{
  int nd = x->nd;
  VectorInt lo = vi(c.at("lo")), hi = vi(c.at("hi"));
  VectorVectorInt limits(nd);
  for (int k = 0; k < nd; k++) limits[k] = VectorInt({lo[k], hi[k]});
  childDb(o, "DbGrid.createSubGrid", DbGrid::createSubGrid(x->db, limits, true), true);
}

static Value cellsOf(const VectorDouble& tab)
{
  Value a = Value::array();
  for (double v : tab) a.push(Value(FFFF(v) ? -1 : (int)std::llround(v)));
  return a;
}

static void runMigrate(const Value& c, Ctx* x, Value& o)
{
  int nd = x->nd;
  DbGrid* db = x->db;
  if (x->uidv < 0)
  {
    VectorDouble vals(db->getSampleNumber());
    for (int r = 0; r < (int)vals.size(); r++) vals[r] = r;
    x->uidv = db->addColumns(vals, "v", ELoc::Z);
  }
  const Value& PS = c.at("PS");
  int np = (int)PS.arr.size();
  VectorDouble tab(np * nd);
  VectorVectorDouble coords(nd, VectorDouble(np));
  for (int t = 0; t < np; t++)
    for (int k = 0; k < nd; k++)
    {
      tab[t * nd + k] = PS.arr[t].arr[k].d();
      coords[k][t] = tab[t * nd + k];
    }
  VectorString names, locs;
  for (int k = 0; k < nd; k++) { names.push_back("x" + std::to_string(k + 1)); locs.push_back("x" + std::to_string(k + 1)); }
  Db* pts = Db::createFromSamples(np, ELoadBy::SAMPLE, tab, names, locs);
  int err = migrate(db, pts, "v");
  o["zero@migrate.err"] = Value(err);
  if (err == 0)
  {
    int last = pts->getColumnNumber() - 1;
    o["cells@migrate(grid->points)"] = cellsOf(pts->getColumnByColIdx(last));
  }
  VectorDouble out(np, TEST);
  int err2 = migrateGridToCoor(db, x->uidv, coords, out);
  o["zero@migrateGridToCoor.err"] = Value(err2);
  o["cells@migrateGridToCoor"] = cellsOf(out);
  o["rcs@DbGrid.locateDataInGrid"] = jv(db->locateDataInGrid(pts, VectorInt(), false));
  o["ris@DbGrid.locateDataInGrid.centered"] = jv(db->locateDataInGrid(pts, VectorInt(), true));
  o["rcs@DbGrid.locateDataInGrid(useSel,no selection)"] = jv(db->locateDataInGrid(pts, VectorInt(), false, true));
  // a list of sample ranks (permuted subset)
  VectorInt pick = vi(c.at("pick"));
  o["rcsL@DbGrid.locateDataInGrid(list)"] = jv(db->locateDataInGrid(pts, pick, false));
  o["risL@DbGrid.locateDataInGrid(list).centered"] = jv(db->locateDataInGrid(pts, pick, true));
  {
    Value a = Value::array(), b = Value::array();
    VectorDouble work(nd);
    for (int t : pick)
    {
      VectorDouble xy = pts->getSampleCoordinates(t);
      a.push(Value(db->coordinateToRank(xy, false)));
      b.push(Value(index_point_to_grid(pts, t, 0, db, work.data())));
    }
    o["rcsL@Db.getSampleCoordinates.coordinateToRank"] = a;
    o["risL@index_point_to_grid(0)(list)"] = b;
  }
  {
    Value a = Value::array(), b = Value::array();
    VectorDouble work(nd);
    for (int t = 0; t < np; t++)
    {
      a.push(Value(index_point_to_grid(pts, t, 0, db, work.data())));
      b.push(Value(point_inside_grid(pts, t, db) ? 0 : 1));
    }
    o["ris@index_point_to_grid(0)"] = a;
    o["ois@point_inside_grid"] = b;
  }
  // a selection of samples (not a prefix): only the active samples are located / receive a value
  {
    VectorInt mask = vi(c.at("selmask"));
    VectorDouble sel(np);
    for (int t = 0; t < np; t++) sel[t] = mask[t];
    pts->addColumns(sel, "sel", ELoc::SEL);
    o["rcsS@DbGrid.locateDataInGrid(useSel)"] = jv(db->locateDataInGrid(pts, VectorInt(), false, true));
    o["risS@DbGrid.locateDataInGrid(useSel).centered"] = jv(db->locateDataInGrid(pts, VectorInt(), true, true));
    o["rcs@DbGrid.locateDataInGrid(selection ignored)"] = jv(db->locateDataInGrid(pts, VectorInt(), false, false));
    o["risL@DbGrid.locateDataInGrid(list,selection).centered"] = jv(db->locateDataInGrid(pts, pick, true, false));
    int err3 = migrate(db, pts, "v", 1, VectorDouble(), false, false, false, NamingConvention("MigSel"));
    o["zero@migrate(selection).err"] = Value(err3);
    if (err3 == 0)
    {
      int last = pts->getColumnNumber() - 1;
      o["cellsM@migrate(grid->points,selection)"] = cellsOf(pts->getColumnByColIdx(last));
    }
  }
  delete pts;
}

static bool runKind(const std::string& k, const Value& c, Ctx* x, Value& o)
{
  if (k == "grid") runGrid(c, x, o);
  else if (k == "node") runNode(c, x, o);
  else if (k == "point") runPoint(c, x, o);
  else if (k == "multiple") runMult(c, x, o, false);
  else if (k == "divider") runMult(c, x, o, true);
  else if (k == "dilate") runDilate(c, x, o);
  else if (k == "subgrid") runSub(c, x, o);
  else if (k == "migrate") runMigrate(c, x, o);
  else { fprintf(stderr, "unknown case kind %s\n", k.c_str()); return false; }
  return true;
}

int main(int argc, char** argv)
{
  if (argc < 3) { fprintf(stderr, "usage: grid_run cases.ndjson observed.ndjson [start]\n"); return 2; }
  long long start = argc > 3 ? atoll(argv[3]) : 0;
  // gstlearn prints on stdout
  if (!freopen("/dev/null", "w", stdout)) return 2;
  g_outfd = open(argv[2], O_WRONLY | O_CREAT | (start > 0 ? O_APPEND : O_TRUNC), 0644);
  if (g_outfd < 0) { fprintf(stderr, "cannot open %s\n", argv[2]); return 2; }
  signal(SIGSEGV, onCrash); signal(SIGABRT, onCrash); signal(SIGFPE, onCrash); signal(SIGBUS, onCrash); signal(SIGILL, onCrash);
  std::ifstream in(argv[1]);
  if (!in) { fprintf(stderr, "cannot open %s\n", argv[1]); return 2; }
  std::string line, buf;
  long long lineno = -1, done = 0;
  while (std::getline(in, line))
  {
    lineno++;
    if (lineno < start) continue;
    if (line.empty()) continue;
    Value c = vj::parse(line);
    g_curline = lineno;
    g_curid = (long long)c.at("id").d();
    Value o = Value::object();
    o["id"] = Value(g_curid);
    try
    {
      const std::string& k = c.at("k").s();
      if (k == "history")
      {
        // the operations of the history are asked, in order, to ONE new object
        Ctx* x = freshContext(c.at("g"));
        Value steps = Value::array();
        for (const Value& op : c.at("seq").arr)
        {
          Value so = Value::object();
          so["id"] = Value(g_curid);
          if (!runKind(op.at("k").s(), op, x, so)) return 2;
          steps.push(so);
        }
        o["steps"] = steps;
        delete x->db;
        delete x;
      }
      else if (!runKind(k, c, context(c), o)) return 2;
    }
    catch (const std::exception& e)
    {
      o["exception"] = Value(std::string(e.what()));
    }
    catch (...)
    {
      o["exception"] = Value("unknown");
    }
    buf += vj::dump(o);
    buf.push_back('\n');
    done++;
    // one write per case: the file is complete up to the case that crashes
    ssize_t w = write(g_outfd, buf.data(), buf.size());
    if (w != (ssize_t)buf.size()) { fprintf(stderr, "short write\n"); return 2; }
    buf.clear();
  }
  close(g_outfd);
  fprintf(stderr, "{\"executed\":%lld}\n", done);
  return 0;
}
