// C04 binding: executes BOTH members of every (fast path, reference path) pair of the catalogue
// spec/FastPaths.tla on the real gstlearn library.
//
// Input : ndjson, one configuration per line, exactly the records emitted by TLC (MC_FastPaths)
//         plus an "id".  Coordinates are integers in doubled units (real = integer / 2).
// Output: ndjson, one line per configuration with the results of the two paths ("fast", "ref"),
//         the evidence that the fast path was really taken ("taken", "how") and nothing else:
//         no verdict is computed here (the comparison is done by the driver and judged by TLC).
//
// Concretisation (fixed, deterministic):
//   data location  = lattice point / 2 + 0.002 * (frac((i+1) * irrational_d) - 1/2)
//   target location= lattice point / 2 (targets never coincide with data)
//   data values    = smooth fixed function of (sample, variable)
//   models         : A nugget + spherical            (1 variable, 2-D)
//                    B exponential + spherical, both with rotated anisotropy (1 variable, 2-D)
//                    C 2-variable LMC (spherical + rotated exponential + nugget), PSD sill matrices
//                    D cubic + nugget in 3-D          (1 variable)
//   drift          : sk = known means (non zero), ok = constant, lin = linear
// Every configuration runs in its own child process: a crash of the library is recorded as
// {"id":..,"crash":signal} and does not stop the run.
//
// usage: fast_run <cases.ndjson> <out.ndjson>
#include "vjson.hpp"
#include "Db/Db.hpp"
#include "Db/DbGrid.hpp"
#include "Model/Model.hpp"
#include "Covariances/CovAniso.hpp"
#include "Covariances/ACovAnisoList.hpp"
#include "Neigh/NeighUnique.hpp"
#include "Neigh/NeighMoving.hpp"
#include "Estimation/CalcKriging.hpp"
#include "Estimation/KrigingCalcul.hpp"
#include "Estimation/KrigingSystem.hpp"
#include "Calculators/CalcMigrate.hpp"
#include "Space/ASpaceObject.hpp"
#include "Space/SpacePoint.hpp"
#include "Enum/ESpaceType.hpp"
#include "Enum/ECov.hpp"
#include "Enum/EKrigOpt.hpp"
#include "Basic/NamingConvention.hpp"
#include <cmath>
#include <csignal>
#include <unistd.h>
#include <sys/wait.h>
#include <fcntl.h>

using vj::Value;

static const double AMP = 0.002;
static const double IRR[3] = {1.4142135623730951, 1.7320508075688772, 2.23606797749979};
static double frac(double x) { return x - std::floor(x); }
static double pert(int i, int d) { return AMP * (frac((i + 1) * IRR[d % 3] + 0.37 * d) - 0.5); }
static double zval(int i, int v) { return 2.0 + 1.3 * std::sin(1.7 * i + 0.9 * v + 0.3) + 0.5 * v + 0.11 * i; }
static double zsec(int t, int v) { return 1.5 + 0.8 * std::cos(1.1 * t + 0.7 * v); }
static const double MEANS[2] = {1.7, -0.6};

static Value num(double x)
{
  if (FFFF(x) || std::isnan(x) || std::isinf(x)) return Value();
  return Value(x);
}
static Value arr(const VectorDouble& v) { Value a = Value::array(); for (double x : v) a.push(num(x)); return a; }
static Value arr(const std::vector<double>& v) { Value a = Value::array(); for (double x : v) a.push(num(x)); return a; }
static Value iarr(const VectorInt& v) { Value a = Value::array(); for (int x : v) a.push(Value(x)); return a; }
static Value matv(const AMatrix& m)
{
  Value a = Value::array();
  for (int i = 0; i < m.getNRows(); i++)
    for (int j = 0; j < m.getNCols(); j++) a.push(num(m.getValue(i, j)));
  return a;
}

// A configuration whose reference (or fast) path may crash the library writes what it already has
// as a "partial" line first; the driver keeps the last line of every id together with the crash record.
static int OUT_FD = -1;
static int CUR_ID = 0;
static std::string CUR_PAIR;
static void checkpoint(Value out)
{
  out["id"] = Value(CUR_ID);
  out["pair"] = Value(CUR_PAIR);
  out["partial"] = Value(true);
  std::string line = vj::dump(out) + "\n";
  ssize_t w = write(OUT_FD, line.data(), line.size());
  (void)w;
}

static VectorDouble coordData(const Value& p, int i)
{
  VectorDouble c(p.size());
  for (size_t d = 0; d < p.size(); d++) c[d] = p[d].i() / 2. + pert(i, (int)d);
  return c;
}
static VectorDouble coordTarget(const Value& p)
{
  VectorDouble c(p.size());
  for (size_t d = 0; d < p.size(); d++) c[d] = p[d].i() / 2.;
  return c;
}

// Db of data: coordinates, optional Z variables (def: per sample per variable 0/1; empty = no Z
// variable at all), optional selection (added when present in the configuration)
static Db* makeData(const Value& pts, const Value* sel, const Value* def, int nvar, bool target = false)
{
  Db* db = Db::create();
  int n = (int)pts.size();
  int ndim = n > 0 ? (int)pts[0].size() : 2;
  for (int d = 0; d < ndim; d++)
  {
    VectorDouble c(n);
    for (int i = 0; i < n; i++) c[i] = target ? coordTarget(pts[i])[d] : coordData(pts[i], i)[d];
    db->addColumns(c, "x" + std::to_string(d + 1), ELoc::X, d);
  }
  if (def != nullptr && def->size() > 0)
  {
    for (int v = 0; v < nvar; v++)
    {
      VectorDouble c(n);
      for (int i = 0; i < n; i++) c[i] = ((*def)[i][v].i() != 0) ? zval(i, v) : TEST;
      db->addColumns(c, "z" + std::to_string(v + 1), ELoc::Z, v);
    }
  }
  if (sel != nullptr && sel->size() > 0)
  {
    VectorDouble c(n);
    for (int i = 0; i < n; i++) c[i] = (*sel)[i].i();
    db->addColumns(c, "sel", ELoc::SEL, 0);
  }
  return db;
}
static Db* makeTargets(const Value& tg) { return makeData(tg, nullptr, nullptr, 0, true); }

static Model* makeModel(const std::string& id, const std::string& drift)
{
  Model* m = nullptr;
  if (id == "A")
  {
    m = Model::createFromParam(ECov::SPHERICAL, 3., 2.);
    m->addCovFromParam(ECov::NUGGET, 0., 0.3);
  }
  else if (id == "B")
  {
    m = Model::createFromParam(ECov::EXPONENTIAL, 1., 1.5, 1., {4., 1.5}, VectorDouble(), {30., 0.});
    m->addCovFromParam(ECov::SPHERICAL, 1., 0.8, 1., {2., 5.}, VectorDouble(), {70., 0.});
  }
  else if (id == "C")
  {
    VectorDouble s1 = {2., 0.9, 0.9, 1.5};
    VectorDouble s2 = {0.5, -0.2, -0.2, 0.8};
    VectorDouble s3 = {0.2, 0.05, 0.05, 0.1};
    m = Model::createFromParam(ECov::SPHERICAL, 3.5, 1., 1., VectorDouble(), s1);
    m->addCovFromParam(ECov::EXPONENTIAL, 1., 1., 1., {3., 1.2}, s2, {40., 0.});
    m->addCovFromParam(ECov::NUGGET, 0., 1., 1., VectorDouble(), s3);
  }
  else if (id == "D")
  {
    m = Model::createFromParam(ECov::CUBIC, 4.5, 1.7);
    m->addCovFromParam(ECov::NUGGET, 0., 0.2);
  }
  else
    throw std::runtime_error("unknown model " + id);
  int nvar = m->getVariableNumber();
  if (drift == "sk")
  {
    VectorDouble mu(nvar);
    for (int v = 0; v < nvar; v++) mu[v] = MEANS[v];
    m->setMeans(mu);
  }
  else if (drift == "ok") m->setDriftIRF(0);
  else if (drift == "lin") m->setDriftIRF(1);
  return m;
}
static int nvarOf(const std::string& id) { return id == "C" ? 2 : 1; }

static NeighMoving* makeMoving(int nmaxi, int radius2, int nmini)
{
  double radius = (radius2 <= 0) ? TEST : std::sqrt((double)radius2) / 2.;
  return NeighMoving::create(false, nmaxi, radius, nmini);
}

// columns created by a calculator = those beyond the columns present before
static VectorDouble newColumn(const Db* db, const VectorString& before, const std::string& suffix)
{
  for (const auto& n : db->getAllNames())
  {
    bool old = false;
    for (const auto& b : before) if (b == n) old = true;
    if (old) continue;
    if (n.size() >= suffix.size() && n.compare(n.size() - suffix.size(), suffix.size(), suffix) == 0)
      return db->getColumn(n, false, false);
  }
  return VectorDouble();
}
// results of a kriging() call: per variable, per target: estim, stdev, varz
static Value krigOut(const Db* db, const VectorString& before, int nvar)
{
  Value o = Value::object();
  Value e = Value::array(), s = Value::array(), z = Value::array();
  for (int v = 0; v < nvar; v++)
  {
    std::string zn = "z" + std::to_string(v + 1);
    for (double x : newColumn(db, before, zn + ".estim")) e.push(num(x));
    for (double x : newColumn(db, before, zn + ".stdev")) s.push(num(x));
    for (double x : newColumn(db, before, zn + ".varz")) z.push(num(x));
  }
  o["estim"] = e; o["stdev"] = s; o["varz"] = z;
  return o;
}
static Value runKriging(Db* dbin, Db* dbout, Model* model, ANeigh* neigh, int nvar, const EKrigOpt& calcul = EKrigOpt::POINT,
                        const VectorInt& ndisc = VectorInt(), const VectorInt& colcok = VectorInt())
{
  VectorString before = dbout->getAllNames();
  int err = kriging(dbin, dbout, model, neigh, calcul, true, true, true, ndisc, colcok);
  Value o = krigOut(dbout, before, nvar);
  o["err"] = Value(err);
  return o;
}

// ------------------------------------------------------------------------------------------
// PAIR 1: optimised covariance matrix vs pairwise double loop

static Value caseCovmat(const Value& c)
{
  Value out = Value::object();
  std::string mid = c.at("model").s();
  int nvar = nvarOf(mid);
  Model* model = makeModel(mid, "sk");
  Db* db1 = makeData(c.at("pts1"), &c.at("sel1"), &c.at("def1"), nvar);
  bool same = c.at("same").boolean();
  bool sym = c.at("sym").boolean();
  // the second Db carries the target coordinates of the configuration (unperturbed)
  Db* db2 = same ? nullptr : makeData(c.at("pts2"), &c.at("sel2"), &c.at("def2"), nvar, true);
  int ivar0 = c.at("ivar0").i(), jvar0 = c.at("jvar0").i();
  VectorInt nb1 = c.at("nb1").ints(), nb2 = c.at("nb2").ints();

  // optional history on the SAME model object before the observed call
  Value hist = Value::array();
  if (c.has("hist"))
    for (auto& h : c.at("hist").arr)
    {
      if (h.s() == "fail")
      {
        // an optimised call that fails: no valid sample (fully masked Db)
        Value pts = Value::array();
        for (int i = 0; i < 2; i++) { Value p = Value::array(); p.push(Value(10 + 2 * i)); p.push(Value(12)); pts.push(p); }
        Value sel = Value::array(); sel.push(Value(0)); sel.push(Value(0));
        Db* dm = makeData(pts, &sel, nullptr, nvar);
        MatrixRectangular f = model->evalCovMatrixOptim(dm, dm);
        hist.push(Value(f.getNRows() * f.getNCols()));
        delete dm;
      }
      else if (h.s() == "failsym")
      {
        Value pts = Value::array();
        for (int i = 0; i < 2; i++) { Value p = Value::array(); p.push(Value(10 + 2 * i)); p.push(Value(12)); pts.push(p); }
        Value sel = Value::array(); sel.push(Value(0)); sel.push(Value(0));
        Db* dm = makeData(pts, &sel, nullptr, nvar);
        MatrixSquareSymmetric f = model->evalCovMatrixSymmetricOptim(dm);
        hist.push(Value(f.getNRows() * f.getNCols()));
        delete dm;
      }
      else
      {
        // a successful optimised call on another Db
        Value pts = Value::array();
        for (int i = 0; i < 4; i++) { Value p = Value::array(); p.push(Value(-6 + 2 * i)); p.push(Value(-4 - 2 * (i % 2))); pts.push(p); }
        Db* dm = makeData(pts, nullptr, nullptr, nvar);
        MatrixRectangular f = model->evalCovMatrixOptim(dm, dm);
        hist.push(Value(f.getNRows() * f.getNCols()));
        delete dm;
      }
    }
  out["histsizes"] = hist;

  // fast path
  bool optimOn = true;
  const ACovAnisoList* cl = model->getCovAnisoList();
  for (int k = 0; k < cl->getCovaNumber(); k++) optimOn = optimOn && cl->getCova(k)->isOptimEnabled();
  Value fast = Value::object();
  if (sym)
  {
    MatrixSquareSymmetric m = model->evalCovMatrixSymmetricOptim(db1, ivar0, nb1);
    fast["nrows"] = Value(m.getNRows()); fast["ncols"] = Value(m.getNCols()); fast["v"] = matv(m);
  }
  else
  {
    MatrixRectangular m = model->evalCovMatrixOptim(db1, db2, ivar0, jvar0, nb1, nb2);
    fast["nrows"] = Value(m.getNRows()); fast["ncols"] = Value(m.getNCols()); fast["v"] = matv(m);
  }
  out["fast"] = fast;
  out["taken"] = Value(optimOn);
  out["how"] = Value("the optimised entry point itself is called; isOptimEnabled() is true for every basic structure");

  // reference 1: the pairwise double loop over the index lists dictated by the specification,
  // point-wise covariance of a FRESH model on explicit coordinates
  Model* fresh = makeModel(mid, "sk");
  const Value& rows = c.at("rows");
  const Value& cols = c.at("cols");
  const Db* dbc = same ? db1 : db2;
  Value ref = Value::object();
  Value rv = Value::array();
  for (auto& r : rows.arr)
    for (auto& q : cols.arr)
    {
      SpacePoint p1(db1->getSampleCoordinates(r[0].i()));
      SpacePoint p2(dbc->getSampleCoordinates(q[0].i()));
      rv.push(num(fresh->eval(p1, p2, r[1].i(), q[1].i())));
    }
  bool empty = c.at("empty").boolean();
  ref["nrows"] = Value(empty ? 0 : (int)rows.size()); ref["ncols"] = Value(empty ? 0 : (int)cols.size());
  ref["v"] = empty ? Value::array() : rv;
  out["ref"] = ref;
  // reference 2: the plain entry point of the library (fresh model)
  Value ref2 = Value::object();
  if (sym)
  {
    MatrixSquareSymmetric m = fresh->evalCovMatrixSymmetric(db1, ivar0, nb1);
    ref2["nrows"] = Value(m.getNRows()); ref2["ncols"] = Value(m.getNCols()); ref2["v"] = matv(m);
  }
  else
  {
    MatrixRectangular m = fresh->evalCovMatrix(db1, db2, ivar0, jvar0, nb1, nb2);
    ref2["nrows"] = Value(m.getNRows()); ref2["ncols"] = Value(m.getNCols()); ref2["v"] = matv(m);
  }
  out["ref2"] = ref2;
  return out;
}

// ------------------------------------------------------------------------------------------
// PAIR 2: unique neighbourhood vs moving neighbourhood containing everything

static Value caseUnique(const Value& c)
{
  Value out = Value::object();
  std::string mid = c.at("model").s();
  int nvar = nvarOf(mid);
  Model* model = makeModel(mid, c.at("drift").s());
  Db* dbin = makeData(c.at("pts"), &c.at("sel"), &c.at("def"), nvar);
  Db* t1 = makeTargets(c.at("tgt"));
  Db* t2 = makeTargets(c.at("tgt"));
  NeighUnique* nu = NeighUnique::create();
  NeighMoving* nm = makeMoving(c.at("nmaxi").i(), c.at("radius2").i(), c.at("nmini").i());
  out["fast"] = runKriging(dbin, t1, model, nu, nvar);
  out["ref"] = runKriging(dbin, t2, model, nm, nvar);
  out["taken"] = Value(nu->getType() == ENeigh::UNIQUE);
  out["how"] = Value("neighbourhood object of type UNIQUE (the system is assembled once for all targets)");
  return out;
}

// ------------------------------------------------------------------------------------------
// PAIR 3: cross-validation shortcut in unique neighbourhood vs explicit leave-one-out

static Value caseXvalid(const Value& c)
{
  Value out = Value::object();
  std::string mid = c.at("model").s();
  Model* model = makeModel(mid, c.at("drift").s());
  int n = (int)c.at("pts").size();
  int fe = c.at("est").i(), fs = c.at("std").i(), fv = c.at("varz").i();
  Db* db = makeData(c.at("pts"), &c.at("sel"), &c.at("def"), 1);
  NeighUnique* nu = NeighUnique::create();
  VectorString before = db->getAllNames();
  int err = xvalid(db, model, nu, false, fe, fs, fv);
  Value fast = Value::object();
  fast["err"] = Value(err);
  fast["est"] = arr(newColumn(db, before, fe > 0 ? "esterr" : "estim"));
  fast["std"] = arr(newColumn(db, before, fs > 0 ? "stderr" : "stdev"));
  VectorDouble vz = (fv != 0) ? newColumn(db, before, "varz") : VectorDouble();
  fast["varz"] = arr(vz);
  out["fast"] = fast;
  // the shortcut stores an undefined variance of the estimator: its fingerprint when requested
  bool taken = true;
  if (fv != 0)
    for (double x : vz) if (!FFFF(x)) taken = false;
  out["taken"] = Value(taken);
  out["how"] = Value(fv != 0 ? "unique neighbourhood + cross-validation flag; the shortcut leaves 'varz' undefined, the generic path does not"
                             : "unique neighbourhood + cross-validation flag (KrigingSystem::estimate selects the shortcut for this couple)");

  // reference: explicit leave-one-out.  The sample is masked by a selection, kriging at its location
  std::vector<double> rest(n, TEST), rstd(n, TEST);
  Value rawz = Value::array(), raws = Value::array();
  for (auto& tv : c.at("targets").arr)
  {
    int i = tv.i();
    Model* m2 = makeModel(mid, c.at("drift").s());
    Value sel2 = Value::array();
    for (int k = 0; k < n; k++) sel2.push(Value(k == i ? 0 : c.at("sel")[k].i()));
    Db* din = makeData(c.at("pts"), &sel2, &c.at("def"), 1);
    Db* dout = Db::create();
    VectorDouble xyz = din->getSampleCoordinates(i);
    for (int d = 0; d < (int)xyz.size(); d++) dout->addColumns({xyz[d]}, "x" + std::to_string(d + 1), ELoc::X, d);
    NeighUnique* nu2 = NeighUnique::create();
    VectorString b2 = dout->getAllNames();
    int e2 = kriging(din, dout, m2, nu2, EKrigOpt::POINT, true, true, false);
    VectorDouble es = newColumn(dout, b2, "estim"), sd = newColumn(dout, b2, "stdev");
    double zs = (e2 == 0 && !es.empty()) ? es[0] : TEST;
    double sg = (e2 == 0 && !sd.empty()) ? sd[0] : TEST;
    double zi = zval(i, 0);
    rawz.push(num(zs)); raws.push(num(sg));
    if (!FFFF(zs)) rest[i] = fe > 0 ? zs - zi : zs;
    if (!FFFF(zs) && !FFFF(sg)) rstd[i] = fs > 0 ? ((sg > 0) ? (zs - zi) / sg : TEST) : sg;
    delete din; delete dout; delete nu2; delete m2;
  }
  Value ref = Value::object();
  ref["est"] = arr(rest); ref["std"] = arr(rstd); ref["zstar"] = rawz; ref["sigma"] = raws;
  out["ref"] = ref;
  return out;
}

// ------------------------------------------------------------------------------------------
// PAIR 4a: nearest-point migration, ball tree vs exhaustive

static Value caseBallMig(const Value& c)
{
  Value out = Value::object();
  int n = (int)c.at("pts").size();
  VectorDouble dmax;
  std::string kind = c.at("dmaxkind").s();
  int distType = 1;
  if (kind != "none")
  {
    for (auto& w : c.at("dmax").arr) dmax.push_back(w.i() / 2.);   // one maximum distance per axis
    distType = (kind == "l1") ? 1 : 2;
  }
  Value runs[2];
  for (int ball = 0; ball < 2; ball++)
  {
    Db* din = makeData(c.at("pts"), &c.at("sel"), nullptr, 0);
    VectorDouble val(n);
    for (int i = 0; i < n; i++) val[i] = 10. + i;
    din->addColumns(val, "val", ELoc::Z, 0);
    Db* dout = makeData(c.at("tgt"), &c.at("tsel"), nullptr, 0, true);
    VectorString before = dout->getAllNames();
    int err = migrate(din, dout, "val", distType, dmax, false, false, ball != 0, NamingConvention("Mig", false));
    Value o = Value::object();
    o["err"] = Value(err);
    VectorDouble res;
    for (const auto& nm : dout->getAllNames())
    {
      bool old = false;
      for (const auto& b : before) if (b == nm) old = true;
      if (!old) res = dout->getColumn(nm, false, false);
    }
    o["v"] = arr(res);
    runs[ball] = o;
    delete din; delete dout;
  }
  out["ref"] = runs[0];
  out["fast"] = runs[1];
  out["taken"] = Value(true);
  out["how"] = Value("migrate(flag_ball = true) between two point Dbs: CalcMigrate::_migrate dispatches to _expandPointToPointBall");
  return out;
}

// ------------------------------------------------------------------------------------------
// helpers driving KrigingSystem directly (as CalcKriging::_run does), to read the neighbourhood
// of every target and the "unchanged" flag of the neighbourhood memo

struct KsRun
{
  Value nbghs = Value::array();
  Value unchanged = Value::array();
  Value estim = Value::array(), stdev = Value::array(), varz = Value::array();
  int err = 0;
};
static KsRun ksRun(Db* dbin, Db* dbout, Model* model, ANeigh* neigh, int nvar, const std::vector<int>& targets)
{
  KsRun r;
  int iptr = dbout->addColumnsByConstant(3 * nvar, TEST);
  KrigingSystem ks(dbin, dbout, model, neigh);
  if (ks.updKrigOptEstim(iptr, iptr + nvar, iptr + 2 * nvar)) { r.err = 1; return r; }
  if (!ks.isReady()) { r.err = 2; return r; }
  for (int it : targets)
  {
    int e = ks.estimate(it);
    if (e) r.err = 3;
    r.unchanged.push(Value(neigh->isUnchanged()));
    r.nbghs.push(iarr(ks.getSampleIndices()));
    for (int v = 0; v < nvar; v++)
    {
      r.estim.push(num(dbout->getArray(it, iptr + v)));
      r.stdev.push(num(dbout->getArray(it, iptr + nvar + v)));
      r.varz.push(num(dbout->getArray(it, iptr + 2 * nvar + v)));
    }
  }
  ks.conclusion();
  return r;
}
static Value ksValue(const KsRun& r)
{
  Value o = Value::object();
  o["err"] = Value(r.err); o["nbghs"] = r.nbghs; o["unchanged"] = r.unchanged;
  o["estim"] = r.estim; o["stdev"] = r.stdev; o["varz"] = r.varz;
  return o;
}

// PAIR 4b: ball-tree neighbourhood search vs plain search
static Value caseBallNb(const Value& c)
{
  Value out = Value::object();
  std::string mid = c.at("model").s();
  int nvar = nvarOf(mid);
  int nt = (int)c.at("tgt").size();
  std::vector<int> all;
  for (int i = 0; i < nt; i++) all.push_back(i);
  Value runs[2];
  bool ballOn = false;
  for (int ball = 0; ball < 2; ball++)
  {
    // one target at a time with fresh objects, so that a failing target does not influence the others
    Value nb = Value::array(), es = Value::array(), sd = Value::array();
    for (int it = 0; it < nt; it++)
    {
      Model* model = makeModel(mid, c.at("drift").s());
      Db* dbin = makeData(c.at("pts"), &c.at("sel"), &c.at("def"), nvar);
      Db* dout = makeTargets(c.at("tgt"));
      NeighMoving* nm = makeMoving(c.at("nmaxi").i(), c.at("radius2").i(), c.at("nmini").i());
      if (ball) { nm->setBallSearch(true, c.at("leaf").i()); ballOn = true; }
      KsRun r = ksRun(dbin, dout, model, nm, nvar, {it});
      nb.push(r.nbghs.size() ? r.nbghs[0] : Value::array());
      es.push(r.estim.size() ? r.estim[0] : Value());
      sd.push(r.stdev.size() ? r.stdev[0] : Value());
      delete dbin; delete dout; delete nm; delete model;
    }
    Value o = Value::object();
    o["nbghs"] = nb; o["estim"] = es; o["stdev"] = sd;
    runs[ball] = o;
  }
  out["ref"] = runs[0];
  out["fast"] = runs[1];
  out["taken"] = Value(ballOn);
  out["how"] = Value("NeighMoving::setBallSearch(true, leaf): _moving takes its candidates from Ball::getIndices");
  return out;
}

// ------------------------------------------------------------------------------------------
// PAIR 5: block kriging with one discretisation point vs point kriging

static Value caseBlock(const Value& c)
{
  Value out = Value::object();
  std::string mid = c.at("model").s();
  int nvar = nvarOf(mid);
  int ndim = c.at("ndim").i();
  VectorInt nx(ndim, c.at("nx").i());
  VectorDouble dx(ndim, c.at("dx").i() / 2.);
  VectorDouble x0(ndim, c.at("x0").i() / 2.);
  Value runs[2];
  for (int blk = 0; blk < 2; blk++)
  {
    Model* model = makeModel(mid, c.at("drift").s());
    Db* dbin = makeData(c.at("pts"), &c.at("sel"), &c.at("def"), nvar);
    DbGrid* grid = DbGrid::create(nx, dx, x0);
    ANeigh* ng = (c.at("neigh").s() == "unique") ? (ANeigh*)NeighUnique::create() : (ANeigh*)makeMoving(100, 0, 1);
    if (blk)
      runs[blk] = runKriging(dbin, grid, model, ng, nvar, EKrigOpt::BLOCK, VectorInt(ndim, 1));
    else
      runs[blk] = runKriging(dbin, grid, model, ng, nvar);
    delete dbin; delete grid; delete ng; delete model;
  }
  out["ref"] = runs[0];
  out["fast"] = runs[1];
  out["taken"] = Value(true);
  out["how"] = Value("kriging(EKrigOpt::BLOCK, ndiscs = (1,..,1)) on a DbGrid: KrigingSystem::_rhsCalculBlock / _covCvvCalcul");
  return out;
}

// ------------------------------------------------------------------------------------------
// PAIR 6: collocated cokriging vs cokriging with the collocated datum added to the data

static Value refAddedDatum(const Value& c, const std::string& mid, int q, const std::string& neighKind)
{
  // one target at a time: the data change with the target
  Value e = Value::array(), s = Value::array(), z = Value::array();
  int nt = (int)c.at("tgt").size();
  int n = (int)c.at("pts").size();
  int errs = 0;
  for (int it = 0; it < nt; it++)
  {
    Model* model = makeModel(mid, c.at("drift").s());
    Db* dbin = makeData(c.at("pts"), &c.at("sel"), &c.at("def"), 2);
    int k = dbin->addSamples(1);
    (void)n;
    dbin->setSampleCoordinates(k, coordTarget(c.at("tgt")[it]));
    VectorDouble zz(2, TEST);
    zz[q] = zsec(it, q);
    dbin->setLocVariables(ELoc::Z, k, zz);
    if (dbin->hasLocVariable(ELoc::SEL)) dbin->setLocVariable(ELoc::SEL, k, 0, 1.);
    Value one = Value::array(); one.push(c.at("tgt")[it]);
    Db* dout = makeTargets(one);
    ANeigh* ng = (neighKind == "unique") ? (ANeigh*)NeighUnique::create() : (ANeigh*)makeMoving(100, 0, 1);
    Value r = runKriging(dbin, dout, model, ng, 2);
    errs += r.at("err").i();
    // per variable blocks of one value each -> reorder later (variable-major over targets)
    for (int v = 0; v < 2; v++)
    {
      e.push(r.at("estim").size() > (size_t)v ? r.at("estim")[v] : Value());
      s.push(r.at("stdev").size() > (size_t)v ? r.at("stdev")[v] : Value());
      z.push(r.at("varz").size() > (size_t)v ? r.at("varz")[v] : Value());
    }
    delete dbin; delete dout; delete ng; delete model;
  }
  // reorder target-major (t, v) into variable-major (v, t) as krigOut does
  Value o = Value::object();
  Value e2 = Value::array(), s2 = Value::array(), z2 = Value::array();
  for (int v = 0; v < 2; v++)
    for (int it = 0; it < nt; it++)
    {
      e2.push(e[2 * it + v]); s2.push(s[2 * it + v]); z2.push(z[2 * it + v]);
    }
  o["estim"] = e2; o["stdev"] = s2; o["varz"] = z2; o["err"] = Value(errs);
  return o;
}

static Value caseColcok(const Value& c)
{
  Value out = Value::object();
  std::string mid = c.at("model").s();
  int q = c.at("q").i();
  int nt = (int)c.at("tgt").size();
  std::string ngk = c.at("neigh").s();
  out["ref"] = refAddedDatum(c, mid, q, ngk);
  // plain cokriging without the collocated datum (to make sure the datum matters)
  {
    Model* model = makeModel(mid, c.at("drift").s());
    Db* dbin = makeData(c.at("pts"), &c.at("sel"), &c.at("def"), 2);
    Db* dout = makeTargets(c.at("tgt"));
    ANeigh* ng = (ngk == "unique") ? (ANeigh*)NeighUnique::create() : (ANeigh*)makeMoving(100, 0, 1);
    out["plain"] = runKriging(dbin, dout, model, ng, 2);
  }
  checkpoint(out);
  Model* model = makeModel(mid, c.at("drift").s());
  Db* dbin = makeData(c.at("pts"), &c.at("sel"), &c.at("def"), 2);
  Db* dout = makeTargets(c.at("tgt"));
  VectorDouble sec(nt);
  for (int it = 0; it < nt; it++) sec[it] = zsec(it, q);
  dout->addColumns(sec, "sec", ELoc::UNKNOWN);
  VectorInt rk(2, -1);
  rk[q] = dout->getUID("sec");
  ANeigh* ng = (ngk == "unique") ? (ANeigh*)NeighUnique::create() : (ANeigh*)makeMoving(100, 0, 1);
  out["fast"] = runKriging(dbin, dout, model, ng, 2, EKrigOpt::POINT, VectorInt(), rk);
  out["taken"] = Value(true);   // refined by the driver: the result must differ from "plain"
  out["how"] = Value("kriging(rank_colcok): counted only when the result differs from the cokriging without the collocated datum");
  return out;
}

// ------------------------------------------------------------------------------------------
// dense solver (Gaussian elimination with partial pivoting, long double) for the assembled system

typedef std::vector<std::vector<long double>> LMat;
static bool solveDense(LMat A, LMat B, LMat& X)
{
  int n = (int)A.size();
  int m = n ? (int)B[0].size() : 0;
  for (int k = 0; k < n; k++)
  {
    int p = k;
    for (int i = k + 1; i < n; i++) if (fabsl(A[i][k]) > fabsl(A[p][k])) p = i;
    if (fabsl(A[p][k]) < 1e-14L) return false;
    std::swap(A[p], A[k]); std::swap(B[p], B[k]);
    for (int i = 0; i < n; i++)
    {
      if (i == k) continue;
      long double f = A[i][k] / A[k][k];
      if (f == 0) continue;
      for (int j = k; j < n; j++) A[i][j] -= f * A[k][j];
      for (int j = 0; j < m; j++) B[i][j] -= f * B[k][j];
    }
  }
  X.assign(n, std::vector<long double>(m, 0));
  for (int i = 0; i < n; i++)
    for (int j = 0; j < m; j++) X[i][j] = B[i][j] / A[i][i];
  return true;
}

// PAIR 7: KrigingCalcul vs the standard system
static Value caseCalc(const Value& c)
{
  Value out = Value::object();
  std::string mid = c.at("model").s();
  std::string drift = c.at("drift").s();
  std::string form = c.at("form").s();
  int nvar = nvarOf(mid);
  int nt = (int)c.at("tgt").size();
  int q = c.at("q").i();
  int xv = c.at("xv").i();
  Model* model = makeModel(mid, drift);
  Db* data = makeData(c.at("pts"), &c.at("sel"), &c.at("def"), nvar);
  Db* target = makeTargets(c.at("tgt"));
  VectorDouble means(nvar, 0.);
  if (drift == "sk") for (int v = 0; v < nvar; v++) means[v] = MEANS[v];

  // the blocks, from the plain entry points of the library
  MatrixSquareSymmetric Sigma = model->evalCovMatrixSymmetric(data);
  MatrixRectangular X = model->evalDriftMatrix(data);
  MatrixRectangular Sigma0 = model->evalCovMatrix(data, target);
  MatrixRectangular X0 = model->evalDriftMatrix(target);
  MatrixSquareSymmetric Sigma00 = model->evalCovMatrixSymmetric(target);
  VectorDouble Z = data->getMultipleValuesActive(VectorInt(), VectorInt(), means);
  int neq = Sigma.getNRows();
  int nbfl = (drift == "sk") ? 0 : X.getNCols();
  int nrhs = Sigma0.getNCols();
  out["neq"] = Value(neq); out["nbfl"] = Value(nbfl); out["nrhs"] = Value(nrhs);

  Value fast = Value::object();
  Value ref = Value::object();
  Value dense = Value::object();
  VectorDouble priorMean;
  MatrixSquareSymmetric priorCov;
  VectorDouble Zp;
  VectorInt rankColCok, rankXvEqs, rankXvVars;

  KrigingCalcul kc(form == "dual");
  kc.setData(&Z, &means);
  kc.setLHS(&Sigma, &X);
  if (form == "xvalid")
  {
    kc.setVar(&Sigma00);
    const VectorVectorInt index = data->getMultipleRanksActive();
    // all the variables defined at sample xv are cross-validated together
    VectorInt vars;
    for (int v = 0; v < nvar; v++) vars.push_back(v);
    // position of sample xv within each per-variable list
    rankXvEqs.clear(); rankXvVars.clear();
    int lec = 0;
    for (int v = 0; v < nvar; v++)
      for (int k = 0; k < (int)index[v].size(); k++, lec++)
        if (index[v][k] == xv) { rankXvEqs.push_back(lec); rankXvVars.push_back(v); }
    fast["err"] = Value(kc.setXvalidUnique(&rankXvEqs, &rankXvVars));
    fast["xveqs"] = iarr(rankXvEqs);
  }
  else
  {
    kc.setRHS(&Sigma0, &X0);
    if (form != "dual") kc.setVar(&Sigma00);
    if (form == "bayes")
    {
      priorMean.resize(nbfl);
      priorCov = MatrixSquareSymmetric(nbfl);
      for (int i = 0; i < nbfl; i++)
      {
        priorMean[i] = 0.4 - 0.3 * i;
        for (int j = 0; j <= i; j++) priorCov.setValue(i, j, (i == j) ? 0.3 + 0.1 * i : 0.02);
      }
      fast["err"] = Value(kc.setBayes(&priorMean, &priorCov));
    }
    if (form == "colcok")
    {
      Zp.resize(nrhs, TEST);
      for (int v = 0; v < nvar; v++) Zp[v] = zsec(0, v) - means[v];
      rankColCok = {q};
      fast["err"] = Value(kc.setColCokUnique(&Zp, &rankColCok));
    }
  }
  fast["estim"] = arr(kc.getEstimation());
  if (form != "dual")
  {
    fast["stdev"] = arr(kc.getStdv());
    if (form != "bayes") fast["varz"] = arr(kc.getVarianceZstar());
  }
  if (form == "primal" || form == "dual")
  {
    const MatrixRectangular* lam = kc.getLambda();
    fast["lambda_null"] = Value(lam == nullptr);
    if (lam != nullptr) fast["lambda"] = matv(*lam);
    if (nbfl > 0 && form == "primal")
    {
      const MatrixRectangular* mu = kc.getMu();
      if (mu != nullptr) fast["mu"] = matv(*mu);
    }
  }
  if (form == "colcok")
  {
    const MatrixRectangular* l0 = kc.getLambda0();
    if (l0 != nullptr) fast["lambda0"] = matv(*l0);
  }
  if (form == "bayes")
  {
    fast["postmean"] = arr(kc.getPostMean());
    const MatrixSquareSymmetric* pc = kc.getPostCov();
    if (pc != nullptr) fast["postcov"] = matv(*pc);
  }
  out["fast"] = fast;
  out["taken"] = Value(true);
  out["how"] = Value("results read from a KrigingCalcul object fed with Sigma, X, Sigma0, X0, Sigma00 (and the option of the form)");
  // reference B: direct dense solve (long double) of the standard system that the specification
  // gives as the reference of the form (FastPathsAlgebra: StdUK / StdSK, RefBayes, RefColCok, RefXvalid)
  {
    auto toL = [](const AMatrix& m) {
      LMat r(m.getNRows(), std::vector<long double>(m.getNCols(), 0));
      for (int i = 0; i < m.getNRows(); i++) for (int j = 0; j < m.getNCols(); j++) r[i][j] = m.getValue(i, j);
      return r;
    };
    LMat S = toL(Sigma), S0 = toL(Sigma0), S00 = toL(Sigma00);
    LMat Xm = (nbfl > 0) ? toL(X) : LMat(neq, std::vector<long double>());
    LMat X0m = (nbfl > 0) ? toL(X0) : LMat(nrhs, std::vector<long double>());
    std::vector<long double> Zl(Z.begin(), Z.end());
    // mean added back to the estimate of right-hand side r (simple kriging): variable r / nt
    std::vector<long double> addm(nrhs, 0.L);
    if (drift == "sk") for (int r = 0; r < nrhs; r++) addm[r] = means[r / nt];
    int b = nbfl;
    if (form == "bayes")
    {
      // simple kriging of Z - X PM with the covariance inflated by the prior: S + X PC X^t
      LMat PC(b, std::vector<long double>(b, 0));
      for (int i = 0; i < b; i++) for (int j = 0; j < b; j++) PC[i][j] = priorCov.getValue(i, j);
      auto XPC = [&](const LMat& A) { LMat r(A.size(), std::vector<long double>(b, 0));
        for (size_t i = 0; i < A.size(); i++) for (int j = 0; j < b; j++) for (int k = 0; k < b; k++) r[i][j] += A[i][k] * PC[k][j];
        return r; };
      LMat XP = XPC(Xm), X0P = XPC(X0m);
      for (int i = 0; i < neq; i++) for (int j = 0; j < neq; j++) for (int k = 0; k < b; k++) S[i][j] += XP[i][k] * Xm[j][k];
      for (int i = 0; i < neq; i++) for (int r = 0; r < nrhs; r++) for (int k = 0; k < b; k++) S0[i][r] += XP[i][k] * X0m[r][k];
      for (int r = 0; r < nrhs; r++) for (int q2 = 0; q2 < nrhs; q2++) for (int k = 0; k < b; k++) S00[r][q2] += X0P[r][k] * X0m[q2][k];
      for (int i = 0; i < neq; i++) for (int k = 0; k < b; k++) Zl[i] -= Xm[i][k] * priorMean[k];
      for (int r = 0; r < nrhs; r++) for (int k = 0; k < b; k++) addm[r] += X0m[r][k] * priorMean[k];
      b = 0;
    }
    std::vector<int> keep;          // data equations kept (cross-validation removes some)
    for (int i = 0; i < neq; i++) keep.push_back(i);
    std::vector<int> rhsCols;       // right-hand sides
    for (int r = 0; r < nrhs; r++) rhsCols.push_back(r);
    bool xvform = (form == "xvalid");
    if (xvform)
    {
      keep.clear();
      for (int i = 0; i < neq; i++) { bool rm = false; for (int e : rankXvEqs) if (e == i) rm = true; if (!rm) keep.push_back(i); }
    }
    int nk = (int)keep.size();
    int nextra = (form == "colcok") ? 1 : 0;     // the collocated datum
    int nr = xvform ? (int)rankXvEqs.size() : nrhs;
    int nt2 = nk + nextra + b;
    LMat A(nt2, std::vector<long double>(nt2, 0)), B(nt2, std::vector<long double>(nr, 0)), W;
    std::vector<long double> Zx;
    for (int i = 0; i < nk; i++)
    {
      for (int j = 0; j < nk; j++) A[i][j] = S[keep[i]][keep[j]];
      for (int l = 0; l < b; l++) { A[i][nk + nextra + l] = Xm[keep[i]][l]; A[nk + nextra + l][i] = Xm[keep[i]][l]; }
      for (int r = 0; r < nr; r++) B[i][r] = xvform ? S[keep[i]][rankXvEqs[r]] : S0[keep[i]][r];
      Zx.push_back(Zl[keep[i]]);
    }
    if (nextra)
    {
      // collocated datum: variable q at the (single) target = right-hand side column q
      for (int i = 0; i < nk; i++) { A[i][nk] = S0[keep[i]][q]; A[nk][i] = S0[keep[i]][q]; }
      A[nk][nk] = S00[q][q];
      for (int l = 0; l < b; l++) { A[nk][nk + 1 + l] = X0m[q][l]; A[nk + 1 + l][nk] = X0m[q][l]; }
      for (int r = 0; r < nr; r++) B[nk][r] = S00[q][r];
      Zx.push_back(Zp[q]);
    }
    for (int l = 0; l < b; l++)
      for (int r = 0; r < nr; r++) B[nk + nextra + l][r] = xvform ? Xm[rankXvEqs[r]][l] : X0m[r][l];
    if (solveDense(A, B, W))
    {
      Value lam = Value::array(), mu = Value::array(), es = Value::array(), sd = Value::array(), vz = Value::array();
      for (int i = 0; i < nk + nextra; i++) for (int r = 0; r < nr; r++) lam.push(num((double)W[i][r]));
      for (int l = 0; l < b; l++) for (int r = 0; r < nr; r++) mu.push(num((double)(-W[nk + nextra + l][r])));
      for (int r = 0; r < nr; r++)
      {
        long double e = xvform ? (long double)(drift == "sk" ? means[rankXvVars[r]] : 0.) : addm[r];
        long double wb = 0, vzz = 0;
        for (int i = 0; i < nk + nextra; i++) e += W[i][r] * Zx[i];
        for (int i = 0; i < nt2; i++) wb += W[i][r] * B[i][r];
        for (int i = 0; i < nk + nextra; i++) vzz += W[i][r] * B[i][r];
        for (int l = 0; l < b; l++) vzz -= W[nk + nextra + l][r] * B[nk + nextra + l][r];
        long double c00 = xvform ? S[rankXvEqs[r]][rankXvEqs[r]] : S00[r][r];
        long double var = c00 - wb;
        es.push(num((double)e)); sd.push(num(var > 0 ? (double)sqrtl(var) : 0.)); vz.push(num((double)vzz));
      }
      dense["lambda"] = lam; dense["mu"] = mu; dense["estim"] = es; dense["stdev"] = sd; dense["varz"] = vz;
    }
  }
  out["dense"] = dense;
  checkpoint(out);

  // reference A: the standard calculators of the library
  if (form == "primal" || form == "dual")
  {
    Model* m2 = makeModel(mid, drift);
    Db* d2 = makeData(c.at("pts"), &c.at("sel"), &c.at("def"), nvar);
    Db* t2 = makeTargets(c.at("tgt"));
    NeighUnique* nu = NeighUnique::create();
    ref = runKriging(d2, t2, m2, nu, nvar);
  }
  else if (form == "bayes")
  {
    Model* m2 = makeModel(mid, drift);
    Db* d2 = makeData(c.at("pts"), &c.at("sel"), &c.at("def"), nvar);
    Db* t2 = makeTargets(c.at("tgt"));
    NeighUnique* nu = NeighUnique::create();
    VectorString before = t2->getAllNames();
    int err = kribayes(d2, t2, m2, nu, priorMean, priorCov, true, true);
    ref = krigOut(t2, before, nvar);
    ref["err"] = Value(err);
  }
  else if (form == "colcok")
  {
    ref = refAddedDatum(c, mid, q, "unique");
  }
  else if (form == "xvalid")
  {
    // data without the variables of sample xv, target = location of sample xv
    Model* m2 = makeModel(mid, drift);
    Db* d2 = makeData(c.at("pts"), &c.at("sel"), &c.at("def"), nvar);
    for (int v = 0; v < nvar; v++) d2->setLocVariable(ELoc::Z, xv, v, TEST);
    Db* t2 = Db::create();
    VectorDouble xyz = d2->getSampleCoordinates(xv);
    for (int d = 0; d < (int)xyz.size(); d++) t2->addColumns({xyz[d]}, "x" + std::to_string(d + 1), ELoc::X, d);
    NeighUnique* nu = NeighUnique::create();
    Value r = runKriging(d2, t2, m2, nu, nvar);
    // keep the variables that were defined at xv (the cross-validated equations)
    Value e = Value::array(), s = Value::array(), z = Value::array();
    for (int v : rankXvVars) { e.push(r.at("estim")[v]); s.push(r.at("stdev")[v]); z.push(r.at("varz")[v]); }
    ref["estim"] = e; ref["stdev"] = s; ref["varz"] = z; ref["err"] = r.at("err");
  }

  out["ref"] = ref;
  return out;
}

// ------------------------------------------------------------------------------------------
// PAIR 8: neighbourhood / system reuse across consecutive targets vs one target at a time

static Value caseReuse(const Value& c)
{
  Value out = Value::object();
  std::string mid = c.at("model").s();
  int nvar = nvarOf(mid);
  int nt = (int)c.at("tgt").size();
  std::vector<int> all;
  for (int i = 0; i < nt; i++) all.push_back(i);
  bool uniq = c.at("neigh").s() == "unique";
  {
    Model* model = makeModel(mid, c.at("drift").s());
    Db* dbin = makeData(c.at("pts"), &c.at("sel"), &c.at("def"), nvar);
    Db* dout = makeTargets(c.at("tgt"));
    ANeigh* ng = uniq ? (ANeigh*)NeighUnique::create() : (ANeigh*)makeMoving(c.at("nmaxi").i(), c.at("radius2").i(), c.at("nmini").i());
    KsRun r = ksRun(dbin, dout, model, ng, nvar, all);
    out["fast"] = ksValue(r);
    bool any = false;
    for (auto& u : r.unchanged.arr) any = any || u.boolean();
    out["taken"] = Value(any);
    out["how"] = Value("ANeigh::isUnchanged() read after every KrigingSystem::estimate of the single run; counted when at least one target reused the system");
  }
  KsRun acc;
  for (int it = 0; it < nt; it++)
  {
    Model* model = makeModel(mid, c.at("drift").s());
    Db* dbin = makeData(c.at("pts"), &c.at("sel"), &c.at("def"), nvar);
    Db* dout = makeTargets(c.at("tgt"));
    ANeigh* ng = uniq ? (ANeigh*)NeighUnique::create() : (ANeigh*)makeMoving(c.at("nmaxi").i(), c.at("radius2").i(), c.at("nmini").i());
    KsRun r = ksRun(dbin, dout, model, ng, nvar, {it});
    acc.err += r.err;
    for (auto& v : r.nbghs.arr) acc.nbghs.push(v);
    for (auto& v : r.unchanged.arr) acc.unchanged.push(v);
    for (auto& v : r.estim.arr) acc.estim.push(v);
    for (auto& v : r.stdev.arr) acc.stdev.push(v);
    for (auto& v : r.varz.arr) acc.varz.push(v);
    delete dbin; delete dout; delete ng; delete model;
  }
  out["ref"] = ksValue(acc);
  return out;
}

// ------------------------------------------------------------------------------------------

static Value runCase(const Value& c)
{
  const std::string& pair = c.at("pair").s();
  int ndim = c.geti("ndim", 2);
  defineDefaultSpace(ESpaceType::RN, ndim);
  if (pair == "covmat") return caseCovmat(c);
  if (pair == "kr_unique") return caseUnique(c);
  if (pair == "xvalid") return caseXvalid(c);
  if (pair == "ball_mig") return caseBallMig(c);
  if (pair == "ball_nb") return caseBallNb(c);
  if (pair == "block1") return caseBlock(c);
  if (pair == "colcok") return caseColcok(c);
  if (pair == "calc") return caseCalc(c);
  if (pair == "reuse") return caseReuse(c);
  throw std::runtime_error("unknown pair " + pair);
}

int main(int argc, char** argv)
{
  if (argc < 3) { fprintf(stderr, "usage: fast_run cases.ndjson out.ndjson\n"); return 2; }
  std::vector<Value> cases = vj::readNdjson(argv[1]);
  int fd = open(argv[2], O_WRONLY | O_CREAT | O_TRUNC | O_APPEND, 0644);
  if (fd < 0) { fprintf(stderr, "cannot open output\n"); return 2; }
  // the library reports on stdout: keep it away
  if (!freopen("/dev/null", "w", stdout)) return 2;
  int ncrash = 0;
  for (const Value& c : cases)
  {
    int id = c.at("id").i();
    pid_t pid = fork();
    if (pid < 0) { fprintf(stderr, "fork failed\n"); return 2; }
    if (pid == 0)
    {
      alarm(60);
      OUT_FD = fd; CUR_ID = id; CUR_PAIR = c.at("pair").s();
      std::string line;
      try
      {
        Value o = runCase(c);
        o["id"] = Value(id);
        o["pair"] = c.at("pair");
        line = vj::dump(o) + "\n";
      }
      catch (const std::exception& e)
      {
        Value o = Value::object();
        o["id"] = Value(id); o["pair"] = c.at("pair"); o["exception"] = Value(std::string(e.what()));
        line = vj::dump(o) + "\n";
      }
      ssize_t w = write(fd, line.data(), line.size());
      (void)w;
      _exit(0);
    }
    int st = 0;
    waitpid(pid, &st, 0);
    if (WIFSIGNALED(st) || (WIFEXITED(st) && WEXITSTATUS(st) != 0))
    {
      ncrash++;
      char buf[256];
      int n = snprintf(buf, sizeof buf, "{\"id\":%d,\"pair\":\"%s\",\"crash\":%d}\n", id, c.at("pair").s().c_str(),
                       WIFSIGNALED(st) ? WTERMSIG(st) : 1000 + WEXITSTATUS(st));
      ssize_t w = write(fd, buf, (size_t)n);
      (void)w;
    }
  }
  close(fd);
  fprintf(stderr, "{\"cases\":%zu,\"crashes\":%d}\n", cases.size(), ncrash);
  return 0;
}
