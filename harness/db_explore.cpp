// C07 binding (e): exploration of the reachable states of a REAL gstlearn Db / DbGrid under the
// operation catalogue emitted by the TLA+ module DbTable.  Every catalogue entry is applied to a
// clone of the object in every state reached (breadth first, bounded), the projection of the real
// state (read back through public getters only, through every designator) is logged before and
// after, and TLC judges every (from, op, to) with the relations of DbTable.tla (TraceDbTable).
//
// usage: db_explore <catalogue.json> <bounds.json> <states.ndjson> <trans.ndjson>
#include "vjson.hpp"
#include "Enum/EOperator.hpp"
#include "Db/Db.hpp"
#include "Db/DbGrid.hpp"
#include "Enum/ELoc.hpp"
#include "Enum/ELoadBy.hpp"
#include "Basic/VectorNumT.hpp"
#include <deque>
#include <unordered_map>
#include <random>
#include <algorithm>
#include <cctype>
#include <csignal>
#include <unistd.h>
#include <set>

using vj::Value;

static std::vector<std::string> TYPES;
static int MAXCOLS, MAXUID, MAXNECH;

static ELoc eloc(const std::string& t)
{
  if (t == "none") return ELoc::UNKNOWN;
  std::string k = t;
  for (auto& c : k) c = (char)toupper(c);
  return ELoc::fromKey(k);
}
static std::string typeName(const ELoc& l)
{
  if (l == ELoc::UNKNOWN) return "none";
  std::string k{l.getKey()};
  for (auto& c : k) c = (char)tolower(c);
  return k;
}
static Value chars(const std::string& s)
{
  Value v = Value::array();
  for (char c : s) v.push(Value(std::string(1, c)));
  return v;
}
static std::string unchars(const Value& v)
{
  std::string s;
  for (auto& e : v.arr) s += e.s();
  return s;
}
static int tok(double x)
{
  if (FFFF(x)) return -999;
  return (int)std::llround(x);
}
static Value toks(const VectorDouble& v)
{
  Value a = Value::array();
  for (double x : v) a.push(Value(tok(x)));
  return a;
}
static Value locOf(bool ok, const ELoc& l, int idx)
{
  Value a = Value::array();
  a.push(Value(ok ? typeName(l) : std::string("none")));
  a.push(Value(ok ? idx : -1));
  return a;
}

// Projection of the real object.  "core" = what the column-index view says; "q" = the answers of
// all the other designators, to be cross-checked by the specification.
static Value project(const Db* db, bool grid)
{
  Value s = Value::object();
  int ncol = db->getColumnNumber();
  int nech = db->getSampleNumber();
  int nuid = db->getUIDMaxNumber();
  s["nech"] = Value(nech);
  s["nuid"] = Value(nuid);
  s["grid"] = Value(grid);
  Value cols = Value::array();
  Value q = Value::object();
  Value qc = Value::array();
  for (int i = 0; i < ncol; i++)
  {
    Value c = Value::object();
    int u = db->getUIDByColIdx(i);
    std::string n = db->getNameByColIdx(i);
    c["uid"] = Value(u);
    c["name"] = chars(n);
    c["cells"] = toks(db->getColumnByColIdx(i, false, false));
    cols.push(c);

    Value a = Value::object();
    a["colByUid"] = Value(db->getColIdxByUID(u));
    a["colByName"] = Value(db->getColIdx(n));
    a["uidByName"] = Value(db->getUID(n));
    a["nameByUid"] = chars(db->getNameByUID(u));
    ELoc lt; int li;
    bool ok = db->getLocatorByColIdx(i, &lt, &li);
    a["locByCol"] = locOf(ok, lt, li);
    ELoc lt2 = ELoc::UNKNOWN; int li2 = -1;
    bool ok2 = db->getLocatorByUID(u, &lt2, &li2);
    a["locByUid"] = locOf(ok2, lt2, li2);
    ELoc lt3 = ELoc::UNKNOWN; int li3 = -1;
    bool ok3 = db->getLocator(n, &lt3, &li3);
    a["locByName"] = locOf(ok3, lt3, li3);
    a["cellsByUid"] = toks(db->getColumnByUID(u, false, false));
    a["cellsByName"] = toks(db->getColumn(n, false, false));
    Value ca = Value::array(), cv = Value::array(), cn = Value::array();
    for (int e = 0; e < nech; e++)
    {
      ca.push(Value(tok(db->getArray(e, u))));
      cv.push(Value(tok(db->getValueByColIdx(e, i))));
      cn.push(Value(tok(db->getValue(n, e))));
    }
    a["cellsArray"] = ca;
    a["cellsValue"] = cv;
    a["cellsValueName"] = cn;
    if (ok)
    {
      a["cellsByLoc"] = toks(db->getColumnByLocator(lt, li, false, false));
      a["nameByLoc"] = chars(db->getNameByLocator(lt, li));
      a["colByLoc"] = Value(db->getColIdxByLocator(lt, li));
      a["uidByLoc"] = Value(db->getUIDByLocator(lt, li));
      Value cl = Value::array();
      for (int e = 0; e < nech; e++) cl.push(Value(tok(db->getFromLocator(lt, e, li))));
      a["cellsFromLoc"] = cl;
    }
    else
    {
      a["cellsByLoc"] = c.at("cells");
      a["nameByLoc"] = c.at("name");
      a["colByLoc"] = Value(i);
      a["uidByLoc"] = Value(u);
      a["cellsFromLoc"] = c.at("cells");
    }
    qc.push(a);
  }
  s["cols"] = cols;
  Value loc = Value::object();
  Value locn = Value::object();
  Value nbl = Value::object();
  Value cbl = Value::object();
  for (auto& t : TYPES)
  {
    ELoc l = eloc(t);
    int n = db->getLocatorNumber(l);
    Value a = Value::array();
    for (int r = 0; r < n; r++) a.push(Value(db->getUIDByLocator(l, r)));
    loc[t] = a;
    locn[t] = Value(db->getFromLocatorNumber(l));
    Value names = Value::array();
    for (auto& nm : db->getNamesByLocator(l)) names.push(chars(nm));
    nbl[t] = names;
    cbl[t] = Value::arrayOf(db->getColIdxsByLocator(l));
  }
  s["loc"] = loc;
  q["cols"] = qc;
  q["ncol"] = Value(ncol);
  q["nact"] = Value(db->getSampleNumber(true));
  Value act = Value::array();
  for (int e = 0; e < nech; e++) act.push(Value(db->isActive(e) ? 1 : 0));
  q["active"] = act;   // per-sample answer, to be consistent with the reported count
  Value an = Value::array();
  for (auto& nm : db->getAllNames()) an.push(chars(nm));
  q["allNames"] = an;
  q["locNumber"] = locn;
  q["namesByLoc"] = nbl;
  q["colsByLoc"] = cbl;
  Value uc = Value::array(), ud = Value::array();
  for (int u = 0; u < nuid; u++)
  {
    uc.push(Value(db->getColIdxByUID(u)));
    ud.push(Value(db->isUIDDefined(u)));
  }
  q["uidcol"] = uc;
  q["uidDefined"] = ud;
  q["allUids"] = Value::arrayOf(db->getAllUIDs());
  s["q"] = q;
  return s;
}

static bool withinBounds(const Value& c, const Db* db)
{
  const std::string& op = c.at("op").s();
  if (op == "addColumnsByConstant")
    return db->getColumnNumber() + c.at("nadd").i() <= MAXCOLS && db->getUIDMaxNumber() + c.at("nadd").i() <= MAXUID;
  if (op == "addSelection" || op == "addColumns")
    return db->getColumnNumber() + 1 <= MAXCOLS && db->getUIDMaxNumber() + 1 <= MAXUID && db->getSampleNumber() >= 1;
  if (op == "addSamples") return db->getSampleNumber() + c.at("n").i() <= MAXNECH;
  if (op == "updArray")
  {
    int iech = c.at("iech").i(), uid = c.at("uid").i();
    if (iech < 0 || iech >= db->getSampleNumber() || db->getColIdxByUID(uid) < 0) return true;
    double v = db->getArray(iech, uid);
    return FFFF(v) || v < 10.;
  }
  return true;
}

// Apply one catalogue entry through the public API.  Returns the (possibly new) object.
static Db* apply(const Value& c, Db* db)
{
  const std::string& op = c.at("op").s();
  if (op == "addColumnsByConstant")
  {
    double val = c.at("val").i() + 10 * (db->getUIDMaxNumber() + 1);
    db->addColumnsByConstant(c.at("nadd").i(), val, unchars(c.at("radix")), eloc(c.at("t").s()), c.at("r").i());
  }
  else if (op == "deleteColumnByUID") db->deleteColumnByUID(c.at("uid").i());
  else if (op == "deleteColumnByColIdx") db->deleteColumnByColIdx(c.at("col").i());
  else if (op == "deleteColumn") db->deleteColumn(unchars(c.at("name")));
  else if (op == "deleteColumnsByLocator") db->deleteColumnsByLocator(eloc(c.at("t").s()));
  else if (op == "deleteColumnsByUID") db->deleteColumnsByUID(c.at("uids").ints());
  else if (op == "deleteColumnsByColIdx") db->deleteColumnsByColIdx(c.at("cols").ints());
  else if (op == "setLocatorByUID") db->setLocatorByUID(c.at("uid").i(), eloc(c.at("t").s()), c.at("r").i(), c.at("clean").boolean());
  else if (op == "setLocatorByColIdx") db->setLocatorByColIdx(c.at("col").i(), eloc(c.at("t").s()), c.at("r").i(), c.at("clean").boolean());
  else if (op == "setLocator") db->setLocator(unchars(c.at("name")), eloc(c.at("t").s()), c.at("r").i(), c.at("clean").boolean());
  else if (op == "setLocatorsByUID") db->setLocatorsByUID(c.at("uids").ints(), eloc(c.at("t").s()), c.at("r").i(), c.at("clean").boolean());
  else if (op == "setLocatorsByColIdx") db->setLocatorsByColIdx(c.at("cols").ints(), eloc(c.at("t").s()), c.at("r").i(), c.at("clean").boolean());
  else if (op == "clearLocators") db->clearLocators(eloc(c.at("t").s()));
  else if (op == "switchLocator") db->switchLocator(eloc(c.at("t").s()), eloc(c.at("t2").s()));
  else if (op == "setName") db->setName(unchars(c.at("name")), unchars(c.at("new")));
  else if (op == "setNameByUID") db->setNameByUID(c.at("uid").i(), unchars(c.at("new")));
  else if (op == "setNameByColIdx") db->setNameByColIdx(c.at("col").i(), unchars(c.at("new")));
  else if (op == "addSamples") db->addSamples(c.at("n").i(), c.at("val").i());
  else if (op == "deleteSample") db->deleteSample(c.at("iech").i());
  else if (op == "setArray") db->setArray(c.at("iech").i(), c.at("uid").i(), c.at("val").i());
  else if (op == "setValueByColIdx") db->setValueByColIdx(c.at("iech").i(), c.at("col").i(), c.at("val").i() == -999 ? TEST : (double)c.at("val").i());   // -999 = undefined value
  else if (op == "setValue") db->setValue(unchars(c.at("name")), c.at("iech").i(), c.at("val").i());
  else if (op == "setLocVariable") db->setLocVariable(eloc(c.at("t").s()), c.at("iech").i(), c.at("r").i(), c.at("val").i());
  else if (op == "setColumnByUID")
  {
    VectorDouble col(db->getSampleNumber());
    for (int k = 0; k < (int)col.size(); k++) col[k] = c.at("val").i() + k;
    db->setColumnByUID(col, c.at("uid").i());
  }
  else if (op == "setArrayBySample")
  {
    VectorDouble row(db->getColumnNumber());
    for (int k = 0; k < (int)row.size(); k++) row[k] = c.at("val").i() + k;
    db->setArrayBySample(c.at("iech").i(), row);
  }
  else if (op == "setAllColumns")
  {
    VectorVectorDouble tabs(db->getColumnNumber(), VectorDouble(db->getSampleNumber()));
    for (int k = 0; k < (int)tabs.size(); k++) for (int i = 0; i < (int)tabs[k].size(); i++) tabs[k][i] = c.at("val").i() + 10 * k + i;
    db->setAllColumns(tabs);
  }
  else if (op == "updArray") db->updArray(c.at("iech").i(), c.at("uid").i(), EOperator::ADD, c.at("val").i());
  else if (op == "setColumnByColIdx")
  {
    VectorDouble col(db->getSampleNumber());
    for (int k = 0; k < (int)col.size(); k++) col[k] = c.at("val").i() + k;
    db->setColumnByColIdx(col, c.at("col").i());
  }
  else if (op == "duplicateColumnByUID") db->duplicateColumnByUID(c.at("uid").i(), c.at("uid2").i());
  else if (op == "copyByUID") db->copyByUID(c.at("uid").i(), c.at("uid2").i());
  else if (op == "addSelection")
  {
    VectorDouble tab(db->getSampleNumber());
    for (int i = 0; i < (int)tab.size(); i++) tab[i] = (i + 1 + c.at("k").i()) % 2;
    db->addSelection(tab, unchars(c.at("radix")));
  }
  else if (op == "addColumns")
  {
    VectorDouble tab(db->getSampleNumber());
    for (int i = 0; i < (int)tab.size(); i++) tab[i] = c.at("val").i() + i;
    db->addColumns(tab, unchars(c.at("radix")), eloc(c.at("t").s()), c.at("r").i());
  }
  else if (op == "deleteColumnsByUIDRange") db->deleteColumnsByUIDRange(c.at("uid").i(), c.at("n").i());
  else if (op == "setLocatorsByUIDRange") db->setLocatorsByUID(c.at("n").i(), c.at("uid").i(), eloc(c.at("t").s()), c.at("r").i(), c.at("clean").boolean());
  else if (op == "setLocators")
  {
    VectorString names;
    for (auto& n : c.at("names").arr) names.push_back(unchars(n));
    db->setLocators(names, eloc(c.at("t").s()), c.at("r").i(), c.at("clean").boolean());
  }
  else if (op == "deleteSamples") db->deleteSamples(c.at("iechs").ints());
  else if (op == "copy")
  {
    // copy construction then assignment back: the copy must be the same table, independent storage
    Db* cp = db->clone();
    delete db;
    db = cp;
  }
  else throw std::runtime_error("unknown op " + op);
  return db;
}

static Db* makeInitial(int nech, bool grid)
{
  if (grid)
  {
    VectorInt nx = {nech};
    return DbGrid::create(nx, VectorDouble(), VectorDouble(), VectorDouble(), ELoadBy::SAMPLE, VectorDouble(),
                          VectorString(), VectorString(), false, false);
  }
  return Db::createFromSamples(nech, ELoadBy::SAMPLE, VectorDouble(), VectorString(), VectorString(), false);
}

// A state that already violates the table invariants (a uid listed twice or a dead uid in the role
// lists, duplicate names) is logged and judged but not expanded: once inconsistent, all bets are off.
static bool expandable(const Value& p)
{
  std::set<int> live, seen;
  std::set<std::string> names;
  for (auto& c : p.at("cols").arr)
  {
    live.insert(c.at("uid").i());
    if (!names.insert(vj::dump(c.at("name"))).second) return false;
  }
  for (auto& kv : p.at("loc").obj)
    for (auto& u : kv.second.arr)
    {
      if (!live.count(u.i())) return false;
      if (!seen.insert(u.i()).second) return false;
    }
  return true;
}

static std::string keyOf(Value s)
{
  // key = projection without the query part (queries are functions of the object anyway)
  return vj::dump(s);
}

// Crash containment: the transition being executed is kept serialised; a fatal signal inside the
// library appends it (marked "crash") to the transition log and ends the process with status 88.
// The driver re-runs the exploration with that (state, entry) on the skip list.
static char CUR[4096];
static int FT_FD = -1;
static void onCrash(int sig)
{
  char buf[4200];
  int n = snprintf(buf, sizeof buf, "%s,\"crash\":%d}\n", CUR, sig);
  if (FT_FD >= 0 && n > 0) { ssize_t w = write(FT_FD, buf, (size_t)n); (void)w; }
  _exit(88);
}

int main(int argc, char** argv)
{
  if (argc < 5) { fprintf(stderr, "usage\n"); return 2; }
  Value cat = vj::readFile(argv[1]);
  Value bounds = vj::readFile(argv[2]);
  FILE* fs = fopen(argv[3], "w");
  FILE* ft = fopen(argv[4], "w");
  if (!fs || !ft) { fprintf(stderr, "cannot open outputs\n"); return 2; }
  // the library reports argument errors on stdout: keep them away from our outputs
  if (!freopen("/dev/null", "w", stdout)) return 2;
  setvbuf(fs, nullptr, _IOLBF, 0);
  setvbuf(ft, nullptr, _IOLBF, 0);
  FT_FD = fileno(ft);
  std::set<std::pair<int, int>> skip;
  if (argc > 5)
  {
    std::ifstream sk(argv[5]);
    int a, b;
    while (sk >> a >> b) skip.insert({a, b});
  }
  std::set_terminate([]() { onCrash(6); });
  signal(SIGSEGV, onCrash); signal(SIGABRT, onCrash); signal(SIGFPE, onCrash); signal(SIGBUS, onCrash); signal(SIGILL, onCrash);

  TYPES = bounds.at("types").strings();
  MAXCOLS = bounds.at("maxcols").i();
  MAXUID = bounds.at("maxuid").i();
  MAXNECH = bounds.at("maxnech").i();
  long maxTrans = bounds.geti("max_transitions", 50000);
  int nwalks = bounds.geti("walks", 0);
  int walkDepth = bounds.geti("walk_depth", 20);
  unsigned seed = (unsigned)bounds.geti("seed", 1);
  std::vector<int> initNech = bounds.at("init_nech").ints();
  std::vector<int> grids = bounds.at("grids").ints();

  std::unordered_map<std::string, int> ids;
  std::deque<std::pair<int, Db*>> queue;
  long ntrans = 0;
  long nNotExpanded = 0;
  auto intern = [&](Db* db, bool grid, bool& isNew) -> int {
    Value p = project(db, grid);
    std::string k = keyOf(p);
    auto it = ids.find(k);
    if (it != ids.end()) { isNew = false; return it->second; }
    bool ex = expandable(p);
    if (!ex) nNotExpanded++;
    int id = (int)ids.size() + 1;
    ids[k] = id;
    Value rec = Value::object();
    rec["id"] = Value(id);
    rec["s"] = p;
    fprintf(fs, "%s\n", vj::dump(rec).c_str());
    isNew = ex;
    return id;
  };
  auto logTrans = [&](int from, const Value& c, int to) {
    Value rec = Value::object();
    rec["from"] = Value(from);
    rec["c"] = c;
    rec["to"] = Value(to);
    fprintf(ft, "%s\n", vj::dump(rec).c_str());
    ntrans++;
  };

  for (int g : grids)
    for (int n : initNech)
    {
      Db* db = makeInitial(n, g != 0);
      bool isNew;
      int id = intern(db, g != 0, isNew);
      if (isNew) queue.push_back({id, db}); else delete db;
    }

  // breadth-first: every catalogue entry in every state, until the transition budget is used
  std::vector<std::pair<int, Db*>> visited;
  while (!queue.empty() && ntrans < maxTrans)
  {
    auto cur = queue.front(); queue.pop_front();
    bool grid = dynamic_cast<DbGrid*>(cur.second) != nullptr;
    for (int ci = 0; ci < (int)cat.arr.size(); ci++)
    {
      const Value& c = cat.arr[ci];
      if (!withinBounds(c, cur.second)) continue;
      if (skip.count({cur.first, ci})) continue;
      snprintf(CUR, sizeof CUR, "{\"from\":%d,\"ci\":%d,\"c\":%s,\"to\":0", cur.first, ci, vj::dump(c).c_str());
      Db* cl = cur.second->clone();
      cl = apply(c, cl);
      bool isNew;
      int to = intern(cl, grid, isNew);
      logTrans(cur.first, c, to);
      if (isNew) queue.push_back({to, cl}); else delete cl;
    }
    visited.push_back(cur);
  }
  bool exhausted = queue.empty();

  // seeded random walks (deeper than the breadth-first frontier)
  std::mt19937 rng(seed);
  for (int w = 0; w < nwalks; w++)
  {
    bool grid = grids[rng() % grids.size()] != 0;
    Db* db = makeInitial(initNech[rng() % initNech.size()], grid);
    bool isNew;
    int cur = intern(db, grid, isNew);
    for (int d = 0; d < walkDepth; d++)
    {
      // progressing walk: entries that leave the state unchanged (invalid designators ...) are logged
      // but up to 8 entries are tried until one changes the state
      bool moved = false, stop = false;
      for (int attempt = 0; attempt < 8 && !moved && !stop; attempt++)
      {
        int ci = (int)(rng() % cat.arr.size());
        const Value& c = cat.arr[ci];
        if (!withinBounds(c, db)) continue;
        if (skip.count({-(w + 1), d * 8 + attempt})) { stop = true; break; }
        snprintf(CUR, sizeof CUR, "{\"from\":%d,\"ci\":%d,\"walk\":%d,\"step\":%d,\"c\":%s,\"to\":0", cur, ci, w + 1, d * 8 + attempt, vj::dump(c).c_str());
        db = apply(c, db);
        int to = intern(db, grid, isNew);
        logTrans(cur, c, to);
        moved = (to != cur);
        cur = to;
        if (!expandable(project(db, grid))) stop = true;
      }
      if (stop) break;
    }
    delete db;
  }
  fclose(fs); fclose(ft);
  fprintf(stderr, "{\"states\":%zu,\"transitions\":%ld,\"exhausted\":%s,\"not_expanded\":%ld}\n", ids.size(), ntrans, exhausted ? "true" : "false", nNotExpanded);
  return 0;
}
