// Session binding: executes the sessions emitted by TLC from Session.tla on real objects (one data
// Db, one target grid, one Model, a unique neighbourhood) and logs, after every step, the reported
// outcome and the projection of both data bases (names, roles, bit-exact content hashes); at the
// end of each session the estimation obtained with the session's objects is compared with the one
// obtained with objects rebuilt from scratch from the final content.
//
// usage: session_run <sessions.ndjson> <out.ndjson> [first] [count]
#include "vjson.hpp"
#include "Db/Db.hpp"
#include "Db/DbGrid.hpp"
#include "Model/Model.hpp"
#include "Neigh/NeighUnique.hpp"
#include "Estimation/CalcKriging.hpp"
#include "Simulation/CalcSimuTurningBands.hpp"
#include "Calculators/CalcMigrate.hpp"
#include "Space/SpaceRN.hpp"
#include "Space/ASpaceObject.hpp"
#include "Enum/ECov.hpp"
#include "Enum/ELoadBy.hpp"
#include "Enum/ESpaceType.hpp"
#include "Basic/ASerializable.hpp"
#include <csignal>
#include <unistd.h>
#include <cstring>
#include <cstdint>
#include <cmath>

using vj::Value;

static char CUR[4096];
static int OUT_FD = -1;
static void onCrash(int sig)
{
  char buf[4300];
  int n = snprintf(buf, sizeof buf, "{\"session\":%s,\"crash\":%d}\n", CUR, sig);
  if (OUT_FD >= 0 && n > 0) { ssize_t w = write(OUT_FD, buf, (size_t)n); (void)w; }
  _exit(88);
}
static Value chars(const std::string& s) { Value v = Value::array(); for (char c : s) v.push(Value(std::string(1, c))); return v; }
static std::string hashCells(const VectorDouble& v)
{
  uint64_t h = 1469598103934665603ULL;
  for (double x : v)
  {
    unsigned char b[8];
    if (FFFF(x)) memset(b, 0xAB, 8); else memcpy(b, &x, 8);
    for (int i = 0; i < 8; i++) { h ^= b[i]; h *= 1099511628211ULL; }
  }
  char buf[24]; snprintf(buf, sizeof buf, "%016llx", (unsigned long long)h);
  return buf;
}
static Value project(const Db* db)
{
  Value cols = Value::array();
  for (int i = 0; i < db->getColumnNumber(); i++)
  {
    Value c = Value::object();
    c["name"] = chars(db->getNameByColIdx(i));
    ELoc lt; int li;
    bool ok = db->getLocatorByColIdx(i, &lt, &li);
    c["role"] = Value(ok ? std::string{lt.getKey()} + std::to_string(li + 1) : std::string("none"));
    c["h"] = Value(hashCells(db->getColumnByColIdx(i, false, false)));
    cols.push(c);
  }
  return cols;
}

static Db* makeData()
{
  static const double X[7] = {0.31, 1.72, 2.55, 0.93, 2.11, 1.37, 0.58};
  static const double Y[7] = {0.42, 0.27, 1.61, 2.33, 2.48, 1.29, 1.77};
  static const double V[7] = {1.2, -0.4, 0.7, 2.1, -1.3, 0.2, 0.9};
  VectorDouble tab;
  for (double x : X) tab.push_back(x);
  for (double y : Y) tab.push_back(y);
  for (double v : V) tab.push_back(v);
  return Db::createFromSamples(7, ELoadBy::COLUMN, tab, {"x1", "x2", "z"}, {"x1", "x2", "z1"}, false);
}
static DbGrid* makeGrid() { return DbGrid::create({3, 3}, {1., 1.}, {0.25, 0.25}, VectorDouble(), ELoadBy::SAMPLE, VectorDouble(), VectorString(), VectorString(), false, true); }
static Model* makeModel(int version)
{
  SpaceRN space(2);
  return Model::createFromParam(ECov::SPHERICAL, 3.0, version == 1 ? 1.5 : 2.5, 1., VectorDouble(), VectorDouble(), VectorDouble(), &space);
}
static VectorDouble estimate(Db* data, Model* model)
{
  DbGrid* g = makeGrid();
  NeighUnique* nb = NeighUnique::create();
  VectorDouble r;
  if (kriging(data, g, model, nb) == 0)
    for (auto& n : g->getName("Kriging*")) { VectorDouble c = g->getColumn(n); r.insert(r.end(), c.begin(), c.end()); }
  delete g; delete nb;
  return r;
}

int main(int argc, char** argv)
{
  if (argc < 3) return 2;
  std::vector<Value> sessions = vj::readNdjson(argv[1]);
  FILE* fo = fopen(argv[2], "a");
  if (!fo) return 2;
  setvbuf(fo, nullptr, _IOLBF, 0);
  OUT_FD = fileno(fo);
  int first = argc > 3 ? atoi(argv[3]) : 0;
  int count = argc > 4 ? atoi(argv[4]) : (int)sessions.size();
  std::string tmp = std::string(argv[2]) + ".nf";
  if (!freopen("/dev/null", "w", stdout)) return 2;
  std::set_terminate([]() { onCrash(6); });
  signal(SIGSEGV, onCrash); signal(SIGABRT, onCrash); signal(SIGFPE, onCrash); signal(SIGBUS, onCrash);
  defineDefaultSpace(ESpaceType::RN, 2);
  ASerializable::unsetContainerName();
  ASerializable::unsetPrefixName();

  for (int is = first; is < (int)sessions.size() && is < first + count; is++)
  {
    const Value& ses = sessions[is];
    Db* data = makeData();
    DbGrid* grid = makeGrid();
    int mver = 1;
    Model* model = makeModel(mver);
    NeighUnique* neigh = NeighUnique::create();
    int naux = 0;
    Value steps = Value::array();
    int k = 0;
    for (auto& st : ses.at("hist").arr)
    {
      k++;
      std::string op = st.at("op").at("name").s();
      snprintf(CUR, sizeof CUR, "{\"idx\":%d,\"step\":%d,\"op\":\"%s\"}", is, k, op.c_str());
      int err = 0;
      if (op == "addcol") { naux++; data->addColumnsByConstant(1, 0.5 * naux, "aux" + std::to_string(naux)); }
      else if (op == "dellast") data->deleteColumnByColIdx(data->getColumnNumber() - 1);
      else if (op == "setzlast") data->setLocatorByColIdx(data->getColumnNumber() - 1, ELoc::Z, 0, true);
      else if (op == "clearz") data->clearLocators(ELoc::Z);
      else if (op == "copy") { Db* c = data->clone(); delete data; data = c; }
      else if (op == "reload")
      {
        if (!data->dumpToNF(tmp)) err = 1;
        else { Db* r = Db::createFromNF(tmp, false); if (r == nullptr) err = 1; else { delete data; data = r; } }
      }
      else if (op == "model") { mver = 3 - mver; delete model; model = makeModel(mver); }
      else if (op == "krige") err = kriging(data, grid, model, neigh);
      else if (op == "xvalid") err = xvalid(data, model, neigh);
      else if (op == "simtub") err = simtub(nullptr, grid, model, nullptr, 1, 4321, 20);
      else if (op == "migrate") err = migrateByLocator(grid, data, ELoc::Z);
      else throw std::runtime_error("unknown op " + op);
      Value o = Value::object();
      o["ok"] = Value(err == 0);
      o["data"] = project(data);
      o["grid"] = project(grid);
      steps.push(o);
    }
    // Fresh: estimation with the session's objects vs objects rebuilt from the final content
    double freshDiff = -1.;
    if (data->getLocNumber(ELoc::Z) == 1)
    {
      VectorDouble a = estimate(data, model);
      int nech = data->getSampleNumber();
      VectorDouble tab; VectorString names, locs;
      for (int i = 0; i < data->getColumnNumber(); i++)
      {
        VectorDouble c = data->getColumnByColIdx(i, false, false);
        tab.insert(tab.end(), c.begin(), c.end());
        names.push_back(data->getNameByColIdx(i));
        ELoc lt; int li;
        bool ok = data->getLocatorByColIdx(i, &lt, &li);
        std::string l = "";
        if (ok) { l = std::string{lt.getKey()}; for (auto& ch : l) ch = (char)tolower(ch); l += std::to_string(li + 1); }
        locs.push_back(l);
      }
      Db* fresh = Db::createFromSamples(nech, ELoadBy::COLUMN, tab, names, locs, false);
      Model* fm = makeModel(mver);
      VectorDouble b = estimate(fresh, fm);
      delete fresh; delete fm;
      if (a.size() != b.size() || a.empty()) freshDiff = 1e300;
      else { freshDiff = 0; for (size_t i = 0; i < a.size(); i++) freshDiff = std::max(freshDiff, std::fabs(a[i] - b[i])); }
    }
    Value rec = Value::object();
    rec["idx"] = Value(is);
    rec["steps"] = steps;
    rec["fresh_diff"] = Value(freshDiff);
    fprintf(fo, "%s\n", vj::dump(rec).c_str());
    delete data; delete grid; delete model; delete neigh;
  }
  fclose(fo);
  unlink(tmp.c_str());
  return 0;
}
