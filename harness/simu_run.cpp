// C13 replayer: executes scripts (sequences of calls to the real gstlearn simulators, random-state
// setters and direct law_* draws) emitted by the TLA+ modules SimSeed / SimCond, each script in its
// own child process forked from a parent that never touched the library (= a fresh process), and
// writes what the real code produced (bit pattern hash + values of every output column) as ndjson.
// Nothing is judged here: the comparison against the expectations of the specification (equal
// stream terms => bit-identical output, data reproduced, values within bounds, facies table) is
// done per case by the driver with the expectations emitted by TLC.
//
// usage: simu_run <scripts.ndjson> <out.ndjson> <jobs> [tracedir]
#include "vjson.hpp"
#include "Basic/Law.hpp"
#include "Basic/VectorNumT.hpp"
#include "Db/Db.hpp"
#include "Db/DbGrid.hpp"
#include "Model/Model.hpp"
#include "Neigh/NeighUnique.hpp"
#include "Simulation/CalcSimuTurningBands.hpp"
#include "Simulation/CalcSimuFFT.hpp"
#include "Estimation/CalcKriging.hpp"
#include "Enum/EKrigOpt.hpp"
#include "Simulation/SimuFFTParam.hpp"
#include "API/SPDE.hpp"
#include "LithoRule/Rule.hpp"
#include "LithoRule/RuleProp.hpp"
#include "Space/ASpaceObject.hpp"
#include "Enum/ESpaceType.hpp"
#include "Enum/ELoc.hpp"
#include "Enum/ECov.hpp"
#include "geoslib_f.h"
#include <unistd.h>
#include <fcntl.h>
#include <sys/wait.h>
#include <csignal>
#include <cstdint>
#include <cinttypes>

using vj::Value;

static uint64_t fnv(const std::vector<double>& v)
{
  uint64_t h = 1469598103934665603ULL;
  for (double d : v)
  {
    uint64_t b;
    memcpy(&b, &d, 8);
    for (int k = 0; k < 8; k++) { h ^= (b >> (8 * k)) & 0xff; h *= 1099511628211ULL; }
  }
  return h;
}

static Model* makeModel(const std::string& name)
{
  Model* m = nullptr;
  if (name == "sph") m = Model::createFromParam(ECov::SPHERICAL, 3., 2.);
  else if (name == "exp") m = Model::createFromParam(ECov::EXPONENTIAL, 4., 1.);
  else if (name == "cub") m = Model::createFromParam(ECov::CUBIC, 4., 1.5);
  else if (name == "gau") m = Model::createFromParam(ECov::GAUSSIAN, 1.5, 1.);
  else if (name == "mat") m = Model::createFromParam(ECov::MATERN, 4., 1., 1.);
  else if (name == "nugsph")
  {
    m = Model::createFromParam(ECov::SPHERICAL, 3., 1.7);
    m->addCovFromParam(ECov::NUGGET, 0., 0.3);
  }
  else if (name == "bivgau")   // two variables, smooth (spectral turning bands)
    m = Model::createFromParam(ECov::GAUSSIAN, 1.5, 1., 1., VectorDouble(), {1., 0.3, 0.3, 1.});
  else if (name == "biv")   // two variables: must make the monovariate simulators fail cleanly
    m = Model::createFromParam(ECov::SPHERICAL, 3., 1., 1., VectorDouble(), {1., 0.2, 0.2, 1.});
  else throw std::runtime_error("unknown model " + name);
  return m;
}

// data = list of [x, y, v...] (v in tenths; null = undefined); dx = offset added to every x
static Db* makePoints(const Value& pts, double dx, int nval, const std::vector<std::pair<std::string, ELoc>>& roles)
{
  int n = (int)pts.arr.size();
  VectorDouble tab;
  VectorString names = {"x1", "x2"};
  for (int k = 0; k < 2; k++)
    for (int i = 0; i < n; i++) tab.push_back(pts.arr[i].arr[k].d() + (k == 0 ? dx : 0.));
  for (int v = 0; v < nval; v++)
  {
    for (int i = 0; i < n; i++)
    {
      const Value& c = pts.arr[i].arr[2 + v];
      tab.push_back(c.isNull() ? TEST : c.d() / 10.);
    }
    names.push_back(roles[v].first);
  }
  VectorString locs(names.size(), "");
  locs[0] = "x1"; locs[1] = "x2";
  Db* db = Db::createFromSamples(n, ELoadBy::COLUMN, tab, names, locs);
  std::map<int, int> count;
  for (int v = 0; v < nval; v++)
  {
    int r = count[roles[v].second.getValue()]++;
    db->setLocator(roles[v].first, roles[v].second, r);
  }
  return db;
}

static DbGrid* makeGrid(const Value& c)
{
  VectorInt nx = {5, 5};
  if (c.has("nx")) { nx.clear(); for (int v : c.at("nx").ints()) nx.push_back(v); }
  return DbGrid::create(nx);
}

static void collect(const Db* db, int firstCol, std::vector<double>& out, int& ncol, int& nrow)
{
  ncol = db->getColumnNumber() - firstCol;
  nrow = db->getSampleNumber();
  for (int c = firstCol; c < db->getColumnNumber(); c++)
  {
    VectorDouble col = db->getColumnByColIdx(c, false, false);
    for (double x : col) out.push_back(x);
  }
}

struct Result { int err = 0; int ncol = 0; int nrow = 0; std::vector<double> vals; Value extra = Value::object(); };

// model given by name, or as {"struct": <ECov key>, "range": r, "sill": s, "param": p}
static Model* modelOf(const Value& c, const char* def)
{
  if (!c.has("model")) return makeModel(def);
  const Value& m = c.at("model");
  if (m.kind == Value::Str) return makeModel(m.s());
  ECov type = ECov::fromKey(m.at("struct").s());
  return Model::createFromParam(type, m.getd("range", 1.), m.getd("sill", 1.), m.getd("param", 1.));
}

// selection: "sel" = list of 0/1 per sample (0 = masked)
static void applySel(Db* db, const Value& c)
{
  if (db == nullptr || !c.has("sel")) return;
  VectorDouble sel;
  for (int v : c.at("sel").ints()) sel.push_back((double)v);
  db->addColumns(sel, "sel", ELoc::SEL);
}

static Rule* makeRule(const std::string& name)
{
  if (name == "S2") return Rule::createFromNames({"S", "F1", "F2"});
  if (name == "ST3") return Rule::createFromNames({"S", "T", "F1", "F2", "F3"});
  throw std::runtime_error("unknown rule " + name);
}

static Result runCall(const Value& c)
{
  Result r;
  const std::string& op = c.at("op").s();
  if (op == "draw")
  {
    int n = c.geti("n", 1);
    for (int i = 0; i < n; i++) r.vals.push_back(law_uniform(0., 1.));
    r.ncol = 1; r.nrow = n;
  }
  else if (op == "gdraw")
  {
    int n = c.geti("n", 1);
    for (int i = 0; i < n; i++) r.vals.push_back(law_gaussian());
    r.ncol = 1; r.nrow = n;
  }
  else if (op == "setseed")
  {
    law_set_random_seed(c.at("seed").i());
  }
  else if (op == "setstyle")
  {
    law_set_old_style(c.getb("old", true));   // false: std::mt19937 and the std distributions
  }
  else if (op == "tgb")
  {
    // truncated Gaussian draws; bounds in tenths, null = undefined
    double binf = c.at("binf").isNull() ? TEST : c.at("binf").d() / 10.;
    double bsup = c.at("bsup").isNull() ? TEST : c.at("bsup").d() / 10.;
    int n = c.geti("n", 1000);
    law_set_random_seed(c.geti("seed", 1357));
    for (int i = 0; i < n; i++) r.vals.push_back(law_gaussian_between_bounds(binf, bsup));
    r.ncol = 1; r.nrow = n;
  }
  else if (op == "simtub")
  {
    Model* model = modelOf(c, "sph");
    bool cond = c.getb("cond", false);
    Db* data = nullptr;
    NeighUnique* neigh = nullptr;
    if (cond)
    {
      if (c.geti("nvar", 1) == 2) data = makePoints(c.at("data"), c.getd("data_dx", 0.), 2, {{"z1", ELoc::Z}, {"z2", ELoc::Z}});
      else data = makePoints(c.at("data"), c.getd("data_dx", 0.), 1, {{"z", ELoc::Z}});
      applySel(data, c);
      if (!c.getb("noneigh", false)) neigh = NeighUnique::create();
    }
    Db* out;
    int first;
    if (c.has("targets")) { out = makePoints(c.at("targets"), 0., 0, {}); first = out->getColumnNumber(); }
    else { out = makeGrid(c); first = out->getColumnNumber(); }
    if (c.getb("krige", false))   // the kriging estimate of the same data on the same targets (simple kriging, known mean 0)
      r.err = kriging(data, out, model, neigh, EKrigOpt::POINT, true, false);
    else
    r.err = simtub(data, out, model, neigh, c.geti("nbsimu", 1), c.at("seed").i(), c.geti("nbtuba", 20));
    collect(out, first, r.vals, r.ncol, r.nrow);
    if (data != nullptr) r.extra["data_ncol_after"] = Value(data->getColumnNumber());
    delete out; delete data; delete neigh; delete model;
  }
  else if (op == "simfft")
  {
    Model* model = modelOf(c, "sph");
    DbGrid* grid = makeGrid(c);
    int first = grid->getColumnNumber();
    SimuFFTParam param(true, 0.1);
    r.err = simfft(grid, model, param, c.geti("nbsimu", 1), c.at("seed").i());
    collect(grid, first, r.vals, r.ncol, r.nrow);
    delete grid; delete model;
  }
  else if (op == "spde")
  {
    // no seed argument in the API: the stream is the process-wide one
    Model* model = modelOf(c, "mat");
    DbGrid* grid = makeGrid(c);
    int first = grid->getColumnNumber();
    Db* data = nullptr;
    if (c.getb("cond", false)) data = makePoints(c.at("data"), 0., 1, {{"z", ELoc::Z}});
    int ret = simulateSPDE(data, grid, model, nullptr, c.geti("nbsimu", 1), nullptr, c.geti("cholesky", 1));
    r.err = ret < 0 ? 1 : 0;
    collect(grid, first, r.vals, r.ncol, r.nrow);
    delete grid; delete data; delete model;
  }
  else if (op == "gibbs")
  {
    // data = [x, y, lower10, upper10]
    Db* data = makePoints(c.at("data"), 0., 2, {{"lo", ELoc::L}, {"up", ELoc::U}});
    applySel(data, c);
    int first = data->getColumnNumber();
    Model* model = c.getb("nomodel", false) ? nullptr : modelOf(c, "exp");
    const std::string mode = c.gets("mode", "umulti");
    r.err = gibbs_sampler(data, model, c.geti("nbsimu", 1), c.at("seed").i(), c.geti("nburn", 0), c.geti("niter", 10),
                          mode == "mmulti", false, mode == "multimono", false, false, 0, 5., false, false, false);
    collect(data, first, r.vals, r.ncol, r.nrow);
    delete data; delete model;
  }
  else if (op == "simpgs" || op == "simbipgs")
  {
    bool bi = op == "simbipgs";
    bool cond = c.getb("cond", false);
    Db* data = nullptr;
    NeighUnique* neigh = NeighUnique::create();
    if (cond)
    {
      if (bi) data = makePoints(c.at("data"), 0., 2, {{"fac1", ELoc::Z}, {"fac2", ELoc::Z}});
      else    data = makePoints(c.at("data"), 0., 1, {{"fac", ELoc::Z}});
      applySel(data, c);
      // facies are given as integers (not tenths)
      for (int v = 0; v < (bi ? 2 : 1); v++)
        for (int i = 0; i < data->getSampleNumber(); i++)
        {
          double f = data->getValueByColIdx(i, 3 + v);
          if (!FFFF(f)) data->setValueByColIdx(i, 3 + v, std::round(f * 10.));
        }
    }
    DbGrid* grid = makeGrid(c);
    int first = grid->getColumnNumber();
    Model* m1 = makeModel("cub");
    Model* m2 = makeModel("exp");
    Model* m3 = makeModel("sph");
    Model* m4 = makeModel("mat");
    std::vector<double> props = c.at("props").doubles();
    VectorDouble vp(props.begin(), props.end());
    Rule* rule1 = makeRule(c.at("rule").s());
    Rule* rule2 = bi ? makeRule(c.at("rule2").s()) : nullptr;
    // non-stationary proportions: "propfield" = {"split_x": s, "a": [..], "b": [..]} (fractions per facies, or per
    // pair of facies with the first index varying fastest): a grid of proportions, "a" for x <= s, "b" beyond
    DbGrid* dbprop = nullptr;
    if (c.has("propfield"))
    {
      const Value& pf = c.at("propfield");
      dbprop = makeGrid(c);
      std::vector<double> pa = pf.at("a").doubles(), pb = pf.at("b").doubles();
      int split = pf.at("split_x").i();
      for (int k = 0; k < (int)pa.size(); k++)
      {
        VectorDouble col(dbprop->getSampleNumber());
        for (int i = 0; i < dbprop->getSampleNumber(); i++)
          col[i] = (dbprop->getCoordinate(i, 0) <= split + 0.5) ? pa[k] : pb[k];
        dbprop->addColumns(col, "Props." + std::to_string(k + 1), ELoc::P, k);
      }
    }
    RuleProp* rp = nullptr;
    if (c.getb("norule", false)) rp = nullptr;
    else if (dbprop != nullptr) rp = bi ? RuleProp::createFromRulesAndDb(rule1, rule2, dbprop) : RuleProp::createFromRuleAndDb(rule1, dbprop);
    else rp = bi ? RuleProp::createFromRules(rule1, rule2, vp) : RuleProp::createFromRule(rule1, vp);
    int nbsimu = c.geti("nbsimu", 1), seed = c.at("seed").i();
    int gaus = c.getb("gaus", false) ? 1 : 0;
    int nbtuba = c.geti("nbtuba", 20), nburn = c.geti("nburn", 5), niter = c.geti("niter", 20);
    if (bi) r.err = simbipgs(data, grid, rp, m1, m2, m3, m4, neigh, nbsimu, seed, gaus, 0, 0, 0, nbtuba, nburn, niter);
    else    r.err = simpgs(data, grid, rp, m1, m2, neigh, nbsimu, seed, gaus, 0, 0, 0, nbtuba, nburn, niter);
    collect(grid, first, r.vals, r.ncol, r.nrow);
    Value names = Value::array();
    for (int k = first; k < grid->getColumnNumber(); k++) names.push(Value(grid->getNameByColIdx(k)));
    r.extra["names"] = names;
    delete grid; delete data; delete neigh; delete m1; delete m2; delete m3; delete m4; delete rp; delete rule1; delete rule2; delete dbprop;
  }
  else throw std::runtime_error("unknown op " + op);
  return r;
}

static void writeAll(int fd, const std::string& s)
{
  size_t off = 0;
  while (off < s.size())
  {
    ssize_t w = write(fd, s.data() + off, s.size() - off);
    if (w <= 0) break;
    off += (size_t)w;
  }
}

static int runScript(const Value& sc, const char* outPath, const char* traceDir)
{
  // child process: library state is the state of a fresh process
  if (!freopen("/dev/null", "w", stdout)) return 2;
  if (!freopen("/dev/null", "w", stderr)) return 2;
  if (traceDir != nullptr && sc.getb("trace", false))
  {
    std::string tp = std::string(traceDir) + "/" + sc.at("id").s() + ".ndjson";
    setenv("GSTLEARN_VERIF_TRACE", tp.c_str(), 1);
  }
  else unsetenv("GSTLEARN_VERIF_TRACE");
  alarm(300);
  defineDefaultSpace(ESpaceType::RN, 2);
  Value rec = Value::object();
  rec["id"] = sc.at("id");
  Value calls = Value::array();
  int idx = 0;
  for (const Value& c : sc.at("calls").arr)
  {
    Result r = runCall(c);
    idx++;
    const std::string cap = c.gets("capture", "none");
    if (cap == "none") continue;
    Value o = Value::object();
    o["i"] = Value(idx);
    o["op"] = c.at("op");
    o["err"] = Value(r.err);
    o["ncol"] = Value(r.ncol);
    o["nrow"] = Value(r.nrow);
    char buf[32];
    snprintf(buf, sizeof buf, "%016" PRIx64, fnv(r.vals));
    o["hash"] = Value(std::string(buf));
    int nbad = 0;
    for (double x : r.vals) if (std::isnan(x) || std::isinf(x)) nbad++;
    o["nonfinite"] = Value(nbad);
    if (cap == "full")
    {
      Value a = Value::array();
      for (double x : r.vals) a.push(Value(x));
      o["vals"] = a;
    }
    for (auto& kv : r.extra.obj) o[kv.first] = kv.second;
    calls.push(o);
  }
  rec["calls"] = calls;
  std::string line = vj::dump(rec) + "\n";
  int fd = open(outPath, O_WRONLY | O_APPEND | O_CREAT, 0644);
  if (fd < 0) return 2;
  writeAll(fd, line);
  close(fd);
  return 0;
}

int main(int argc, char** argv)
{
  if (argc < 4) { fprintf(stderr, "usage: simu_run scripts.ndjson out.ndjson jobs [tracedir]\n"); return 2; }
  // single thread inside Eigen/OpenMP so that sums are never re-ordered between two runs
  const char* omp = getenv("OMP_NUM_THREADS");
  if (omp == nullptr || strcmp(omp, "1") != 0)
  {
    setenv("OMP_NUM_THREADS", "1", 1);
    execv("/proc/self/exe", argv);
    return 2;
  }
  // the parent keeps the raw lines only (a fat parent makes every fork expensive)
  std::vector<std::string> scripts;
  {
    std::ifstream f(argv[1]);
    if (!f) { fprintf(stderr, "cannot open %s\n", argv[1]); return 2; }
    std::string line;
    while (std::getline(f, line))
      if (line.find_first_not_of(" \t\r") != std::string::npos) scripts.push_back(line);
  }
  const char* outPath = argv[2];
  int jobs = atoi(argv[3]);
  if (jobs < 1) jobs = 1;
  const char* traceDir = argc > 4 ? argv[4] : nullptr;
  { FILE* f = fopen(outPath, "w"); if (!f) return 2; fclose(f); }
  std::map<pid_t, size_t> running;
  size_t next = 0;
  long ncrash = 0;
  auto reap = [&](bool block) {
    int st = 0;
    pid_t p = waitpid(-1, &st, block ? 0 : WNOHANG);
    if (p <= 0) return false;
    auto it = running.find(p);
    if (it == running.end()) return true;
    size_t k = it->second;
    running.erase(it);
    bool ok = WIFEXITED(st) && WEXITSTATUS(st) == 0;
    if (!ok)
    {
      // a crash / abort / time-out of the library is recorded for the driver (never hidden)
      ncrash++;
      Value rec = Value::object();
      rec["id"] = vj::parse(scripts[k]).at("id");
      rec["crash"] = Value(WIFSIGNALED(st) ? WTERMSIG(st) : 1000 + WEXITSTATUS(st));
      std::string line = vj::dump(rec) + "\n";
      int fd = open(outPath, O_WRONLY | O_APPEND);
      if (fd >= 0) { writeAll(fd, line); close(fd); }
    }
    return true;
  };
  while (next < scripts.size() || !running.empty())
  {
    while (next < scripts.size() && (int)running.size() < jobs)
    {
      pid_t p = fork();
      if (p < 0) { perror("fork"); return 2; }
      if (p == 0)
      {
        int rc = 3;
        try { rc = runScript(vj::parse(scripts[next]), outPath, traceDir); }
        catch (const std::exception& e) { rc = 4; }
        catch (...) { rc = 5; }
        _exit(rc);
      }
      running[p] = next++;
    }
    reap(true);
    while (reap(false)) {}
  }
  fprintf(stderr, "{\"scripts\":%zu,\"crashes\":%ld}\n", scripts.size(), ncrash);
  return 0;
}
