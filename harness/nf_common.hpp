// Shared by nf_run (C08) and nf_fault (C09): per class of gstlearn that can be written to a neutral file,
//   build   : recipe (abstract instance of spec/NeutralFile.tla) -> real object, through the public API
//   load    : X::createFromNF            dump : dumpToNF
//   proj    : real object -> abstract object of the spec (public getters only)
//   extra   : further getters (compared original vs reloaded only)
//   query   : answers to a few queries (covariance values, neighbourhood selections, cells by name/locator, ...)
// Doubles are exchanged as tokens: the text with 15 significant digits ("NA" = undefined).
#pragma once
#include "vjson.hpp"
#include "Basic/ASerializable.hpp"
#include "Basic/VectorNumT.hpp"
#include "Basic/Utilities.hpp"
#include "Basic/PolyLine2D.hpp"
#include "Db/Db.hpp"
#include "Db/DbGrid.hpp"
#include "Db/DbLine.hpp"
#include "Db/DbGraphO.hpp"
#include "Enum/ELoc.hpp"
#include "Enum/ELoadBy.hpp"
#include "Enum/ECov.hpp"
#include "Model/Model.hpp"
#include "Covariances/CovAniso.hpp"
#include "Covariances/CovContext.hpp"
#include "Drifts/ADrift.hpp"
#include "Neigh/NeighUnique.hpp"
#include "Neigh/NeighBench.hpp"
#include "Neigh/NeighMoving.hpp"
#include "Neigh/NeighCell.hpp"
#include "Neigh/NeighImage.hpp"
#include "Variogram/Vario.hpp"
#include "Variogram/VarioParam.hpp"
#include "Variogram/DirParam.hpp"
#include "Polygon/Polygons.hpp"
#include "Polygon/PolyElem.hpp"
#include "Matrix/Table.hpp"
#include "Matrix/MatrixRectangular.hpp"
#include "Matrix/MatrixInt.hpp"
#include "Space/ASpaceObject.hpp"
#include "Space/SpaceRN.hpp"
#include "Geometry/BiTargetCheckDistance.hpp"
#include "Anamorphosis/AnamHermite.hpp"
#include "Anamorphosis/AnamEmpirical.hpp"
#include "Anamorphosis/AnamDiscreteDD.hpp"
#include "Anamorphosis/AnamDiscreteIR.hpp"
#include "Mesh/MeshETurbo.hpp"
#include "Mesh/MeshEStandard.hpp"
#include "LithoRule/Rule.hpp"
#include "LithoRule/Node.hpp"
#include "Matrix/NF_Triplet.hpp"
#include "Matrix/MatrixSparse.hpp"
#include "Basic/Grid.hpp"
#include "Basic/Indirection.hpp"
#include "LithoRule/RuleShift.hpp"
#include "Faults/Faults.hpp"
#include "OutputFormat/GridZycor.hpp"
#include "OutputFormat/GridIfpEn.hpp"
#include "OutputFormat/GridBmp.hpp"
#include "Fractures/FracEnviron.hpp"
#include "Fractures/FracFamily.hpp"
#include "Fractures/FracFault.hpp"
#include <functional>
#include <filesystem>
#include <map>
#include <algorithm>
#include <cctype>
#include <unistd.h>
#include <sys/mman.h>
#include <sys/wait.h>
#include <sys/stat.h>
#include <csignal>
#include <set>
#include <tuple>

using vj::Value;

namespace nf {

// ------------------------------------------------------------------ tokens
inline double num(const std::string& t) { return t == "NA" ? TEST : strtod(t.c_str(), nullptr); }
inline double num(const Value& v) { return v.kind == Value::Str ? num(v.s()) : v.d(); }
inline std::string tokOf(double x)
{
  if (x == TEST || std::isnan(x) || std::isinf(x)) return "NA";   // isNA<double> of the writer
  char b[64];
  snprintf(b, sizeof b, "%.15g", x);
  return b;
}
inline Value T(double x) { return Value(tokOf(x)); }
inline Value I(int i) { return Value(i); }
inline VectorDouble nums(const Value& a) { VectorDouble r; for (auto& e : a.arr) r.push_back(num(e)); return r; }
inline Value toks(const VectorDouble& v) { Value a = Value::array(); for (double x : v) a.push(T(x)); return a; }
inline Value toksI(const VectorInt& v) { Value a = Value::array(); for (int x : v) a.push(I(x)); return a; }
inline VectorInt ints(const Value& a) { VectorInt r; for (auto& e : a.arr) r.push_back(e.i()); return r; }
inline Value strs(const VectorString& v) { Value a = Value::array(); for (auto& x : v) a.push(Value(x)); return a; }

inline std::string readAll(const std::string& path)
{
  std::ifstream f(path, std::ios::binary);
  std::stringstream ss; ss << f.rdbuf();
  return ss.str();
}
// token stream of a neutral file: lines of tokens; the comment mark "#" ends the line (title dropped)
inline Value tokenize(const std::string& text)
{
  Value lines = Value::array();
  std::stringstream ss(text);
  std::string line;
  while (std::getline(ss, line))
  {
    Value l = Value::array();
    std::stringstream ls(line);
    std::string w;
    while (ls >> w)
    {
      l.push(Value(w));
      if (w == "#") break;
    }
    lines.push(l);
  }
  return lines;
}
inline Value words(const std::string& s)
{
  Value a = Value::array();
  std::stringstream ls(s);
  std::string w;
  while (ls >> w) a.push(Value(w));
  if (a.arr.empty()) a.push(Value(s));
  return a;
}
inline std::string unwords(const Value& a)
{
  std::string s;
  for (size_t i = 0; i < a.arr.size(); i++) { if (i) s += " "; s += a.arr[i].s(); }
  return s;
}

// ------------------------------------------------------------------ locators
// names of the locator types in the order of the enumeration ELoc (values 0..28), as in PtrGeos.cpp
static const char* LOCNAMES[] = {"x", "z", "v", "f", "g", "lower", "upper", "p", "w", "code", "sel", "dom", "dblk", "adir", "adip", "size",
                                 "bu", "bd", "time", "layer", "nostat", "tangent", "ncsimu", "facies", "gausfac", "date", "rklow", "rkup", "sum"};
static const bool LOCUNIQUE[] = {0, 0, 0, 0, 0, 0, 0, 0, 1, 1, 1, 1, 0, 1, 1, 1, 1, 1, 0, 1, 0, 0, 0, 0, 0, 1, 0, 0, 0};
inline bool parseLoc(const std::string& t, ELoc& type, int& idx)
{
  if (t == "NA") return false;
  size_t k = 0;
  while (k < t.size() && !isdigit((unsigned char)t[k])) k++;
  std::string key = t.substr(0, k);
  for (int i = 0; i < 29; i++)
    if (key == LOCNAMES[i])
    {
      type = ELoc::fromValue(i);
      idx = k < t.size() ? atoi(t.c_str() + k) - 1 : 0;
      return true;
    }
  return false;
}
inline std::string locName(const ELoc& type, int idx)
{
  int i = type.getValue();
  if (type == ELoc::UNKNOWN || i < 0 || i >= 29) return "NA";
  if (LOCUNIQUE[i]) return LOCNAMES[i];
  return std::string(LOCNAMES[i]) + std::to_string(idx + 1);
}

// ------------------------------------------------------------------ handlers
struct Handler
{
  std::function<void*(const Value&)> build;
  std::function<void*(const std::string&)> load;
  std::function<bool(void*, const std::string&)> dump;
  std::function<Value(void*)> proj, extra, query;
  std::function<void(void*)> destroy;
  std::function<int(const Value&)> ndim;
};

template <class X>
Handler mk(std::function<X*(const Value&)> build, std::function<Value(X*)> proj, std::function<Value(X*)> extra,
           std::function<Value(X*)> query, std::function<int(const Value&)> ndim)
{
  Handler h;
  h.build = [build](const Value& o) { return (void*)build(o); };
  h.load = [](const std::string& f) { return (void*)X::createFromNF(f, false); };
  h.dump = [](void* p, const std::string& f) { return ((X*)p)->dumpToNF(f, false); };
  h.proj = [proj](void* p) { return proj((X*)p); };
  h.extra = [extra](void* p) { return extra((X*)p); };
  h.query = [query](void* p) { return query((X*)p); };
  h.destroy = [](void* p) { delete (X*)p; };
  h.ndim = ndim;
  return h;
}
inline Value none() { return Value::object(); }

// ---- Db part (shared by Db, DbGrid, DbLine, DbGraphO)
inline void setLocators(Db* db, const Value& locs)
{
  std::vector<std::tuple<int, int, int>> order;   // (type value, idx, col)
  for (size_t c = 0; c < locs.arr.size(); c++)
  {
    ELoc t; int idx;
    if (parseLoc(locs.arr[c].s(), t, idx)) order.push_back({t.getValue(), idx, (int)c});
  }
  std::sort(order.begin(), order.end());
  for (auto& e : order) db->setLocatorByColIdx(std::get<2>(e), ELoc::fromValue(std::get<0>(e)), std::get<1>(e));
}
inline VectorDouble dbTab(const Value& o)
{
  VectorDouble tab;
  for (auto& row : o.at("rows").arr) for (auto& v : row.arr) tab.push_back(num(v));
  return tab;
}
inline VectorString dbNames(const Value& o)
{
  VectorString names;
  for (auto& n : o.at("names").arr) names.push_back(unwords(n));
  return names;
}
inline void projDbPart(const Db* db, Value& p)
{
  int ncol = db->getColumnNumber(), nech = db->getSampleNumber();
  p["ncol"] = I(ncol);
  p["nech"] = I(nech);
  Value locs = Value::array(), names = Value::array(), rows = Value::array();
  for (int c = 0; c < ncol; c++)
  {
    ELoc t; int idx;
    bool ok = db->getLocatorByColIdx(c, &t, &idx);
    locs.push(Value(ok ? locName(t, idx) : std::string("NA")));
    names.push(words(db->getNameByColIdx(c)));
  }
  for (int e = 0; e < nech; e++)
  {
    Value r = Value::array();
    for (int c = 0; c < ncol; c++) r.push(T(db->getValueByColIdx(e, c)));
    rows.push(r);
  }
  p["locators"] = locs;
  p["names"] = names;
  p["rows"] = rows;
}
inline Value queryDbPart(const Db* db)
{
  Value q = Value::object();
  int ncol = db->getColumnNumber();
  Value byName = Value::array(), byLoc = Value::array(), byUid = Value::array();
  for (int c = 0; c < ncol; c++)
  {
    std::string n = db->getNameByColIdx(c);
    byName.push(toks(db->getColumnByColIdx(db->getColIdx(n), false, false)));
    byUid.push(toks(db->getColumnByUID(db->getUIDByColIdx(c), false, false)));
    ELoc t; int idx;
    if (db->getLocatorByColIdx(c, &t, &idx)) byLoc.push(toks(db->getColumnByLocator(t, idx, false, false)));
    else byLoc.push(Value());
  }
  q["cellsByName"] = byName;
  q["cellsByUid"] = byUid;
  q["cellsByLocator"] = byLoc;
  q["nactive"] = I(db->getSampleNumber(true));
  q["nx"] = I(db->getLocatorNumber(ELoc::X));
  q["nz"] = I(db->getLocatorNumber(ELoc::Z));
  q["namesZ"] = strs(db->getNamesByLocator(ELoc::Z));
  q["locators"] = strs(db->getLocators(true));
  return q;
}

// ---- rotation angles of the abstract instances: right angle about the first axis
inline VectorDouble rotAngles(int ndim) { VectorDouble a(ndim, 0.); a[0] = 90.; return a; }

inline std::map<std::string, Handler>& registry();

}  // namespace nf

#include "nf_classes.hpp"

namespace nf {

// One C08 case: build, dump, tokenise, reload, project, query, dump again.
// file-name case: a Table is written with dumpToNF(name) and read with createFromNF(name) under the given settings
inline Value runPathCase(const Value& cs, const std::string& tmp)
{
  const Value& o = cs.at("o");
  Value rec = Value::object();
  rec["id"] = cs.at("id");
  rec["c"] = Value("Path");
  std::string cont = tmp + "/cont/";
  mkdir(cont.c_str(), 0755);
  ASerializable::unsetContainerName();
  ASerializable::unsetPrefixName();
  if (o.at("container").boolean()) ASerializable::setContainerName(false, cont, false);
  if (o.at("prefix").boolean()) ASerializable::setPrefixName("P-");
  const std::string& kind = o.at("name").s();
  std::string name = kind == "long" ? "tt.nf" : kind == "short" ? "ab" : tmp + "/abs.nf";
  char cwd[4096];
  if (!getcwd(cwd, sizeof cwd)) cwd[0] = 0;
  if (chdir(tmp.c_str()) != 0) return rec;
  Table* t = Table::create(1, 1);
  t->setValue(0, 0, 7.);
  rec["dump"] = Value(t->dumpToNF(name, false));
  Table* r = Table::createFromNF(name, false);
  rec["loaded"] = Value(r != nullptr && r->getNRows() == 1 && r->getValue(0, 0) == 7.);
  delete r; delete t;
  ASerializable::unsetContainerName();
  ASerializable::unsetPrefixName();
  // clean up whatever was written
  for (const char* f : {"tt.nf", "ab", "abs.nf", "P-tt.nf", "P-ab", "cont/tt.nf", "cont/ab", "cont/P-tt.nf", "cont/P-ab"}) unlink((tmp + "/" + f).c_str());
  if (chdir(cwd) != 0) {}
  return rec;
}

// history case (classes with a Db part): two objects built from their recipes, then the steps of the history emitted by
// TLC (MC_NeutralHist) -- del: deleteColumnByColIdx, add: addColumns, write: dumpToNF -- all in this process.  For every
// write: the token stream of the file, the projection of the object at that moment, and what createFromNF gives back.
inline Db* asDb(const std::string& cls, void* p)
{
  if (cls == "Db") return (Db*)p;
  if (cls == "DbGrid") return static_cast<Db*>((DbGrid*)p);
  if (cls == "DbLine") return static_cast<Db*>((DbLine*)p);
  if (cls == "DbGraphO") return static_cast<Db*>((DbGraphO*)p);
  return nullptr;
}
inline Value runHistCase(const Value& cs, const std::string& tmp)
{
  const std::string& cls = cs.at("cls").s();
  Value rec = Value::object();
  rec["id"] = cs.at("id");
  rec["c"] = Value("Hist");
  auto it = registry().find(cls);
  if (it == registry().end()) throw std::runtime_error("no handler for class " + cls);
  Handler& h = it->second;
  ASerializable::unsetContainerName();
  ASerializable::unsetPrefixName();
  defineDefaultSpace(ESpaceType::RN, h.ndim(cs.at("o1")));
  void* obj[2] = {h.build(cs.at("o1")), h.build(cs.at("o2"))};
  rec["built"] = Value(obj[0] != nullptr && obj[1] != nullptr);
  Value writes = Value::array();
  if (obj[0] && obj[1])
  {
    std::string f1 = tmp + "/h.nf";
    for (auto& st : cs.at("steps").arr)
    {
      const std::string& op = st.at("op").s();
      int i = st.at("i").i() - 1;
      Db* db = asDb(cls, obj[i]);
      if (op == "del") db->deleteColumnByColIdx(st.at("k").i() - 1);
      else if (op == "add") db->addColumns(nums(st.at("vals")), st.at("name").s());
      else
      {
        Value w = Value::object();
        unlink(f1.c_str());
        w["p"] = h.proj(obj[i]);
        bool okd = h.dump(obj[i], f1);
        std::string text = readAll(f1);
        w["dump"] = Value(okd && !text.empty());
        w["toks"] = tokenize(text);
        void* re = h.load(f1);
        w["reload"] = Value(re != nullptr);
        if (re) { w["p1"] = h.proj(re); h.destroy(re); }
        writes.push(w);
      }
    }
    unlink(f1.c_str());
  }
  rec["writes"] = writes;
  for (void* p : obj) if (p) h.destroy(p);
  return rec;
}

// file-name session: under one container / prefix setting, a distinct Table (one cell = rank of the name) is written with
// dumpToNF(name) under every name of the list, then every name is read back with createFromNF(name): got[i] = the cell of
// the object returned for name i (0: nothing returned)
inline Value runPathSession(const Value& cs, const std::string& tmp)
{
  const Value& o = cs.at("o");
  Value rec = Value::object();
  rec["id"] = cs.at("id");
  rec["c"] = Value("PathSession");
  std::string dir = tmp + "/ps" + std::to_string(cs.at("id").i());
  std::string cont = dir + "/cont/";
  std::filesystem::remove_all(dir);
  std::filesystem::create_directories(cont);
  ASerializable::unsetContainerName();
  ASerializable::unsetPrefixName();
  if (o.at("container").boolean()) ASerializable::setContainerName(false, cont, false);
  if (o.at("prefix").boolean()) ASerializable::setPrefixName(o.at("prefix_string").s());
  char cwd[4096];
  if (!getcwd(cwd, sizeof cwd)) cwd[0] = 0;
  if (chdir(dir.c_str()) != 0) return rec;
  Value dumped = Value::array(), got = Value::array();
  int k = 0;
  for (auto& nm : o.at("names").arr)
  {
    Table* t = Table::create(1, 1);
    t->setValue(0, 0, (double)(++k));
    dumped.push(Value(t->dumpToNF(nm.s(), false)));
    delete t;
  }
  for (auto& nm : o.at("names").arr)
  {
    Table* r = Table::createFromNF(nm.s(), false);
    got.push(I(r != nullptr && r->getNRows() == 1 && r->getNCols() == 1 ? (int)r->getValue(0, 0) : 0));
    delete r;
  }
  rec["dumped"] = dumped;
  rec["got"] = got;
  Value files = Value::array();
  for (auto& e : std::filesystem::recursive_directory_iterator(dir))
    if (e.is_regular_file()) files.push(Value(e.path().string().substr(dir.size() + 1)));
  rec["files"] = files;
  ASerializable::unsetContainerName();
  ASerializable::unsetPrefixName();
  if (chdir(cwd) != 0) {}
  std::filesystem::remove_all(dir);
  return rec;
}

inline Value runCase(const Value& cs, const std::string& tmp)
{
  const std::string& cls = cs.at("c").s();
  if (cls == "Path") return runPathCase(cs, tmp);
  if (cls == "PathSession") return runPathSession(cs, tmp);
  if (cls == "Hist") return runHistCase(cs, tmp);
  auto it = registry().find(cls);
  if (it == registry().end()) throw std::runtime_error("no handler for class " + cls);
  Handler& h = it->second;
  const Value& o = cs.at("o");
  Value rec = Value::object();
  rec["id"] = cs.at("id");
  rec["c"] = Value(cls);
  // container / prefix settings of ASerializable are part of the configuration space
  int cfg = cs.geti("cfg", 0);
  std::string f1, f2, r1, r2;     // names given to the API, real paths
  ASerializable::unsetContainerName();
  ASerializable::unsetPrefixName();
  if (cfg == 0 || cfg == 3) { f1 = tmp + "/a.nf"; f2 = tmp + "/b.nf"; r1 = f1; r2 = f2; }
  else
  {
    ASerializable::setContainerName(false, tmp + "/", false);
    if (cfg == 2) ASerializable::setPrefixName("P-");
    f1 = "a.nf"; f2 = "b.nf";
    r1 = tmp + "/" + (cfg == 2 ? "P-" : "") + f1;
    r2 = tmp + "/" + (cfg == 2 ? "P-" : "") + f2;
  }
  unlink(r1.c_str()); unlink(r2.c_str());
  defineDefaultSpace(ESpaceType::RN, h.ndim(o));
  void* obj = h.build(o);
  rec["built"] = Value(obj != nullptr);
  if (!obj) return rec;
  rec["p0"] = h.proj(obj);
  rec["x0"] = h.extra(obj);
  rec["q0"] = h.query(obj);
  bool okd = h.dump(obj, f1);
  std::string text1 = readAll(r1);
  rec["dump"] = Value(okd && !text1.empty());
  if (!cs.getb("keep_text", false)) rec["toks"] = tokenize(text1);
  else
  {
    // the file itself (hexadecimal: it may be binary)
    std::string hex;
    static const char* H = "0123456789abcdef";
    for (unsigned char ch : text1) { hex.push_back(H[ch >> 4]); hex.push_back(H[ch & 15]); }
    rec["hex"] = Value(hex);
  }
  // cfg 3: a fresh session, which does not know the space of the object saved (default space of dimension 2)
  if (cfg == 3) defineDefaultSpace(ESpaceType::RN, 2);
  void* re = h.load(f1);
  rec["reload"] = Value(re != nullptr);
  if (re)
  {
    rec["p1"] = h.proj(re);
    rec["x1"] = h.extra(re);
    rec["q1"] = h.query(re);
    bool ok2 = h.dump(re, f2);
    std::string text2 = readAll(r2);
    rec["dump2"] = Value(ok2);
    rec["same2"] = Value(ok2 && text2 == text1);
    if (!(ok2 && text2 == text1) && !cs.getb("keep_text", false)) rec["toks2"] = tokenize(text2);
    h.destroy(re);
  }
  h.destroy(obj);
  ASerializable::unsetContainerName();
  ASerializable::unsetPrefixName();
  unlink(r1.c_str()); unlink(r2.c_str());
  return rec;
}

}  // namespace nf
