// CopyIndep replay (C10): class x copy mechanism x mutation sequences from CopyIndep.tla on real
// objects; after every step the complete public projection of BOTH objects is read back.
#pragma once
#include "Variogram/Vario.hpp"
#include "Variogram/VarioParam.hpp"
#include "Polygon/Polygons.hpp"
#include "Polygon/PolyElem.hpp"
#include "Anamorphosis/AnamHermite.hpp"
#include "Matrix/Table.hpp"
#include "Matrix/MatrixSparse.hpp"
#include "Enum/ECalcVario.hpp"
namespace cp {

static std::string num(double x) { char b[40]; if (FFFF(x)) return "NA"; snprintf(b, sizeof b, "%.17g", x); return b; }
static std::string join(const VectorDouble& v) { std::string s; for (double x : v) s += num(x) + ","; return s; }

struct Pair { std::function<std::string(bool)> proj; std::function<void(bool, const std::string&, int)> mut; std::function<void()> done; };

static Db* baseDb(bool grid)
{
  if (grid)
  {
    DbGrid* g = DbGrid::create({3, 2}, {1., 1.}, {0., 0.});
    VectorDouble v = {1, 2, 3, 4, 5, 6};
    g->addColumns(v, "z1", ELoc::Z);
    return g;
  }
  VectorDouble tab = {0.3, 1.7, 2.5, 0.9, 0.4, 0.2, 1.6, 2.3, 1.2, -0.4, 0.7, 2.1};
  return Db::createFromSamples(4, ELoadBy::COLUMN, tab, {"x1", "x2", "z1"}, {"x1", "x2", "z1"}, false);
}
static std::string projDb(const Db* d)
{
  std::string s = std::to_string(d->getSampleNumber()) + "|";
  for (auto& n : d->getAllNames()) s += n + ";";
  s += "|";
  for (auto& n : d->getLocators()) s += n + ";";
  s += "|" + join(d->getAllColumns(false, false));
  return s;
}
static void mutDb(Db* d, const std::string& m, int k)
{
  if (m == "setValue") d->setArray(1, d->getUIDByColIdx(d->getColumnNumber() - 1), 77.5 + k);
  else if (m == "addColumn") d->addColumnsByConstant(1, 3.25 + k, "added");
  else if (m == "deleteColumn") d->deleteColumnByColIdx(d->getColumnNumber() - 1);
  else if (m == "setLocator") d->setLocatorByColIdx(0, ELoc::F, 0);
  else if (m == "setName") d->setNameByColIdx(0, "renamed" + std::to_string(k));
  else if (m == "addSamples") d->addSamples(1, 9.5);
  else if (m == "deleteSample") d->deleteSample(0);
}

template <class T> static T* copyOf(const T* a, const std::string& kind, T* fresh)
{
  if (kind == "ctor") { delete fresh; return new T(*a); }
  if (kind == "assign") { *fresh = *a; return fresh; }
  delete fresh;
  if constexpr (requires(const T* x) { x->clone(); }) return dynamic_cast<T*>(a->clone());
  else throw std::runtime_error("class has no clone()");
}

Value run(const Value& script)
{
  std::string cls = script.at("cls").s(), kind = script.at("kind").s();
  Pair P;
  if (cls == "Db" || cls == "DbGrid")
  {
    bool grid = cls == "DbGrid";
    Db* a = baseDb(grid);
    Db* b;
    if (grid)
    {
      DbGrid* ga = dynamic_cast<DbGrid*>(a);
      if (kind == "ctor") b = new DbGrid(*ga);
      else if (kind == "clone") b = ga->clone();
      else { DbGrid* f = DbGrid::create({2, 2}); *f = *ga; b = f; }
    }
    else
    {
      if (kind == "ctor") b = new Db(*a);
      else if (kind == "clone") b = a->clone();
      else { Db* f = Db::create(); *f = *a; b = f; }
    }
    P.proj = [=](bool src) { return projDb(src ? a : b); };
    P.mut = [=](bool src, const std::string& m, int k) { mutDb(src ? a : b, m, k); };
    P.done = [=]() { delete a; delete b; };
  }
  else if (cls == "Model")
  {
    SpaceRN space(2);
    Model* a = Model::createFromParam(ECov::EXPONENTIAL, 1., 1.3, 1., {2.5, 0.9}, VectorDouble(), {30., 0.}, &space);
    a->addCovFromParam(ECov::SPHERICAL, 1.7, 0.6);
    Model* f = Model::createFromParam(ECov::NUGGET, 0., 1., 1., VectorDouble(), VectorDouble(), VectorDouble(), &space);
    Model* b = copyOf<Model>(a, kind, f);
    auto pr = [](const Model* m) {
      std::string s = m->toString();
      SpacePoint p1(VectorDouble{0.2, 0.3}), p2(VectorDouble{1.1, 0.7});
      s += "|" + num(m->eval(p1, p2)) + "|" + num(m->getMean(0)) + "|" + std::to_string(m->getDriftNumber());
      return s;
    };
    P.proj = [=](bool src) { return pr(src ? a : b); };
    P.mut = [=](bool src, const std::string& m, int k) {
      Model* o = src ? a : b;
      if (m == "setSill") o->setSill(0, 0, 0, 2.2 + k);
      else if (m == "setRange") o->setRangeIsotropic(1, 3.3 + k);
      else if (m == "addCov") o->addCovFromParam(ECov::CUBIC, 2.0 + k, 0.4);
      else if (m == "setMean") o->setMean(1.5 + k, 0);
      else if (m == "setDrift") o->setDriftIRF(k % 2);
    };
    P.done = [=]() { delete a; delete b; };
  }
  else if (cls == "NeighMoving")
  {
    NeighMoving* a = NeighMoving::create(false, 5, 3.);
    NeighMoving* f = NeighMoving::create(false, 9, 7.);
    NeighMoving* b = copyOf<NeighMoving>(a, kind, f);
    Db* db = baseDb(false);
    a->attach(db, db); b->attach(db, db);
    auto pr = [=](NeighMoving* n) {
      VectorInt r; n->select(0, r);
      std::string s = n->toString() + "|" + std::to_string(n->getFlagXvalid()) + "|";
      for (int x : r) s += std::to_string(x) + ",";
      return s;
    };
    P.proj = [=](bool src) { return pr(src ? a : b); };
    P.mut = [=](bool src, const std::string& m, int k) {
      NeighMoving* o = src ? a : b;
      if (m == "setNMaxi") o->setNMaxi(2 + k);
      else if (m == "setNSect") { o->setNSect(2 + k); o->attach(db, db); }
      else if (m == "setFlagXvalid") o->setFlagXvalid(!o->getFlagXvalid());
    };
    P.done = [=]() { delete a; delete b; delete db; };
  }
  else if (cls == "Vario")
  {
    Db* db = baseDb(false);
    VarioParam* vp = VarioParam::createOmniDirection(3, 1.);
    Vario* a = Vario::computeFromDb(*vp, db, ECalcVario::VARIOGRAM);
    Vario* f = Vario::create(*vp);
    Vario* b = copyOf<Vario>(a, kind, f);
    auto pr = [](const Vario* v) { return join(v->getGgVec(0, 0, 0)) + "|" + join(v->getSwVec(0, 0, 0)) + "|" + join(v->getHhVec(0, 0, 0)); };
    P.proj = [=](bool src) { return pr(src ? a : b); };
    P.mut = [=](bool src, const std::string& m, int k) {
      Vario* o = src ? a : b;
      if (m == "setGg") o->setGg(0, 0, 0, 1, 5.5 + k);
      else if (m == "setSw") o->setSw(0, 0, 0, 1, 7.0 + k);
      else if (m == "setHh") o->setHh(0, 0, 0, 1, 1.25 + k);
    };
    P.done = [=]() { delete a; delete b; delete db; delete vp; };
  }
  else if (cls == "MatrixRectangular" || cls == "MatrixSquareSymmetric" || cls == "MatrixSparse" || cls == "Table")
  {
    AMatrix *a, *b;
    if (cls == "MatrixRectangular")
    {
      MatrixRectangular* x = new MatrixRectangular(2, 3);
      for (int i = 0; i < 2; i++) for (int j = 0; j < 3; j++) x->setValue(i, j, 1 + i * 3 + j);
      a = x; b = copyOf<MatrixRectangular>(x, kind, new MatrixRectangular(1, 1));
    }
    else if (cls == "MatrixSquareSymmetric")
    {
      MatrixSquareSymmetric* x = new MatrixSquareSymmetric(3);
      for (int i = 0; i < 3; i++) for (int j = 0; j <= i; j++) x->setValue(i, j, 1 + i * 3 + j);
      a = x; b = copyOf<MatrixSquareSymmetric>(x, kind, new MatrixSquareSymmetric(2));
    }
    else if (cls == "MatrixSparse")
    {
      MatrixSparse* x = new MatrixSparse(3, 3);
      x->setValue(0, 0, 2.); x->setValue(1, 2, 3.); x->setValue(2, 1, 4.); x->setValue(1, 1, 5.);
      a = x; b = copyOf<MatrixSparse>(x, kind, new MatrixSparse(2, 2));
    }
    else
    {
      Table* x = Table::create(2, 2);
      x->setValue(0, 0, 1.); x->setValue(0, 1, 2.); x->setValue(1, 0, 3.); x->setValue(1, 1, 4.);
      x->setColumnNames({"c1", "c2"});
      Table* fr = Table::create(1, 1);
      Table* y;
      if (kind == "ctor") { delete fr; y = new Table(*x); } else { *fr = *x; y = fr; }
      a = x; b = y;
    }
    auto pr = [](const AMatrix* m) {
      std::string s = std::to_string(m->getNRows()) + "x" + std::to_string(m->getNCols()) + "|";
      for (int i = 0; i < m->getNRows(); i++) for (int j = 0; j < m->getNCols(); j++) s += num(m->getValue(i, j)) + ",";
      const Table* t = dynamic_cast<const Table*>(m);
      if (t != nullptr) for (auto& n : t->getColumnNames()) s += n + ";";
      return s;
    };
    P.proj = [=](bool src) { return pr(src ? a : b); };
    P.mut = [=](bool src, const std::string& m, int k) {
      AMatrix* o = src ? a : b;
      if (m == "setValue") o->setValue(1, 1, 42.5 + k);
      else if (m == "prodScalar") o->prodScalar(2. + k);
      else if (m == "addScalar") o->addScalar(0.5 + k);
      else if (m == "setColumnName") dynamic_cast<Table*>(o)->setColumnName(0, "renamed" + std::to_string(k));
      else if (m == "addRow") dynamic_cast<Table*>(o)->addRow(1);
    };
    P.done = [=]() { delete a; delete b; };
  }
  else if (cls == "Polygons")
  {
    Polygons* a = Polygons::create();
    a->addPolyElem(PolyElem({0., 2., 2., 0.}, {0., 0., 2., 2.}));
    Polygons* f = Polygons::create();
    Polygons* b = copyOf<Polygons>(a, kind, f);
    auto pr = [](const Polygons* p) {
      std::string s = std::to_string(p->getPolyElemNumber()) + "|";
      for (int i = 0; i < p->getPolyElemNumber(); i++) s += join(p->getX(i)) + "/" + join(p->getY(i)) + ";";
      return s + (p->inside({1., 1.}) ? "in" : "out") + (p->inside({5., 5.}) ? "in" : "out");
    };
    P.proj = [=](bool src) { return pr(src ? a : b); };
    P.mut = [=](bool src, const std::string& m, int k) {
      Polygons* o = src ? a : b;
      o->addPolyElem(PolyElem({4. + k, 6. + k, 6. + k, 4. + k}, {4., 4., 6., 6.}));
    };
    P.done = [=]() { delete a; delete b; };
  }
  else if (cls == "AnamHermite")
  {
    AnamHermite* a = AnamHermite::create(4);
    a->setPsiHns({1., 0.5, 0.2, 0.1});
    AnamHermite* f = AnamHermite::create(2);
    AnamHermite* b = copyOf<AnamHermite>(a, kind, f);
    auto pr = [](const AnamHermite* h) { return join(h->getPsiHns()) + "|" + num(h->getRCoef()) + "|" + std::to_string(h->getNbPoly()); };
    P.proj = [=](bool src) { return pr(src ? a : b); };
    P.mut = [=](bool src, const std::string& m, int k) {
      AnamHermite* o = src ? a : b;
      if (m == "setPsiHns") o->setPsiHns({2. + k, 0.7, 0.3, 0.05});
      else if (m == "setRCoef") o->setRCoef(0.8 - 0.1 * k);
    };
    P.done = [=]() { delete a; delete b; };
  }
  else if (cls == "VectorVectorDouble")
  {
    VectorVectorDouble* a = new VectorVectorDouble({{1., 2.}, {3., 4., 5.}});
    VectorVectorDouble* b = kind == "ctor" ? new VectorVectorDouble(*a) : new VectorVectorDouble();
    if (kind == "assign") *b = *a;
    auto pr = [](const VectorVectorDouble* v) { std::string s; for (auto& in : *v) s += join(in) + "/"; return s; };
    P.proj = [=](bool src) { return pr(src ? a : b); };
    P.mut = [=](bool src, const std::string& m, int k) {
      VectorVectorDouble* o = src ? a : b;
      if (m == "setInner") (*o)[1][1] = 44. + k;
      else if (m == "pushInner") (*o)[0].push_back(6. + k);
      else if (m == "pushOuter") o->push_back(VectorDouble{9. + k});
    };
    P.done = [=]() { delete a; delete b; };
  }
  else throw std::runtime_error("unknown class " + cls);

  Value obs = Value::array();
  Value o0 = Value::object();
  o0["equal_after_copy"] = Value(P.proj(true) == P.proj(false));
  obs.push(o0);
  int k = 0;
  for (auto& st : script.at("hist").arr)
  {
    bool src = st.at("who").s() == "src";
    std::string s0 = P.proj(true), c0 = P.proj(false);
    P.mut(src, st.at("m").s(), ++k);
    std::string s1 = P.proj(true), c1 = P.proj(false);
    Value o = Value::object();
    o["src_changed"] = Value(s0 != s1); o["cpy_changed"] = Value(c0 != c1);
    obs.push(o);
  }
  P.done();
  return obs;
}
}  // namespace cp
