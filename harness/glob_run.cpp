// C10 binding (Globals.tla): every (prefix, observed) script is executed twice in fresh processes
// (fork): "prefix; observed" and "observed" alone, on identically built objects; the observed
// results must be bit-identical.
//
// usage: glob_run <scripts.ndjson> <out.ndjson>
#include "vjson.hpp"
#include "Db/Db.hpp"
#include "Db/DbGrid.hpp"
#include "Model/Model.hpp"
#include "Neigh/NeighUnique.hpp"
#include "Neigh/NeighMoving.hpp"
#include "Estimation/CalcKriging.hpp"
#include "Simulation/CalcSimuTurningBands.hpp"
#include "Simulation/CalcSimuFFT.hpp"
#include "Simulation/SimuFFTParam.hpp"
#include "Calculators/CalcMigrate.hpp"
#include "Variogram/Vario.hpp"
#include "Variogram/VarioParam.hpp"
#include "Anamorphosis/AnamHermite.hpp"
#include "Stats/Classical.hpp"
#include "Tree/Ball.hpp"
#include "Tree/KNN.hpp"
#include "Basic/Law.hpp"
#include "Space/SpaceRN.hpp"
#include "Space/ASpaceObject.hpp"
#include "Enum/ECov.hpp"
#include "Enum/ELoadBy.hpp"
#include "Enum/ECalcVario.hpp"
#include "Enum/ESpaceType.hpp"
#include "Enum/EStatOption.hpp"
#include <unistd.h>
#include <sys/wait.h>
#include <cstring>
#include <cstdint>

using vj::Value;

struct Session
{
  Db* data; DbGrid* grid; Db* pts; Model* model; Ball* treeE; Db* lattice;
};

static Db* makeData()
{
  static const double X[8] = {0.31, 1.72, 2.55, 0.93, 2.11, 1.37, 0.58, 2.83};
  static const double Y[8] = {0.42, 0.27, 1.61, 2.33, 2.48, 1.29, 1.77, 0.94};
  static const double V[8] = {1.2, -0.4, 0.7, 2.1, -1.3, 0.2, 0.9, 1.6};
  VectorDouble tab;
  for (double x : X) tab.push_back(x);
  for (double y : Y) tab.push_back(y);
  for (double v : V) tab.push_back(v);
  return Db::createFromSamples(8, ELoadBy::COLUMN, tab, {"x1", "x2", "z1"}, {"x1", "x2", "z1"}, false);
}
static Db* makeLattice()
{
  VectorDouble tab;
  for (int j = 0; j < 3; j++) for (int i = 0; i < 3; i++) tab.push_back(i);
  for (int j = 0; j < 3; j++) for (int i = 0; i < 3; i++) tab.push_back(j);
  for (int k = 0; k < 9; k++) tab.push_back((k * 7) % 5 + 0.5 * k);
  return Db::createFromSamples(9, ELoadBy::COLUMN, tab, {"x1", "x2", "z1"}, {"x1", "x2", "z1"}, false);
}
static Model* makeModel()
{
  SpaceRN space(2);
  Model* m = Model::createFromParam(ECov::EXPONENTIAL, 1., 1.3, 1., {2.5, 0.9}, VectorDouble(), {30., 0.}, &space);
  m->addCovFromParam(ECov::SPHERICAL, 1.7, 0.6);
  return m;
}
static void setup(Session& s)
{
  defineDefaultSpace(ESpaceType::RN, 2);
  s.data = makeData();
  s.grid = DbGrid::create({4, 4}, {0.8, 0.8}, {0.2, 0.1});
  VectorDouble t = {0.5, 1.5, 2.5, 1.1, 0.6, 1.4, 2.2, 0.9};
  s.pts = Db::createFromSamples(4, ELoadBy::COLUMN, t, {"x1", "x2"}, {"x1", "x2"}, false);
  s.model = makeModel();
  s.treeE = new Ball(s.data, nullptr, 2, 1);
  s.lattice = makeLattice();
}

static void feed(VectorDouble& acc, const VectorDouble& v) { for (double x : v) acc.push_back(x); }
static void feedCols(VectorDouble& acc, Db* db, const std::string& pattern)
{
  for (auto& n : db->getName(pattern)) feed(acc, db->getColumn(n, false, false));
  db->deleteColumn(pattern);
}

// executes one call of the catalogue; returns its observable result
static VectorDouble call(const std::string& n, Session& s)
{
  VectorDouble r;
  if (n == "draw_seeded") { law_set_random_seed(4242); for (int i = 0; i < 3; i++) r.push_back(law_gaussian()); }
  else if (n == "draw_unseeded") { for (int i = 0; i < 3; i++) r.push_back(law_gaussian()); }
  else if (n == "simtub_nc")
  {
    if (simtub(nullptr, s.grid, s.model, nullptr, 2, 13241, 30) == 0) feedCols(r, s.grid, "Simu*");
  }
  else if (n == "simtub_cond")
  {
    NeighUnique* nb = NeighUnique::create();
    if (simtub(s.data, s.grid, s.model, nb, 2, 5311, 30) == 0) feedCols(r, s.grid, "Simu*");
    delete nb;
  }
  else if (n == "simfft")
  {
    SimuFFTParam param;
    if (simfft(s.grid, s.model, param, 1, 7771) == 0) feedCols(r, s.grid, "FFT*");
  }
  else if (n == "fill_random")
  {
    Db* d = Db::createFillRandom(6, 2, 1, 0, 0, 0., 0., VectorDouble(), VectorDouble(), VectorDouble(), 991);
    for (int i = 0; i < d->getColumnNumber(); i++) feed(r, d->getColumnByColIdx(i, false, false));
    delete d;
  }
  else if (n == "add_cols_random")
  {
    s.pts->addColumnsRandom(2, "rnd", ELoc::UNKNOWN, 0, 5151);
    feedCols(r, s.pts, "rnd*");
  }
  else if (n == "kriging_ok")
  {
    NeighUnique* nb = NeighUnique::create();
    if (kriging(s.data, s.grid, s.model, nb) == 0) feedCols(r, s.grid, "Kriging*");
    delete nb;
  }
  else if (n == "kriging_moving_ball")
  {
    NeighMoving* nb = NeighMoving::create(false, 4, 2.5);
    nb->setBallSearch(true, 2);
    if (kriging(s.data, s.grid, s.model, nb) == 0) feedCols(r, s.grid, "Kriging*");
    delete nb;
  }
  else if (n == "kriging_fail")
  {
    Db* bad = makeData();
    bad->clearLocators(ELoc::Z);
    NeighUnique* nb = NeighUnique::create();
    r.push_back(kriging(bad, s.grid, s.model, nb));
    delete nb; delete bad;
  }
  else if (n == "xvalid_ok")
  {
    NeighUnique* nb = NeighUnique::create();
    Db* d = makeData();
    if (xvalid(d, s.model, nb) == 0) feedCols(r, d, "Xvalid*");
    delete nb; delete d;
  }
  else if (n == "covoptim_ok") feed(r, s.model->evalCovMatrixOptim(s.data, s.pts).getValues());
  else if (n == "covoptim_fail")
  {
    Db* d = makeData();
    d->addSelection(VectorDouble(8, 0.), "none");
    r.push_back((double)s.model->evalCovMatrixOptim(d, d).getNRows());
    delete d;
  }
  else if (n == "vario_std" || n == "vario_bysample")
  {
    VarioParam* vp = VarioParam::createMultiple(2, 3, 1.);
    Vario* v = Vario::computeFromDb(*vp, s.lattice, ECalcVario::VARIOGRAM, n == "vario_bysample");
    if (v != nullptr)
      for (int idir = 0; idir < 2; idir++)
      {
        feed(r, v->getSwVec(idir, 0, 0)); feed(r, v->getGgVec(idir, 0, 0)); feed(r, v->getHhVec(idir, 0, 0));
      }
    delete v; delete vp;
  }
  else if (n == "ball_build_manhattan") { Ball b(s.lattice, nullptr, 2, 2); r.push_back(1.); }
  else if (n == "ball_build_euclid") { Ball b(s.lattice, nullptr, 2, 1); r.push_back(1.); }
  else if (n == "ball_query_euclid_tree")
  {
    KNN k = s.treeE->queryOneAsVD({1.05, 1.3}, 3);
    for (int i = 0; i < 3; i++) { r.push_back(k.getIndex(0, i)); r.push_back(k.getDistance(0, i)); }
  }
  else if (n == "migrate_ball")
  {
    if (migrate(s.data, s.pts, "z1", 1, VectorDouble(), false, false, true) == 0) feedCols(r, s.pts, "Migrate*");
  }
  else if (n == "anam_fit_transform")
  {
    AnamHermite* a = AnamHermite::create(10);
    Db* d = makeData();
    a->fitFromLocator(d);
    if (a->rawToGaussianByLocator(d) == 0) feedCols(r, d, "Y*");
    delete a; delete d;
  }
  else if (n == "stats_mono")
  {
    Table t = dbStatisticsMono(s.data, {"z1"}, EStatOption::fromKeys({"MEAN", "VAR", "MINI", "MAXI"}));
    feed(r, t.getValues());
  }
  else throw std::runtime_error("unknown call " + n);
  return r;
}

static uint64_t hashv(const VectorDouble& v)
{
  uint64_t h = 1469598103934665603ULL;
  for (double x : v)
  {
    unsigned char b[8];
    if (std::isnan(x)) memset(b, 0xAB, 8); else memcpy(b, &x, 8);
    for (int i = 0; i < 8; i++) { h ^= b[i]; h *= 1099511628211ULL; }
  }
  return h ^ (uint64_t)v.size();
}

// runs the script (with or without its prefix) in a child; returns the JSON it wrote, or "" on crash
static std::string runChild(const Value& sc, bool withPrefix, int& status)
{
  int fd[2];
  if (pipe(fd) != 0) return "";
  pid_t pid = fork();
  if (pid == 0)
  {
    close(fd[0]);
    alarm(60);
    Session s;
    law_set_old_style(sc.gets("style", "old") == "old");
    setup(s);
    if (withPrefix)
      for (auto& p : sc.at("prefix").arr) (void)call(p.s(), s);
    VectorDouble r = call(sc.at("observed").s(), s);
    Value o = Value::object();
    char buf[32]; snprintf(buf, sizeof buf, "%016llx", (unsigned long long)hashv(r));
    o["hash"] = Value(std::string(buf));
    o["n"] = Value((int)r.size());
    Value head = Value::array();
    for (size_t i = 0; i < r.size() && i < 8; i++) head.push(Value(r[i]));
    o["head"] = head;
    std::string out = vj::dump(o);
    ssize_t w = write(fd[1], out.data(), out.size()); (void)w;
    _exit(0);
  }
  close(fd[1]);
  std::string out; char buf[4096]; ssize_t n;
  while ((n = read(fd[0], buf, sizeof buf)) > 0) out.append(buf, (size_t)n);
  close(fd[0]);
  waitpid(pid, &status, 0);
  return out;
}

int main(int argc, char** argv)
{
  if (argc < 3) return 2;
  std::vector<Value> scripts = vj::readNdjson(argv[1]);
  FILE* fo = fopen(argv[2], "w");
  if (!fo) return 2;
  if (!freopen("/dev/null", "w", stdout)) return 2;
  for (int is = 0; is < (int)scripts.size(); is++)
  {
    int st1 = 0, st2 = 0;
    std::string a = runChild(scripts[is], true, st1);
    std::string b = runChild(scripts[is], false, st2);
    Value rec = Value::object();
    rec["idx"] = Value(is);
    rec["crash_with_prefix"] = Value(!(WIFEXITED(st1) && WEXITSTATUS(st1) == 0) || a.empty());
    rec["crash_alone"] = Value(!(WIFEXITED(st2) && WEXITSTATUS(st2) == 0) || b.empty());
    if (!a.empty()) rec["with_prefix"] = vj::parse(a);
    if (!b.empty()) rec["alone"] = vj::parse(b);
    fprintf(fo, "%s\n", vj::dump(rec).c_str());
    fflush(fo);
  }
  fclose(fo);
  return 0;
}
