// part of spde_run.cpp (mode "ops"): measures of the relations named by SpdeOps.tla on the real objects.
// Every measure is written under the name of its obligation as {"err": e, "ref": r, "tag": t} (relation "le":
// the caller checks e <= tolerance * r) or {"value": v, "tag": t} (relations "pos" / "true").  Dense copies of the
// assembled matrices (n <= a few hundreds) are used to measure residuals and smallest eigenvalues (Eigen).
#pragma once
#include "LinearOp/PrecisionOpMulti.hpp"
#include "LinearOp/PrecisionOpMultiMatrix.hpp"
#include "LinearOp/SPDEOp.hpp"
#include "LinearOp/SPDEOpMatrix.hpp"
#include "LinearOp/MatrixSquareSymmetricSim.hpp"
#include "Space/ASpaceObject.hpp"
#include "Enum/ESpaceType.hpp"
#include "Basic/NamingConvention.hpp"

typedef Eigen::MatrixXd Mat;
typedef Eigen::VectorXd Vec;

static void put(Value& M, const std::string& name, double err, double ref, const std::string& tag, const std::string& param = "")
{
  Value x = Value::object();
  x["err"] = Value(err);
  x["ref"] = Value(ref);
  x["tag"] = Value(tag);
  if (!param.empty()) x["param"] = Value(param);
  if (!M.has(name)) M[name] = Value::array();
  M[name].push(x);
}
static void putv(Value& M, const std::string& name, double value, const std::string& tag)
{
  Value x = Value::object();
  x["value"] = Value(value);
  x["tag"] = Value(tag);
  if (!M.has(name)) M[name] = Value::array();
  M[name].push(x);
}
static void putfail(Value& M, const std::string& name, const std::string& what)
{
  Value x = Value::object();
  x["failed"] = Value(what);
  if (!M.has(name)) M[name] = Value::array();
  M[name].push(x);
}
template <class F> static void measure(Value& M, const std::string& name, F f)
{
  try { f(); }
  catch (const std::exception& e) { putfail(M, name, e.what()); }
  catch (const std::string& e) { putfail(M, name, e); }
  catch (const char* e) { putfail(M, name, e); }
  catch (...) { putfail(M, name, "unknown exception"); }
}

static Mat denseOf(const MatrixSparse* m)
{
  int nr = m->getNRows(), nc = m->getNCols();
  Mat d = Mat::Zero(nr, nc);
  NF_Triplet t = m->getMatrixToTriplet();
  for (int k = 0, n = t.getNumber(); k < n; k++)
  {
    int i = t.getRow(k), j = t.getCol(k);
    if (i >= 0 && i < nr && j >= 0 && j < nc) d(i, j) += t.getValue(k);
  }
  return d;
}
static VectorDouble toVD(const Vec& v) { VectorDouble r(v.size()); for (int i = 0; i < (int)v.size(); i++) r[i] = v[i]; return r; }
static Vec toVec(const VectorDouble& v) { Vec r(v.size()); for (int i = 0; i < (int)v.size(); i++) r[i] = v[i]; return r; }
static Vec toVec(const std::vector<double>& v) { Vec r(v.size()); for (int i = 0; i < (int)v.size(); i++) r[i] = v[i]; return r; }
static VectorDouble unit(int n, int i) { VectorDouble e(n, 0.); e[i] = 1.; return e; }
static double maxabs(const Vec& v) { return v.size() ? v.cwiseAbs().maxCoeff() : 0.; }
static double maxabs(const Mat& m) { return m.size() ? m.cwiseAbs().maxCoeff() : 0.; }
static Vec applyOp(const ALinearOp& op, const Vec& x)
{
  VectorDouble in = toVD(x), out;
  if (op.evalDirect(in, out) != 0) throw std::runtime_error("evalDirect returned an error");
  return toVec(out);
}
// the dense matrix of a linear operator, column by column
static Mat matrixOfOp(const ALinearOp& op, int n)
{
  Mat P(n, n);
  for (int i = 0; i < n; i++) P.col(i) = applyOp(op, toVec(unit(n, i)));
  return P;
}
static double lambdaMin(const Mat& A)
{
  Eigen::SelfAdjointEigenSolver<Mat> es(0.5 * (A + A.transpose()), Eigen::EigenvaluesOnly);
  return es.eigenvalues().minCoeff();
}
static double backwardError(const Mat& A, const Vec& x, const Vec& b)
{
  double den = A.norm() * x.norm() + b.norm();
  return den > 0 ? (A * x - b).norm() / den : 0.;
}
// min of x'Ax over the canonical basis and the vectors e_i +/- e_j
static double minQuadratic(const Mat& A)
{
  int n = (int)A.rows();
  double m = 1e300;
  for (int i = 0; i < n; i++)
  {
    m = std::min(m, A(i, i));
    for (int j = 0; j < i; j++)
    {
      m = std::min(m, A(i, i) + A(j, j) + A(i, j) + A(j, i));
      m = std::min(m, A(i, i) + A(j, j) - A(i, j) - A(j, i));
    }
  }
  return m;
}
static std::vector<std::vector<double>> oneBlock(const Vec& v) { std::vector<std::vector<double>> r(1); r[0].assign(v.data(), v.data() + v.size()); return r; }

// a preconditioner for ALinearOpMulti::evalInverse (one block): z = diag(A)^-1 r
class JacobiMulti : public ALinearOpMulti
{
public:
  JacobiMulti(const Vec& diag) : ALinearOpMulti(), _d(diag) {}
  int sizes() const override { return 1; }
  int size(int) const override { return (int)_d.size(); }
protected:
  void _evalDirect(const std::vector<std::vector<double>>& inv, std::vector<std::vector<double>>& outv) const override
  {
    for (int i = 0; i < (int)_d.size(); i++) outv[0][i] = inv[0][i] / _d[i];
  }
private:
  Vec _d;
};

static AMesh* buildMesh(const Value& m, int nd)
{
  if (m.at("type").s() == "turbo" && m.has("sel"))
  {
    std::unique_ptr<DbGrid> g(DbGrid::create(vi(m.at("nx")), vd(m.at("dx")), vd(m.at("x0")), vd(m.at("ang"))));
    g->addColumns(vd(m.at("sel")), "sel", ELoc::SEL, 0);
    return MeshETurbo::createFromGrid(g.get(), m.at("pol").i() != 0, false);
  }
  if (m.at("type").s() == "turbo")
    return MeshETurbo::create(vi(m.at("nx")), vd(m.at("dx")), vd(m.at("x0")), vd(m.at("ang")), m.at("pol").i() != 0, false);
  const Value& ap = m.at("apices");
  const Value& ms = m.at("meshes");
  MatrixRectangular A((int)ap.size(), nd);
  MatrixInt M((int)ms.size(), nd + 1);
  for (int i = 0; i < (int)ap.size(); i++) for (int d = 0; d < nd; d++) A.setValue(i, d, ap[i][d].d());
  for (int i = 0; i < (int)ms.size(); i++) for (int k = 0; k <= nd; k++) M.setValue(i, k, ms[i][k].i());
  return MeshEStandard::createFromExternal(A, M, false);
}
static Db* pointsDb(int nd, const Value& xs, const VectorDouble* z, const VectorDouble* verr = nullptr)
{
  int n = (int)xs.size();
  VectorDouble tab;
  VectorString names, locs;
  for (int d = 0; d < nd; d++)
  {
    for (int i = 0; i < n; i++) tab.push_back(xs[i][d].d());
    names.push_back("x" + std::to_string(d + 1));
    locs.push_back("x" + std::to_string(d + 1));
  }
  if (z != nullptr)
  {
    for (int i = 0; i < n; i++) tab.push_back((*z)[i]);
    names.push_back("z1");
    locs.push_back("z1");
  }
  if (verr != nullptr)
  {
    for (int i = 0; i < n; i++) tab.push_back((*verr)[i]);
    names.push_back("verr");
    locs.push_back("v1");
  }
  return Db::createFromSamples(n, ELoadBy::COLUMN, tab, names, locs, false);
}

static void runConfig(const Value& c, Value& o)
{
  int nd = c.at("nd").i();
  defineDefaultSpace(ESpaceType::RN, nd);
  Value M = Value::object();
  Value info = Value::object();
  std::unique_ptr<AMesh> mesh(buildMesh(c.at("mesh"), nd));
  int n = mesh->getNApices();
  info["napices"] = Value(n);
  const Value& mo = c.at("model");
  double sill = mo.at("sill").d(), nu = mo.at("nu").d(), nugget = mo.at("nugget").d();
  VectorDouble ranges = vd(mo.at("ranges")), angles = vd(mo.at("angles"));
  std::unique_ptr<Model> model1(Model::createFromParam(ECov::MATERN, 1., sill, nu, ranges, VectorDouble(), angles));
  std::unique_ptr<Model> model2(Model::createFromParam(ECov::MATERN, 1., sill, nu, ranges, VectorDouble(), angles));
  // data error variance: the nugget effect of the model, or a variable V (then the model has no nugget effect)
  bool hasV = c.at("data").has("verr");
  if (!hasV) model2->addCovFromParam(ECov::NUGGET, 0., nugget);
  CovAniso* cova = model1->getCova(0);
  VectorDouble v1 = vd(c.at("v1")), v2 = vd(c.at("v2"));
  if ((int)v1.size() != n || (int)v2.size() != n) throw std::runtime_error("test vectors do not have the size of the mesh");
  Vec V1 = toVec(v1), V2 = toVec(v2);
  std::vector<std::pair<double, double>> lin;
  for (auto& e : c.at("lincoefs").arr) lin.push_back({e[0].d(), e[1].d()});

  // ------------------------------------------------------------------ shift operator
  ShiftOpCs S(mesh.get(), cova);
  if (S.getSize() != n || S.getS() == nullptr) throw std::runtime_error("ShiftOpCs could not be built");
  Mat Sd = denseOf(S.getS());
  measure(M, "ShiftOp.ApplyEqualsAssembled", [&]() {
    Mat P = matrixOfOp(S, n);
    double ref = 0;
    for (int i = 0; i < n; i++) ref = std::max(ref, maxabs(Vec(Sd.col(i))));
    put(M, "ShiftOp.ApplyEqualsAssembled", maxabs(Mat(P - Sd)), ref, "basis");
    // the element accessor of the sparse matrix against its triplets
    double e2 = 0;
    for (int i = 0; i < n; i++) for (int j = 0; j < n; j++) e2 = std::max(e2, std::abs(S.getS()->getValue(i, j) - Sd(i, j)));
    put(M, "ShiftOp.ApplyEqualsAssembled", e2, ref, "getValue");
  });
  measure(M, "ShiftOp.SSymmetric", [&]() { put(M, "ShiftOp.SSymmetric", maxabs(Mat(Sd - Sd.transpose())), maxabs(Sd), "S"); });
  measure(M, "ShiftOp.LambdaPositive", [&]() {
    double m = 1e300;
    if ((int)S.getLambdas().size() != n) throw std::runtime_error("Lambda does not have the size of the mesh");
    for (double x : S.getLambdas()) m = std::min(m, std::isfinite(x) ? x : -1.);
    putv(M, "ShiftOp.LambdaPositive", m, "min");
  });
  measure(M, "ShiftOp.TildeCPositive", [&]() {
    double m = 1e300;
    if ((int)S.getTildeC().size() != n) throw std::runtime_error("TildeC does not have the size of the mesh");
    for (double x : S.getTildeC()) m = std::min(m, std::isfinite(x) ? x : -1.);
    putv(M, "ShiftOp.TildeCPositive", m, "min");
  });
  measure(M, "ShiftOp.Linear", [&]() {
    Vec a = applyOp(S, V1), b = applyOp(S, V2);
    for (auto& ab : lin)
    {
      Vec lhs = applyOp(S, ab.first * V1 + ab.second * V2), rhs = ab.first * a + ab.second * b;
      put(M, "ShiftOp.Linear", maxabs(Vec(lhs - rhs)), std::abs(ab.first) * maxabs(a) + std::abs(ab.second) * maxabs(b), "comb");
    }
  });

  // ------------------------------------------------------------------ precision: matrix-free and assembled
  PrecisionOp pop(mesh.get(), cova);
  PrecisionOpCs pcs(mesh.get(), cova);
  if (pcs.getQ() == nullptr) throw std::runtime_error("PrecisionOpCs has no matrix Q");
  Mat Qd = denseOf(pcs.getQ());
  double qcol = 0;
  for (int i = 0; i < n; i++) qcol = std::max(qcol, maxabs(Vec(Qd.col(i))));
  info["max_abs_Q"] = Value(qcol);
  Mat P;       // matrix of the matrix-free operator
  measure(M, "OpEqualsMatrix.Basis", [&]() {
    P = matrixOfOp(pop, n);
    put(M, "OpEqualsMatrix.Basis", maxabs(Mat(P - Qd)), qcol, "evalDirect");
  });
  measure(M, "OpEqualsMatrix.CsApply", [&]() { put(M, "OpEqualsMatrix.CsApply", maxabs(Mat(matrixOfOp(pcs, n) - Qd)), qcol, "evalDirect"); });
  measure(M, "OpEqualsMatrix.Vectors", [&]() {
    std::vector<Vec> vs = {V1, V2};
    for (auto& ab : lin) vs.push_back(ab.first * V1 + ab.second * V2);
    for (auto& v : vs)
    {
      Vec want = Qd * v, a = applyOp(pop, v), b = applyOp(pcs, v);
      put(M, "OpEqualsMatrix.Vectors", maxabs(Vec(a - want)), maxabs(want), "matrixfree-Qv");
      put(M, "OpEqualsMatrix.Vectors", maxabs(Vec(b - want)), maxabs(want), "cs-Qv");
      put(M, "OpEqualsMatrix.Vectors", maxabs(Vec(a - b)), maxabs(want), "matrixfree-cs");
    }
  });
  measure(M, "OpEqualsMatrix.Linear", [&]() {
    Vec a = applyOp(pop, V1), b = applyOp(pop, V2);
    for (auto& ab : lin)
    {
      Vec lhs = applyOp(pop, ab.first * V1 + ab.second * V2), rhs = ab.first * a + ab.second * b;
      put(M, "OpEqualsMatrix.Linear", maxabs(Vec(lhs - rhs)), std::abs(ab.first) * maxabs(a) + std::abs(ab.second) * maxabs(b), "comb");
    }
  });
  measure(M, "OpEqualsMatrix.BasisExpansion", [&]() {
    if (P.rows() != n) throw std::runtime_error("no matrix of the matrix-free operator");
    Vec a = applyOp(pop, V1), b = P * V1;
    put(M, "OpEqualsMatrix.BasisExpansion", maxabs(Vec(a - b)), maxabs(b), "v1");
  });
  measure(M, "OpEqualsMatrix.FromShiftOp", [&]() {
    PrecisionOp p2(&S, cova);
    PrecisionOpCs c2(&S, cova);
    Mat Q2 = denseOf(c2.getQ());
    double r2 = maxabs(Q2);
    put(M, "OpEqualsMatrix.FromShiftOp", maxabs(Mat(matrixOfOp(p2, n) - Q2)), r2, "matrixfree");
    put(M, "OpEqualsMatrix.FromShiftOp", maxabs(Mat(matrixOfOp(c2, n) - Q2)), r2, "cs");
  });
  measure(M, "OpEqualsMatrix.AddToDest", [&]() {
    Vec want = V2 + Qd * V1;
    VectorDouble d1 = v2, d2 = v2;
    constvect in(v1.data(), v1.size());
    pop.addToDest(in, vect(d1.data(), d1.size()));
    pcs.addToDest(in, vect(d2.data(), d2.size()));
    put(M, "OpEqualsMatrix.AddToDest", maxabs(Vec(toVec(d1) - want)), maxabs(want), "matrixfree");
    put(M, "OpEqualsMatrix.AddToDest", maxabs(Vec(toVec(d2) - want)), maxabs(want), "cs");
  });
  measure(M, "OpEqualsMatrix.EvalPower", [&]() {
    VectorDouble out(n, 0.);
    pop.evalPower(constvect(v1.data(), v1.size()), vect(out.data(), out.size()), EPowerPT::ONE);
    Vec want = Qd * V1;
    put(M, "OpEqualsMatrix.EvalPower", maxabs(Vec(toVec(out) - want)), maxabs(want), "matrixfree");
    VectorDouble out2(n, 0.);
    pcs.evalPower(constvect(v1.data(), v1.size()), vect(out2.data(), out2.size()), EPowerPT::ONE);
    put(M, "OpEqualsMatrix.EvalPower", maxabs(Vec(toVec(out2) - want)), maxabs(want), "cs");
  });
  measure(M, "OpEqualsMatrix.Diagonal", [&]() {
    Vec dg = Qd.diagonal();
    VectorDouble a = pop.extractDiag(), b = pcs.extractDiag();
    if ((int)a.size() != n || (int)b.size() != n) throw std::runtime_error("extractDiag has a wrong size");
    put(M, "OpEqualsMatrix.Diagonal", maxabs(Vec(toVec(a) - dg)), maxabs(dg), "matrixfree");
    put(M, "OpEqualsMatrix.Diagonal", maxabs(Vec(toVec(b) - dg)), maxabs(dg), "cs");
  });
  std::vector<const AMesh*> meshes(1, mesh.get());
  measure(M, "OpEqualsMatrix.MultiMatrix", [&]() {
    PrecisionOpMulti pm(model1.get(), meshes);
    PrecisionOpMultiMatrix pmm(model1.get(), meshes);
    if (pm.getSize() != n || pmm.getQ() == nullptr) throw std::runtime_error("PrecisionOpMulti(Matrix) could not be built");
    Mat Qm = denseOf(pmm.getQ());
    put(M, "OpEqualsMatrix.MultiMatrix", maxabs(Mat(matrixOfOp(pm, n) - Qm)), maxabs(Qm), "multi-matrix");
    put(M, "OpEqualsMatrix.MultiMatrix", maxabs(Mat(matrixOfOp(pmm, n) - Qm)), maxabs(Qm), "matrix-apply");
    put(M, "OpEqualsMatrix.MultiMatrix", maxabs(Mat(Qm - Qd)), qcol, "multimatrix-precisionopcs");
  });
  measure(M, "OpEqualsMatrix.MultiMatrix", [&]() {
    // two variables with an intrinsic correlation (sills 2, 1/2, 1/2, 1 times the sill): operators of size 2 n
    VectorDouble sills = {2. * sill, 0.5 * sill, 0.5 * sill, sill};
    std::unique_ptr<Model> m2(Model::createFromParam(ECov::MATERN, 1., 1., nu, ranges, sills, angles));
    PrecisionOpMulti pm(m2.get(), meshes);
    PrecisionOpMultiMatrix pmm(m2.get(), meshes);
    if (pm.getSize() != 2 * n || pmm.getSize() != 2 * n || pmm.getQ() == nullptr) throw std::runtime_error("two-variable PrecisionOpMulti(Matrix) could not be built");
    Mat Qm = denseOf(pmm.getQ());
    put(M, "OpEqualsMatrix.MultiMatrix", maxabs(Mat(matrixOfOp(pm, 2 * n) - Qm)), maxabs(Qm), "two variables: multi-matrix");
    put(M, "OpEqualsMatrix.MultiMatrix", maxabs(Mat(matrixOfOp(pmm, 2 * n) - Qm)), maxabs(Qm), "two variables: matrix-apply");
    put(M, "Symmetric.Q", maxabs(Mat(Qm - Qm.transpose())), maxabs(Qm), "two variables: Q");
    putv(M, "PositiveDefinite.Quadratic", lambdaMin(Qm) / maxabs(Qm), "two variables: smallest eigenvalue (dense)");
  });
  // ------------------------------------------------------------------ symmetric positive definite
  measure(M, "Symmetric.Q", [&]() { put(M, "Symmetric.Q", maxabs(Mat(Qd - Qd.transpose())), maxabs(Qd), "Q"); });
  measure(M, "Symmetric.Op", [&]() {
    if (P.rows() != n) throw std::runtime_error("no matrix of the matrix-free operator");
    put(M, "Symmetric.Op", maxabs(Mat(P - P.transpose())), maxabs(P), "P");
  });
  double logdetQ = std::nan("");
  measure(M, "PositiveDefinite.Cholesky", [&]() {
    CholeskySparse ch(pcs.getQ());
    double ld = ch.isReady() ? ch.computeLogDeterminant() : std::nan("");
    putv(M, "PositiveDefinite.Cholesky", (ch.isReady() && std::isfinite(ld) && !FFFF(ld)) ? 1. : 0., "CholeskySparse");
    double ld2 = pcs.getLogDeterminant();
    putv(M, "PositiveDefinite.Cholesky", (std::isfinite(ld2) && !FFFF(ld2)) ? 1. : 0., "PrecisionOpCs::getLogDeterminant");
    logdetQ = ld2;
  });
  measure(M, "PositiveDefinite.Quadratic", [&]() {
    putv(M, "PositiveDefinite.Quadratic", minQuadratic(Qd) / qcol, "assembled");
    if (P.rows() == n) putv(M, "PositiveDefinite.Quadratic", minQuadratic(P) / qcol, "matrixfree");
    putv(M, "PositiveDefinite.Quadratic", lambdaMin(Qd) / qcol, "smallest eigenvalue (dense)");
  });
  // ------------------------------------------------------------------ direct solve with Q
  measure(M, "SolveResidual.PrecisionOpCs", [&]() {
    std::vector<Vec> bs = {V1, V2, toVec(unit(n, 0)), toVec(unit(n, n / 2))};
    for (auto& b : bs)
    {
      VectorDouble in = toVD(b);
      std::vector<double> out(n, 0.);
      pcs.evalInverse(constvect(in.data(), in.size()), out);
      put(M, "SolveResidual.PrecisionOpCs", backwardError(Qd, toVec(out), b), 1., "evalInverse");
    }
  });

  // ------------------------------------------------------------------ conditional operators (kriging systems)
  const Value& da = c.at("data");
  VectorDouble z = vd(da.at("z"));
  int ndat = (int)z.size();
  VectorDouble dvar = hasV ? vd(da.at("verr")) : VectorDouble(ndat, nugget);      // variance of each datum
  if ((int)dvar.size() != ndat) throw std::runtime_error("one variance per datum expected");
  std::unique_ptr<Db> dbin(pointsDb(nd, da.at("x"), &z, hasV ? &dvar : nullptr));
  std::unique_ptr<Db> dbout(pointsDb(nd, c.at("targets"), nullptr));
  ProjMatrix B(dbin.get(), mesh.get());
  if (B.getPointNumber() != ndat || B.getApexNumber() != n) throw std::runtime_error("projection matrix of the data has a wrong shape");
  Mat Bd = denseOf(&B);
  // the kriging system assembled from its public parts: Q (PrecisionOpCs::getQ), A (ProjMatrix), D (nugget or V values)
  Mat Dinv = Mat::Zero(ndat, ndat);
  for (int i = 0; i < ndat; i++) Dinv(i, i) = 1. / dvar[i];
  Mat Ad = Qd + Bd.transpose() * Dinv * Bd;
  Vec rhsWant = Bd.transpose() * Dinv * toVec(z);
  auto setVariance = [&](PrecisionOpMultiConditional& A) { if (hasV) A.setVarianceDataVector(dvar); else A.setVarianceData(nugget); };
  auto matrixOfMulti = [&](const PrecisionOpMultiConditional& A) {
    Mat P(n, n);
    for (int i = 0; i < n; i++)
    {
      std::vector<std::vector<double>> e(1, std::vector<double>(n, 0.)), y(1, std::vector<double>(n, 0.));
      e[0][i] = 1.;
      A.evalDirect(e, y);
      P.col(i) = toVec(y[0]);
    }
    return P;
  };
  double lminA = lambdaMin(Ad);
  info["lambda_min_A"] = Value(lminA);
  info["lambda_min_Q"] = Value(lambdaMin(Qd));
  std::vector<double> zs(z.begin(), z.end());
  Vec xchol;
  std::vector<std::vector<double>> rhs;
  double nb = 0;
  double logdetOpChol = std::nan("");
  measure(M, "SolveResidual.MultiCondCs", [&]() {
    PrecisionOpCs pk(mesh.get(), cova);
    PrecisionOpMultiConditionalCs A;
    if (A.push_back(&pk, &B) != 0) throw std::runtime_error("push_back failed");
    setVariance(A);
    A.makeReady();
    rhs = A.computeRhs(zs);
    for (auto& e : rhs) nb += toVec(e).norm();
    std::vector<std::vector<double>> x(1, std::vector<double>(n, 0.));
    A.evalInverse(rhs, x);
    xchol = toVec(x[0]);
    // against the independently assembled system and right-hand side
    put(M, "SolveResidual.MultiCondCs", backwardError(Ad, xchol, rhsWant), 1., "evalInverse");
    put(M, "SolveResidual.Rhs", maxabs(Vec(toVec(rhs[0]) - rhsWant)), maxabs(rhsWant), "computeRhs");
    put(M, "OpEqualsMatrix.MultiCond", maxabs(Mat(matrixOfMulti(A) - Ad)), maxabs(Ad), "cs");
    logdetOpChol = A.computeLogDetOp(1);
  });
  // solver options: stopping threshold, restart period (exact residual recomputed), Jacobi preconditioner
  JacobiMulti jacobi(Ad.diagonal());
  double maxdiag = Ad.diagonal().maxCoeff();
  bool firstCG = true;
  for (auto& ev : c.at("cgepsset").arr)
    for (auto& rv : c.at("cgrestarts").arr)
      for (int precond = 0; precond < 2; precond++)
      {
        double eps = ev.d();
        int restart = rv.i();
        char tag[96];
        snprintf(tag, sizeof tag, "eps=%g restart=%d precond=%d", eps, restart, precond);
        std::string suffix = std::string(restart > 0 ? " restart" : "") + (precond ? " precond" : "");
        measure(M, "SolveResidual.MultiCondCG", [&]() {
          if (rhs.empty()) throw std::runtime_error("no right-hand side");
          PrecisionOp pk(mesh.get(), cova);
          PrecisionOpMultiConditional A;
          if (A.push_back(&pk, &B) != 0) throw std::runtime_error("push_back failed");
          setVariance(A);
          A.setEps(eps);
          A.setNIterMax(c.at("cgnitermax").i());
          if (restart > 0) A.setNIterRestart(restart);
          if (precond) A.setPrecond(&jacobi, 1);
          std::vector<std::vector<double>> x(1, std::vector<double>(n, 0.)), ax(1, std::vector<double>(n, 0.));
          A.evalInverse(rhs, x);
          A.evalDirect(x, ax);
          // stopping rule: r'r / sum|b_i| <= eps, with a preconditioner M: r'Mr / sum|b_i| <= eps, r'Mr >= r'r / max A_ii
          double bound = std::sqrt(eps * nb * (precond ? maxdiag : 1.));
          Vec X = toVec(x[0]), R = toVec(rhs[0]);
          put(M, "SolveResidual.MultiCondCG", (toVec(ax[0]) - R).norm(), bound, "operator" + suffix, tag);
          if (firstCG) put(M, "OpEqualsMatrix.MultiCond", maxabs(Mat(matrixOfMulti(A) - Ad)), maxabs(Ad), "matrixfree");
          firstCG = false;
          put(M, "SolveResidual.MultiCondCGvsAssembled", (Ad * X - R).norm(), bound, "assembled" + suffix, tag);
          if (xchol.size() == n) put(M, "CholEqualsCG.MultiCond", (X - xchol).norm(), bound / lminA, "solution" + suffix, tag);
        });
      }
  bool heavy = c.at("heavy").i() != 0;
  if (heavy) measure(M, "CholEqualsCG.LogDetOp", [&]() {
    PrecisionOp pk(mesh.get(), cova);
    PrecisionOpMultiConditional A;
    if (A.push_back(&pk, &B) != 0) throw std::runtime_error("push_back failed");
    setVariance(A);
    // as SPDE::computeLogLikelihood does, the operator has been applied before (on a fresh PrecisionOp
    // getRangeEigenVal dereferences a polynomial that does not exist yet)
    (void)applyOp(pk, V1);
    law_set_random_seed(c.at("seed").i());
    double v = A.computeLogDetOp(c.at("nbsimu").i());
    put(M, "CholEqualsCG.LogDetOp", std::abs(v - logdetOpChol), std::max(1., std::abs(logdetOpChol)), "computeLogDetOp");
    info["logdetop_chol"] = Value(logdetOpChol);
    info["logdetop_cg"] = Value(v);
  });

  // ------------------------------------------------------------------ several structures, drift: own operators and the SPDE class
  {
    // the model: K Matern structures (+ nugget effect when no variable V) (+ drift)
    int K = mo.has("struct2") ? 2 : 1;
    int order = c.at("driftorder").i();
    std::unique_ptr<Model> modelK(Model::createFromParam(ECov::MATERN, 1., sill, nu, ranges, VectorDouble(), angles));
    if (K == 2)
    {
      const Value& s2 = mo.at("struct2");
      modelK->addCovFromParam(ECov::MATERN, 1., s2.at("sill").d(), s2.at("nu").d(), vd(s2.at("ranges")), VectorDouble(), VectorDouble(nd, 0.));
    }
    if (!hasV) modelK->addCovFromParam(ECov::NUGGET, 0., nugget);
    if (order >= 0) modelK->setDriftIRF(order);
    int p = order < 0 ? 0 : (order == 0 ? 1 : 1 + nd);
    // dense reference, from public parts only: Q_k, A (the same mesh for every structure), D, X
    std::vector<std::unique_ptr<PrecisionOpCs>> pcsK;
    std::vector<std::unique_ptr<PrecisionOp>> popK;
    std::vector<Mat> QK;
    for (int k = 0; k < K; k++)
    {
      pcsK.emplace_back(new PrecisionOpCs(mesh.get(), modelK->getCova(k)));
      popK.emplace_back(new PrecisionOp(mesh.get(), modelK->getCova(k)));
      QK.push_back(denseOf(pcsK[k]->getQ()));
    }
    VectorDouble var = dvar;
    Mat Xd(ndat, p), Xo((int)c.at("targets").size(), p);
    for (int i = 0; i < ndat; i++) { if (p > 0) Xd(i, 0) = 1.; for (int d = 0; d < p - 1; d++) Xd(i, 1 + d) = da.at("x")[i][d].d(); }
    for (int i = 0; i < (int)Xo.rows(); i++) { if (p > 0) Xo(i, 0) = 1.; for (int d = 0; d < p - 1; d++) Xo(i, 1 + d) = c.at("targets")[i][d].d(); }
    Vec Z = toVec(z);
    // everything that depends on the variances is recomputed once they are known (SPDE class without V: floor of the class)
    Mat Sigma, Am, Bm, DinvK, G, Ginv;
    Vec beta;
    double lmK = 0, dab = 0;
    auto assemble = [&]() {
      DinvK = Mat::Zero(ndat, ndat);
      for (int i = 0; i < ndat; i++) DinvK(i, i) = 1. / var[i];
      Sigma = Mat::Zero(ndat, ndat);
      for (int i = 0; i < ndat; i++) Sigma(i, i) = var[i];
      Bm = Mat::Zero(ndat, K * n);
      Am = Mat::Zero(K * n, K * n);
      for (int k = 0; k < K; k++)
      {
        Sigma += Bd * QK[k].ldlt().solve(Mat(Bd.transpose()));
        Bm.block(0, k * n, ndat, n) = Bd;
        Am.block(k * n, k * n, n, n) = QK[k];
      }
      Am += Bm.transpose() * DinvK * Bm;
      lmK = lambdaMin(Am);
      dab = (DinvK * Bm).norm();
      if (p > 0)
      {
        Mat SiX = Sigma.ldlt().solve(Xd);
        G = Xd.transpose() * SiX;
        Ginv = G.inverse();
        beta = Ginv * (SiX.transpose() * Z);
      }
    };
    // bound of the error of evalInvCov(x) by CG with the threshold eps: |D^-1 A|_F sqrt(eps sum_k |A_k' D^-1 x|) / lambda_min
    auto invCovBound = [&](const Vec& x, double eps) { return dab * std::sqrt(eps * K * (Bd.transpose() * DinvK * x).norm()) / lmK; };
    auto coefBound = [&](double eps) {
      double emax = invCovBound(Z, eps);
      for (int j = 0; j < p; j++) emax = std::max(emax, invCovBound(Xd.col(j), eps));
      Eigen::SelfAdjointEigenSolver<Mat> es(0.5 * (G + G.transpose()), Eigen::EigenvaluesOnly);
      return (1. / es.eigenvalues().minCoeff()) * std::sqrt((double)p) * (Z.norm() + Xd.norm() * beta.norm()) * emax;
    };
    assemble();
    info["nstruct"] = Value(K);
    info["ndrift"] = Value(p);

    // ---- own operators: evalInvCov, computeQuadratic, computeCoeffs
    for (int useChol = 1; useChol >= 0; useChol--)
    {
      std::string nm = useChol ? "Cholesky" : "CG";
      measure(M, "InvCov." + nm, [&]() {
        std::unique_ptr<PrecisionOpMultiConditional> A(useChol ? new PrecisionOpMultiConditionalCs() : new PrecisionOpMultiConditional());
        for (int k = 0; k < K; k++)
          if (A->push_back(useChol ? pcsK[k].get() : popK[k].get(), &B) != 0) throw std::runtime_error("push_back failed");
        setVariance(*A);
        A->makeReady();
        double eps = c.at("cgeps").d();
        Vec x2(ndat);                      // a second integer vector on the data (entries of Vec1, cyclically)
        for (int i = 0; i < ndat; i++) x2[i] = v1[i % n];
        std::vector<Vec> xs = {Z, x2};
        for (int j = 0; j < p; j++) xs.push_back(Xd.col(j));
        for (auto& x : xs)
        {
          VectorDouble in = toVD(x);
          std::vector<double> y(ndat, 0.);
          A->evalInvCov(constvect(in.data(), in.size()), y);
          Vec want = Sigma.ldlt().solve(x);
          if (useChol) put(M, "InvCov.Cholesky", (toVec(y) - want).norm(), (DinvK * x).norm(), "evalInvCov");
          else put(M, "InvCov.CG", (toVec(y) - want).norm(), invCovBound(x, eps), "evalInvCov");
          std::vector<double> xv(in.begin(), in.end());
          double q = A->computeQuadratic(xv), qw = x.dot(want);
          if (useChol) put(M, "InvCov.QuadraticCholesky", std::abs(q - qw), x.dot(DinvK * x), "computeQuadratic");
          else put(M, "InvCov.QuadraticCG", std::abs(q - qw), x.norm() * invCovBound(x, eps), "computeQuadratic");
        }
        if (p > 0)
        {
          VectorVectorDouble XX(p);
          for (int j = 0; j < p; j++) XX[j] = toVD(Vec(Xd.col(j)));
          VectorDouble bc = A->computeCoeffs(z, XX);
          if ((int)bc.size() != p) throw std::runtime_error("computeCoeffs returned a wrong number of coefficients");
          if (useChol) put(M, "Drift.CoeffsCholesky", (toVec(bc) - beta).norm(), beta.norm(), "computeCoeffs");
          else put(M, "Drift.CoeffsCG", (toVec(bc) - beta).norm(), coefBound(eps), "computeCoeffs");
        }
      });
    }

    // ---- the SPDE class, both modes
    std::unique_ptr<SPDE> s1, s0;
    VectorDouble est1, est0;
    double bound = std::nan(""), rn = 0, quadWant = std::nan(""), quadRef = 0;
    measure(M, "CholEqualsCG.KrigingSPDE", [&]() {
      s1.reset(new SPDE(modelK.get(), dbout.get(), dbin.get(), ESPDECalcMode::KRIGING, mesh.get(), 1));
      s0.reset(new SPDE(modelK.get(), dbout.get(), dbin.get(), ESPDECalcMode::KRIGING, mesh.get(), 0));
      int u1 = s1->compute(dbout.get());
      est1 = dbout->getColumnByUID(u1);
      int u0 = s0->compute(dbout.get());
      est0 = dbout->getColumnByUID(u0);
      if (est1.empty() || est1.size() != est0.size()) throw std::runtime_error("kriging produced no column");
      // the kriging system assembled independently of the operators of the object: Q_k (PrecisionOpCs::getQ of operators
      // built here), A (ProjMatrix built here), D = the V values; without variable V the variance is the nugget effect
      // raised to the floor of the class: it is read from the object (constant over the data)
      if (!hasV) { var = s1->getPrecisionKrig()->getAllVarianceData(); assemble(); }
      if ((int)var.size() != ndat) throw std::runtime_error("variance of the data and projection matrix do not match");
      double eps = c.at("cgeps").d();
      Vec res = Z;                         // data centred by the drift
      if (p > 0) res = Z - Xd * beta;
      Vec r = Bm.transpose() * DinvK * res;
      double nbs = K * (Bd.transpose() * DinvK * res).norm();
      rn = r.norm();
      bound = std::sqrt(eps * nbs) / lmK;
      double bx = bound;
      info["spde_variance_data"] = jv(s1->getPrecisionKrig()->getAllVarianceData());
      info["spde_lambda_min"] = Value(lmK);
      ProjMatrix Bo(dbout.get(), mesh.get());
      Mat Bod = denseOf(&Bo);
      Mat Bom(Bod.rows(), K * n);
      for (int k = 0; k < K; k++) Bom.block(0, k * n, Bod.rows(), n) = Bod;
      Vec want = Bom * Am.ldlt().solve(r);
      if (p > 0)
      {
        want += Xo * beta;
        // an error db on the coefficients moves the estimate by (X_out - A_out Am^-1 A' D^-1 X) db
        Mat T = Xo - Bom * Am.ldlt().solve(Mat(Bm.transpose() * DinvK * Xd));
        Eigen::JacobiSVD<Mat> svd(T);
        double cb = coefBound(eps);
        bound += svd.singularValues()(0) * cb;
        VectorDouble b1 = s1->getCoeffs(), b0 = s0->getCoeffs();
        if ((int)b1.size() != p || (int)b0.size() != p) throw std::runtime_error("SPDE::getCoeffs returned a wrong number of coefficients");
        put(M, "Drift.CoeffsCholesky", (toVec(b1) - beta).norm(), beta.norm(), "SPDE::getCoeffs");
        put(M, "Drift.CoeffsCG", (toVec(b0) - beta).norm(), cb, "SPDE::getCoeffs");
      }
      // agreement of the two modes, and each against the solution of the assembled system (projected on the targets)
      put(M, "CholEqualsCG.KrigingSPDE", maxabs(Vec(toVec(est1) - toVec(est0))), bound, "chol-cg");
      put(M, "CholEqualsCG.KrigingSPDE", maxabs(Vec(toVec(est0) - want)), bound, "cg-assembled");
      put(M, "CholEqualsCG.KrigingSPDE", maxabs(Vec(toVec(est1) - want)), bound, "chol-assembled");
      // the same through the function krigingSPDE
      for (int useChol = 1; useChol >= 0; useChol--)
      {
        int ncol = dbout->getColumnNumber();
        if (krigingSPDE(dbin.get(), dbout.get(), modelK.get(), nullptr, true, false, mesh.get(), useChol) < 0 || dbout->getColumnNumber() != ncol + 1)
          throw std::runtime_error("krigingSPDE produced no column");
        VectorDouble e = dbout->getColumnByColIdx(ncol);
        put(M, "CholEqualsCG.KrigingSPDE", maxabs(Vec(toVec(e) - want)), bound, useChol ? "krigingSPDE(chol)-assembled" : "krigingSPDE(cg)-assembled");
      }
      // quadratic term of the likelihood (z - X beta)' Sigma^-1 (z - X beta)
      quadWant = res.dot(Sigma.ldlt().solve(res));
      quadRef = res.norm() * invCovBound(res, eps) + (p > 0 ? 2. * (Sigma.ldlt().solve(res)).norm() * Xd.norm() * coefBound(eps) : 0.);
      (void)bx;
    });
    measure(M, "CholEqualsCG.Quadratic", [&]() {
      if (!s1 || !s0 || std::isnan(bound)) throw std::runtime_error("kriging by the SPDE class failed");
      double q1 = s1->computeQuad(), q0 = s0->computeQuad();
      put(M, "CholEqualsCG.Quadratic", std::abs(q1 - q0), quadRef, "computeQuad");
      put(M, "CholEqualsCG.Quadratic", std::abs(q1 - quadWant), quadRef + 1e-9 * std::abs(quadWant), "chol-assembled");
      put(M, "CholEqualsCG.Quadratic", std::abs(q0 - quadWant), quadRef + 1e-9 * std::abs(quadWant), "cg-assembled");
      info["quad_chol"] = Value(q1);
      info["quad_cg"] = Value(q0);
      info["quad_dense"] = Value(quadWant);
    });
    if (heavy) measure(M, "CholEqualsCG.LogLikelihood", [&]() {
      SPDE l1(modelK.get(), dbout.get(), dbin.get(), ESPDECalcMode::KRIGING, mesh.get(), 1);
      SPDE l0(modelK.get(), dbout.get(), dbin.get(), ESPDECalcMode::KRIGING, mesh.get(), 0);
      law_set_random_seed(c.at("seed").i());
      double a = l1.computeLogLikelihood(c.at("nbsimu").i());
      law_set_random_seed(c.at("seed").i());
      double b = l0.computeLogLikelihood(c.at("nbsimu").i());
      put(M, "CholEqualsCG.LogLikelihood", std::abs(a - b), std::max(1., std::abs(a)), "computeLogLikelihood");
      info["loglike_chol"] = Value(a);
      info["loglike_cg"] = Value(b);
      double c1 = logLikelihoodSPDE(dbin.get(), modelK.get(), dbout.get(), mesh.get(), 1, c.at("nbsimu").i());
      put(M, "CholEqualsCG.LogLikelihoodEntryPoints", std::abs(a - c1), std::max(1., std::abs(a)), "logLikelihoodSPDE(chol)-SPDE(chol)");
    });
  }

  // ------------------------------------------------------------------ SPDEOp / SPDEOpMatrix / krigingSPDENew
  {
    std::unique_ptr<MatrixSparse> invnoise;
    Mat An;
    Vec rn, xc;
    double lm = 0;
    measure(M, "SolveResidual.SPDEOpMatrix", [&]() {
      ProjMultiMatrix AM = ProjMultiMatrix::createFromDbAndMeshes(dbin.get(), meshes);
      invnoise.reset(buildInvNugget(dbin.get(), model2.get()));
      if (invnoise == nullptr) throw std::runtime_error("buildInvNugget returned null");
      PrecisionOpMultiMatrix Qop(model2.get(), meshes);
      SPDEOpMatrix sm(&Qop, &AM, invnoise.get());
      Mat Pd = denseOf(AM.getProj()), Nd = denseOf(invnoise.get()), Qn = denseOf(Qop.getQ());
      An = Qn + Pd.transpose() * Nd * Pd;
      rn = Pd.transpose() * Nd * toVec(z);
      // with a variable V the system is known from the V values alone: Q + A' D^-1 A (no public part of the operator used)
      if (hasV) { An = Ad; rn = rhsWant; }
      lm = lambdaMin(An);
      VectorDouble x = sm.kriging(z);
      if ((int)x.size() != n) throw std::runtime_error("SPDEOpMatrix::kriging failed");
      xc = toVec(x);
      put(M, "SolveResidual.SPDEOpMatrix", backwardError(An, xc, rn), 1., "kriging");
      put(M, "OpEqualsMatrix.SPDEOpMatrix", maxabs(Mat(matrixOfOp(sm, n) - An)), maxabs(An), "evalDirect = assembled");
    });
    for (auto& tv : c.at("eigentolset").arr)
    {
      double tol = tv.d();
      char tag[64];
      snprintf(tag, sizeof tag, "tol=%g", tol);
      measure(M, "SolveResidual.EigenCG", [&]() {
        if (xc.size() != n) throw std::runtime_error("no Cholesky solution");
        ProjMultiMatrix AM = ProjMultiMatrix::createFromDbAndMeshes(dbin.get(), meshes);
        PrecisionOpMulti Qop(model2.get(), meshes);
        MatrixSquareSymmetricSim invnoisep(invnoise.get());
        SPDEOp so(&Qop, &AM, &invnoisep);
        so.setMaxIterations(1000);
        so.setTolerance(tol);
        VectorDouble x = so.kriging(z);
        if ((int)x.size() != n) throw std::runtime_error("SPDEOp::kriging failed");
        Vec X = toVec(x);
        put(M, "SolveResidual.EigenCG", (An * X - rn).norm(), tol * rn.norm(), "assembled", tag);
        put(M, "SolveResidual.EigenCG", (applyOp(so, X) - rn).norm(), tol * rn.norm(), "operator", tag);
        put(M, "CholEqualsCG.SPDEOp", (X - xc).norm(), tol * rn.norm() / lm, "solution", tag);
        put(M, "OpEqualsMatrix.SPDEOp", maxabs(Mat(matrixOfOp(so, n) - An)), maxabs(An), "matrixfree = assembled", tag);
      });
    }
    measure(M, "CholEqualsCG.KrigingSPDENew", [&]() {
      if (lm <= 0) throw std::runtime_error("no assembled system");
      VectorDouble r1 = krigingSPDENew(dbin.get(), dbout.get(), model2.get(), meshes, 1);
      VectorDouble r0 = krigingSPDENew(dbin.get(), dbout.get(), model2.get(), meshes, 0);
      if (r1.empty() || r1.size() != r0.size()) throw std::runtime_error("krigingSPDENew returned nothing");
      double bound = c.at("eigentolnew").d() * rn.norm() / lm;
      put(M, "CholEqualsCG.KrigingSPDENew", maxabs(Vec(toVec(r1) - toVec(r0))), bound, "chol-cg");
      ProjMatrix Bo(dbout.get(), mesh.get());
      Vec want = denseOf(&Bo) * An.ldlt().solve(rn);
      put(M, "CholEqualsCG.KrigingSPDENew", maxabs(Vec(toVec(r1) - want)), bound, "chol-assembled");
    });
  }

  // ------------------------------------------------------------------ stochastic log-determinant of Q
  if (heavy) measure(M, "LogDetStochastic.Q", [&]() {
    int N = c.at("nlogdet").i();
    law_set_random_seed(c.at("seed").i());
    PrecisionOp pl(mesh.get(), cova);
    double s = 0, s2 = 0;
    for (int k = 0; k < N; k++) { double v = pl.getLogDeterminant(1); s += v; s2 += v * v; }
    double mean = s / N, var = std::max(0., s2 / N - mean * mean) * N / (N - 1.);
    double se = std::sqrt(var / N);
    put(M, "LogDetStochastic.Q", std::abs(mean - logdetQ), se + 1e-3 * n / 8., "getLogDeterminant");
    info["logdetQ_chol"] = Value(logdetQ);
    info["logdetQ_mc_mean"] = Value(mean);
    info["logdetQ_mc_stderr"] = Value(se);
  });
  o["measures"] = M;
  o["info"] = info;
}

// ------------------------------------------------------------------------------------------------ polynomials

static void runPoly(const Value& c, Value& o)
{
  VectorDouble coefs = vd(c.at("coefs")), diag = vd(c.at("diag")), x = vd(c.at("x"));
  int n = (int)diag.size();
  NF_Triplet t;
  for (int i = 0; i < n; i++) t.add(i, i, diag[i]);
  t.force(n, n);
  std::unique_ptr<MatrixSparse> S(MatrixSparse::createFromTriplet(t));
  Value R = Value::object();
  ClassicalPolynomial P(coefs);
  guarded(R, "scalar@ClassicalPolynomial::eval", [&]() { VectorDouble r; for (double d : diag) r.push_back(P.eval(d)); R["scalar@ClassicalPolynomial::eval"] = jv(r); });
  guarded(R, "classical@ClassicalPolynomial::evalOp", [&]() {
    VectorDouble y(n, -7.);
    P.evalOp(S.get(), constvect(x.data(), x.size()), vect(y.data(), y.size()));
    R["classical@ClassicalPolynomial::evalOp"] = jv(y);
  });
  guarded(R, "classical@ClassicalPolynomial::evalOpCumul", [&]() {
    VectorDouble y(n, 0.);
    P.evalOpCumul(S.get(), constvect(x.data(), x.size()), vect(y.data(), y.size()));
    R["classical@ClassicalPolynomial::evalOpCumul"] = jv(y);
  });
  guarded(R, "classical@ClassicalPolynomial::addEvalOp", [&]() {
    VectorDouble y(n, 0.);
    P.addEvalOp(S.get(), constvect(x.data(), x.size()), vect(y.data(), y.size()));
    R["classical@ClassicalPolynomial::addEvalOp"] = jv(y);
  });
  guarded(R, "classical@ClassicalPolynomial::evalOpTraining", [&]() {
    std::vector<std::vector<double>> store(coefs.size(), std::vector<double>(n, 0.));
    std::vector<double> work(n, 0.);
    P.evalOpTraining(S.get(), constvect(x.data(), x.size()), store, work);
    R["classical@ClassicalPolynomial::evalOpTraining"] = jv(store[0]);
  });
  if (coefs.size() >= 2)
    guarded(R, "scalar@ClassicalPolynomial::evalOpByRank", [&]() {
      VectorDouble r;
      for (int i = 0; i < n; i++) r.push_back(P.evalOpByRank(S.get(), i));
      R["scalar@ClassicalPolynomial::evalOpByRank"] = jv(r);
    });
  if (coefs.size() >= 2)
  {
    std::unique_ptr<Chebychev> C(Chebychev::createFromCoeffs(coefs));
    C->setA(-2.);
    C->setB(2.);
    C->setNcMax((int)coefs.size());
    guarded(R, "chebscalar@Chebychev::eval", [&]() { VectorDouble r; for (double d : diag) r.push_back(C->eval(d)); R["chebscalar@Chebychev::eval"] = jv(r); });
    guarded(R, "cheb@Chebychev::evalOp", [&]() {
      VectorDouble y(n, -7.);
      C->evalOp(S.get(), constvect(x.data(), x.size()), vect(y.data(), y.size()));
      R["cheb@Chebychev::evalOp"] = jv(y);
    });
  }
  o["results"] = R;
}

static void runOps(const Value& c, Value& o)
{
  if (c.at("k").s() == "poly") runPoly(c, o);
  else runConfig(c, o);
}
