// CovCache replay (C10): histories of CovCache.tla on ONE real Model object; every optimised
// evaluation is compared with the pairwise double loop Model::eval on the Db it was given, every
// kriging with the same kriging done with a freshly built Model.
#pragma once
namespace cc {

static Db* makeDb(const std::string& id, bool valid)
{
  static const double AX[5] = {0.31, 1.72, 2.55, 0.93, 2.11}, AY[5] = {0.42, 0.27, 1.61, 2.33, 2.48};
  static const double BX[5] = {3.15, 0.44, 1.28, 2.71, 0.86}, BY[5] = {1.95, 2.87, 0.66, 0.35, 1.52};
  static const double V[5] = {1.2, -0.4, 0.7, 2.1, -1.3};
  VectorDouble tab;
  for (int i = 0; i < 5; i++) tab.push_back(id == "A" ? AX[i] : BX[i]);
  for (int i = 0; i < 5; i++) tab.push_back(id == "A" ? AY[i] : BY[i]);
  for (int i = 0; i < 5; i++) tab.push_back(V[i] + (id == "A" ? 0. : 0.5));
  Db* db = Db::createFromSamples(5, ELoadBy::COLUMN, tab, {"x1", "x2", "z1"}, {"x1", "x2", "z1"}, false);
  if (!valid)
  {
    VectorDouble sel(5, 0.);
    db->addSelection(sel, "allmasked");
  }
  return db;
}
static Model* makeModel()
{
  SpaceRN space(2);
  Model* m = Model::createFromParam(ECov::EXPONENTIAL, 1., 1.3, 1., {2.5, 0.9}, VectorDouble(), {30., 0.}, &space);
  m->addCovFromParam(ECov::SPHERICAL, 1.7, 0.6);
  m->addCovFromParam(ECov::NUGGET, 0., 0.2);
  return m;
}
static VectorDouble reference(const Model* m, const Db* db)
{
  VectorDouble r;
  int n = db->getSampleNumber();
  for (int i = 0; i < n; i++)
    for (int j = 0; j < n; j++)
    {
      SpacePoint p1(db->getSampleCoordinates(i)), p2(db->getSampleCoordinates(j));
      double c = m->eval(p1, p2);
      r.push_back(c);
    }
  return r;
}
static VectorDouble krige(Db* db, Model* m)
{
  DbGrid* g = DbGrid::create({2, 2}, {1.1, 1.3}, {0.6, 0.5});
  NeighUnique* nb = NeighUnique::create();
  VectorDouble out;
  if (kriging(db, g, m, nb, EKrigOpt::POINT, true, true) == 0)
  {
    out = g->getColumn("Kriging.z1.estim");
    VectorDouble s = g->getColumn("Kriging.z1.stdev");
    out.insert(out.end(), s.begin(), s.end());
  }
  delete g; delete nb;
  return out;
}

Value run(const Value& script)
{
  Model* m = makeModel();
  Value obs = Value::array();
  int step = 0;
  for (auto& h : script.at("hist").arr)
  {
    step++;
    std::string op = h.at("op").s(), id = h.at("db").s();
    bool valid = h.at("valid").boolean();
    Db* db = makeDb(id, valid);
    Value o = Value::object();
    o["step"] = Value(step); o["op"] = Value(op);
    VectorDouble got, want;
    if (op == "optim") got = flat(&static_cast<const AMatrix&>(m->evalCovMatrixOptim(db, db)));
    else if (op == "symoptim") got = flat(&static_cast<const AMatrix&>(m->evalCovMatrixSymmetricOptim(db)));
    else if (op == "plain") got = flat(&static_cast<const AMatrix&>(m->evalCovMatrix(db, db)));
    else if (op == "kriging")
    {
      got = krige(db, m);
      Model* f = makeModel();
      want = krige(db, f);
      delete f;
    }
    if (op != "kriging" && valid) want = reference(m, db);
    o["n"] = Value((int)got.size()); o["nwant"] = Value((int)want.size());
    o["reldiff"] = Value(maxRelDiff(got, want));
    if (got.size() <= 50) { o["value"] = vec(got); o["want"] = vec(want); }
    obs.push(o);
    delete db;
  }
  delete m;
  return obs;
}
}  // namespace cc
