// C18 binding: executes on REAL gstlearn objects the scenarios (fit / copy / apply / invert, re-fits
// included) enumerated by TLC from spec/Transforms.tla, and reports per step the PROJECTION of what the
// library did: return codes, NA patterns, validity-domain masks (from the bounds the fitted object
// reports), dense rank patterns of input and output, agreement between the entry points computing the same
// function, algebraic identities evaluated on the public state of the fitted objects, and per produced
// array the numerical distance to (a) the earlier arrays the specification says it equals and (b) its
// normal form evaluated with FRESH objects.  No verdict is taken here: TLC (TraceTransforms) judges.
//
// usage: transf_run <data.json> <cases.ndjson> <out.ndjson> <shard> <nshards> <start>
//   cases are numbered by line (0-based); this process handles lines l >= start with l % nshards == shard;
//   on a crash of the library the signal handler appends {"id":l,"crash":sig} and exits 88.
#include "vjson.hpp"
#include "Anamorphosis/AnamHermite.hpp"
#include "Anamorphosis/AnamEmpirical.hpp"
#include "Anamorphosis/AnamContinuous.hpp"
#include "Anamorphosis/CalcAnamTransform.hpp"
#include "Polynomials/Hermite.hpp"
#include "Basic/VectorHelper.hpp"
#include "Basic/Law.hpp"
#include "Basic/NamingConvention.hpp"
#include "Db/Db.hpp"
#include "Stats/PCA.hpp"
#include "Geometry/Rotation.hpp"
#include "Matrix/MatrixSquareGeneral.hpp"
#include "Matrix/MatrixSquareSymmetric.hpp"
#include "Enum/ELoc.hpp"
#include <Eigen/Dense>
#include <csignal>
#include <unistd.h>
#include <algorithm>
#include <map>
#include <set>
#include <memory>

using vj::Value;

static const int EXACT0 = -9999;
static const int EINF = 9999;

// error -> integer code: ceil(100*log10(err)); 0 -> EXACT0; nan/inf -> EINF
static int ecode(double err)
{
  if (std::isnan(err) || std::isinf(err)) return EINF;
  if (err <= 0.) return EXACT0;
  double c = std::ceil(100. * std::log10(err));
  if (c < -9000) return -9000;
  if (c > 9000) return 9000;
  return (int)c;
}
static bool isNA(double x) { return FFFF(x) || std::isnan(x); }

// ---------------------------------------------------------------------------------- data sets
struct DataSet
{
  std::string name, scale;
  int n = 0, nvar = 0;
  std::vector<std::vector<double>> v;   // nvar x n, NA -> TEST
  std::vector<int> sel;
};
static std::map<std::string, DataSet> DATA;
struct RotEl { int dim, den; std::vector<std::vector<int>> m; };
static std::map<int, RotEl> ROT;

static void loadData(const std::string& path)
{
  Value d = vj::readFile(path);
  int na = d.at("na").i();
  for (auto& kv : d.at("data").obj)
  {
    DataSet ds;
    ds.name = kv.first;
    ds.scale = kv.second.at("scale").s();
    ds.n = kv.second.at("n").i();
    ds.nvar = kv.second.at("nvar").i();
    for (auto& var : kv.second.at("vars").arr)
    {
      std::vector<double> col;
      double den = kv.second.getd("den", 1.);
      for (auto& e : var.arr) col.push_back(e.i() == na ? TEST : (double)e.i() / den);
      ds.v.push_back(col);
    }
    ds.sel = kv.second.at("sel").ints();
    DATA[ds.name] = ds;
  }
  int g = 1;
  for (auto& r : d.at("rot").arr)
  {
    RotEl e;
    e.dim = r.at("dim").i();
    e.den = r.at("den").i();
    for (auto& row : r.at("m").arr) e.m.push_back(row.ints());
    ROT[g++] = e;
  }
}

// ---------------------------------------------------------------------------------- arrays
struct Arr
{
  int n = 0, nvar = 0;
  std::string scale;
  std::vector<std::vector<double>> v;  // nvar x n
  std::vector<int> act;                // selection of the base data set
  std::vector<int> dom;                // active, defined, never left a validity domain
  std::shared_ptr<AnamContinuous> ref; // anamorphosis that produced the array (comparison scale)
};
static Arr fromData(const DataSet& ds)
{
  Arr a;
  a.n = ds.n; a.nvar = ds.nvar; a.scale = ds.scale; a.v = ds.v; a.act = ds.sel;
  a.dom.assign(ds.n, 0);
  for (int i = 0; i < ds.n; i++)
  {
    bool ok = ds.sel[i] != 0;
    for (int k = 0; k < ds.nvar; k++) if (isNA(ds.v[k][i])) ok = false;
    a.dom[i] = ok ? 1 : 0;
  }
  return a;
}
static std::vector<int> naCount(const Arr& a)
{
  std::vector<int> r(a.n, 0);
  for (int i = 0; i < a.n; i++) for (int k = 0; k < a.nvar; k++) if (isNA(a.v[k][i])) r[i]++;
  return r;
}
// dense ranks of values restricted to mask (others -1).  Values closer than 1e-12 (relative) are one class:
// a plateau of a piecewise-linear table is reproduced to the last bit only (29 vs 29.000000000000004).
static std::vector<int> denseRank(const std::vector<double>& x, const std::vector<int>& mask)
{
  std::vector<double> vals;
  for (size_t i = 0; i < x.size(); i++) if (mask[i]) vals.push_back(x[i]);
  std::sort(vals.begin(), vals.end());
  std::vector<double> reps;     // first value of each class
  std::vector<double> last;     // last value of each class (chained)
  for (double v : vals)
  {
    if (!reps.empty() && v - last.back() <= 1e-12 * std::max(1., std::fabs(v))) { last.back() = v; continue; }
    reps.push_back(v); last.push_back(v);
  }
  std::vector<int> r(x.size(), -1);
  for (size_t i = 0; i < x.size(); i++)
    if (mask[i]) r[i] = (int)(std::upper_bound(reps.begin(), reps.end(), x[i]) - reps.begin()) - 1;
  return r;
}

// Db holding an array: lattice coordinates 4 wide, variables with locator Z, selection when some sample is masked
static Db* makeDb(const Arr& a)
{
  Db* db = Db::create();
  VectorDouble x(a.n), y(a.n), s(a.n);
  bool masked = false;
  for (int i = 0; i < a.n; i++) { x[i] = i % 4; y[i] = i / 4; s[i] = a.act[i] ? 1. : 0.; if (!a.act[i]) masked = true; }
  db->addColumns(x, "x", ELoc::X, 0);
  db->addColumns(y, "y", ELoc::X, 1);
  for (int k = 0; k < a.nvar; k++)
    db->addColumns(VectorDouble(a.v[k]), "v" + std::to_string(k + 1), ELoc::Z, k);
  if (masked) db->addColumns(s, "sel", ELoc::SEL, 0);
  return db;
}
static VectorDouble compressActive(const Arr& a, int k = 0)
{
  VectorDouble r;
  for (int i = 0; i < a.n; i++) if (a.act[i]) r.push_back(a.v[k][i]);
  return r;
}

// ---------------------------------------------------------------------------------- comparisons
struct Cmp { int e = EXACT0; int n = 0; };

// distance between two arrays on the elements in both domains.  For anamorphoses the distance is the
// smaller of the distances in the raw scale (relative to |Phi(1)-Phi(-1)|) and in the Gaussian scale.
static Cmp compareArr(const Arr& a, const Arr& b, const std::string& kind, const std::vector<int>* maskOnly = nullptr)
{
  Cmp c;
  if (a.n != b.n || a.nvar != b.nvar) { c.e = EINF; return c; }
  double err = 0., big = 1.;
  const AnamContinuous* ref = a.ref ? a.ref.get() : b.ref.get();
  bool anam = (kind == "AH" || kind == "AE") && ref != nullptr;
  double spread = 1.;
  if (anam)
  {
    spread = std::fabs(ref->transformToRawValue(1.) - ref->transformToRawValue(-1.));
    if (!(spread > 0.) || isNA(spread)) spread = 1.;
  }
  for (int i = 0; i < a.n; i++)
  {
    bool use = maskOnly ? ((*maskOnly)[i] != 0) : (a.dom[i] && b.dom[i]);
    if (!use) continue;
    for (int k = 0; k < a.nvar; k++)
    {
      double p = a.v[k][i], q = b.v[k][i];
      c.n++;
      if (isNA(p) != isNA(q)) { err = INFINITY; continue; }
      if (isNA(p)) continue;
      if (anam)
      {
        double e1, e2;
        if (a.scale == "raw") { e1 = std::fabs(p - q) / spread; e2 = std::fabs(ref->rawToTransformValue(p) - ref->rawToTransformValue(q)); }
        else { e2 = std::fabs(p - q); e1 = std::fabs(ref->transformToRawValue(p) - ref->transformToRawValue(q)) / spread; }
        if (isNA(e2)) e2 = INFINITY;
        err = std::max(err, std::min(e1, e2));
      }
      else
      {
        big = std::max(big, std::max(std::fabs(p), std::fabs(q)));
        err = std::max(err, std::fabs(p - q));
      }
    }
  }
  if (!anam) err /= big;
  c.e = ecode(err);
  return c;
}
static Value formRec(const std::string& name, int err, const Cmp& c)
{
  Value f = Value::object();
  f["name"] = Value(name); f["err"] = Value(err); f["e"] = Value(c.e); f["n"] = Value(c.n);
  return f;
}
static Value algRec(const std::string& name, double err)
{
  Value f = Value::object();
  f["name"] = Value(name); f["e"] = Value(ecode(err));
  return f;
}
static double vecDist(const VectorDouble& a, const VectorDouble& b)
{
  if (a.size() != b.size()) return INFINITY;
  double e = 0., big = 1.;
  for (size_t i = 0; i < a.size(); i++)
  {
    if (isNA(a[i]) != isNA(b[i])) return INFINITY;
    if (isNA(a[i])) continue;
    big = std::max(big, std::fabs(a[i]));
    e = std::max(e, std::fabs(a[i] - b[i]));
  }
  return e / big;
}

// ---------------------------------------------------------------------------------- Hermite polynomials
// Gram matrix of the library's normalised Hermite polynomials H_0..H_{N-1} for the Gaussian law, by the
// N-point Gauss-Hermite rule: exact for degree <= 2N-1, the products have degree <= 2N-2.  Nodes = eigenvalues
// of the Jacobi matrix of the orthonormal three-term recurrence x p_k = sqrt(k+1) p_{k+1} + sqrt(k) p_{k-1}
// (Eigen); weights = 1 / sum_{k<N} p_k(x)^2 with p_k evaluated HERE by that recurrence (independent of the
// library: the eigenvector formula loses the tiny weights at high order).
static double hermiteGramResidual(int N)
{
  if (N < 1) return 0.;
  Eigen::MatrixXd J = Eigen::MatrixXd::Zero(N, N);
  for (int k = 1; k < N; k++) J(k, k - 1) = J(k - 1, k) = std::sqrt((double)k);
  Eigen::SelfAdjointEigenSolver<Eigen::MatrixXd> es(J);
  Eigen::MatrixXd G = Eigen::MatrixXd::Zero(N, N);
  for (int q = 0; q < N; q++)
  {
    double x = es.eigenvalues()(q);
    std::vector<double> p(N);
    p[0] = 1.;
    if (N > 1) p[1] = x;
    for (int k = 1; k + 1 < N; k++) p[k + 1] = (x * p[k] - std::sqrt((double)k) * p[k - 1]) / std::sqrt((double)(k + 1));
    double s = 0.; for (int k = 0; k < N; k++) s += p[k] * p[k];
    double w = 1. / s;
    VectorDouble h = hermitePolynomials(x, 1., N);
    for (int i = 0; i < N; i++) for (int j = 0; j < N; j++) G(i, j) += w * h[i] * h[j];
  }
  double e = 0.;
  for (int i = 0; i < N; i++) for (int j = 0; j < N; j++) e = std::max(e, std::fabs(G(i, j) - (i == j ? 1. : 0.)));
  return e;
}
// the selection-by-rank entry point must return the same polynomials
static double hermiteRankFormResidual(int N)
{
  double e = 0.;
  VectorInt ifacs;
  for (int i = N - 1; i >= 0; i -= 2) ifacs.push_back(i);
  for (double y : {-2.5, -0.3, 0., 1.1, 3.})
  {
    VectorDouble all = hermitePolynomials(y, 1., N);
    VectorDouble some = hermitePolynomials(y, 1., ifacs);
    for (int k = 0; k < (int)ifacs.size(); k++) e = std::max(e, std::fabs(some[k] - all[ifacs[k]]) / std::max(1., std::fabs(all[ifacs[k]])));
  }
  return e;
}

// ---------------------------------------------------------------------------------- scenario engine
struct Fit { std::string data; int opt = 0; };

struct Engine
{
  std::string kind;
  // anamorphoses: main object fitted through fitFromArray, two more through the Db entry points
  std::shared_ptr<AnamContinuous> o, c, oDb, oLoc;
  std::shared_ptr<PCA> po, pc;
  std::shared_ptr<Rotation> ro, rc;
  int rotDen = 1;
  int r100 = 100;     // current change-of-support coefficient of the Hermite object (percent)

  // r100 = change-of-support coefficient in percent (Hermite only; 100 = point support)
  static std::shared_ptr<AnamContinuous> newAnam(const std::string& kind, int opt, int r100 = 100)
  {
    if (kind == "AH") return std::make_shared<AnamHermite>(opt, true, r100 / 100.);
    return std::make_shared<AnamEmpirical>(100, TEST, opt > 0, opt != 2);
  }
  static VectorDouble anamState(const AnamContinuous* a)
  {
    VectorDouble s;
    if (auto h = dynamic_cast<const AnamHermite*>(a)) { s = h->getPsiHns(); s.push_back(h->getMean()); s.push_back(h->getVariance()); s.push_back(h->getRCoef()); }
    if (auto e = dynamic_cast<const AnamEmpirical*>(a))
    {
      s.push_back(e->getNDisc()); s.push_back(e->getSigma2e());
      for (double x : e->getZDisc()) s.push_back(x);
      for (double x : e->getYDisc()) s.push_back(x);
    }
    for (double x : {a->getAzmin(), a->getAzmax(), a->getAymin(), a->getAymax(), a->getPzmin(), a->getPzmax(), a->getPymin(), a->getPymax()})
      s.push_back(x);
    return s;
  }
  static VectorDouble pcaState(const PCA* p)
  {
    VectorDouble s;
    s.push_back(p->getNVar());
    for (double x : p->getMeans()) s.push_back(x);
    for (double x : p->getSigmas()) s.push_back(x);
    for (double x : p->getEigVals()) s.push_back(x);
    for (double x : p->getEigVecs().getValues()) s.push_back(x);
    for (double x : p->getC0().getValues()) s.push_back(x);
    for (double x : p->getZ2Fs().getValues()) s.push_back(x);
    for (double x : p->getF2Zs().getValues()) s.push_back(x);
    return s;
  }
  static int fitAnam(AnamContinuous* a, const DataSet& ds, int form)
  {
    Arr arr = fromData(ds);
    if (form == 0) return a->fitFromArray(compressActive(arr));
    Db* db = makeDb(arr);
    int err = (form == 1) ? a->fit(db, "v1") : a->fitFromLocator(db);
    delete db;
    return err;
  }
  // validity domain the fitted object reports: inside the practical AND the absolute interval.  After a change
  // of support the object keeps the Gaussian interval; the raw values it can invert are the image of that
  // interval by its own (block) transformToRawValue, inside the raw interval it still reports.
  static bool inValidity(const AnamContinuous* a, const std::string& dir, double x)
  {
    if (isNA(x)) return false;
    // the intervals are OPEN (Interval excludes both ends: the bound itself is already treated as outside)
    if (a->isChangeSupportDefined())
    {
      double ylo = std::max(a->getPymin(), a->getAymin()), yhi = std::min(a->getPymax(), a->getAymax());
      if (dir != "fwd") return x > ylo && x < yhi;
      if (!(x > std::max(a->getPzmin(), a->getAzmin()) && x < std::min(a->getPzmax(), a->getAzmax()))) return false;
      double zlo = a->transformToRawValue(ylo + 1e-9), zhi = a->transformToRawValue(yhi - 1e-9);
      return !(isNA(zlo) || isNA(zhi) || !(x > zlo && x < zhi));
    }
    // point support: the absolute interval, linear tail extensions included
    if (dir != "fwd") return x > a->getAymin() && x < a->getAymax();
    return x > a->getAzmin() && x < a->getAzmax();
  }
  static int fitPca(PCA* p, const std::string& kind, const DataSet& ds, int opt)
  {
    Arr arr = fromData(ds);
    Db* db = makeDb(arr);
    int err = (kind == "PCA") ? p->pca_compute(db, false, opt != 0) : p->maf_compute_interval(db, opt - 0.5, opt + 0.5, false);
    delete db;
    return err;
  }
  static int setRot(Rotation* r, const RotEl& e)
  {
    r->resetFromSpaceDimension(e.dim);
    MatrixSquareGeneral m(e.dim);
    for (int i = 0; i < e.dim; i++) for (int j = 0; j < e.dim; j++) m.setValue(i, j, (double)e.m[i][j] / e.den);
    return r->setMatrixDirect(m);
  }

  // ---- canonical application (vector form); fills out, returns the return code
  int applyAnam(const AnamContinuous* a, const std::string& dir, const Arr& in, Arr& out) const
  {
    out = in;
    out.scale = (dir == "fwd") ? "gauss" : "raw";
    VectorDouble x(in.v[0]);
    VectorDouble y = (dir == "fwd") ? a->rawToGaussianVector(x) : a->gaussianToRawVector(x);
    if ((int)y.size() != in.n) return 1;
    out.v[0] = y.getVector();
    for (int i = 0; i < in.n; i++) out.dom[i] = (in.dom[i] && inValidity(a, dir, in.v[0][i])) ? 1 : 0;
    out.ref = std::shared_ptr<AnamContinuous>(dynamic_cast<AnamContinuous*>(a->clone()));
    return 0;
  }
  int applyPca(PCA* p, const std::string& dir, const Arr& in, Arr& out, int* ncolAdded = nullptr) const
  {
    out = in;
    out.scale = (dir == "fwd") ? "fac" : "vars";
    Db* db = makeDb(in);
    int before = db->getColumnNumber();
    int err = (dir == "fwd") ? p->dbZ2F(db, false, NamingConvention("F", false)) : p->dbF2Z(db, false, NamingConvention("Z", false));
    int after = db->getColumnNumber();
    if (ncolAdded) *ncolAdded = after - before;
    if (err == 0 && after - before == in.nvar)
      for (int k = 0; k < in.nvar; k++) out.v[k] = db->getColumnByColIdx(before + k, false, false).getVector();
    else if (err == 0) err = 77;
    delete db;
    return err;
  }
  int applyRot(const Rotation* r, const std::string& dir, const Arr& in, Arr& out) const
  {
    out = in;
    if ((int)r->getNDim() != in.nvar) return 1;
    for (int i = 0; i < in.n; i++)
    {
      VectorDouble p(in.nvar), q(in.nvar);
      for (int k = 0; k < in.nvar; k++) p[k] = in.v[k][i];
      if (dir == "fwd") r->rotateDirect(p, q); else r->rotateInverse(p, q);
      for (int k = 0; k < in.nvar; k++) out.v[k][i] = q[k];
    }
    return 0;
  }
  static void applyNs(const Arr& in, Arr& out)
  {
    out = in;
    out.scale = "gauss";
    VectorDouble x = compressActive(in);
    VectorDouble y = VH::normalScore(x);
    int j = 0;
    for (int i = 0; i < in.n; i++)
    {
      if (in.act[i]) out.v[0][i] = (j < (int)y.size()) ? y[j++] : TEST;
      else out.v[0][i] = TEST;
      out.dom[i] = (in.act[i] && !isNA(in.v[0][i])) ? 1 : 0;
    }
  }
};

// evaluation of a normal form with FRESH objects
static bool evalFresh(const std::string& kind, const std::string& base, const Value& nf, Arr& out)
{
  Arr cur = fromData(DATA.at(base));
  for (auto& h : nf.arr)
  {
    std::string dir = h.at("dir").s();
    Arr nxt;
    if (kind == "NS") { Engine::applyNs(cur, nxt); cur = nxt; continue; }
    std::string fd = h.at("fit").at("data").s();
    int opt = h.at("fit").at("opt").i();
    Engine eng; eng.kind = kind;
    if (kind == "AH" || kind == "AE")
    {
      int r100 = h.at("fit").geti("r", 100);
      auto a = Engine::newAnam(kind, opt);
      if (Engine::fitAnam(a.get(), DATA.at(fd), 0) != 0) return false;
      if (r100 != 100 && a->updatePointToBlock(r100 / 100.) != 0) return false;   // canonical route: fit the point model, then change the support
      if (eng.applyAnam(a.get(), dir, cur, nxt) != 0) return false;
    }
    else if (kind == "PCA" || kind == "MAF")
    {
      PCA p;
      if (Engine::fitPca(&p, kind, DATA.at(fd), opt) != 0) return false;
      if (eng.applyPca(&p, dir, cur, nxt) != 0) return false;
    }
    else return false;
    cur = nxt;
  }
  out = cur;
  return true;
}

static Value intsV(const std::vector<int>& v) { Value a = Value::array(); for (int x : v) a.push(Value(x)); return a; }

// identities of the state (coefficients, r) of a Hermite anamorphosis, point or block support
static void hermiteStateObs(const AnamHermite* h, int nuse, Value& ob, Value& alg)
{
  // the public coefficients (psi_n r^n) explain the transform inside the reported Gaussian interval
  double e = 0., spread = std::fabs(h->transformToRawValue(1.) - h->transformToRawValue(-1.));
  if (!(spread > 0.)) spread = 1.;
  VectorDouble psi = h->getPsiHns();
  for (double y = std::max(h->getPymin(), h->getAymin()) + 0.05; y < std::min(h->getPymax(), h->getAymax()); y += 0.37)
  {
    VectorDouble hn = hermitePolynomials(y, 1., (int)psi.size());
    double z = 0.; for (size_t k = 0; k < psi.size(); k++) z += psi[k] * hn[k];
    // inside the Gaussian interval the only other thing the object may do is to clamp at the absolute raw bounds
    z = std::max(h->getAzmin(), std::min(h->getAzmax(), z));
    e = std::max(e, std::fabs(z - h->transformToRawValue(y)) / spread);
  }
  alg.push(algRec("psi-explains", e));
  // point support: the practical interval lies inside the absolute one; between a practical and an absolute bound
  // both directions are the same linear map: mutually inverse and increasing (19 points per existing tail)
  if (!h->isChangeSupportDefined())
  {
    bool nested = h->getAzmin() <= h->getPzmin() && h->getPzmax() <= h->getAzmax() && h->getAymin() <= h->getPymin() && h->getPymax() <= h->getAymax();
    alg.push(algRec("bounds-nested", nested ? 0. : 1.));
    bool lo = h->getPzmin() - h->getAzmin() > 1e-9 * spread && h->getPymin() - h->getAymin() > 1e-6;
    bool up = h->getAzmax() - h->getPzmax() > 1e-9 * spread && h->getAymax() - h->getPymax() > 1e-6;
    double et = 0.; bool mono = true;
    for (int side = 0; side < 2; side++)
    {
      if (!(side ? up : lo)) continue;
      double za = side ? h->getPzmax() : h->getAzmin(), zb = side ? h->getAzmax() : h->getPzmin();
      double ya = side ? h->getPymax() : h->getAymin(), yb = side ? h->getAymax() : h->getPymin();
      double py = -1e300, pz = -1e300;
      for (int k = 1; k < 20; k++)
      {
        double z = za + (zb - za) * k / 20., y = h->rawToTransformValue(z);
        et = std::max(et, std::fabs(h->transformToRawValue(y) - z) / spread);
        if (!(y > py) || !(y > ya && y < yb)) mono = false;
        py = y;
        double yy = ya + (yb - ya) * k / 20., zz = h->transformToRawValue(yy);
        et = std::max(et, std::fabs(h->rawToTransformValue(zz) - yy));
        if (!(zz > pz) || !(zz > za && zz < zb)) mono = false;
        pz = zz;
      }
    }
    alg.push(algRec("tails-inverse", et));
    alg.push(algRec("tails-monotone", mono ? 0. : 1.));
    ob["tailcfg"] = Value(std::string(lo ? "L" : "") + (up ? "U" : ""));
  }
  else ob["tailcfg"] = Value(std::string("block"));
  // mean = psi_0 whatever the support, variance = sum of the squared coefficients of order >= 1
  double v = 0.; for (size_t k = 1; k < psi.size(); k++) v += psi[k] * psi[k];
  alg.push(algRec("mean=psi0", std::fabs(h->getMean() - h->getPsiHn(0)) / std::max(1., std::fabs(h->getMean()))));
  alg.push(algRec("variance=sum-psi2", std::fabs(h->getVariance() - v) / std::max(1., v)));
  ob["psi0m"] = Value((long long)std::llround(std::max(-2.0e6, std::min(2.0e6, h->getPsiHn(0) * nuse)) * 1000.));
  ob["varn2"] = Value((long long)std::llround(std::max(-2.0e9, std::min(2.0e9, h->getVariance() * nuse * nuse))));
}

// ---------------------------------------------------------------------------------- one case
static Value runCase(int id, const Value& cs)
{
  std::string kind = cs.at("kind").s();
  Value out = Value::object();
  out["id"] = Value(id);
  out["kind"] = Value(kind);
  out["steps"] = cs.at("steps");
  Value obs = Value::array();
  Engine E; E.kind = kind;
  std::vector<Arr> arrs;                       // produced arrays (1-based in the spec)
  auto getRef = [&](const Value& r) -> Arr {
    if (r.at("t").s() == "d") return fromData(DATA.at(r.at("d").s()));
    return arrs.at(r.at("a").i() - 1);
  };
  int nfits = 0;
  for (auto& st : cs.at("steps").arr)
  {
    std::string op = st.at("op").s();
    Value ob = Value::object();
    ob["op"] = Value(op);
    Value forms = Value::array();
    Value alg = Value::array();
    int err = 0;
    if (op == "fit")
    {
      nfits++;
      int opt = st.at("opt").i();
      if (kind == "AH" || kind == "AE")
      {
        const DataSet& ds = DATA.at(st.at("data").s());
        // a re-fit with other options means another object in the library's API (the options are constructor
        // arguments): the SAME object is kept when the options are unchanged, otherwise a new one replaces it
        bool sameOpt = E.o && ((kind == "AH") ? (dynamic_cast<AnamHermite*>(E.o.get())->getNbPoly() == opt) : false);
        if (kind == "AE" && E.o)
        {
          auto e = dynamic_cast<AnamEmpirical*>(E.o.get());
          sameOpt = (e->isFlagDilution() == (opt > 0)) && (e->isFlagGaussian() == (opt != 2));
        }
        ob["reused"] = Value(sameOpt);
        if (!sameOpt) { E.o = Engine::newAnam(kind, opt, E.r100); E.oDb = Engine::newAnam(kind, opt, E.r100); E.oLoc = Engine::newAnam(kind, opt, E.r100); }
        err = Engine::fitAnam(E.o.get(), ds, 0);
        int e1 = Engine::fitAnam(E.oDb.get(), ds, 1);
        int e2 = Engine::fitAnam(E.oLoc.get(), ds, 2);
        Cmp c1; c1.e = ecode(vecDist(Engine::anamState(E.o.get()), Engine::anamState(E.oDb.get()))); c1.n = 1;
        Cmp c2; c2.e = ecode(vecDist(Engine::anamState(E.o.get()), Engine::anamState(E.oLoc.get()))); c2.n = 1;
        forms.push(formRec("fit-db", e1, c1));
        forms.push(formRec("fit-loc", e2, c2));
        // number of values the fit saw, their exact sums are in the specification
        Arr a0 = fromData(ds);
        int nuse = 0; for (int i = 0; i < a0.n; i++) nuse += a0.dom[i];
        ob["nuse"] = Value(nuse);
        if (kind == "AH")
        {
          alg.push(algRec("hermite-gram", hermiteGramResidual(opt)));
          alg.push(algRec("hermite-ranks", hermiteRankFormResidual(opt)));
          hermiteStateObs(dynamic_cast<AnamHermite*>(E.o.get()), nuse, ob, alg);
        }
        // the reported intervals are ordered and define a non-empty validity domain
        {
          const AnamContinuous* a = E.o.get();
          bool ok = a->getPzmin() <= a->getPzmax() && a->getPymin() <= a->getPymax() && a->getAzmin() <= a->getAzmax() &&
                    a->getAymin() <= a->getAymax() && std::max(a->getPzmin(), a->getAzmin()) <= std::min(a->getPzmax(), a->getAzmax()) &&
                    std::max(a->getPymin(), a->getAymin()) <= std::min(a->getPymax(), a->getAymax());
          alg.push(algRec("bounds-ordered", ok ? 0. : 1.));
        }
      }
      else if (kind == "PCA" || kind == "MAF")
      {
        const DataSet& ds = DATA.at(st.at("data").s());
        if (!E.po) E.po = std::make_shared<PCA>();
        ob["reused"] = Value(nfits > 1);
        err = Engine::fitPca(E.po.get(), kind, ds, opt);
        Arr a0 = fromData(ds);
        int nuse = 0; for (int i = 0; i < a0.n; i++) nuse += a0.dom[i];
        ob["nuse"] = Value(nuse);
        int nv = E.po->getNVar();
        ob["nfac"] = Value(nv);
        ob["dims"] = intsV({(int)E.po->getMeans().size(), (int)E.po->getEigVals().size(), E.po->getZ2Fs().getNRows(), E.po->getZ2Fs().getNCols(),
                            E.po->getF2Zs().getNRows(), E.po->getF2Zs().getNCols(), E.po->getC0().getNRows()});
        std::vector<int> mn, cn; double mres = 0., cres = 0.;
        if (err == 0 && nv == ds.nvar)
        {
          for (int k = 0; k < nv; k++) { double t = E.po->getMean(k) * nuse; long long r = std::llround(t); mn.push_back((int)r); mres = std::max(mres, std::fabs(t - r)); }
          for (int k = 0; k < nv; k++) for (int l = 0; l < nv; l++)
          { double t = E.po->getC0().getValue(k, l) * nuse * (nuse - 1.); long long r = std::llround(t); cn.push_back((int)r); cres = std::max(cres, std::fabs(t - r) / std::max(1., std::fabs(t))); }
          Eigen::MatrixXd Z(nv, nv), F(nv, nv), C(nv, nv);
          for (int k = 0; k < nv; k++) for (int l = 0; l < nv; l++)
          { Z(k, l) = E.po->getZ2Fs().getValue(k, l); F(k, l) = E.po->getF2Zs().getValue(k, l); C(k, l) = E.po->getC0().getValue(k, l); }
          Eigen::MatrixXd I = Eigen::MatrixXd::Identity(nv, nv);
          alg.push(algRec("f2z*z2f=I", (F * Z - I).cwiseAbs().maxCoeff()));
          alg.push(algRec("z2f*f2z=I", (Z * F - I).cwiseAbs().maxCoeff()));
          alg.push(algRec("z2f'Cz2f=I", (Z.transpose() * C * Z - I).cwiseAbs().maxCoeff()));
          if (kind == "PCA")
          {
            // eigen pairs of the covariance: C V = V diag(lambda), and the variance ratios sum to one
            Eigen::MatrixXd V(nv, nv); Eigen::VectorXd lam(nv);
            for (int k = 0; k < nv; k++) { lam(k) = E.po->getEigVal(k); for (int l = 0; l < nv; l++) V(k, l) = E.po->getEigVec(k, l); }
            double sc = std::max(1., C.cwiseAbs().maxCoeff());
            alg.push(algRec("CV=VL", (C * V - V * lam.asDiagonal()).cwiseAbs().maxCoeff() / sc));
            bool sorted = true; for (int k = 1; k < nv; k++) if (lam(k) > lam(k - 1) * (1 + 1e-12)) sorted = false;
            alg.push(algRec("eig-sorted", sorted ? 0. : 1.));
          }
        }
        ob["meansn"] = intsV(mn); ob["meansres"] = Value(ecode(mres));
        ob["covn"] = intsV(cn); ob["covres"] = Value(ecode(cres));
      }
      else if (kind == "ROT")
      {
        const RotEl& e = ROT.at(opt);
        if (!E.ro) E.ro = std::make_shared<Rotation>(e.dim);
        ob["reused"] = Value(nfits > 1);
        err = Engine::setRot(E.ro.get(), e);
        E.rotDen = e.den;
        int d = e.dim;
        Eigen::MatrixXd R(d, d), Ri(d, d);
        for (int i = 0; i < d; i++) for (int j = 0; j < d; j++) { R(i, j) = E.ro->getMatrixDirect(i, j); Ri(i, j) = E.ro->getMatrixInverse(i, j); }
        alg.push(algRec("RRt=I", (R * R.transpose() - Eigen::MatrixXd::Identity(d, d)).cwiseAbs().maxCoeff()));
        alg.push(algRec("Rinv=Rt", (Ri - R.transpose()).cwiseAbs().maxCoeff()));
        alg.push(algRec("RinvR=I", (Ri * R - Eigen::MatrixXd::Identity(d, d)).cwiseAbs().maxCoeff()));
        double em = 0.;
        for (int i = 0; i < d; i++) for (int j = 0; j < d; j++) em = std::max(em, std::fabs(R(i, j) - (double)e.m[i][j] / e.den));
        alg.push(algRec("direct-matrix-stored", em));
        bool isId = true; for (int i = 0; i < d; i++) for (int j = 0; j < d; j++) if (e.m[i][j] != (i == j ? e.den : 0)) isId = false;
        alg.push(algRec("identity-flag", (E.ro->isIdentity() == isId) ? 0. : 1.));
      }
      ob["err"] = Value(err);
    }
    else if (op == "support")
    {
      // change of support of the fitted Hermite anamorphosis: r = opt / 100 (100 = back to point support)
      int r100 = st.at("opt").i();
      double r = r100 / 100.;
      AnamHermite* h = dynamic_cast<AnamHermite*>(E.o.get());
      double mean0 = h->getMean();
      VectorDouble pt = h->getPsiHns();
      if (h->getRCoef() < 1.) { double rk = 1.; for (size_t k = 1; k < pt.size(); k++) { rk *= h->getRCoef(); pt[k] /= rk; } }
      err = h->updatePointToBlock(r);
      E.r100 = r100;
      int e1 = anamPointToBlock(E.oDb.get(), 0, TEST, r, TEST);
      dynamic_cast<AnamHermite*>(E.oLoc.get())->setRCoef(r);
      Cmp c1; c1.e = ecode(vecDist(Engine::anamState(E.o.get()), Engine::anamState(E.oDb.get()))); c1.n = 1;
      Cmp c2; c2.e = ecode(vecDist(Engine::anamState(E.o.get()), Engine::anamState(E.oLoc.get()))); c2.n = 1;
      forms.push(formRec("anamPointToBlock-coeff", e1, c1));
      forms.push(formRec("setRCoef", 0, c2));
      // the mean is kept, the coefficients are the point ones times r^n, the bounds are not touched
      alg.push(algRec("support-keeps-mean", std::fabs(h->getMean() - mean0) / std::max(1., std::fabs(mean0))));
      {
        VectorDouble now = h->getPsiHns(); double e = 0., rk = 1., big = 1.;
        for (size_t k = 0; k < now.size() && k < pt.size(); k++) { big = std::max(big, std::fabs(pt[k])); e = std::max(e, std::fabs(now[k] - pt[k] * rk)); rk *= r; }
        alg.push(algRec("psi-block=psi-point*r^n", e / big));
      }
      alg.push(algRec("rcoef-stored", std::fabs(h->getRCoef() - r)));
      // variance -> r -> variance: the coefficient derived from the block variance gives back that variance
      if (r100 < 100)
      {
        std::shared_ptr<AnamHermite> q(dynamic_cast<AnamHermite*>(h->clone()));
        q->updatePointToBlock(1.);
        double cvv = h->getVariance();
        int e2 = anamPointToBlock(q.get(), 0, cvv, TEST, TEST);
        alg.push(algRec("variance->r->variance", e2 != 0 ? INFINITY : std::fabs(q->getVariance() - cvv) / std::max(1., cvv)));
        alg.push(algRec("variance->r", e2 != 0 ? INFINITY : std::fabs(q->getRCoef() - r)));
      }
      Arr a0 = fromData(DATA.at(st.at("data").s()));
      int nuse = 0; for (int i = 0; i < a0.n; i++) nuse += a0.dom[i];
      ob["nuse"] = Value(nuse);
      hermiteStateObs(h, nuse, ob, alg);
      ob["err"] = Value(err);
    }
    else if (op == "copy")
    {
      // the copy reports the same public state as the original
      if (kind == "AH" || kind == "AE")
      {
        E.c = std::shared_ptr<AnamContinuous>(dynamic_cast<AnamContinuous*>(E.o->clone()));
        alg.push(algRec("copy-state", vecDist(Engine::anamState(E.o.get()), Engine::anamState(E.c.get()))));
      }
      else if (kind == "PCA" || kind == "MAF")
      {
        E.pc = std::make_shared<PCA>(*E.po);
        alg.push(algRec("copy-state", vecDist(Engine::pcaState(E.po.get()), Engine::pcaState(E.pc.get()))));
      }
      else if (kind == "ROT")
      {
        E.rc = std::make_shared<Rotation>(*E.ro);
        VectorDouble a = E.ro->getMatrixDirectVec(), b = E.rc->getMatrixDirectVec();
        for (double x : E.ro->getMatrixInverseVec()) a.push_back(x);
        for (double x : E.rc->getMatrixInverseVec()) b.push_back(x);
        for (double x : E.ro->getAngles()) a.push_back(x);
        for (double x : E.rc->getAngles()) b.push_back(x);
        a.push_back(E.ro->isRotated()); b.push_back(E.rc->isRotated());
        a.push_back(E.ro->getNDim()); b.push_back(E.rc->getNDim());
        alg.push(algRec("copy-state", vecDist(a, b)));
      }
      ob["err"] = Value(0);
    }
    else
    {
      std::string dir = op, who = st.at("who").s();
      Arr in = getRef(st.at("src"));
      Arr res;
      if (kind == "AH" || kind == "AE")
      {
        const AnamContinuous* a = (who == "o") ? E.o.get() : E.c.get();
        err = E.applyAnam(a, dir, in, res);
        // other entry points computing the same function
        {
          Arr f = res;
          VectorDouble x(in.v[0]);
          VectorDouble y = (dir == "fwd") ? a->rawToTransformVec(x) : a->transformToRawVec(x);
          f.v[0] = y.getVector(); if ((int)y.size() != in.n) f.v[0].assign(in.n, TEST);
          std::vector<int> m(in.n); for (int i = 0; i < in.n; i++) m[i] = in.act[i];
          forms.push(formRec("value-vec", 0, compareArr(res, f, "same", &m)));
        }
        for (int form = 1; form <= 2; form++)
        {
          Db* db = makeDb(in);
          int before = db->getColumnNumber();
          AnamContinuous* an = const_cast<AnamContinuous*>(a);
          int e;
          if (dir == "fwd") e = (form == 1) ? an->rawToGaussian(db, "v1") : an->rawToGaussianByLocator(db);
          else e = (form == 1) ? an->gaussianToRaw(db, "v1") : an->gaussianToRawByLocator(db);
          Arr f = res;
          int added = db->getColumnNumber() - before;
          if (e == 0 && added == 1) f.v[0] = db->getColumnByColIdx(before, false, false).getVector();
          else f.v[0].assign(in.n, TEST);
          if (e == 0 && added != 1) e = 77;
          std::vector<int> m(in.n); for (int i = 0; i < in.n; i++) m[i] = in.act[i];
          forms.push(formRec(form == 1 ? "db-name" : "db-locator", e, compareArr(res, f, "same", &m)));
          delete db;
        }
        ob["rin"] = intsV(denseRank(in.v[0], res.dom));
        ob["rout"] = intsV(denseRank(res.v[0], res.dom));
        {
          int ntail = 0;
          if (kind == "AH" && !a->isChangeSupportDefined())
            for (int i = 0; i < in.n; i++) if (res.dom[i])
            {
              double x = in.v[0][i];
              if (dir == "fwd" ? (x <= a->getPzmin() || x >= a->getPzmax()) : (x <= a->getPymin() || x >= a->getPymax())) ntail++;
            }
          ob["ntail"] = Value(ntail);
        }
        // the round-trip law in the CURRENT state of the object: the opposite transform brings the output back
        {
          Arr back;
          int eb = E.applyAnam(a, dir == "fwd" ? "inv" : "fwd", res, back);
          Arr ref = in; ref.dom = back.dom;
          Cmp c = compareArr(back, ref, kind);
          if (eb != 0) c.e = EINF;
          Value rt = Value::object(); rt["e"] = Value(c.e); rt["n"] = Value(c.n);
          ob["rt"] = rt;
        }
      }
      else if (kind == "PCA" || kind == "MAF")
      {
        PCA* p = (who == "o") ? E.po.get() : E.pc.get();
        int added = 0;
        err = E.applyPca(p, dir, in, res, &added);
        ob["added"] = Value(added);
        // the public matrices and means explain what the Db entry point did
        if (err == 0)
        {
          int nv = in.nvar;
          Arr f = res;
          for (int i = 0; i < in.n; i++)
          {
            bool ok = in.act[i] != 0; for (int k = 0; k < nv; k++) if (isNA(in.v[k][i])) ok = false;
            for (int k = 0; k < nv; k++)
            {
              if (!ok) { f.v[k][i] = TEST; continue; }
              double s = 0.;
              if (dir == "fwd") for (int l = 0; l < nv; l++) s += p->getZ2Fs().getValue(l, k) * (in.v[l][i] - p->getMean(l));
              else { for (int l = 0; l < nv; l++) s += p->getF2Zs().getValue(l, k) * in.v[l][i]; s += p->getMean(k); }
              f.v[k][i] = s;
            }
          }
          std::vector<int> m(in.n); for (int i = 0; i < in.n; i++) m[i] = in.act[i];
          forms.push(formRec("public-matrices", 0, compareArr(res, f, "same", &m)));
          // first two moments of the output over the usable samples (n-1 normalisation)
          int nuse = 0; for (int i = 0; i < in.n; i++) nuse += res.dom[i];
          double em = 0., ec = 0.;
          if (nuse > 1)
          {
            std::vector<double> mu(nv, 0.);
            for (int k = 0; k < nv; k++) { for (int i = 0; i < in.n; i++) if (res.dom[i]) mu[k] += res.v[k][i]; mu[k] /= nuse; em = std::max(em, std::fabs(mu[k])); }
            for (int k = 0; k < nv; k++) for (int l = 0; l < nv; l++)
            {
              double s = 0.; for (int i = 0; i < in.n; i++) if (res.dom[i]) s += (res.v[k][i] - mu[k]) * (res.v[l][i] - mu[l]);
              ec = std::max(ec, std::fabs(s / (nuse - 1.) - (k == l ? 1. : 0.)));
            }
          }
          alg.push(algRec("out-mean=0", em));
          alg.push(algRec("out-cov=I", ec));
        }
      }
      else if (kind == "NS")
      {
        Engine::applyNs(in, res);
        // ranks k with y = G^-1(k / (n+1))
        int nuse = 0; for (int i = 0; i < in.n; i++) nuse += res.dom[i];
        std::vector<int> rk(in.n, -1); double rres = 0.;
        for (int i = 0; i < in.n; i++) if (res.dom[i] && !isNA(res.v[0][i]))
        { double t = law_cdf_gaussian(res.v[0][i]) * (nuse + 1.); long long r = std::llround(t); rk[i] = (int)r; rres = std::max(rres, std::fabs(t - r)); }
        ob["ranks"] = intsV(rk); ob["ranksres"] = Value(ecode(rres)); ob["nuse"] = Value(nuse);
        {
          Arr f = res;
          VectorDouble w(in.n, 1.);
          VectorDouble y = VH::normalScore(VectorDouble(in.v[0]), w);
          f.v[0] = y.getVector(); if ((int)y.size() != in.n) f.v[0].assign(in.n, TEST);
          bool masked = false; for (int i = 0; i < in.n; i++) if (!in.act[i]) masked = true;
          if (!masked) forms.push(formRec("unit-weights", 0, compareArr(res, f, "same", &res.act)));
        }
        {
          AnamHermite dummy(3);
          Db* db = makeDb(in);
          int before = db->getColumnNumber();
          int e = dummy.normalScore(db, "v1");
          Arr f = res;
          int added = db->getColumnNumber() - before;
          if (e == 0 && added == 1) f.v[0] = db->getColumnByColIdx(before, false, false).getVector();
          else f.v[0].assign(in.n, TEST);
          if (e == 0 && added != 1) e = 77;
          forms.push(formRec("db-name", e, compareArr(res, f, "same", &res.act)));
          delete db;
        }
        ob["rin"] = intsV(denseRank(in.v[0], res.dom));
        ob["rout"] = intsV(denseRank(res.v[0], res.dom));
      }
      else if (kind == "ROT")
      {
        const Rotation* r = (who == "o") ? E.ro.get() : E.rc.get();
        err = E.applyRot(r, dir, in, res);
        // angles extracted from the matrix define the same rotation
        {
          Rotation b(r->getNDim());
          b.setAngles(r->getAngles());
          Arr f; E.applyRot(&b, dir, in, f);
          forms.push(formRec("angles", 0, compareArr(res, f, "same")));
        }
        {
          Arr f = res;
          for (int i = 0; i < in.n; i++)
          {
            std::vector<double> p(in.nvar), q(in.nvar);
            for (int k = 0; k < in.nvar; k++) p[k] = in.v[k][i];
            if (dir == "fwd") r->rotateDirect(p, q); else r->rotateInverse(p, q);
            for (int k = 0; k < in.nvar; k++) f.v[k][i] = q[k];
          }
          forms.push(formRec("std-vector", 0, compareArr(res, f, "same")));
        }
      }
      arrs.push_back(res);
      ob["err"] = Value(err);
      ob["act"] = intsV(in.act);
      ob["dom"] = intsV(res.dom);
      ob["nain"] = intsV(naCount(in));
      ob["naout"] = intsV(naCount(res));
    }
    ob["forms"] = forms;
    ob["alg"] = alg;
    obs.push(ob);
  }
  out["obs"] = obs;

  // per produced array: distance to the arrays it must equal, and to its normal form evaluated freshly
  Value same = Value::array(), fresh = Value::array(), exact = Value::array();
  for (auto& ar : cs.at("arrs").arr)
  {
    int k = ar.at("k").i();
    const Arr& A = arrs.at(k - 1);
    for (auto& r : ar.at("same").arr)
    {
      Arr B = (r.at("t").s() == "d") ? fromData(DATA.at(r.at("d").s())) : arrs.at(r.at("a").i() - 1);
      Cmp c = compareArr(A, B, kind);
      Value s = Value::object();
      s["k"] = Value(k); s["ref"] = r; s["e"] = Value(c.e); s["n"] = Value(c.n);
      same.push(s);
    }
    if (kind == "ROT")
    {
      // exact image: numerators over the denominator given by the specification
      int den = ar.at("mat").at("den").i();
      Value nums = Value::array(); double res = 0.;
      for (int i = 0; i < A.n; i++)
      {
        Value row = Value::array();
        for (int d = 0; d < A.nvar; d++)
        { double t = A.v[d][i] * den; long long q = std::llround(t); row.push(Value((long long)q)); res = std::max(res, std::fabs(t - q) / std::max(1., std::fabs(t))); }
        nums.push(row);
      }
      Value s = Value::object();
      s["k"] = Value(k); s["den"] = Value(den); s["num"] = nums; s["res"] = Value(ecode(res));
      exact.push(s);
    }
    else
    {
      Arr F;
      bool ok = evalFresh(kind, ar.at("base").s(), ar.at("nf"), F);
      Cmp c; if (ok) c = compareArr(A, F, kind); else c.e = EINF;
      Value s = Value::object();
      s["k"] = Value(k); s["e"] = Value(c.e); s["n"] = Value(c.n);
      fresh.push(s);
    }
  }
  out["same"] = same;
  out["fresh"] = fresh;
  out["exact"] = exact;
  return out;
}

// ---------------------------------------------------------------------------------- driver
static FILE* OUT = nullptr;
static volatile int CURRENT = -1;
static void onCrash(int sig)
{
  if (OUT)
  {
    char buf[96];
    int n = snprintf(buf, sizeof buf, "{\"id\":%d,\"crash\":%d}\n", CURRENT, sig);
    fflush(OUT);
    if (write(fileno(OUT), buf, n) < 0) {}
  }
  _exit(88);
}

int main(int argc, char** argv)
{
  if (argc < 7) { fprintf(stderr, "usage: transf_run data.json cases.ndjson out.ndjson shard nshards start\n"); return 2; }
  int shard = atoi(argv[4]), nshards = atoi(argv[5]), start = atoi(argv[6]);
  OUT = fopen(argv[3], "a");
  if (!OUT) return 2;
  if (!freopen("/dev/null", "w", stdout)) {}
  if (!freopen("/dev/null", "w", stderr)) {}
  for (int s : {SIGSEGV, SIGABRT, SIGFPE, SIGBUS, SIGILL}) signal(s, onCrash);
  try
  {
    loadData(argv[1]);
    std::ifstream f(argv[2]);
    std::string line;
    int l = -1;
    while (std::getline(f, line))
    {
      l++;
      if (l < start || l % nshards != shard) continue;
      if (line.find_first_not_of(" \t\r") == std::string::npos) continue;
      CURRENT = l;
      Value cs = vj::parse(line);
      Value r;
      try { r = runCase(l, cs); }
      catch (const std::exception& e)
      {
        r = Value::object(); r["id"] = Value(l); r["crash"] = Value(-1); r["what"] = Value(std::string(e.what()));
      }
      std::string s = vj::dump(r);
      fputs(s.c_str(), OUT); fputc('\n', OUT);
    }
  }
  catch (const std::exception& e)
  {
    FILE* t = fopen("/dev/tty", "w"); (void)t;
    fclose(OUT);
    return 3;
  }
  fclose(OUT);
  return 0;
}
