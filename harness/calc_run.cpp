// C19 binding: executes calculator scenarios (profile x fault x natural-failure variant x prior
// content of the data bases), emitted by TLC from Calculator.tla, on the REAL calculators, with
// faults injected through the guarded hooks of ACalculator::run / _addVariableDb, and logs the
// complete projection of both data bases before and after each call (names, roles, bit-exact
// content hashes).  TLC (TraceCalculator) judges Atomic / Exact / Usable on the log.
//
// usage: calc_run <scenarios.ndjson> <out.ndjson>
#include "vjson.hpp"
#include "Basic/VerifHook.hpp"
#include "Db/Db.hpp"
#include "Db/DbGrid.hpp"
#include "Model/Model.hpp"
#include "Neigh/NeighUnique.hpp"
#include "Neigh/NeighMoving.hpp"
#include "Estimation/CalcKriging.hpp"
#include "Matrix/MatrixSquareSymmetric.hpp"
#include "Estimation/CalcSimpleInterpolation.hpp"
#include "Simulation/CalcSimuTurningBands.hpp"
#include "Simulation/CalcSimuFFT.hpp"
#include "Simulation/SimuFFTParam.hpp"
#include "Calculators/CalcMigrate.hpp"
#include "Calculators/CalcStatistics.hpp"
#include "Anamorphosis/AnamHermite.hpp"
#include "Enum/ECov.hpp"
#include "Enum/EKrigOpt.hpp"
#include "Enum/EStatOption.hpp"
#include "Enum/ELoadBy.hpp"
#include "Space/ASpaceObject.hpp"
#include "Space/SpaceRN.hpp"
#include "Enum/ESpaceType.hpp"
#include <csignal>
#include <unistd.h>
#include <cstring>
#include <cstdint>

using vj::Value;

static Value chars(const std::string& s)
{
  Value v = Value::array();
  for (char c : s) v.push(Value(std::string(1, c)));
  return v;
}

static std::string hashCells(const VectorDouble& v)
{
  uint64_t h = 1469598103934665603ULL;
  for (double x : v)
  {
    unsigned char b[8];
    if (FFFF(x)) memset(b, 0xAB, 8); else memcpy(b, &x, 8);
    for (int i = 0; i < 8; i++) { h ^= b[i]; h *= 1099511628211ULL; }
  }
  char buf[24];
  snprintf(buf, sizeof buf, "%016llx", (unsigned long long)h);
  return buf;
}

static Value project(const Db* db)
{
  Value s = Value::object();
  if (db == nullptr) { s["nech"] = Value(0); s["cols"] = Value::array(); return s; }
  s["nech"] = Value(db->getSampleNumber());
  Value cols = Value::array();
  for (int i = 0; i < db->getColumnNumber(); i++)
  {
    Value c = Value::object();
    c["name"] = chars(db->getNameByColIdx(i));
    ELoc lt; int li;
    bool ok = db->getLocatorByColIdx(i, &lt, &li);
    std::string t = "none";
    if (ok) { t = std::string{lt.getKey()}; }
    c["role"] = Value(t);
    c["rank"] = Value(ok ? li : -1);
    c["h"] = Value(hashCells(db->getColumnByColIdx(i, false, false)));
    cols.push(c);
  }
  s["cols"] = cols;
  return s;
}

// ---------------------------------------------------------------- data
static Db* makeData(int ndim, int nvar, bool withZ, bool withDrift)
{
  // 7 samples at distinct, irregular locations
  static const double X[7] = {0.31, 1.72, 2.55, 0.93, 2.11, 1.37, 0.58};
  static const double Y[7] = {0.42, 0.27, 1.61, 2.33, 2.48, 1.29, 1.77};
  static const double Z3[7] = {0.11, 0.63, 0.29, 0.87, 0.45, 0.71, 0.19};
  static const double V1[7] = {1.2, -0.4, 0.7, 2.1, -1.3, 0.2, 0.9};
  static const double V2[7] = {0.3, 1.4, -0.8, 0.5, 1.9, -0.6, 1.1};
  int nech = 7;
  VectorDouble tab;
  VectorString names, locs;
  auto addcol = [&](const double* v, const std::string& n, const std::string& l) {
    for (int i = 0; i < nech; i++) tab.push_back(v[i]);
    names.push_back(n); locs.push_back(l);
  };
  addcol(X, "x1", "x1");
  if (ndim >= 2) addcol(Y, "x2", "x2");
  if (ndim >= 3) addcol(Z3, "x3", "x3");
  addcol(V1, "z1", withZ ? "z1" : "");
  if (nvar >= 2) addcol(V2, "z2", withZ ? "z2" : "");
  if (withDrift) { static double F[7]; for (int i = 0; i < 7; i++) F[i] = 0.5 * X[i] + 0.1 * i; addcol(F, "ext", "f1"); }
  return Db::createFromSamples(nech, ELoadBy::COLUMN, tab, names, locs, false);
}

static DbGrid* makeGrid(int ndim, bool withDrift)
{
  VectorInt nx; VectorDouble dx, x0;
  for (int i = 0; i < ndim; i++) { nx.push_back(3); dx.push_back(1.0); x0.push_back(0.25); }
  DbGrid* g = DbGrid::create(nx, dx, x0);
  if (withDrift)
  {
    VectorDouble f(g->getSampleNumber());
    for (int i = 0; i < (int)f.size(); i++) f[i] = 0.2 * i + 0.1;
    g->addColumns(f, "ext", ELoc::F);
  }
  return g;
}

static Db* makePoints(int ndim)
{
  VectorDouble tab = {0.5, 1.5, 2.5, 1.1, 0.6, 1.4, 2.2, 0.9};
  VectorString names = {"x1", "x2"}, locs = {"x1", "x2"};
  if (ndim == 1) { tab.resize(4); names.resize(1); locs.resize(1); }
  return Db::createFromSamples(4, ELoadBy::COLUMN, tab, names, locs, false);
}

// prior content: "clash" adds to the output db columns that collide with what the calculator will
// create (same names, same role type) plus an unrelated column with a role
static void applyPrior(Db* db, const std::string& prior, const std::string& prefix)
{
  if (prior != "clash" || db == nullptr) return;
  int n = db->getSampleNumber();
  VectorDouble a(n), b(n), c(n);
  for (int i = 0; i < n; i++) { a[i] = 100 + i; b[i] = 200 + i * 0.5; c[i] = (i % 2); }
  db->addColumns(a, prefix + ".z1.estim", ELoc::Z, 0);
  db->addColumns(b, prefix + ".z1.stdev", ELoc::V, 0);
  db->addColumns(c, "keepme", ELoc::W, 0);
}

struct Env
{
  Db* dbin = nullptr; Db* dbout = nullptr; Model* model = nullptr; ANeigh* neigh = nullptr;
  AnamHermite* anam = nullptr;
  bool same = false;
  std::string prefix;
  int expectedNew = 0;
  ~Env() { if (!same) delete dbout; delete dbin; delete model; delete neigh; delete anam; }
};

static Model* makeModel(int ndim, int nvar, bool extDrift = false)
{
  Model* m;
  SpaceRN space(ndim);
  if (nvar == 1) m = Model::createFromParam(ECov::SPHERICAL, 3.0, 1.5, 1., VectorDouble(), VectorDouble(), VectorDouble(),
                                            &space);
  else
  {
    VectorDouble sills = {1.5, 0.4, 0.4, 0.9};
    m = Model::createFromParam(ECov::SPHERICAL, 3.0, 1., 1., VectorDouble(), sills, VectorDouble(), &space);
  }
  if (extDrift && m != nullptr) m->setDriftIRF(0, 1);
  return m;
}

// Set up the objects of a scenario and call the entry point. Returns the error code of the call.
static int runScenario(const std::string& profile, const std::string& variant, const std::string& prior, Env& e,
                       Value& pre_in, Value& pre_out, bool secondRun = false)
{
  int ndim = 2;
  if (!secondRun)
  {
    int ndimModel = (variant == "ndim_mismatch") ? 3 : 2;
    int nvarModel = (variant == "nvar_mismatch") ? 2 : 1;
    bool withZ = variant != "no_z";
    bool ext = profile == "kriging_extdrift";
    if (profile == "simfft" || profile == "anam_transform" || profile == "regression" || profile == "xvalid")
      e.same = true;
    if (profile == "simtub_nc") e.dbin = nullptr;
    else e.dbin = makeData(ndim, 1, withZ, ext && variant != "expand");
    if (profile == "simfft")
    {
      delete e.dbin;
      e.dbin = makeGrid(2, false);
    }
    if (e.same) e.dbout = e.dbin;
    else if (variant == "points_out" || profile == "migrate_pts") e.dbout = makePoints(ndim);
    else e.dbout = makeGrid(ndim, ext && variant != "no_ext_out");
    if (variant == "block_on_points") { delete e.dbout; e.dbout = makePoints(ndim); }
    e.model = makeModel(ndimModel, nvarModel, ext);
    if (variant == "no_model") { delete e.model; e.model = nullptr; }
    if (profile == "kribayes" && e.model != nullptr) e.model->setDriftIRF(0);
    if (profile == "kriging_moving" || profile == "test_neigh" || variant == "moving" || profile == "moving_average" ||
        profile == "least_squares")
      e.neigh = NeighMoving::create(false, 5, 10.);
    else
      e.neigh = NeighUnique::create();
    if (variant == "no_neigh") { delete e.neigh; e.neigh = nullptr; }
    if (profile == "anam_transform")
    {
      e.anam = AnamHermite::create(12);
      if (variant != "anam_not_fitted") e.anam->fitFromLocator(e.dbin);
    }
    static const std::map<std::string, std::string> PFX = {
      {"kriging", "Kriging"}, {"kriging_moving", "Kriging"}, {"kriging_extdrift", "Kriging"}, {"xvalid", "Xvalid"},
      {"test_neigh", "Neigh"}, {"simtub_nc", "Simu"}, {"simtub_cond", "Simu"}, {"migrate", "Migrate"},
      {"stats_grid", "Stats"}, {"simple_interp", "InvDist"}, {"simfft", "FFT"}, {"anam_transform", "Y"},
      {"regression", "Regr"}, {"krigtest", "Kriging"}, {"nearest_neighbor", "Nearest"}, {"moving_average", "MovAve"},
      {"least_squares", "LstSqr"}, {"migrate_multi", "Migrate"}, {"migrate_locator", "Migrate"}, {"kribayes", "Bayes"}};
    auto it = PFX.find(profile);
    e.prefix = it == PFX.end() ? "" : it->second;
    applyPrior(e.dbout, prior, e.prefix);
  }
  pre_in = project(e.dbin);
  pre_out = project(e.dbout);

  int err = 1;
  if (profile == "kriging" || profile == "kriging_moving" || profile == "kriging_extdrift")
  {
    EKrigOpt calcul = (variant == "block_on_points") ? EKrigOpt::BLOCK : EKrigOpt::POINT;
    VectorInt ndiscs; if (variant == "block_on_points") ndiscs = {2, 2};
    if (variant == "nolocator")
      err = kriging(e.dbin, e.dbout, e.model, e.neigh, calcul, true, true, false, ndiscs, VectorInt(), nullptr,
                    NamingConvention("Kriging", true, true, false));
    else
      err = kriging(e.dbin, e.dbout, e.model, e.neigh, calcul, true, true, false, ndiscs);
    e.expectedNew = 2;
  }
  else if (profile == "krigtest")
  {
    EKrigOpt calcul = (variant == "block_on_points") ? EKrigOpt::BLOCK : EKrigOpt::POINT;
    VectorInt ndiscs; if (variant == "block_on_points") ndiscs = {2, 2};
    Krigtest_Res r = krigtest(e.dbin, e.dbout, e.model, e.neigh, 1, calcul, ndiscs, false, false);
    err = (!r.nbgh.empty()) ? 0 : 1;   // krigtest has no error code: an empty result is its failure report
    e.expectedNew = 0;
  }
  else if (profile == "xvalid")
  {
    if (variant == "nolocator")
      err = xvalid(e.dbin, e.model, e.neigh, false, 1, 1, 0, VectorInt(), NamingConvention("Xvalid", true, true, false));
    else
      err = xvalid(e.dbin, e.model, e.neigh);
    e.expectedNew = 2;
  }
  else if (profile == "test_neigh")
  {
    err = test_neigh(e.dbin, e.dbout, e.model, e.neigh);
    e.expectedNew = 5;
  }
  else if (profile == "simtub_nc" || profile == "simtub_cond")
  {
    err = simtub(e.dbin, e.dbout, e.model, e.neigh, 2, 4321, 20);
    e.expectedNew = 2;
  }
  else if (profile == "migrate")
  {
    if (variant == "nolocator")
      err = migrate(e.dbin, e.dbout, "z1", 1, VectorDouble(), false, false, false, NamingConvention("Migrate", false, true, false));
    else
      err = migrate(e.dbin, e.dbout, variant == "bad_name" ? "nosuchvar" : "z1");
    e.expectedNew = 1;
  }
  else if (profile == "stats_grid")
  {
    DbGrid* g = dynamic_cast<DbGrid*>(e.dbout);
    err = (g == nullptr) ? 1 : dbStatisticsOnGrid(e.dbin, g, EStatOption::MEAN);
    e.expectedNew = 1;
  }
  else if (profile == "simple_interp")
  {
    err = inverseDistance(e.dbin, e.dbout);
    e.expectedNew = 1;
  }
  else if (profile == "simfft")
  {
    SimuFFTParam param;
    DbGrid* g = dynamic_cast<DbGrid*>(e.dbin);
    err = simfft(g, e.model, param, 1, 5531);
    e.expectedNew = 1;
  }
  else if (profile == "anam_transform")
  {
    if (variant == "by_name" || variant == "bad_name")
      err = e.anam->rawToGaussian(e.dbin, variant == "bad_name" ? "nosuchvar" : "z1");
    else
      err = e.anam->rawToGaussianByLocator(e.dbin);
    e.expectedNew = 1;
  }
  else if (profile == "regression")
  {
    err = dbRegression(e.dbin, "z1", {variant == "bad_name" ? "nosuchvar" : "x1"});
    e.expectedNew = 1;
  }
  else if (profile == "nearest_neighbor")
  {
    err = nearestNeighbor(e.dbin, e.dbout);
    e.expectedNew = 1;
  }
  else if (profile == "moving_average")
  {
    err = movingAverage(e.dbin, e.dbout, e.neigh);
    e.expectedNew = 1;
  }
  else if (profile == "least_squares")
  {
    err = leastSquares(e.dbin, e.dbout, e.neigh, 1);
    e.expectedNew = 1;
  }
  else if (profile == "migrate_multi")
  {
    err = migrateMulti(e.dbin, e.dbout, {variant == "bad_name" ? "nosuchvar" : "z1", "x1"});
    e.expectedNew = 2;
  }
  else if (profile == "migrate_locator")
  {
    err = migrateByLocator(e.dbin, e.dbout, ELoc::Z);
    e.expectedNew = 1;
  }
  else if (profile == "kribayes")
  {
    MatrixSquareSymmetric pc(1); pc.setValue(0, 0, 0.5);
    err = kribayes(e.dbin, e.dbout, e.model, e.neigh, {0.3}, pc, true, true);
    e.expectedNew = 2;
  }
  else
    throw std::runtime_error("unknown profile " + profile);
  return err;
}

static char CUR[2048];
static int OUT_FD = -1;
static void onCrash(int sig)
{
  char buf[2300];
  int n = snprintf(buf, sizeof buf, "{\"scen\":%s,\"crash\":%d}\n", CUR, sig);
  if (OUT_FD >= 0 && n > 0) { ssize_t w = write(OUT_FD, buf, (size_t)n); (void)w; }
  _exit(88);
}

int main(int argc, char** argv)
{
  if (argc < 3) return 2;
  std::vector<Value> scen = vj::readNdjson(argv[1]);
  FILE* fo = fopen(argv[2], "a");
  if (!fo) return 2;
  setvbuf(fo, nullptr, _IOLBF, 0);
  OUT_FD = fileno(fo);
  int startAt = argc > 3 ? atoi(argv[3]) : 0;
  if (!freopen("/dev/null", "w", stdout)) return 2;
  std::set_terminate([]() { onCrash(6); });
  signal(SIGSEGV, onCrash); signal(SIGABRT, onCrash); signal(SIGFPE, onCrash); signal(SIGBUS, onCrash);
  defineDefaultSpace(ESpaceType::RN, 2);

  for (int is = startAt; is < (int)scen.size(); is++)
  {
    const Value& sc = scen[is];
    snprintf(CUR, sizeof CUR, "%s", vj::dump(sc).c_str());
    std::string profile = sc.at("profile").s(), fault = sc.at("fault").s(), variant = sc.at("variant").s(),
                prior = sc.at("prior").s();
    Env e;
    Value pre_in, pre_out;
    verifFaultReset();
    if (fault == "after_check") verifFaultArm("calc.after_check", 1);
    else if (fault == "after_preprocess") verifFaultArm("calc.after_preprocess", 1);
    else if (fault == "after_run") verifFaultArm("calc.after_run", 1);
    else if (fault.rfind("addvar", 0) == 0) verifFaultArm("calc.addvar", atoi(fault.c_str() + 6));
    int err = runScenario(profile, variant, prior, e, pre_in, pre_out);
    int addvarVisits = verifFaultVisits("calc.addvar");
    verifFaultReset();
    Value rec = Value::object();
    rec["scen"] = sc;
    rec["ret"] = Value(err == 0 ? "ok" : "fail");
    rec["same"] = Value(e.same);
    rec["in_pre"] = pre_in; rec["out_pre"] = pre_out;
    rec["in_post"] = project(e.dbin); rec["out_post"] = project(e.dbout);
    rec["expected_new"] = Value(e.expectedNew);
    rec["prefix"] = chars(e.prefix);
    rec["addvar_visits"] = Value(addvarVisits);
    rec["second"] = Value(false);
    rec["noerrcode"] = Value(profile == "krigtest");
    fprintf(fo, "%s\n", vj::dump(rec).c_str());
    // Usable: after a reported failure the objects remain usable -> a fault-free call on the same
    // objects (for natural failures the same failing input again: it must fail cleanly again)
    if (err != 0)
    {
      Value p_in, p_out;
      int err2 = runScenario(profile, variant, prior, e, p_in, p_out, true);
      Value rec2 = Value::object();
      rec2["scen"] = sc;
      rec2["ret"] = Value(err2 == 0 ? "ok" : "fail");
      rec2["same"] = Value(e.same);
      rec2["in_pre"] = p_in; rec2["out_pre"] = p_out;
      rec2["in_post"] = project(e.dbin); rec2["out_post"] = project(e.dbout);
      rec2["expected_new"] = Value(e.expectedNew);
      rec2["prefix"] = chars(e.prefix);
      rec2["addvar_visits"] = Value(0);
      rec2["second"] = Value(true);
      rec2["noerrcode"] = Value(profile == "krigtest");
      fprintf(fo, "%s\n", vj::dump(rec2).c_str());
    }
  }
  fclose(fo);
  return 0;
}
