// C19 binding: executes calculator scenarios (profile x fault x natural-failure variant x prior
// content of the data bases), emitted by TLC from Calculator.tla, on the REAL calculators, with
// faults injected through the guarded hooks of ACalculator::run / _addVariableDb, and logs the
// complete projection of both data bases before and after each call (names, roles, bit-exact
// content hashes).  TLC (TraceCalculator) judges Atomic / Exact / Usable on the log.
//
// usage: calc_run <scenarios.ndjson> <out.ndjson> [first scenario]
#include "vjson.hpp"
#include "geoslib_f.h"
#include "Basic/VerifHook.hpp"
#include "Basic/Law.hpp"
#include "Db/Db.hpp"
#include "Db/DbGrid.hpp"
#include "Model/Model.hpp"
#include "Neigh/NeighUnique.hpp"
#include "Neigh/NeighMoving.hpp"
#include "Neigh/NeighImage.hpp"
#include "Estimation/CalcKriging.hpp"
#include "Estimation/CalcKrigingFactors.hpp"
#include "Estimation/CalcImage.hpp"
#include "Estimation/CalcGlobal.hpp"
#include "Matrix/MatrixSquareSymmetric.hpp"
#include "Matrix/MatrixRectangular.hpp"
#include "Estimation/CalcSimpleInterpolation.hpp"
#include "Simulation/CalcSimuTurningBands.hpp"
#include "Simulation/CalcSimuFFT.hpp"
#include "Simulation/SimuFFTParam.hpp"
#include "Simulation/CalcSimuPartition.hpp"
#include "Simulation/SimuPartitionParam.hpp"
#include "Simulation/CalcSimuSubstitution.hpp"
#include "Simulation/SimuSubstitutionParam.hpp"
#include "Simulation/CalcSimuEden.hpp"
#include "Simulation/CalcSimuRefine.hpp"
#include "Simulation/SimuRefineParam.hpp"
#include "Simulation/SimuBoolean.hpp"
#include "Simulation/SimuBooleanParam.hpp"
#include "Boolean/ModelBoolean.hpp"
#include "Boolean/ShapeParallelepiped.hpp"
#include "Calculators/CalcMigrate.hpp"
#include "Calculators/CalcStatistics.hpp"
#include "Calculators/CalcGridToGrid.hpp"
#include "Calculators/CalcSimuPost.hpp"
#include "Calculators/CalcSimuPostDemo.hpp"
#include "Calculators/CalcSimuPostPropByLayer.hpp"
#include "Anamorphosis/AnamHermite.hpp"
#include "Anamorphosis/CalcAnamTransform.hpp"
#include "Stats/Selectivity.hpp"
#include "Enum/ESelectivity.hpp"
#include "Enum/ECov.hpp"
#include "Enum/EKrigOpt.hpp"
#include "Enum/EStatOption.hpp"
#include "Enum/EMorpho.hpp"
#include "Enum/EPostStat.hpp"
#include "Enum/EPostUpscale.hpp"
#include "Enum/ELoadBy.hpp"
#include "Space/ASpaceObject.hpp"
#include "Space/SpaceRN.hpp"
#include "Enum/ESpaceType.hpp"
#include <csignal>
#include <unistd.h>
#include <cstring>
#include <cstdint>
#include <set>

using vj::Value;

static Value chars(const std::string& s)
{
  Value v = Value::array();
  for (char c : s) v.push(Value(std::string(1, c)));
  return v;
}

static std::string hashCells(const VectorDouble& v)
{
  uint64_t h = 1469598103934665603ULL;
  for (double x : v)
  {
    unsigned char b[8];
    if (FFFF(x)) memset(b, 0xAB, 8); else memcpy(b, &x, 8);
    for (int i = 0; i < 8; i++) { h ^= b[i]; h *= 1099511628211ULL; }
  }
  char buf[24];
  snprintf(buf, sizeof buf, "%016llx", (unsigned long long)h);
  return buf;
}

static Value project(const Db* db)
{
  Value s = Value::object();
  if (db == nullptr) { s["nech"] = Value(0); s["cols"] = Value::array(); return s; }
  s["nech"] = Value(db->getSampleNumber());
  Value cols = Value::array();
  for (int i = 0; i < db->getColumnNumber(); i++)
  {
    Value c = Value::object();
    c["name"] = chars(db->getNameByColIdx(i));
    ELoc lt; int li;
    bool ok = db->getLocatorByColIdx(i, &lt, &li);
    std::string t = "none";
    if (ok) { t = std::string{lt.getKey()}; }
    c["role"] = Value(t);
    c["rank"] = Value(ok ? li : -1);
    c["h"] = Value(hashCells(db->getColumnByColIdx(i, false, false)));
    cols.push(c);
  }
  s["cols"] = cols;
  return s;
}

static std::vector<std::string> namesOf(const Db* db)
{
  std::vector<std::string> v;
  if (db != nullptr) for (int i = 0; i < db->getColumnNumber(); i++) v.push_back(db->getNameByColIdx(i));
  return v;
}

// ---------------------------------------------------------------- data
static Db* makeData(int ndim, int nvar, bool withZ, bool withDrift)
{
  // 7 samples at distinct, irregular locations
  static const double X[7] = {0.31, 1.72, 2.55, 0.93, 2.11, 1.37, 0.58};
  static const double Y[7] = {0.42, 0.27, 1.61, 2.33, 2.48, 1.29, 1.77};
  static const double Z3[7] = {0.11, 0.63, 0.29, 0.87, 0.45, 0.71, 0.19};
  static const double V1[7] = {1.2, -0.4, 0.7, 2.1, -1.3, 0.2, 0.9};
  static const double V2[7] = {0.3, 1.4, -0.8, 0.5, 1.9, -0.6, 1.1};
  int nech = 7;
  VectorDouble tab;
  VectorString names, locs;
  auto addcol = [&](const double* v, const std::string& n, const std::string& l) {
    for (int i = 0; i < nech; i++) tab.push_back(v[i]);
    names.push_back(n); locs.push_back(l);
  };
  addcol(X, "x1", "x1");
  if (ndim >= 2) addcol(Y, "x2", "x2");
  if (ndim >= 3) addcol(Z3, "x3", "x3");
  addcol(V1, "z1", withZ ? "z1" : "");
  if (nvar >= 2) addcol(V2, "z2", withZ ? "z2" : "");
  if (withDrift) { static double F[7]; for (int i = 0; i < 7; i++) F[i] = 0.5 * X[i] + 0.1 * i; addcol(F, "ext", "f1"); }
  return Db::createFromSamples(nech, ELoadBy::COLUMN, tab, names, locs, false);
}

static DbGrid* makeGrid(int ndim, bool withDrift)
{
  VectorInt nx; VectorDouble dx, x0;
  for (int i = 0; i < ndim; i++) { nx.push_back(3); dx.push_back(1.0); x0.push_back(0.25); }
  DbGrid* g = DbGrid::create(nx, dx, x0);
  if (withDrift)
  {
    VectorDouble f(g->getSampleNumber());
    for (int i = 0; i < (int)f.size(); i++) f[i] = 0.2 * i + 0.1;
    g->addColumns(f, "ext", ELoc::F);
  }
  return g;
}

// a grid carrying variables: nz columns "z1".. (role Z unless withZ = false)
static DbGrid* makeGridZ(const VectorInt& nx, int nz = 1, bool withZ = true, double dxv = 1.0)
{
  VectorDouble dx, x0;
  for (int i = 0; i < (int)nx.size(); i++) { dx.push_back(dxv); x0.push_back(0.25); }
  DbGrid* g = DbGrid::create(nx, dx, x0);
  int n = g->getSampleNumber();
  for (int iz = 0; iz < nz; iz++)
  {
    VectorDouble v(n);
    for (int i = 0; i < n; i++) v[i] = 0.3 + 0.9 * ((i * 7 + 3 * iz) % 5) - 0.15 * iz + 0.01 * i;
    g->addColumns(v, "z" + std::to_string(iz + 1), withZ ? ELoc::Z : ELoc::UNKNOWN, iz);
  }
  return g;
}

static Db* makePoints(int ndim)
{
  VectorDouble tab = {0.5, 1.5, 2.5, 1.1, 0.6, 1.4, 2.2, 0.9};
  VectorString names = {"x1", "x2"}, locs = {"x1", "x2"};
  if (ndim == 1) { tab.resize(4); names.resize(1); locs.resize(1); }
  return Db::createFromSamples(4, ELoadBy::COLUMN, tab, names, locs, false);
}

static void addCol(Db* db, const std::string& name, double a, double b, const ELoc& loc = ELoc::UNKNOWN, int idx = 0)
{
  int n = db->getSampleNumber();
  VectorDouble v(n);
  for (int i = 0; i < n; i++) v[i] = a + b * i;
  db->addColumns(v, name, loc, idx);
}

struct Env
{
  Db* dbin = nullptr; Db* dbout = nullptr; Model* model = nullptr; ANeigh* neigh = nullptr;
  AnamHermite* anam = nullptr; Selectivity* sel = nullptr; ModelBoolean* tokens = nullptr;
  bool same = false;
  std::string prefix, prefixIn;
  ~Env() { if (!same) delete dbout; delete dbin; delete model; delete neigh; delete anam; delete sel; delete tokens; }
};

static Model* makeModel(int ndim, int nvar, bool extDrift = false, double sill = 1.5)
{
  Model* m;
  SpaceRN space(ndim);
  if (nvar == 1) m = Model::createFromParam(ECov::SPHERICAL, 3.0, sill, 1., VectorDouble(), VectorDouble(), VectorDouble(),
                                            &space);
  else
  {
    VectorDouble sills = {1.5, 0.4, 0.4, 0.9};
    m = Model::createFromParam(ECov::SPHERICAL, 3.0, 1., 1., VectorDouble(), sills, VectorDouble(), &space);
  }
  if (extDrift && m != nullptr) m->setDriftIRF(0, 1);
  return m;
}

static const std::set<std::string> OLD_SAME = {"xvalid", "simfft", "anam_transform", "regression", "gaussian_to_raw", "normal_score"};
// data base layout of the profile
static const std::set<std::string> SAME_DATA = {"xvalid", "xvalid_one", "xvalid_varz", "anam_transform", "regression", "gaussian_to_raw", "normal_score",
                                                "raw_to_factor", "raw_to_factor_ranks", "simupost_self"};
static const std::set<std::string> SAME_GRID = {"simfft", "simfft_multi", "krimage", "db_smoother", "morpho", "morpho_gradient",
                                                "cond_expectation", "uniform_cond", "disj_kriging", "cond_expectation_one",
                                                "cond_expectation_tq", "cond_expectation_tqbm", "uniform_cond_tq", "disj_kriging_tq"};
static const std::set<std::string> TWO_VAR = {"kriging_2var", "kriging_lc", "kriging_colcok", "stats_grid_multi"};
static bool starts(const std::string& s, const std::string& p) { return s.rfind(p, 0) == 0; }
static const std::set<std::string> OUT_ONLY = {"simtub_nc", "tess_voronoi", "tess_poisson", "substitution", "eden", "eden_stats",
                                               "simbool_nc"};
static const std::set<std::string> ANAM_MODEL = {"kriging_dgm", "simtub_dgm", "krig_factors", "krig_factors_cs", "krig_factors_one", "kriggam"};

static const std::map<std::string, std::string> PFX = {
  {"kriging", "Kriging"}, {"kriging_moving", "Kriging"}, {"kriging_extdrift", "Kriging"}, {"xvalid", "Xvalid"},
  {"test_neigh", "Neigh"}, {"simtub_nc", "Simu"}, {"simtub_cond", "Simu"}, {"migrate", "Migrate"},
  {"stats_grid", "Stats"}, {"simple_interp", "InvDist"}, {"simfft", "FFT"}, {"anam_transform", "Y"},
  {"regression", "Regr"}, {"krigtest", "Kriging"}, {"nearest_neighbor", "Nearest"}, {"moving_average", "MovAve"},
  {"least_squares", "LstSqr"}, {"migrate_multi", "Migrate"}, {"migrate_locator", "Migrate"}, {"kribayes", "Bayes"},
  {"kriging_dgm", "Kriging"}, {"krigcell", "KrigCell"}, {"krigprof", "KrigProf"}, {"kriggam", "KrigGam"},
  {"kriging_varz", "Kriging"}, {"krig_factors", "KD"}, {"krig_factors_cs", "KD"}, {"krimage", "Filtering"},
  {"db_smoother", "Smooth"}, {"morpho", "Morpho"}, {"morpho_gradient", "Morpho"}, {"invdist_std", "InvDist"},
  {"moving_median", "MovMed"}, {"simbayes", "SimBayes"}, {"simtub_dgm", "Simu"}, {"simfft_multi", "FFT"},
  {"tess_voronoi", "Voronoi"}, {"tess_poisson", "Poisson"}, {"substitution", "SimSub"}, {"eden", "Eden"},
  {"eden_stats", "Eden"}, {"simbool", "Boolean"}, {"simbool_nc", "Boolean"}, {"migrate_attr", "Migrate"},
  {"g2g_copy", "Copy"}, {"g2g_expand", ""}, {"g2g_shrink", "Shrink"}, {"g2g_interp", "Interpolation"},
  {"simupost_up", "Post"}, {"simupost_self", "Post"}, {"simupost_demo", "Post"}, {"simupost_layer", "Prop"},
  {"gaussian_to_raw", "Z"}, {"normal_score", "Gaussian"}, {"raw_to_factor", "Factor"}, {"raw_to_factor_ranks", "Factor"},
  {"cond_expectation", "CE"}, {"uniform_cond", "UC"}, {"disj_kriging", "DK"}, {"db_proportion", "Prop"},
  {"kriging_one", "Kriging"}, {"kriging_2var", "Kriging"}, {"kriging_lc", "Kriging"}, {"kriging_colcok", "Kriging"},
  {"xvalid_one", "Xvalid"}, {"xvalid_varz", "Xvalid"}, {"krig_factors_one", "KD"}, {"invdist_stdonly", "InvDist"},
  {"nearest_neighbor_std", "Nearest"}, {"moving_average_std", "MovAve"}, {"moving_median_std", "MovMed"},
  {"stats_grid_mean", "Stats"}, {"stats_grid_var", "Stats"}, {"stats_grid_multi", "Stats"}, {"simupost_up1", "Post"},
  {"simupost_up8", "Post"}, {"simupost_match", "Post"}, {"cond_expectation_one", "CE"}, {"cond_expectation_tq", "CE"},
  {"cond_expectation_tqbm", "CE"}, {"uniform_cond_tq", "UC"}, {"disj_kriging_tq", "DK"}};

static int invoke(const std::string& profile, const std::string& variant, Env& e);

// Build the objects of a scenario (prior "plain"; the "clash" columns are added by the caller)
static void setup(const std::string& profile, const std::string& variant, Env& e)
{
  int ndim = 2;
  int ndimModel = (variant == "ndim_mismatch") ? 3 : 2;
  int nvarData = TWO_VAR.count(profile) ? 2 : 1;
  int nvarModel = (variant == "nvar_mismatch" || variant == "nvar_model_two") ? 3 - nvarData : nvarData;
  bool withZ = variant != "no_z";
  bool ext = profile == "kriging_extdrift";
  auto it = PFX.find(profile);
  e.prefix = it == PFX.end() ? "" : it->second;

  // ------------------------------------------------ data bases
  if (SAME_DATA.count(profile))
  {
    e.same = true;
    e.dbin = makeData(ndim, 1, withZ, variant == "mode1");
    if (profile == "simupost_self")
    { addCol(e.dbin, "SimA.1", 1.0, 0.3); addCol(e.dbin, "SimA.2", 2.0, -0.2); }
    e.dbout = e.dbin;
  }
  else if (SAME_GRID.count(profile))
  {
    e.same = true;
    int nz = (variant == "two_z") ? 2 : 1;
    DbGrid* g = makeGridZ({5, 5}, nz, withZ);
    if (starts(profile, "cond_expectation") || starts(profile, "uniform_cond"))
    { addCol(g, "K.estim", -0.8, 0.07); addCol(g, "K.stdev", 0.35, 0.01); }
    if (starts(profile, "disj_kriging"))
    {
      addCol(g, "F.1.estim", -0.5, 0.04); addCol(g, "F.2.estim", 0.2, -0.01);
      addCol(g, "F.1.stdev", 0.4, 0.005); addCol(g, "F.2.stdev", 0.6, 0.004);
    }
    e.dbin = g;
    e.dbout = e.dbin;
  }
  else if (OUT_ONLY.count(profile))
  {
    e.dbin = nullptr;
    if (profile == "simtub_nc") e.dbout = makeGrid(ndim, false);
    else
    {
      DbGrid* g = DbGrid::create({6, 6}, {0.5, 0.5}, {0.25, 0.25});
      if (profile == "eden" || profile == "eden_stats")
      {
        int n = g->getSampleNumber();
        VectorDouble fac(n), flu(n, TEST);
        for (int i = 0; i < n; i++) fac[i] = 1 + ((i / 3) % 2);
        flu[0] = 1.;
        g->addColumns(fac, "Facies"); g->addColumns(flu, "Fluid");
      }
      e.dbout = g;
    }
  }
  else if (profile == "simu_refine")
  {
    e.dbin = makeGridZ({3, 3}, 1, withZ);
    e.dbout = nullptr;
  }
  else if (profile.rfind("g2g_", 0) == 0)
  {
    bool wrong = variant == "wrong_dims";
    if (profile == "g2g_copy") { e.dbin = makeGridZ({3, 3}, 1, withZ); e.dbout = wrong ? makeGrid(3, false) : makeGrid(2, false); }
    if (profile == "g2g_expand") { e.dbin = makeGridZ({3, 3}, 1, withZ); e.dbout = wrong ? makeGrid(2, false) : makeGrid(3, false); }
    if (profile == "g2g_shrink")
    {
      e.dbin = wrong ? makeGridZ({3, 3}, 1, withZ) : makeGridZ({3, 3, 3}, 1, withZ);
      DbGrid* g = makeGridZ({3, 3}, 1, true); g->setName("z1", "target");
      e.dbout = g;
    }
    if (profile == "g2g_interp")
    {
      DbGrid* g = makeGridZ({3, 3}, 2, withZ);
      addCol(g, "Top", 2.5, 0.01); addCol(g, "Bot", 0.1, 0.01);
      e.dbin = g; e.dbout = wrong ? makeGrid(2, false) : makeGrid(3, false);
    }
  }
  else if (profile == "simupost_up" || profile == "simupost_demo" || profile == "simupost_layer" || profile == "simupost_up1" ||
           profile == "simupost_up8" || profile == "simupost_match")
  {
    e.dbin = makeData(ndim, 1, true, false);
    addCol(e.dbin, "SimA.1", 0.2, 0.05); addCol(e.dbin, "SimA.2", 0.3, 0.04);
    addCol(e.dbin, "SimB.1", 0.4, 0.03); addCol(e.dbin, "SimB.2", 0.5, 0.02);
    e.dbout = (profile == "simupost_layer") ? makeGrid(3, false) : makeGrid(2, false);
  }
  else if (profile == "point_to_block" || profile == "expand_point_to_grid")
  {
    e.dbin = makePoints(variant == "ndim_mismatch" ? 1 : 2);
    addCol(e.dbin, "val", 3.0, 1.5);
    e.dbout = makeGrid(2, false);
  }
  else if (profile == "interp_to_point")
  {
    e.dbin = makeGridZ({3, 3}, 1, true);
    e.dbout = nullptr;
  }
  else if (profile == "simbool")
  {
    e.dbin = makeData(ndim, variant == "two_z" ? 2 : 1, true, false);
    int u1 = e.dbin->getUID("z1");
    static const double G[7] = {1, 0, 0, 0, 1, 0, 0};
    for (int i = 0; i < 7; i++) e.dbin->setArray(i, u1, G[i]);
    e.dbout = DbGrid::create({10, 10}, {0.3, 0.3}, {0.15, 0.15});
  }
  else if (profile == "db_proportion")
  {
    e.dbin = makeData(ndim, 1, withZ, false);
    int u1 = e.dbin->getUID("z1");
    for (int i = 0; i < 7; i++) e.dbin->setArray(i, u1, 1 + (i % 2));
    e.dbout = makeGridZ({4, 4}, 0);
  }
  else if (profile == "migrate" && (starts(variant, "g2") || starts(variant, "p2p")))
  {
    if (starts(variant, "g2")) e.dbin = makeGridZ({3, 3}, 1, true); else e.dbin = makeData(ndim, 1, true, false);
    if (starts(variant, "g2g")) e.dbout = makeGridZ({4, 4}, 0, true, 0.75); else e.dbout = makePoints(ndim);
  }
  else
  {
    e.dbin = makeData(ndim, nvarData, withZ, ext && variant != "expand");
    if (variant == "points_out" || variant == "block_on_points") e.dbout = makePoints(ndim);
    else e.dbout = makeGrid(ndim, ext && variant != "no_ext_out");
    if (profile == "kriging_colcok") addCol(e.dbout, "sec", 0.4, 0.13);
  }

  // profile-specific columns of the input / output data bases
  if (profile == "krigcell")
  {
    DbGrid* g = dynamic_cast<DbGrid*>(e.dbout);
    if (g != nullptr) { addCol(g, "bx1", 0.8, 0.01, ELoc::BLEX, 0); addCol(g, "bx2", 0.7, 0.02, ELoc::BLEX, 1); }
  }
  if (profile == "krigprof" && variant != "no_code")
  {
    int n = e.dbin->getSampleNumber();
    VectorDouble code(n), verr(n);
    for (int i = 0; i < n; i++) { code[i] = 1 + (i % 2); verr[i] = 0.05 + 0.01 * i; }
    e.dbin->addColumns(code, "code", ELoc::C); e.dbin->addColumns(verr, "verr", ELoc::V);
  }

  // ------------------------------------------------ model / anamorphosis / neighbourhood
  double sill = 1.5;
  if (ANAM_MODEL.count(profile)) sill = 1.0;
  if (variant == "sill_not_one" || variant == "sill_above_one") sill = 1.5;
  e.model = makeModel(ndimModel, nvarModel, ext, sill);
  if (profile == "krimage")
  { delete e.model; e.model = new Model(); e.model->addCovFromParam(ECov::NUGGET, 0., 0.5); e.model->addCovFromParam(ECov::SPHERICAL, 3., 1.); }
  if (variant == "no_model") { delete e.model; e.model = nullptr; }
  if ((profile == "kribayes" || profile == "simbayes") && e.model != nullptr) e.model->setDriftIRF(0);

  bool selProfile = starts(profile, "cond_expectation") || starts(profile, "uniform_cond") || starts(profile, "disj_kriging");
  bool needAnam = ANAM_MODEL.count(profile) || profile == "anam_transform" || profile == "gaussian_to_raw" ||
                  profile == "normal_score" || profile == "raw_to_factor" || profile == "raw_to_factor_ranks" || selProfile;
  if (needAnam)
  {
    e.anam = AnamHermite::create(12);
    if (variant != "anam_not_fitted")
    {
      // fitted on the raw variable of a scratch copy of the standard data (never on the scenario's own objects)
      Db* ref = makeData(2, 1, true, false);
      e.anam->fitFromLocator(ref);
      delete ref;
    }
    bool support = (profile == "kriging_dgm" || profile == "simtub_dgm" || profile == "krig_factors_cs" || starts(profile, "uniform_cond")) &&
                   variant != "no_support";
    if (support) e.anam->setRCoef(0.85);
    if (ANAM_MODEL.count(profile) && profile != "kriggam" && variant != "no_anam" && e.model != nullptr) e.model->setAnam(e.anam);
  }
  if (profile == "krig_factors" || profile == "krig_factors_cs" || profile == "krig_factors_one")
  {
    // the factors of the raw variable become the variables of the input data base
    AnamHermite* a = AnamHermite::create(12);
    Db* ref = makeData(2, 1, true, false); a->fitFromLocator(ref); delete ref;
    a->rawToFactor(e.dbin, 2);
    delete a;
  }
  if (selProfile && variant != "no_selectivity")
  {
    // the recovery functions asked for fix the number of output variables (option classes of the profiles)
    if (profile.size() > 3 && profile.substr(profile.size() - 3) == "_tq")
      e.sel = Selectivity::createByCodes({ESelectivity::T, ESelectivity::Q}, {0., 0.5}, true, true);
    else if (profile == "cond_expectation_tqbm")
      e.sel = Selectivity::createByCodes({ESelectivity::T, ESelectivity::Q, ESelectivity::B, ESelectivity::M}, {0.5}, true, true);
    else if (profile == "cond_expectation_one")
      e.sel = Selectivity::createByCodes({ESelectivity::T}, {0.5}, true, false);
    else
      e.sel = Selectivity::createByCodes({ESelectivity::T}, {0.5}, true, true);
  }

  bool moving = profile == "test_neigh" || variant == "moving" || starts(profile, "moving_average") || profile == "least_squares" ||
                starts(profile, "moving_median");
  if (profile == "krimage" || profile == "db_smoother" || variant == "image_neigh") e.neigh = NeighImage::create({1, 1});
  else if (moving) e.neigh = NeighMoving::create(false, 5, 10.);
  else e.neigh = NeighUnique::create();
  if (variant == "no_neigh") { delete e.neigh; e.neigh = nullptr; }

  if (profile == "simbool" || profile == "simbool_nc")
  {
    e.tokens = new ModelBoolean(2., true);
    ShapeParallelepiped tok(1., 0.3, 0.3, 1.);
    e.tokens->addToken(tok);
  }
}

// prior content "clash": columns that collide with what the calculator will create (the very names
// it produces on these inputs, learnt from a fault-free run on a scratch copy of the scenario), columns
// already carrying the role types given to outputs, plus an unrelated column with a role
static void applyClash(const std::string& profile, const std::string& variant, Env& e)
{
  std::vector<std::string> newOut, newIn;
  {
    Env s;
    setup(profile, variant, s);
    std::vector<std::string> o0 = namesOf(s.dbout), i0 = namesOf(s.dbin);
    verifFaultReset();
    (void) invoke(profile, variant, s);
    std::vector<std::string> o1 = namesOf(s.dbout), i1 = namesOf(s.dbin);
    for (size_t k = o0.size(); k < o1.size(); k++) newOut.push_back(o1[k]);
    if (!s.same) for (size_t k = i0.size(); k < i1.size(); k++) newIn.push_back(i1[k]);
  }
  auto fill = [](Db* db, const std::string& name, double a, const ELoc& loc) {
    int n = db->getSampleNumber();
    VectorDouble v(n);
    for (int i = 0; i < n; i++) v[i] = a + 0.5 * i;
    db->addColumns(v, name, loc, 0);
  };
  if (e.dbout != nullptr)
  {
    bool rolesToo = !e.same || OLD_SAME.count(profile);
    fill(e.dbout, e.prefix + ".z1.estim", 100., rolesToo ? ELoc::Z : ELoc::UNKNOWN);
    fill(e.dbout, e.prefix + ".z1.stdev", 200., rolesToo ? ELoc::V : ELoc::UNKNOWN);
    int n = e.dbout->getSampleNumber();
    VectorDouble c(n);
    for (int i = 0; i < n; i++) c[i] = (i % 2);
    e.dbout->addColumns(c, "keepme", ELoc::W, 0);
    std::vector<std::string> have = namesOf(e.dbout);
    int k = 0;
    for (const auto& nm : newOut)
      if (std::find(have.begin(), have.end(), nm) == have.end()) fill(e.dbout, nm, 300. + (k++), ELoc::UNKNOWN);
  }
  if (e.dbin != nullptr && !e.same)
  {
    int k = 0;
    for (const auto& nm : newIn) fill(e.dbin, nm, 400. + (k++), ELoc::UNKNOWN);
  }
}

// Call the entry point on the objects of the scenario. Returns the error code of the call.
static int invoke(const std::string& profile, const std::string& variant, Env& e)
{
  int err = 1;
  EKrigOpt calcul = (variant == "block_on_points") ? EKrigOpt::BLOCK : EKrigOpt::POINT;
  VectorInt ndiscs; if (variant == "block_on_points") ndiscs = {2, 2};
  DbGrid* gout = dynamic_cast<DbGrid*>(e.dbout);
  DbGrid* gin = dynamic_cast<DbGrid*>(e.dbin);

  if (profile == "kriging_one")
    err = kriging(e.dbin, e.dbout, e.model, e.neigh, calcul, variant == "est", variant == "stdev", variant == "varz");
  else if (profile == "kriging_2var")
    err = kriging(e.dbin, e.dbout, e.model, e.neigh);
  else if (profile == "kriging_lc")
  {
    MatrixRectangular* lc = MatrixRectangular::createFromVD({1., -0.5}, 1, 2);
    err = kriging(e.dbin, e.dbout, e.model, e.neigh, calcul, true, true, false, VectorInt(), VectorInt(), lc);
    delete lc;
  }
  else if (profile == "kriging_colcok")
    err = kriging(e.dbin, e.dbout, e.model, e.neigh, calcul, true, true, false, VectorInt(), {ITEST, e.dbout->getUID("sec")});
  else if (profile == "xvalid_one")
    err = xvalid(e.dbin, e.model, e.neigh, false, variant == "esterr" ? 1 : (variant == "estim" ? -1 : 0),
                 variant == "stderr" ? 1 : (variant == "stdev" ? -1 : 0), 0);
  else if (profile == "xvalid_varz")
    err = xvalid(e.dbin, e.model, e.neigh, false, 1, 1, 1);
  else if (profile == "kriging" || profile == "kriging_moving" || profile == "kriging_extdrift" || profile == "kriging_varz")
  {
    bool varz = profile == "kriging_varz";
    if (variant == "nolocator")
      err = kriging(e.dbin, e.dbout, e.model, e.neigh, calcul, true, true, varz, ndiscs, VectorInt(), nullptr,
                    NamingConvention("Kriging", true, true, false));
    else
      err = kriging(e.dbin, e.dbout, e.model, e.neigh, calcul, true, true, varz, ndiscs);
  }
  else if (profile == "kriging_dgm")
    err = kriging(e.dbin, e.dbout, e.model, e.neigh, EKrigOpt::DGM);
  else if (profile == "krigtest")
  {
    Krigtest_Res r = krigtest(e.dbin, e.dbout, e.model, e.neigh, 1, calcul, ndiscs, false, false);
    err = (!r.nbgh.empty()) ? 0 : 1;   // krigtest has no error code: an empty result is its failure report
  }
  else if (profile == "xvalid")
  {
    if (variant == "nolocator")
      err = xvalid(e.dbin, e.model, e.neigh, false, 1, 1, 0, VectorInt(), NamingConvention("Xvalid", true, true, false));
    else if (variant == "raw")
      err = xvalid(e.dbin, e.model, e.neigh, false, -1, -1, 0);
    else
      err = xvalid(e.dbin, e.model, e.neigh);
  }
  else if (profile == "test_neigh")
    err = test_neigh(e.dbin, e.dbout, e.model, e.neigh);
  else if (profile == "krigcell")
  {
    VectorInt nd = {2, 2}; if (variant == "no_ndisc") nd.clear();
    if (variant == "nolocator")
      err = krigcell(e.dbin, e.dbout, e.model, e.neigh, true, true, nd, VectorInt(), NamingConvention("KrigCell", true, true, false));
    else
      err = krigcell(e.dbin, e.dbout, e.model, e.neigh, true, true, nd);
  }
  else if (profile == "krigprof")
    err = krigprof(e.dbin, e.dbout, e.model, e.neigh);
  else if (profile == "kriggam")
    err = kriggam(e.dbin, e.dbout, e.model, e.neigh, e.anam);
  else if (profile == "krig_factors" || profile == "krig_factors_cs" || profile == "krig_factors_one")
  {
    EKrigOpt c = calcul; VectorInt nd = ndiscs;
    if (variant == "block_no_ndisc") { c = EKrigOpt::BLOCK; nd.clear(); }
    bool one = profile == "krig_factors_one";
    err = krigingFactors(e.dbin, e.dbout, e.model, e.neigh, c, nd, !one || variant != "stdev", !one || variant == "stdev");
  }
  else if (profile == "krimage")
    err = krimage(gin, e.model, e.neigh);
  else if (profile == "db_smoother")
    err = dbSmoother(gin, e.neigh, variant == "bad_type" ? 3 : (variant == "gaussian" ? 2 : 1), 1.5);
  else if (profile == "morpho" || profile == "morpho_gradient")
  {
    EMorpho oper = EMorpho::EROSION;
    if (profile == "morpho_gradient") oper = EMorpho::GRADIENT;
    else if (variant == "dilate") oper = EMorpho::DILATION;
    else if (variant == "thresh") oper = EMorpho::THRESH;
    else if (variant == "open") oper = EMorpho::OPEN;
    else if (variant == "unknown_oper") oper = EMorpho::UNKNOWN;
    else if (variant == "negation") oper = EMorpho::NEGATION;
    else if (variant == "close") oper = EMorpho::CLOSE;
    else if (variant == "cc") oper = EMorpho::CC;
    else if (variant == "ccsize") oper = EMorpho::CCSIZE;
    else if (variant == "distance") oper = EMorpho::DISTANCE;
    else if (variant == "angle") oper = EMorpho::ANGLE;
    if (variant == "nolocator")
      err = dbMorpho(gin, oper, 0.5, 2.5, 0, {1, 1}, false, false, NamingConvention("Morpho", true, true, false));
    else
      err = dbMorpho(gin, oper, 0.5, 2.5, 0, {1, 1});
  }
  else if (profile == "global_arithmetic" || profile == "global_kriging")
  {
    int ivar0 = variant == "bad_ivar" ? 3 : 0;
    Global_Result g = (profile == "global_arithmetic") ? global_arithmetic(e.dbin, gout, e.model, ivar0, false)
                                                       : global_kriging(e.dbin, e.dbout, e.model, ivar0, false);
    err = g.weights.empty() ? 1 : 0;   // no error code: the result structure is left unfilled by a failure
  }
  else if (profile == "simtub_nc" || profile == "simtub_cond")
    err = simtub(e.dbin, e.dbout, e.model, e.neigh, 2, 4321, variant == "nbtuba_zero" ? 0 : 20);
  else if (profile == "simtub_dgm")
    err = simtub(e.dbin, e.dbout, e.model, e.neigh, 2, 4321, 20, true);
  else if (profile == "simbayes")
  {
    MatrixSquareSymmetric pc(1); pc.setValue(0, 0, 0.5);
    err = simbayes(e.dbin, e.dbout, e.model, e.neigh, 2, 4321, {0.3}, pc, 20);
  }
  else if (profile == "migrate")
  {
    if (variant == "nolocator")
      err = migrate(e.dbin, e.dbout, "z1", 1, VectorDouble(), false, false, false, NamingConvention("Migrate", false, true, false));
    else
      err = migrate(e.dbin, e.dbout, variant == "bad_name" ? "nosuchvar" : "z1", variant == "dist2" ? 2 : 1,
                    variant == "dmax" ? VectorDouble({1., 1.}) : VectorDouble(),
                    variant == "fill" || variant == "fill_ball" || variant == "g2g_fill", variant == "g2p_inter",
                    variant == "fill_ball" || variant == "p2p_ball");
  }
  else if (starts(profile, "stats_grid"))
  {
    // the operator (and the radius) are the option values of the profile
    std::string o = variant.substr(0, variant.find('_'));
    EStatOption oper = o == "num" ? EStatOption::NUM : o == "mean" ? EStatOption::MEAN : o == "var" ? EStatOption::VAR :
                       o == "stdv" ? EStatOption::STDV : o == "mini" ? EStatOption::MINI : o == "maxi" ? EStatOption::MAXI :
                       o == "corr" ? EStatOption::CORR : o == "plus" ? EStatOption::PLUS : o == "moins" ? EStatOption::MOINS :
                       o == "zero" ? EStatOption::ZERO : o == "invalid" ? EStatOption::SUM :
                       (profile == "stats_grid_var" ? EStatOption::STDV : profile == "stats_grid" ? EStatOption::NUM : EStatOption::MEAN);
    err = dbStatisticsOnGrid(e.dbin, gout, oper, variant.find("radius1") != std::string::npos ? 1 : 0);
  }
  else if (profile == "simple_interp")
    err = inverseDistance(e.dbin, e.dbout, variant == "exponent1" ? 1. : 2., variant == "expand", variant == "dmax" ? 1.5 : TEST);
  else if (profile == "invdist_std")
    err = inverseDistance(e.dbin, e.dbout, 2., false, TEST, true, true, e.model);
  else if (profile == "invdist_stdonly")
    err = inverseDistance(e.dbin, e.dbout, 2., false, TEST, false, true, e.model);
  else if (profile == "nearest_neighbor_std")
    err = nearestNeighbor(e.dbin, e.dbout, true, true, e.model);
  else if (profile == "moving_average_std")
    err = movingAverage(e.dbin, e.dbout, e.neigh, true, true, e.model);
  else if (profile == "moving_median_std")
    err = movingMedian(e.dbin, e.dbout, e.neigh, true, true, e.model);
  else if (profile == "simfft" || profile == "simfft_multi")
  {
    SimuFFTParam param;
    err = simfft(gin, e.model, param, profile == "simfft_multi" ? 2 : 1, 5531);
  }
  else if (profile == "anam_transform")
  {
    if (variant == "by_name" || variant == "bad_name")
      err = e.anam->rawToGaussian(e.dbin, variant == "bad_name" ? "nosuchvar" : "z1");
    else
      err = e.anam->rawToGaussianByLocator(e.dbin);
  }
  else if (profile == "gaussian_to_raw")
  {
    if (variant == "by_name" || variant == "bad_name")
      err = e.anam->gaussianToRaw(e.dbin, variant == "bad_name" ? "nosuchvar" : "z1");
    else
      err = e.anam->gaussianToRawByLocator(e.dbin);
  }
  else if (profile == "normal_score")
    err = e.anam->normalScore(e.dbin, variant == "bad_name" ? "nosuchvar" : "z1");
  else if (profile == "raw_to_factor")
    err = e.anam->rawToFactor(e.dbin, 2);
  else if (profile == "raw_to_factor_ranks")
    err = e.anam->rawToFactorByRanks(e.dbin, variant == "bad_rank" ? VectorInt({0, 99}) : VectorInt({1, 3}));
  else if (starts(profile, "cond_expectation"))
    err = ConditionalExpectation(e.dbin, e.anam, e.sel, variant == "bad_name" ? "nosuch" : "K.estim", "K.stdev", false, TEST,
                                 variant == "montecarlo" ? 20 : 0);
  else if (starts(profile, "uniform_cond"))
    err = UniformConditioning(e.dbin, e.anam, e.sel, variant == "bad_name" ? "nosuch" : "K.estim", "K.stdev");
  else if (starts(profile, "disj_kriging"))
    err = DisjunctiveKriging(e.dbin, e.anam, e.sel, {variant == "bad_name" ? "nosuch" : "F.1.estim", "F.2.estim"},
                             {"F.1.stdev", "F.2.stdev"});
  else if (profile == "regression")
  {
    if (variant == "mode1") err = dbRegression(e.dbin, "z1", VectorString(), 1, true);
    else err = dbRegression(e.dbin, "z1", {variant == "bad_name" ? "nosuchvar" : "x1"}, 0, variant == "cst");
  }
  else if (profile == "nearest_neighbor")
    err = nearestNeighbor(e.dbin, e.dbout);
  else if (profile == "moving_average")
    err = movingAverage(e.dbin, e.dbout, e.neigh);
  else if (profile == "moving_median")
    err = movingMedian(e.dbin, e.dbout, e.neigh);
  else if (profile == "least_squares")
    err = leastSquares(e.dbin, e.dbout, e.neigh, variant == "order0" ? 0 : (variant == "order2" ? 2 : 1));
  else if (profile == "migrate_multi")
    err = migrateMulti(e.dbin, e.dbout, {variant == "bad_name" ? "nosuchvar" : "z1", "x1"});
  else if (profile == "migrate_locator")
    err = migrateByLocator(e.dbin, e.dbout, ELoc::Z, variant == "bad_dist_type" ? 3 : 1);
  else if (profile == "migrate_attr")
    err = migrateByAttribute(e.dbin, e.dbout, VectorInt(), variant == "bad_dist_type" ? 3 : 1);
  else if (profile == "kribayes")
  {
    MatrixSquareSymmetric pc(1); pc.setValue(0, 0, 0.5);
    err = kribayes(e.dbin, e.dbout, e.model, e.neigh, {0.3}, pc, true, true);
  }
  else if (profile == "tess_voronoi")
    err = tessellation_voronoi(gout, e.model, SimuPartitionParam(20, 1.5), 3322);
  else if (profile == "tess_poisson")
    err = tessellation_poisson(gout, e.model, SimuPartitionParam(20, variant == "no_plane" ? 0. : 1.5), 3322);
  else if (profile == "substitution")
  {
    SimuSubstitutionParam sp(3, 1.);
    err = substitution(gout, sp, 3322);
  }
  else if (profile == "eden" || profile == "eden_stats")
  {
    bool stats = profile == "eden_stats";
    int nfluids = stats ? 2 : 1, nfacies = 2;
    VectorInt speeds;
    if (variant == "zero_speed") speeds = VectorInt(6 * nfacies * nfluids, 0);
    err = fluid_propagation(gout, variant == "bad_name" ? "nosuch" : "Facies", "Fluid", "", "", nfacies, nfluids, stats ? 2 : 1, speeds);
  }
  else if (profile == "simu_refine")
  {
    DbGrid* r = simulation_refine(gin, e.model, SimuRefineParam(1), 3322);
    err = (r == nullptr) ? 1 : 0;
    delete r;
  }
  else if (profile == "simbool" || profile == "simbool_nc")
  {
    SimuBooleanParam bp;
    if (variant == "cannot_cover") bp.setMaxiter(2);   // two grains to cover, one drawing allowed
    if (variant == "nolocator")
      err = simbool(e.dbin, gout, e.tokens, bp, 432431, true, true, false, NamingConvention("Boolean", true, true, false));
    else
      err = simbool(e.dbin, gout, e.tokens, bp);
  }
  else if (profile == "g2g_copy") err = dbg2gCopy(gin, gout);
  else if (profile == "g2g_expand") err = dbg2gExpand(gin, gout);
  else if (profile == "g2g_shrink") err = dbg2gShrink(gin, gout);
  else if (profile == "g2g_interp")
    err = dbg2gInterpolate(gin, gout, variant == "bad_tops" ? VectorString({"Top", "Bot"}) : VectorString({"Top"}), {"Bot"});
  else if (starts(profile, "simupost_"))
  {
    VectorString names = {variant == "bad_name" ? "nosuch*" : "SimA*"};
    std::vector<EPostStat> stats = {EPostStat::MEAN, EPostStat::VAR};
    if (profile == "simupost_layer") { names.push_back("SimB*"); stats = {EPostStat::MEAN}; }
    if (profile == "simupost_match") names.push_back("SimB*");
    if (profile == "simupost_up8")
      stats = {EPostStat::MEAN, EPostStat::VAR, EPostStat::VARP, EPostStat::STD, EPostStat::STDP, EPostStat::MED, EPostStat::MINI, EPostStat::MAXI};
    if (profile == "simupost_up1")
      stats = {variant == "mini" ? EPostStat::MINI : variant == "maxi" ? EPostStat::MAXI : variant == "std" ? EPostStat::STD :
               variant == "stdp" ? EPostStat::STDP : variant == "varp" ? EPostStat::VARP : EPostStat::MED};
    if (variant == "no_stat") stats.clear();
    EPostUpscale up = variant == "no_upscale" ? EPostUpscale::UNKNOWN : EPostUpscale::MEAN;
    if (profile == "simupost_up")
      up = variant == "num" ? EPostUpscale::NUM : variant == "mini" ? EPostUpscale::MINI : variant == "maxi" ? EPostUpscale::MAXI : up;
    if (profile == "simupost_up" || profile == "simupost_up1" || profile == "simupost_up8") err = simuPost(e.dbin, gout, names, false, up, stats);
    else if (profile == "simupost_match") err = simuPost(e.dbin, gout, names, true, up, stats);
    else if (profile == "simupost_self") err = simuPost(e.dbin, nullptr, names, false, up, stats);
    else if (profile == "simupost_demo") err = simuPostDemo(e.dbin, gout, names, false, up, stats);
    else err = simuPostPropByLayer(e.dbin, gout, names, false, true, up, stats);
  }
  else if (profile == "point_to_block")
    err = pointToBlock(e.dbin, gout, variant == "block" ? 1 : 0, variant == "size" ? 1 : 0, -1, -1, -1, -1, -1, -1);
  else if (profile == "expand_point_to_grid")
  {
    VectorDouble tab(gout->getSampleNumber(), 0.);
    err = expandPointToGrid(e.dbin, gout, e.dbin->getUID("val"), -1, -1, -1, -1, -1, 0, 1, VectorDouble(), tab);
  }
  else if (profile == "interp_to_point")
  {
    static const double xp[3] = {0.6, 1.4, 2.1}, yp[3] = {0.9, 1.1, 1.9};
    double tab[3];
    err = interpolateVariableToPoint(gin, gin->getUID("z1"), 3, xp, variant == "no_coord" ? nullptr : yp, nullptr, tab);
  }
  else
    throw std::runtime_error("unknown profile " + profile);
  return err;
}

static char CUR[2048];
static int OUT_FD = -1;
static void onCrash(int sig)
{
  char buf[2300];
  int n = snprintf(buf, sizeof buf, "{\"scen\":%s,\"crash\":%d}\n", CUR, sig);
  if (OUT_FD >= 0 && n > 0) { ssize_t w = write(OUT_FD, buf, (size_t)n); (void)w; }
  _exit(88);
}

int main(int argc, char** argv)
{
  if (argc < 3) return 2;
  std::vector<Value> scen = vj::readNdjson(argv[1]);
  FILE* fo = fopen(argv[2], "a");
  if (!fo) return 2;
  setvbuf(fo, nullptr, _IOLBF, 0);
  OUT_FD = fileno(fo);
  int startAt = argc > 3 ? atoi(argv[3]) : 0;
  if (!freopen("/dev/null", "w", stdout)) return 2;
  std::set_terminate([]() { onCrash(6); });
  signal(SIGSEGV, onCrash); signal(SIGABRT, onCrash); signal(SIGFPE, onCrash); signal(SIGBUS, onCrash);
  defineDefaultSpace(ESpaceType::RN, 2);

  for (int is = startAt; is < (int)scen.size(); is++)
  {
    const Value& sc = scen[is];
    snprintf(CUR, sizeof CUR, "%s", vj::dump(sc).c_str());
    std::string profile = sc.at("profile").s(), fault = sc.at("fault").s(), variant = sc.at("variant").s(),
                prior = sc.at("prior").s();
    bool noerr = sc.getb("noerr", false);
    Env e;
    verifFaultReset();
    law_set_random_seed(1234 + is);
    setup(profile, variant, e);
    if (prior == "clash") applyClash(profile, variant, e);
    verifFaultReset();
    std::string site; int nth = 1;
    if (fault == "after_check") site = "calc.after_check";
    else if (fault == "after_preprocess") site = "calc.after_preprocess";
    else if (fault == "after_run") site = "calc.after_run";
    else if (fault.rfind("addvar", 0) == 0) { site = "calc.addvar"; nth = atoi(fault.c_str() + 6); }
    if (!site.empty()) verifFaultArm(site, nth);
    Value pre_in = project(e.dbin), pre_out = project(e.dbout);
    int err = invoke(profile, variant, e);
    int addvarVisits = verifFaultVisits("calc.addvar");
    bool struck = !site.empty() && verifFaultVisits(site) >= nth;
    verifFaultReset();
    auto emit = [&](int code, const Value& pin, const Value& pout, bool second, bool str, int visits) {
      Value rec = Value::object();
      rec["scen"] = sc;
      rec["ret"] = Value(code == 0 ? "ok" : "fail");
      rec["same"] = Value(e.same);
      rec["in_pre"] = pin; rec["out_pre"] = pout;
      rec["in_post"] = project(e.dbin); rec["out_post"] = project(e.dbout);
      rec["prefix"] = chars(e.prefix);
      rec["prefix_in"] = chars(e.prefixIn);
      rec["addvar_visits"] = Value(visits);
      rec["struck"] = Value(str);
      rec["second"] = Value(second);
      rec["noerrcode"] = Value(noerr);
      fprintf(fo, "%s\n", vj::dump(rec).c_str());
    };
    emit(err, pre_in, pre_out, false, struck, addvarVisits);
    // Usable: after a reported failure the objects remain usable -> a fault-free call on the same
    // objects (for natural failures the same failing input again: it must fail cleanly again)
    if (err != 0)
    {
      Value p_in = project(e.dbin), p_out = project(e.dbout);
      int err2 = invoke(profile, variant, e);
      emit(err2, p_in, p_out, true, false, 0);
    }
  }
  fclose(fo);
  return 0;
}
