// NeighMemo replay (C10): histories of NeighMemo.tla on a real NeighMoving; every select() is
// compared with select() on a freshly built neighbourhood holding the same final parameters.
#pragma once
#include "Neigh/NeighMoving.hpp"
#include "Neigh/NeighBench.hpp"
namespace nm {

static Db* makeDb()
{
  static const double X[8] = {0.31, 1.72, 2.55, 0.93, 2.11, 1.37, 0.58, 2.83};
  static const double Y[8] = {0.42, 0.27, 1.61, 2.33, 2.48, 1.29, 1.77, 0.94};
  static const double V[8] = {1.2, -0.4, 0.7, 2.1, -1.3, 0.2, 0.9, 1.6};
  VectorDouble tab;
  for (double x : X) tab.push_back(x);
  for (double y : Y) tab.push_back(y);
  for (double v : V) tab.push_back(v);
  return Db::createFromSamples(8, ELoadBy::COLUMN, tab, {"x1", "x2", "z1"}, {"x1", "x2", "z1"}, false);
}
// "sectors" layout: 60 samples, sample 0 in the centre and sample 1 on an edge (both with more candidates than nmaxi,
// sectors filled differently)
static Db* makeDbSectors()
{
  const int N = 60;
  VectorDouble x(N), y(N), v(N);
  unsigned long long st = 88172645463325252ULL;
  auto rnd = [&st]() { st ^= st << 13; st ^= st >> 7; st ^= st << 17; return (double)(st % 1000003ULL) / 1000003.0; };
  for (int i = 0; i < N; i++) { x[i] = 3. * rnd(); y[i] = 3. * rnd(); v[i] = 2. * rnd() - 1.; }
  x[0] = 1.5; y[0] = 1.5; x[1] = 0.3; y[1] = 1.5;   // centre, and the middle of the left edge
  VectorDouble tab;
  for (double a : x) tab.push_back(a);
  for (double a : y) tab.push_back(a);
  for (double a : v) tab.push_back(a);
  return Db::createFromSamples(N, ELoadBy::COLUMN, tab, {"x1", "x2", "z1"}, {"x1", "x2", "z1"}, false);
}
// "bench" layout: 3-D samples on three levels; targets 0 and 1 lie in different benches
static Db* makeDbBench()
{
  const int N = 18;
  VectorDouble x(N), y(N), z(N), v(N);
  unsigned long long st = 2463534242ULL;
  auto rnd = [&st]() { st ^= st << 13; st ^= st >> 7; st ^= st << 17; return (double)(st % 1000003ULL) / 1000003.0; };
  for (int i = 0; i < N; i++) { x[i] = 3. * rnd(); y[i] = 3. * rnd(); z[i] = (double)(i % 3) * 2.; v[i] = rnd(); }
  VectorDouble tab;
  for (double a : x) tab.push_back(a);
  for (double a : y) tab.push_back(a);
  for (double a : z) tab.push_back(a);
  for (double a : v) tab.push_back(a);
  return Db::createFromSamples(N, ELoadBy::COLUMN, tab, {"x1", "x2", "x3", "z1"}, {"x1", "x2", "x3", "z1"}, false);
}
static bool G_BENCH = false;
static bool G_SECT = false;
static NeighMoving* makeNeigh(int nmaxi)
{
  if (G_SECT) return NeighMoving::create(false, 4 * nmaxi, 1.6, 1, 8);   // no cap per sector: nmaxi alone binds
  return NeighMoving::create(false, nmaxi, 1.9);
}
struct Par { int nmaxi = 3; bool xvalid = false; bool colcok = false; };

static void applyPar(NeighMoving* n, const Par& p, Db* db)
{
  n->setNMaxi(G_SECT ? 4 * p.nmaxi : p.nmaxi);
  n->setFlagXvalid(p.xvalid);
  n->setRankColCok(p.colcok ? VectorInt{db->getUID("z1")} : VectorInt());
}

// bench layout: same histories on a NeighBench (the NeighMoving-specific setters are no-ops here)
static Value runBench(const Value& script)
{
  defineDefaultSpace(ESpaceType::RN, 3);
  Db* db = makeDbBench();
  bool xvalid = false;
  SpaceRN space(3);
  NeighBench* n = NeighBench::create(false, 1., &space);
  n->attach(db, db);
  Value obs = Value::array();
  int step = 0;
  for (auto& h : script.at("hist").arr)
  {
    step++;
    std::string op = h.at("op").s();
    if (op == "select")
    {
      int t = h.at("t").i();
      VectorInt r1; n->select(t, r1);
      NeighBench* f = NeighBench::create(xvalid, 1., &space);
      f->attach(db, db);
      VectorInt r2; f->select(t, r2);
      delete f;
      std::vector<int> a(r1.begin(), r1.end()), b(r2.begin(), r2.end());
      std::sort(a.begin(), a.end()); std::sort(b.begin(), b.end());
      Value o = Value::object();
      o["step"] = Value(step); o["t"] = Value(t);
      o["got"] = Value::arrayOf(a); o["fresh"] = Value::arrayOf(b);
      o["equal"] = Value(a == b);
      obs.push(o);
    }
    else if (op == "setFlagXvalid") { xvalid = h.at("v").boolean(); n->setFlagXvalid(xvalid); }
    else if (op == "attach") n->attach(db, db);
    else if (op == "clone") { NeighBench* c = new NeighBench(*n); delete n; n = c; }
  }
  delete n; delete db;
  defineDefaultSpace(ESpaceType::RN, 2);
  return obs;
}

Value run(const Value& script)
{
  if (script.has("layout") && script.at("layout").s() == "bench") return runBench(script);
  G_SECT = script.has("layout") && script.at("layout").s() == "sectors";
  Db* db = G_SECT ? makeDbSectors() : makeDb();
  Par par;
  NeighMoving* n = makeNeigh(par.nmaxi);
  n->attach(db, db);
  Value obs = Value::array();
  int step = 0;
  for (auto& h : script.at("hist").arr)
  {
    step++;
    std::string op = h.at("op").s();
    if (op == "select")
    {
      int t = h.at("t").i();
      VectorInt r1; n->select(t, r1);
      NeighMoving* f = makeNeigh(par.nmaxi);
      applyPar(f, par, db);
      f->attach(db, db);
      VectorInt r2; f->select(t, r2);
      delete f;
      std::vector<int> a(r1.begin(), r1.end()), b(r2.begin(), r2.end());
      std::sort(a.begin(), a.end()); std::sort(b.begin(), b.end());
      Value o = Value::object();
      o["step"] = Value(step); o["t"] = Value(t);
      o["got"] = Value::arrayOf(a); o["fresh"] = Value::arrayOf(b);
      o["equal"] = Value(a == b);
      obs.push(o);
    }
    else if (op == "setNMaxi") { par.nmaxi = h.at("v").i(); n->setNMaxi(G_SECT ? 4 * par.nmaxi : par.nmaxi); }
    else if (op == "setFlagXvalid") { par.xvalid = h.at("v").boolean(); n->setFlagXvalid(par.xvalid); }
    else if (op == "setRankColCok") { par.colcok = h.at("v").boolean(); n->setRankColCok(par.colcok ? VectorInt{db->getUID("z1")} : VectorInt()); }
    else if (op == "attach") n->attach(db, db);
    else if (op == "clone") { NeighMoving* c = new NeighMoving(*n); delete n; n = c; }
  }
  delete n; delete db;
  return obs;
}
}  // namespace nm
