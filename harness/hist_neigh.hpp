// NeighMemo replay (C10): histories of NeighMemo.tla on a real NeighMoving; every select() is
// compared with select() on a freshly built neighbourhood holding the same final parameters.
#pragma once
#include "Neigh/NeighMoving.hpp"
namespace nm {

static Db* makeDb()
{
  static const double X[8] = {0.31, 1.72, 2.55, 0.93, 2.11, 1.37, 0.58, 2.83};
  static const double Y[8] = {0.42, 0.27, 1.61, 2.33, 2.48, 1.29, 1.77, 0.94};
  static const double V[8] = {1.2, -0.4, 0.7, 2.1, -1.3, 0.2, 0.9, 1.6};
  VectorDouble tab;
  for (double x : X) tab.push_back(x);
  for (double y : Y) tab.push_back(y);
  for (double v : V) tab.push_back(v);
  return Db::createFromSamples(8, ELoadBy::COLUMN, tab, {"x1", "x2", "z1"}, {"x1", "x2", "z1"}, false);
}
struct Par { int nmaxi = 3; bool xvalid = false; bool colcok = false; };

static void applyPar(NeighMoving* n, const Par& p, Db* db)
{
  n->setNMaxi(p.nmaxi);
  n->setFlagXvalid(p.xvalid);
  n->setRankColCok(p.colcok ? VectorInt{db->getUID("z1")} : VectorInt());
}

Value run(const Value& script)
{
  Db* db = makeDb();
  Par par;
  NeighMoving* n = NeighMoving::create(false, par.nmaxi, 1.9);
  n->attach(db, db);
  Value obs = Value::array();
  int step = 0;
  for (auto& h : script.at("hist").arr)
  {
    step++;
    std::string op = h.at("op").s();
    if (op == "select")
    {
      int t = h.at("t").i();
      VectorInt r1; n->select(t, r1);
      NeighMoving* f = NeighMoving::create(false, par.nmaxi, 1.9);
      applyPar(f, par, db);
      f->attach(db, db);
      VectorInt r2; f->select(t, r2);
      delete f;
      std::vector<int> a(r1.begin(), r1.end()), b(r2.begin(), r2.end());
      std::sort(a.begin(), a.end()); std::sort(b.begin(), b.end());
      Value o = Value::object();
      o["step"] = Value(step); o["t"] = Value(t);
      o["got"] = Value::arrayOf(a); o["fresh"] = Value::arrayOf(b);
      o["equal"] = Value(a == b);
      obs.push(o);
    }
    else if (op == "setNMaxi") { par.nmaxi = h.at("v").i(); n->setNMaxi(par.nmaxi); }
    else if (op == "setFlagXvalid") { par.xvalid = h.at("v").boolean(); n->setFlagXvalid(par.xvalid); }
    else if (op == "setRankColCok") { par.colcok = h.at("v").boolean(); n->setRankColCok(par.colcok ? VectorInt{db->getUID("z1")} : VectorInt()); }
    else if (op == "attach") n->attach(db, db);
    else if (op == "clone") { NeighMoving* c = new NeighMoving(*n); delete n; n = c; }
  }
  delete n; delete db;
  return obs;
}
}  // namespace nm
