// C06 binding: concretises the abstract cases emitted by TLC from spec/MC_NeighMoving.tla and
// spec/KNN.tla and runs them on the REAL gstlearn NeighMoving / Ball / KNN.  The harness only
// executes and projects (selected ranks, indices, distances); expected values come from TLC and
// the comparison is done by tools/checks/c06.py.
//
//   neigh_run geom  <plan.json> <out.json>
//        Euclidean length (x 10000) of the unit anisotropic vector of every placement
//        (metric class, ndir, sector, Db position): the geometry TLC needs for the ball search
//   neigh_run neigh <cases.ndjson> <plan.json> <out.ndjson> [startCase startCfg]
//   neigh_run knn   <cases.ndjson> <out.ndjson> [startCase]
//
// Concretisation of a NeighMoving case (see plan.json written by c06.py for the configurations):
// the candidate at Db position i, with distance rank r, in placement sector s among ndir, gets the
// increment  u = r * scale * (direction of angle theta(ndir, s, i))  IN THE ANISOTROPY FRAME
// (theta strictly inside the sector; in 3-D with an elevation phi(i), sectors being defined on the
// first two coordinates), i.e. target - sample = Rot(angles) * (coeffs .* u) in world coordinates,
// which is the documented meaning of (radius, coeffs, angles).  A sample flagged "is the target"
// (cross-validation without K-fold) is put on the target.
#include "vjson.hpp"
#include "Db/Db.hpp"
#include "Db/DbGrid.hpp"
#include "Enum/ELoc.hpp"
#include "Neigh/NeighMoving.hpp"
#include "Geometry/ABiTargetCheck.hpp"
#include "Geometry/BiTargetCheckCode.hpp"
#include "Geometry/BiTargetCheckDate.hpp"
#include "Geometry/BiTargetCheckFaults.hpp"
#include "Faults/Faults.hpp"
#include "Basic/PolyLine2D.hpp"
#include "Space/ASpaceObject.hpp"
#include "Space/SpacePoint.hpp"
#include "Tree/Ball.hpp"
#include "Tree/KNN.hpp"
#include <csignal>
#include <unistd.h>
#include <cmath>
#include <map>

using vj::Value;

// ------------------------------------------------------------------------------ crash containment
static char CUR[256];
static int OUT_FD = -1;
static void onCrash(int sig)
{
  char buf[320];
  int n = snprintf(buf, sizeof buf, "%s,\"crash\":%d}\n", CUR, sig);
  if (OUT_FD >= 0 && n > 0) { ssize_t w = write(OUT_FD, buf, (size_t)n); (void)w; }
  _exit(88);
}
static void installHandlers()
{
  std::set_terminate([]() { onCrash(6); });
  signal(SIGSEGV, onCrash); signal(SIGABRT, onCrash); signal(SIGFPE, onCrash);
  signal(SIGBUS, onCrash); signal(SIGILL, onCrash);
}

// ------------------------------------------------------------------------------ geometry
struct Config
{
  std::string name;
  int dim = 2;
  std::vector<double> coeffs;   // empty: constructor default (isotropic)
  std::vector<double> angles;   // degrees
  std::vector<double> target;
  double scale = 1.;
  bool exact = false;           // integer coordinates, radius exactly on a sample
  bool grid = false;            // target = node of a DbGrid
  bool self = false;            // a sample flagged "is the target": the data base is its own target Db
  std::vector<std::string> checkers;
  int every = 1, offset = 0;
  int metric = 0;               // metric class (1-based) for the ball search, 0 = no ball search
  bool ball = false;
};

static Config readConfig(const Value& v)
{
  Config c;
  c.name = v.at("name").s();
  c.dim = v.geti("dim", 2);
  if (v.has("coeffs")) c.coeffs = v.at("coeffs").doubles();
  if (v.has("angles")) c.angles = v.at("angles").doubles();
  c.target = v.at("target").doubles();
  c.scale = v.getd("scale", 1.);
  c.exact = v.getb("exact", false);
  c.grid = v.getb("grid", false);
  c.self = v.getb("self", false);
  c.checkers = v.at("checkers").strings();
  c.every = v.geti("every", 1);
  c.offset = v.geti("offset", 0);
  c.metric = v.geti("metric", 0);
  c.ball = v.getb("ball", false);
  return c;
}

static const double PI = 3.14159265358979323846;
static double jitfrac(int i) { return (((i * 7 + 3) % 11) - 5) / 11.; }
static double theta(int ndir, int s, int i) { return (s + 0.5 + 0.8 * jitfrac(i)) * 2. * PI / ndir; }
static double phi(int i) { static const double P[6] = {0., 0.7, -0.35, 1.1, -0.7, 0.35}; return P[i % 6]; }

// integer directions of length 5 strictly inside the sectors (exact configuration)
static void exactDir(int ndir, int s, int i, double* v)
{
  static const int Q[4][2] = {{3, 4}, {-4, 3}, {-3, -4}, {4, -3}};   // 53.1, 143.1, 233.1, 323.1 degrees
  int q;
  switch (ndir)
  {
    case 1: q = i % 4; break;
    case 2: q = 2 * s + (i % 2); break;
    case 3: q = (s == 0) ? 0 : (s == 2) ? 3 : 1 + (i % 2); break;
    default: q = s; break;
  }
  v[0] = Q[q][0]; v[1] = Q[q][1];
}

// unit increment (anisotropy frame) of a placement; in the exact configuration its length is 5
static void unitIncr(const Config& c, int ndir, int s, int i, double* u)
{
  if (c.exact) { exactDir(ndir, s, i, u); if (c.dim == 3) u[2] = 0.; return; }
  double th = theta(ndir, s, i);
  if (c.dim == 2) { u[0] = cos(th); u[1] = sin(th); }
  else { double ph = phi(i); u[0] = cos(th) * cos(ph); u[1] = sin(th) * cos(ph); u[2] = sin(ph); }
}

// rotation matrix of gstlearn's documented convention (GeometryHelper: 2-D angle counter-clockwise
// from Ox; 3-D yaw/pitch/roll about Oz, Oy', Ox''), stored as gstlearn stores it
static std::vector<double> rotMat(int dim, const std::vector<double>& angles)
{
  std::vector<double> r(dim * dim, 0.);
  for (int k = 0; k < dim; k++) r[k * dim + k] = 1.;
  if (angles.empty()) return r;
  auto cs = [](double deg, double& c, double& s) { double a = deg * PI / 180.; c = cos(a); s = sin(a); };
  if (dim == 2)
  {
    double ca, sa; cs(angles[0], ca, sa);
    r[0] = ca; r[1] = sa; r[2] = -sa; r[3] = ca;
  }
  else if (dim == 3)
  {
    double ca[3], sa[3];
    for (int k = 0; k < 3; k++) cs(k < (int)angles.size() ? angles[k] : 0., ca[k], sa[k]);
    r[0] = ca[0] * ca[1];                          r[1] = sa[0] * ca[1];                          r[2] = -sa[1];
    r[3] = -sa[0] * ca[2] + ca[0] * sa[1] * sa[2]; r[4] = ca[0] * ca[2] + sa[0] * sa[1] * sa[2];  r[5] = ca[1] * sa[2];
    r[6] = sa[0] * sa[2] + ca[0] * sa[1] * ca[2];  r[7] = -ca[0] * sa[2] + sa[0] * sa[1] * ca[2]; r[8] = ca[1] * ca[2];
  }
  return r;
}

// world increment d (= target - sample) of an anisotropy-frame increment u:
// the code computes  incr = (d * Rot) ./ coeffs ; hence d = Rot * (u .* coeffs)
static void toWorld(const Config& c, const std::vector<double>& rot, const double* u, double* d)
{
  double a[3];
  for (int j = 0; j < c.dim; j++) a[j] = u[j] * (c.coeffs.empty() ? 1. : c.coeffs[j]);
  for (int k = 0; k < c.dim; k++)
  {
    d[k] = 0.;
    for (int j = 0; j < c.dim; j++) d[k] += rot[j * c.dim + k] * a[j];
  }
}

// ------------------------------------------------------------------------------ custom checker
// A user-defined pair checker (the API is open: ABiTargetCheck is an exported abstract class)
class ListedChecker : public ABiTargetCheck
{
public:
  std::vector<char> fail;
  bool isOK(const SpaceTarget& T1, const SpaceTarget& T2) const override
  {
    (void)T1;
    int ie = T2.getIech();
    if (ie < 0 || ie >= (int)fail.size()) return true;
    return !fail[ie];
  }
};

// ------------------------------------------------------------------------------ one case
struct Cand { bool active, defined, passes, flag; int rank, sector; };

static Value runCase(const Value& kase, const Config& cfg, const std::vector<double>& rot, int id)
{
  const Value& cv = kase.at("c");
  int n = (int)cv.size();
  std::vector<Cand> cs(n);
  for (int i = 0; i < n; i++)
  {
    const Value& e = cv[i];
    cs[i] = {e[0].i() != 0, e[1].i() != 0, e[4].i() != 0, e[5].i() != 0, e[2].i(), e[3].i()};
  }
  int ndir = kase.at("ndir").i(), nsect = kase.at("nsect").i();
  int nmini = kase.at("nmini").i(), nmaxi = kase.at("nmaxi").i(), nsmax = kase.at("nsmax").i();
  int radiusRank = kase.at("radiusRank").i();
  bool xvalid = kase.at("xvalid").boolean(), kfold = kase.at("kfold").boolean();
  int dim = cfg.dim;

  Value out = Value::object();
  out["i"] = Value(id);

  // ---- which checker rejects a candidate that does not pass
  bool hasCode = false, hasFaults = false, hasCustom = false, hasDate = false;
  for (auto& k : cfg.checkers)
  {
    if (k == "code") hasCode = true;
    if (k == "faults") hasFaults = true;
    if (k == "custom") hasCustom = true;
    if (k == "date") hasDate = true;
  }
  std::vector<int> how(n, 0);   // 1 code, 2 faults, 3 custom, 4 date
  for (int i = 0; i < n; i++)
  {
    if (cs[i].passes) continue;
    bool coincident = !kfold && cs[i].flag;
    std::vector<int> avail;
    if (hasCode && !(kfold && cs[i].flag)) avail.push_back(1);
    if (hasFaults && !coincident && !cfg.exact && dim == 2) avail.push_back(2);
    if (hasCustom) avail.push_back(3);
    if (hasDate) avail.push_back(4);
    if (avail.empty()) { out["skip"] = Value("checker not realisable"); return out; }
    how[i] = avail[(i + id) % avail.size()];
  }

  // ---- coordinates
  std::vector<std::vector<double>> X(dim, std::vector<double>(n));
  Faults* faults = hasFaults ? new Faults() : nullptr;
  for (int i = 0; i < n; i++)
  {
    bool coincident = !kfold && cs[i].flag;
    double u[3] = {0., 0., 0.}, d[3];
    unitIncr(cfg, ndir, cs[i].sector, i, u);
    double rho = coincident ? 0. : cs[i].rank * cfg.scale;
    double ur[3];
    for (int k = 0; k < dim; k++) ur[k] = u[k] * rho;
    toWorld(cfg, rot, ur, d);
    for (int k = 0; k < dim; k++) X[k][i] = cfg.target[k] - d[k];
    if (how[i] == 2)
    {
      // short fault across the segment target-sample, at 0.3 scale before the sample
      double len = cfg.exact ? 5. : 1.;
      double c0[2] = {u[0] * (rho - 0.3 * cfg.scale * len), u[1] * (rho - 0.3 * cfg.scale * len)};
      double h = 0.03 * cfg.scale;
      double e1[3] = {c0[0] - u[1] / len * h, c0[1] + u[0] / len * h, 0.};
      double e2[3] = {c0[0] + u[1] / len * h, c0[1] - u[0] / len * h, 0.};
      double w1[3], w2[3];
      toWorld(cfg, rot, e1, w1);
      toWorld(cfg, rot, e2, w2);
      faults->addFault(PolyLine2D({cfg.target[0] - w1[0], cfg.target[0] - w2[0]},
                                  {cfg.target[1] - w1[1], cfg.target[1] - w2[1]}));
    }
  }

  // ---- input Db
  Db* db = Db::create();
  static const char* XN[3] = {"x1", "x2", "x3"};
  for (int k = 0; k < dim; k++) db->addColumns(X[k], XN[k], ELoc::X, k);
  int nvar = (id % 3 == 0) ? 2 : 1;
  {
    VectorDouble z1(n), z2(n);
    for (int i = 0; i < n; i++)
    {
      z1[i] = cs[i].defined ? 10. + i : TEST;
      z2[i] = cs[i].defined ? 20. + i : TEST;
      if (nvar == 2 && cs[i].defined && (i % 2 == 1)) z1[i] = TEST;    // defined by its second variable only
    }
    db->addColumns(z1, "z1", ELoc::Z, 0);
    if (nvar == 2) db->addColumns(z2, "z2", ELoc::Z, 1);
  }
  bool anyInactive = false;
  for (auto& c : cs) anyInactive = anyInactive || !c.active;
  if (anyInactive || id % 2 == 0)
  {
    VectorDouble sel(n);
    for (int i = 0; i < n; i++) sel[i] = cs[i].active ? 1. : 0.;
    db->addColumns(sel, "sel", ELoc::SEL, 0);
  }
  const double codeTarget = 3.;
  bool needCode = hasCode || kfold;
  if (needCode)
  {
    VectorDouble code(n);
    for (int i = 0; i < n; i++)
    {
      if (how[i] == 1) code[i] = 9.;
      else if (kfold) code[i] = cs[i].flag ? codeTarget : 4.;
      else code[i] = (i % 2) ? codeTarget : 4.;
      if (cfg.self && !kfold && cs[i].flag && how[i] != 1) code[i] = codeTarget;   // it is the target
    }
    db->addColumns(code, "code", ELoc::C, 0);
  }
  const double dateTarget = 7.;
  if (hasDate)
  {
    VectorDouble date(n);
    for (int i = 0; i < n; i++) date[i] = (how[i] == 4) ? 100. + i : dateTarget;
    db->addColumns(date, "date", ELoc::DATE, 0);
  }

  // ---- target Db
  Db* dbout = nullptr;
  int iout = 0;
  int iself = -1;
  if (cfg.self && !kfold)
    for (int i = 0; i < n; i++) if (cs[i].flag) iself = i;
  if (iself >= 0)
  {
    // cross-validation as it is run in practice: the target is the sample itself, in the same Db
    dbout = db;
    iout = iself;
  }
  else if (cfg.grid)
  {
    VectorInt nx(dim, 2);
    VectorDouble dx(dim, 50. * cfg.scale), x0(dim);
    for (int k = 0; k < dim; k++) x0[k] = cfg.target[k] - dx[k];
    DbGrid* g = DbGrid::create(nx, dx, x0);
    iout = g->getSampleNumber() - 1;
    dbout = g;
  }
  else
  {
    int nt = 1 + (id % 2);
    dbout = Db::create();
    for (int k = 0; k < dim; k++)
    {
      VectorDouble t(nt, cfg.target[k]);
      if (nt == 2) t[0] = cfg.target[k] + 1000. * cfg.scale;      // a decoy target
      dbout->addColumns(t, XN[k], ELoc::X, k);
    }
    iout = nt - 1;
  }
  if (iself < 0)
  {
    int ntg = dbout->getSampleNumber();
    if (needCode) dbout->addColumns(VectorDouble(ntg, codeTarget), "code", ELoc::C, 0);
    if (hasDate) dbout->addColumns(VectorDouble(ntg, dateTarget), "date", ELoc::DATE, 0);
  }
  out["self"] = Value(iself >= 0);

  // ---- the neighbourhood
  double radius = cfg.exact ? 5. * cfg.scale * radiusRank : (radiusRank + 0.5) * cfg.scale;
  int nsmaxArg = (nsmax == 0 && id % 2 == 1) ? ITEST : nsmax;
  VectorDouble coeffs(cfg.coeffs.begin(), cfg.coeffs.end());
  VectorDouble angles(cfg.angles.begin(), cfg.angles.end());

  auto makeNeigh = [&](bool ball, int leaf) -> NeighMoving* {
    NeighMoving* nm = NeighMoving::create(xvalid, nmaxi, radius, nmini, nsect, nsmaxArg, coeffs, angles);
    nm->setFlagKFold(kfold);
    if (hasCode) nm->addBiTargetCheck(BiTargetCheckCode::create(1, 1.5));
    if (hasFaults) nm->addBiTargetCheck(BiTargetCheckFaults::create(faults));
    if (hasCustom)
    {
      ListedChecker* lc = new ListedChecker();
      lc->fail.assign(n, 0);
      for (int i = 0; i < n; i++) lc->fail[i] = (how[i] == 3);
      nm->addBiTargetCheck(lc);
    }
    if (hasDate) nm->addBiTargetCheck(BiTargetCheckDate::create(-0.5, 0.5));
    if (ball) nm->setBallSearch(true, leaf);
    return nm;
  };
  auto ranksOf = [](const VectorInt& r) { Value a = Value::array(); for (int x : r) a.push(Value(x)); return a; };

  {
    NeighMoving* nm = makeNeigh(false, 0);
    if (nm->attach(db, dbout) != 0) out["attach"] = Value(1);
    else
    {
      VectorInt ranks;
      nm->select(iout, ranks);
      out["r"] = ranksOf(ranks);
    }
    delete nm;
  }
  // ball search: only when TLC says the side condition holds for the metric class of this configuration
  bool wantBall = false;
  if (cfg.ball && kase.has("b"))
    for (auto& m : kase.at("b").arr) if (m.i() == cfg.metric) wantBall = true;
  if (wantBall)
  {
    Value b = Value::array();
    int leafs[2] = {1 + (id % n), 10};
    for (int l = 0; l < 2; l++)
    {
      NeighMoving* nm = makeNeigh(true, leafs[l]);
      Value e = Value::array();
      e.push(Value(leafs[l]));
      if (nm->attach(db, dbout) != 0) e.push(Value("attach"));
      else
      {
        VectorInt ranks;
        nm->select(iout, ranks);
        e.push(ranksOf(ranks));
      }
      b.push(e);
      delete nm;
    }
    out["b"] = b;
  }
  delete faults;
  if (dbout != db) delete dbout;
  delete db;
  return out;
}

static int mainNeigh(int argc, char** argv)
{
  if (argc < 5) return 2;
  std::vector<Value> cases = vj::readNdjson(argv[2]);
  Value plan = vj::readFile(argv[3]);
  FILE* fo = fopen(argv[4], "a");
  if (!fo) return 2;
  setvbuf(fo, nullptr, _IOFBF, 1 << 16);
  OUT_FD = fileno(fo);
  size_t startCase = argc > 5 ? (size_t)atol(argv[5]) : 0;
  int startCfg = argc > 6 ? atoi(argv[6]) : 0;
  std::vector<Config> cfgs;
  std::vector<std::vector<double>> rots;
  for (auto& v : plan.at("configs").arr)
  {
    cfgs.push_back(readConfig(v));
    rots.push_back(rotMat(cfgs.back().dim, cfgs.back().angles));
  }
  long nrun = 0;
  int curdim = -1;
  for (size_t k = startCase; k < cases.size(); k++)
  {
    int id = cases[k].at("id").i();
    for (int g = (k == startCase ? startCfg : 0); g < (int)cfgs.size(); g++)
    {
      const Config& cfg = cfgs[g];
      if (id % cfg.every != cfg.offset) continue;
      if (cfg.dim != curdim) { defineDefaultSpace(ESpaceType::RN, cfg.dim); curdim = cfg.dim; }
      snprintf(CUR, sizeof CUR, "{\"i\":%d,\"g\":%d,\"k\":%zu", id, g, k);
      fflush(fo);     // keep the file consistent before entering the library
      Value o;
      try { o = runCase(cases[k], cfg, rots[g], id); }
      catch (const std::exception& e) { o = Value::object(); o["i"] = Value(id); o["exc"] = Value(std::string(e.what())); }
      catch (...) { o = Value::object(); o["i"] = Value(id); o["exc"] = Value("unknown exception"); }
      o["g"] = Value(g);
      o["k"] = Value((long)k);
      std::string s = vj::dump(o);
      fputs(s.c_str(), fo); fputc('\n', fo);
      nrun++;
    }
  }
  fclose(fo);
  fprintf(stderr, "{\"runs\":%ld}\n", nrun);
  return 0;
}

// ------------------------------------------------------------------------------ geometry tables
static int mainGeom(int argc, char** argv)
{
  if (argc < 4) return 2;
  Value plan = vj::readFile(argv[2]);
  int maxn = plan.at("maxn").i(), maxdir = plan.at("maxdir").i();
  Value names = Value::array(), W = Value::array();
  for (auto& mv : plan.at("metrics").arr)
  {
    Config c = readConfig(mv);
    std::vector<double> rot = rotMat(c.dim, c.angles);
    names.push(Value(c.name));
    Value wm = Value::array();
    for (int ndir = 1; ndir <= maxdir; ndir++)
    {
      Value wd = Value::array();
      for (int s = 0; s < ndir; s++)
      {
        Value ws = Value::array();
        for (int i = 0; i < maxn; i++)
        {
          double u[3] = {0, 0, 0}, d[3];
          unitIncr(c, ndir, s, i, u);
          double len = c.exact ? 5. : 1.;
          for (int k = 0; k < c.dim; k++) u[k] /= len;
          toWorld(c, rot, u, d);
          double e = 0.;
          for (int k = 0; k < c.dim; k++) e += d[k] * d[k];
          ws.push(Value((int)std::llround(10000. * sqrt(e))));
        }
        wd.push(ws);
      }
      wm.push(wd);
    }
    W.push(wm);
  }
  Value o = Value::object();
  o["names"] = names;
  o["W"] = W;
  std::ofstream f(argv[3]);
  f << vj::dump(o) << "\n";
  return 0;
}

// ------------------------------------------------------------------------------ KNN
struct Obs { int k; std::vector<int> ind; std::vector<double> d; };
static std::string sig(int k, const VectorInt& ind, const VectorDouble& d)
{
  std::string s = std::to_string(k) + "|";
  for (int x : ind) s += std::to_string(x) + ",";
  s += "|";
  char buf[40];
  for (double x : d) { snprintf(buf, sizeof buf, "%.17g,", x); s += buf; }
  return s;
}

static int mainKnn(int argc, char** argv)
{
  if (argc < 4) return 2;
  std::vector<Value> cases = vj::readNdjson(argv[2]);
  FILE* fo = fopen(argv[3], "a");
  if (!fo) return 2;
  setvbuf(fo, nullptr, _IOFBF, 1 << 16);
  OUT_FD = fileno(fo);
  size_t start = argc > 4 ? (size_t)atol(argv[4]) : 0;
  long nq = 0;
  int curdim = -1;
  for (size_t kc = start; kc < cases.size(); kc++)
  {
    const Value& ka = cases[kc];
    int id = ka.at("id").i();
    int dim = ka.at("dim").i();
    if (dim != curdim) { defineDefaultSpace(ESpaceType::RN, dim); curdim = dim; }
    const Value& pts = ka.at("pts");
    int n = (int)pts.size();
    VectorVectorDouble data(dim, VectorDouble(n));
    for (int i = 0; i < n; i++)
      for (int k = 0; k < dim; k++) data[k][i] = pts[i][k].d();
    VectorDouble q(dim), q2(dim);
    for (int k = 0; k < dim; k++) { q[k] = ka.at("q")[k].d(); q2[k] = q[k] + 0.37 + k; }
    for (int metric = 1; metric <= 2; metric++)
    {
      if (!ka.at(metric == 1 ? "euc" : "man").at("ok").boolean()) continue;
      snprintf(CUR, sizeof CUR, "{\"i\":%d,\"m\":%d,\"k\":%zu", id, metric, kc);
      fflush(fo);
      std::map<std::string, std::pair<Obs, std::vector<std::string>>> seen;
      auto record = [&](int k, const VectorInt& ind, const VectorDouble& d, const std::string& by) {
        std::string s = sig(k, ind, d);
        auto it = seen.find(s);
        if (it == seen.end())
        {
          Obs o{k, std::vector<int>(ind.begin(), ind.end()), std::vector<double>(d.begin(), d.end())};
          seen[s] = {o, {by}};
        }
        else if (it->second.second.size() < 4) it->second.second.push_back(by);
        nq++;
      };
      std::vector<int> leafs;
      for (int l = 1; l <= n; l++) leafs.push_back(l);
      leafs.push_back(10);
      // Ball(VectorVectorDouble) frees n_features rows of a copy that has n_samples rows: invalid
      // free when there are fewer points than dimensions (gstlearn defect recorded in
      // known/C06.json).  Such cases build their trees from a Db, except the few probes that the
      // driver marks and runs in a process of their own.
      bool viaDb = n < dim && !ka.getb("force_vvd", false);
      Db* dbAll = nullptr;
      if (viaDb)
      {
        dbAll = Db::create();
        static const char* XN[3] = {"x1", "x2", "x3"};
        for (int k = 0; k < dim; k++) dbAll->addColumns(data[k], XN[k], ELoc::X, k);
      }
      for (int leaf : leafs)
      {
        std::string L = std::to_string(leaf);
        Ball* pball = viaDb ? new Ball(dbAll, nullptr, leaf, metric) : new Ball(data, nullptr, leaf, metric);
        Ball& ball = *pball;
        for (int k = 1; k <= n; k++)
        {
          KNN r1 = ball.queryOneAsVD(q, k);
          record(k, r1.getIndices(0), r1.getDistances(0), L + ":queryOneAsVD");
          {
            VectorInt gi(k); VectorDouble gd(k);
            for (int j = 0; j < k; j++) { gi[j] = r1.getIndex(0, j); gd[j] = r1.getDistance(0, j); }
            record(k, gi, gd, L + ":getIndex/getDistance");
          }
          VectorVectorDouble two(dim, VectorDouble(2));
          for (int kk = 0; kk < dim; kk++) { two[kk][0] = q2[kk]; two[kk][1] = q[kk]; }
          KNN r2 = ball.queryAsVVD(two, k);
          record(k, r2.getIndices(1), r2.getDistances(1), L + ":queryAsVVD");
          const double* qp = q.data();
          KNN r3 = ball.queryOne(qp, dim, k);
          record(k, r3.getIndices(0), r3.getDistances(0), L + ":queryOne");
          VectorInt ii; VectorDouble dd;
          ball.queryOneInPlace(q, k, ii, dd);
          record(k, ii, dd, L + ":queryOneInPlace");
          SpacePoint sp(q);
          KNN r4 = ball.queryOneAsVDFromSP(sp, k);
          record(k, r4.getIndices(0), r4.getDistances(0), L + ":queryOneAsVDFromSP");
          VectorInt gi2 = ball.getIndices(sp, k);
          record(k, gi2, r4.getDistances(0), L + ":getIndices");
          if (k == 1)
          {
            VectorInt c1(1, ball.queryClosest(q));
            record(1, c1, r1.getDistances(0), L + ":queryClosest");
          }
        }
        delete pball;
      }
      delete dbAll;
      // tree built from a Db (one leaf size), with and without a selection hiding nothing
      {
        Db* db = Db::create();
        static const char* XN[3] = {"x1", "x2", "x3"};
        for (int k = 0; k < dim; k++) db->addColumns(data[k], XN[k], ELoc::X, k);
        int leaf = 1 + id % n;
        Ball ball(db, nullptr, leaf, metric);
        for (int k = 1; k <= n; k++)
        {
          KNN r1 = ball.queryOneAsVD(q, k);
          record(k, r1.getIndices(0), r1.getDistances(0), std::to_string(leaf) + ":Ball(Db)");
        }
        Ball ball2;
        ball2.init(db, nullptr, leaf, metric);
        KNN r5 = ball2.queryOneAsVD(q, n);
        record(n, r5.getIndices(0), r5.getDistances(0), std::to_string(leaf) + ":Ball::init(Db)");
        delete db;
      }
      Value o = Value::object();
      o["i"] = Value(id);
      o["m"] = Value(metric);
      o["k"] = Value((long)kc);
      Value obs = Value::array();
      for (auto& kv : seen)
      {
        Value e = Value::object();
        e["k"] = Value(kv.second.first.k);
        e["ind"] = Value::arrayOf(kv.second.first.ind);
        e["d"] = Value::arrayOf(kv.second.first.d);
        e["by"] = Value::arrayOf(kv.second.second);
        obs.push(e);
      }
      o["obs"] = obs;
      std::string s = vj::dump(o);
      fputs(s.c_str(), fo); fputc('\n', fo);
    }
  }
  // restore the default metric of the process-wide ball-tree distance function
  {
    VectorVectorDouble one(1, VectorDouble(1, 0.));
    defineDefaultSpace(ESpaceType::RN, 1);
    Ball reset(one, nullptr, 1, 1);
  }
  fclose(fo);
  fprintf(stderr, "{\"queries\":%ld}\n", nq);
  return 0;
}

int main(int argc, char** argv)
{
  if (argc < 2) { fprintf(stderr, "usage: neigh_run geom|neigh|knn ...\n"); return 2; }
  // the library reports on stdout: keep it away
  if (!freopen("/dev/null", "w", stdout)) return 2;
  installHandlers();
  std::string mode = argv[1];
  try
  {
    if (mode == "geom") return mainGeom(argc, argv);
    if (mode == "neigh") return mainNeigh(argc, argv);
    if (mode == "knn") return mainKnn(argc, argv);
  }
  catch (const std::exception& e)
  {
    fprintf(stderr, "neigh_run: %s\n", e.what());
    return 2;
  }
  return 2;
}
