// C05 binding: masked / undefined samples never influence a result.
//
// For every Db pattern emitted by TLC from spec/Usable.tla (selection cell, coordinates, values, external
// drift, measurement error defined or not, per sample) this harness builds on the fixed lattice geometry of
// the spec
//   M  the real masked Db (undefined = TEST, selection column with ELoc::SEL),
//   P  the same Db with the CONTENT of every unusable sample changed (metamorphic form: nothing may change),
//   R  the physically reduced Db dictated by the spec (rows Keep(S, needs) only, no selection column, a value
//      undefined in one variable only stays an undefined value = heterotopic),
// runs every operation of the catalogue on each of them with the real library and writes all the results as
// ndjson.  Nothing is decided here: the comparison (masked vs reduced through the spec's index mapping, masked
// vs perturbed bit for bit, counts / neighbourhoods / rows vs the spec's expectation) is done by
// tools/checks/c05.py from TLC's output.
//
// Crashes and hangs of the library are contained: the cases are processed by forked workers; each (case, op)
// runs under a CPU-time limit; a signal is recorded as the result of that (case, op) and the worker resumes
// with the next one.
//
// usage: mask_run <config.json> <cases.ndjson> <out-prefix> <nworkers>
#include "vjson.hpp"
#include "Db/Db.hpp"
#include "Db/DbGrid.hpp"
#include "Model/Model.hpp"
#include "Neigh/NeighUnique.hpp"
#include "Neigh/NeighMoving.hpp"
#include "Estimation/CalcKriging.hpp"
#include "Estimation/CalcSimpleInterpolation.hpp"
#include "Estimation/CalcGlobal.hpp"
#include "Basic/Law.hpp"
#include "Simulation/CalcSimuTurningBands.hpp"
#include "Calculators/CalcMigrate.hpp"
#include "Variogram/Vario.hpp"
#include "Variogram/VarioParam.hpp"
#include "Stats/Classical.hpp"
#include "Matrix/Table.hpp"
#include "Matrix/MatrixRectangular.hpp"
#include "Matrix/MatrixSquareSymmetric.hpp"
#include "Matrix/MatrixSparse.hpp"
#include "Space/ASpaceObject.hpp"
#include "Enum/ELoc.hpp"
#include "Enum/ECalcMember.hpp"
#include "Enum/EStatOption.hpp"
#include <csignal>
#include <unistd.h>
#include <sys/wait.h>
#include <sys/mman.h>
#include <sys/time.h>
#include <sys/resource.h>
#include <fcntl.h>
#include <set>
#include <map>

using vj::Value;

// ----------------------------------------------------------------------------- fixed content
static std::vector<double> SX, SY, TX, TY;     // geometry, from the spec
static int NMAXI = 2, NLAG = 4, GNX = 3, CGNX = 8, CGNY = 7;
static double GDX = 3.5, GDY = 3.;
static double LAGW = 2.;
static int SEED = 1;
// values carried by the sample identities (dyadic rationals: sums are exact whatever the order)
static const double Z1[4] = {2.5, -1.25, 4.75, 0.5};
static const double Z2[4] = {10.5, 13.25, 9.0, 11.75};
static const double FX[4] = {1.5, 3.0, 2.0, 4.5};
static const double VE[4] = {0.25, 0.5, 0.125, 0.375};
static const double FT[5] = {2.5, 1.0, 3.5, 4.0, 2.0};   // external drift at the targets

struct Case
{
  std::string id;
  int n = 0, nvar = 1;
  bool hasF = false, hasV = false, hasSel = false;
  std::vector<std::string> sel;
  std::vector<int> c, f, v;
  std::vector<std::vector<int>> z;
  std::map<std::string, std::vector<int>> keep;   // needs key -> positions (1-based)
  std::map<std::string, std::vector<std::vector<int>>> keepv;   // needs key -> per variable, positions where that datum is usable
  std::vector<std::pair<std::string, std::string>> run;   // (operation, needs key)
  // target cases
  bool tcase = false;
  std::vector<std::string> tsel;
};

static Case parseCase(const Value& j)
{
  Case c;
  c.id = j.at("id").s();
  c.tcase = j.getb("tcase", false);
  c.n = j.at("n").i();
  c.nvar = j.at("nvar").i();
  c.hasF = j.at("hasF").boolean();
  c.hasV = j.at("hasV").boolean();
  c.sel = j.at("sel").strings();
  c.hasSel = c.n > 0 && c.sel[0] != "none";
  for (auto& e : j.at("c").arr) c.c.push_back(e.boolean());
  for (auto& e : j.at("f").arr) c.f.push_back(e.boolean());
  for (auto& e : j.at("v").arr) c.v.push_back(e.boolean());
  for (auto& e : j.at("z").arr)
  {
    std::vector<int> zz;
    for (auto& w : e.arr) zz.push_back(w.boolean());
    c.z.push_back(zz);
  }
  for (auto& kv : j.at("keep").obj) c.keep[kv.first] = kv.second.ints();
  if (j.has("keepv"))
    for (auto& kv : j.at("keepv").obj)
      for (auto& e : kv.second.arr) c.keepv[kv.first].push_back(e.ints());
  for (auto& e : j.at("run").arr) c.run.push_back({e.arr[0].s(), e.arr[1].s()});
  if (j.has("tsel")) c.tsel = j.at("tsel").strings();
  return c;
}

static double selValue(const std::string& s)
{
  if (s == "on") return 1.;
  if (s == "off") return 0.;
  if (s == "na") return TEST;
  if (s == "neg") return -1.;
  return 1.;
}

// variant: 'M' masked, 'P' perturbed (content of the samples outside keep[nk] changed), 'R' reduced to keep[nk],
// '0' = reduced to keep[nk] with an undefined measurement error replaced by 0 (alternative reading, V layout)
// onlyVar >= 0 (with variant 'R'): physical removal for ONE requested variable: the rows where that datum is usable,
// the other variable being filled (it is irrelevant to a request for variable onlyVar)
static Db* buildDb(const Case& cs, char variant, const std::string& nk, int onlyVar = -1)
{
  const std::vector<int>& keep = (onlyVar >= 0) ? cs.keepv.at(nk)[onlyVar] : cs.keep.at(nk);
  std::set<int> kept(keep.begin(), keep.end());
  std::vector<int> rows;
  if (variant == 'R' || variant == '0')
    rows = keep;
  else
    for (int i = 1; i <= cs.n; i++) rows.push_back(i);
  int nr = (int)rows.size();
  if (nr == 0) return nullptr;
  VectorDouble x(nr), y(nr), z1(nr), z2(nr), f(nr), v(nr), sel(nr), idc(nr);
  for (int k = 0; k < nr; k++)
  {
    int i = rows[k];          // position in the pattern = identity
    int a = i - 1;
    bool pert = (variant == 'P') && !kept.count(i);
    double dx = pert ? 0.5 : 0., dy = pert ? 0.5 : 0.;
    bool cdef = cs.c[a];
    // which coordinate is undefined depends on the identity: 1 -> x, 2 -> y, 3 -> both, 4 -> x
    bool xna = !cdef && (i == 1 || i == 3 || i == 4);
    bool yna = !cdef && (i == 2 || i == 3);
    x[k] = xna ? TEST : SX[a] + dx;
    y[k] = yna ? TEST : SY[a] + dy;
    z1[k] = (cs.z[a][0] || onlyVar == 1) ? (pert ? 3. * Z1[a] + 1. : Z1[a]) : TEST;
    if (cs.nvar > 1) z2[k] = (cs.z[a][1] || onlyVar == 0) ? (pert ? 3. * Z2[a] + 1. : Z2[a]) : TEST;
    f[k] = cs.f[a] ? (pert ? FX[a] + 2.25 : FX[a]) : TEST;
    v[k] = cs.v[a] ? (pert ? 4. * VE[a] : VE[a]) : (variant == '0' ? 0. : TEST);
    sel[k] = selValue(cs.sel[a]);
    idc[k] = i;
  }
  Db* db = Db::create();
  db->addColumns(idc, "id");
  db->addColumns(x, "x", ELoc::X, 0);
  db->addColumns(y, "y", ELoc::X, 1);
  db->addColumns(z1, "z1", ELoc::Z, 0);
  if (cs.nvar > 1) db->addColumns(z2, "z2", ELoc::Z, 1);
  if (cs.hasF) db->addColumns(f, "f", ELoc::F, 0);
  if (cs.hasV) db->addColumns(v, "v", ELoc::V, 0);
  if (cs.hasSel && (variant == 'M' || variant == 'P')) db->addColumns(sel, "sel", ELoc::SEL, 0);
  return db;
}

// target Db: points with (optionally) a selection and a pre-existing column; 'R' = masked targets removed
static Db* buildTargets(const Case* cs, bool withF, char variant = 'M')
{
  int nt = (int)TX.size();
  std::vector<int> rows;
  bool tsel = cs != nullptr && cs->tcase && !cs->tsel.empty() && cs->tsel[0] != "none";
  for (int t = 0; t < nt; t++)
    if (variant != 'R' || !tsel || cs->tsel[t] == "on") rows.push_back(t);
  int nr = (int)rows.size();
  if (nr == 0) return nullptr;
  VectorDouble x(nr), y(nr), f(nr), prior(nr), sel(nr);
  for (int k = 0; k < nr; k++)
  {
    int t = rows[k];
    x[k] = TX[t]; y[k] = TY[t]; f[k] = FT[t]; prior[k] = 100. + t;
    sel[k] = tsel ? selValue(cs->tsel[t]) : 1.;
  }
  Db* db = Db::create();
  db->addColumns(x, "x", ELoc::X, 0);
  db->addColumns(y, "y", ELoc::X, 1);
  if (withF) db->addColumns(f, "f", ELoc::F, 0);
  if (cs != nullptr && cs->tcase)
  {
    db->addColumns(prior, "prior");
    if (tsel && variant != 'R') db->addColumns(sel, "tsel", ELoc::SEL, 0);
  }
  return db;
}

// the active nodes of the target grid as a point Db (the grid "reduced" to its active nodes), in node order
static Db* buildGridActiveNodes(const Case& cs)
{
  VectorDouble x, y, prior;
  bool tsel = !cs.tsel.empty() && cs.tsel[0] != "none";
  for (int k = 0; k < GNX * GNX; k++)
  {
    if (tsel && cs.tsel[k % (int)cs.tsel.size()] != "on") continue;
    x.push_back((k % GNX) * GDX); y.push_back((k / GNX) * GDY); prior.push_back(200. + k);
  }
  if (x.empty()) return nullptr;
  Db* db = Db::create();
  db->addColumns(x, "x", ELoc::X, 0);
  db->addColumns(y, "y", ELoc::X, 1);
  db->addColumns(prior, "prior");
  return db;
}

static DbGrid* buildGrid(const Case* cs)
{
  DbGrid* g = DbGrid::create({GNX, GNX}, {GDX, GDY}, {0., 0.});
  if (cs != nullptr && cs->tcase)
  {
    int nn = GNX * GNX;
    VectorDouble prior(nn), sel(nn);
    bool tsel = !cs->tsel.empty() && cs->tsel[0] != "none";
    for (int k = 0; k < nn; k++)
    {
      prior[k] = 200. + k;
      // the selection pattern of the 5 targets is spread over the 9 nodes
      sel[k] = tsel ? selValue(cs->tsel[k % (int)cs->tsel.size()]) : 1.;
    }
    g->addColumns(prior, "prior");
    if (tsel) g->addColumns(sel, "tsel", ELoc::SEL, 0);
  }
  return g;
}

// targets lying exactly on the data: the 4 sample places then the 4 corners of the field; or a grid of mesh 1
static Db* buildOnTargets()
{
  VectorDouble x, y;
  for (int a = 0; a < (int)SX.size(); a++) { x.push_back(SX[a]); y.push_back(SY[a]); }
  double cx[4] = {0., (double)(CGNX - 1), (double)(CGNX - 1), 0.}, cy[4] = {0., 0., (double)(CGNY - 1), (double)(CGNY - 1)};
  for (int k = 0; k < 4; k++) { x.push_back(cx[k]); y.push_back(cy[k]); }
  Db* db = Db::create();
  db->addColumns(x, "x", ELoc::X, 0);
  db->addColumns(y, "y", ELoc::X, 1);
  return db;
}
static DbGrid* buildOnGrid() { return DbGrid::create({CGNX, CGNY}, {1., 1.}, {0., 0.}); }

// territory of the global estimations / second Db of the average covariances: the 3 x 3 grid, with (mode 1) a fixed
// selection, (mode 2) the selection and weights (one of them zero); asPoints: the same Db physically reduced to its
// active nodes (a point Db)
static const double GSEL[9] = {1, 0, 1, 1, 1, 0, 0, 1, 1};
static const double GWGT[9] = {1., 3., 0.5, 2., 0., 1., 4., 1.5, 1.};
static Db* buildTerritory(int mode, bool asPoints)
{
  int nn = GNX * GNX;
  if (!asPoints)
  {
    DbGrid* g = DbGrid::create({GNX, GNX}, {GDX, GDY}, {0., 0.});
    VectorDouble sel(nn), w(nn);
    for (int k = 0; k < nn; k++) { sel[k] = GSEL[k % 9]; w[k] = GWGT[k % 9]; }
    if (mode >= 2) g->addColumns(w, "w", ELoc::W, 0);
    if (mode >= 1) g->addColumns(sel, "gsel", ELoc::SEL, 0);
    return g;
  }
  VectorDouble x, y, w;
  for (int k = 0; k < nn; k++)
  {
    if (mode >= 1 && GSEL[k % 9] == 0.) continue;
    x.push_back((k % GNX) * GDX); y.push_back((k / GNX) * GDY); w.push_back(GWGT[k % 9]);
  }
  Db* db = Db::create();
  db->addColumns(x, "x", ELoc::X, 0);
  db->addColumns(y, "y", ELoc::X, 1);
  if (mode >= 2) db->addColumns(w, "w", ELoc::W, 0);
  return db;
}

// a fresh model for every call (no state shared between calls)
// kind 0: structures + nugget; 1 (expo): structure only (exponential); 2: nugget effect only
static Model* makeModel(const Case& cs, int irf, int expo = 0)
{
  Model* m;
  if (expo == 2)
  {
    if (cs.nvar == 1) m = Model::createFromParam(ECov::NUGGET, 0., 2.);
    else m = Model::createFromParam(ECov::NUGGET, 0., 1., 1., VectorDouble(), {2., 0.8, 0.8, 1.5});
  }
  else if (expo == 1)
  {
    // position-free band process (migration): no array indexed by the projected coordinate
    if (cs.nvar == 1) m = Model::createFromParam(ECov::EXPONENTIAL, 8., 2.);
    else m = Model::createFromParam(ECov::EXPONENTIAL, 8., 1., 1., VectorDouble(), {2., 0.8, 0.8, 1.5});
  }
  else if (cs.nvar == 1)
  {
    m = Model::createFromParam(ECov::SPHERICAL, 8., 2.);
    m->addCovFromParam(ECov::NUGGET, 0., 0.5);
  }
  else
  {
    m = Model::createFromParam(ECov::SPHERICAL, 8., 1., 1., VectorDouble(), {2., 0.8, 0.8, 1.5});
    m->addCovFromParam(ECov::NUGGET, 0., 1., 1., VectorDouble(), {0.5, 0.1, 0.1, 0.25});
  }
  m->setDriftIRF(irf, cs.hasF ? 1 : 0);
  return m;
}

static ANeigh* makeNeigh(const std::string& kind)
{
  if (kind == "u") return NeighUnique::create();
  NeighMoving* nm = NeighMoving::create(false, NMAXI, 50., 1);
  if (kind == "mb") nm->setBallSearch(true, 10);
  return nm;
}

// ----------------------------------------------------------------------------- results
struct Res
{
  std::string st = "ok";
  std::vector<double> v;
  std::vector<int> i;
  Value json() const
  {
    Value o = Value::object();
    o["st"] = Value(st);
    Value a = Value::array();
    for (double x : v)
    {
      if (FFFF(x) || std::isnan(x) || std::isinf(x)) a.push(Value());
      else a.push(Value(x));
    }
    o["v"] = a;
    o["i"] = Value::arrayOf(i);
    return o;
  }
};

static void pushVec(Res& r, const VectorDouble& v) { for (double x : v) r.v.push_back(x); }
static void pushNewColumns(Res& r, const Db* db, int ncolBefore)
{
  int nc = db->getColumnNumber();
  r.i.push_back(nc - ncolBefore);
  r.i.push_back(db->getSampleNumber());
  for (int ic = ncolBefore; ic < nc; ic++) pushVec(r, db->getColumnByColIdx(ic, false, false));
}
static void pushMatrix(Res& r, const AMatrix& m)
{
  r.i.push_back(m.getNRows());
  r.i.push_back(m.getNCols());
  for (int a = 0; a < m.getNRows(); a++)
    for (int b = 0; b < m.getNCols(); b++) r.v.push_back(m.getValue(a, b));
}

static VectorString zNames(const Case& cs)
{
  VectorString n = {"z1"};
  if (cs.nvar > 1) n.push_back("z2");
  return n;
}

// ----------------------------------------------------------------------------- operations on the data Db
static bool isReqOp(const std::string& op)
{
  return op == "cov_req" || op == "cov_sym_req" || op == "drift_req" || op == "ranks_req";
}

// matrices / readers asked for some variables only.  For a single requested variable the reduced Db is the physical
// removal FOR THAT VARIABLE (buildDb(..., onlyVar))
static Res runReqOp(const Case& cs, const std::string& op, Db* db, char variant, const std::string& nk)
{
  Res r;
  std::vector<VectorInt> reqs;
  for (int w = 0; w < cs.nvar; w++) reqs.push_back({w});
  if (op == "ranks_req" && cs.nvar > 1) reqs.push_back({1, 0});
  for (auto& rq : reqs)
  {
    bool single = rq.size() == 1;
    Db* own = (variant == 'R' && single) ? buildDb(cs, 'R', nk, rq[0]) : nullptr;
    Db* d = (variant == 'R' && single) ? own : db;
    if (d == nullptr)
    {
      // no row at all for this request: no Db can be built; marked, the masked run must then return nothing
      if (op == "ranks_req") { r.i.push_back(-3); r.i.push_back(-2); }
      else { r.i.push_back(-1); r.i.push_back(-1); }
      continue;
    }
    int w = rq[0];
    if (op == "cov_req")
    {
      Db* tg = buildTargets(nullptr, false);
      { Model* m = makeModel(cs, 0); MatrixRectangular a = m->evalCovMatrix(d, nullptr, w, w); pushMatrix(r, a); delete m; }
      { Model* m = makeModel(cs, 0); MatrixRectangular a = m->evalCovMatrix(d, tg, w, w); pushMatrix(r, a); delete m; }
      { Model* m = makeModel(cs, 0); MatrixRectangular a = m->evalCovMatrixOptim(d, nullptr, w, w); pushMatrix(r, a); delete m; }
      { Model* m = makeModel(cs, 0); MatrixRectangular a = m->evalCovMatrixOptim(d, tg, w, w); pushMatrix(r, a); delete m; }
      {
        Model* m = makeModel(cs, 0);
        MatrixSparse* a = m->evalCovMatrixSparse(d, nullptr, w, w);
        if (a != nullptr) { pushMatrix(r, *a); delete a; }
        else { r.i.push_back(0); r.i.push_back(0); }
        delete m;
      }
      delete tg;
    }
    else if (op == "cov_sym_req")
    {
      { Model* m = makeModel(cs, 0); MatrixSquareSymmetric a = m->evalCovMatrixSymmetric(d, w); pushMatrix(r, a); delete m; }
      { Model* m = makeModel(cs, 0); MatrixSquareSymmetric a = m->evalCovMatrixSymmetricOptim(d, w); pushMatrix(r, a); delete m; }
    }
    else if (op == "drift_req")
    {
      Model* m = makeModel(cs, 1);
      MatrixRectangular a = m->evalDriftMatrix(d, w, VectorInt(), ECalcMember::LHS);
      pushMatrix(r, a);
      delete m;
    }
    else   // ranks_req: Db::getMultipleRanksActive / getMultipleValuesActive with the list of variables
    {
      VectorVectorInt idx = d->getMultipleRanksActive(rq);
      int ntot = 0;
      for (auto& l : idx)
      {
        for (int q : l) r.i.push_back((int)d->getValue("id", q));
        r.i.push_back(-1);
        ntot += (int)l.size();
      }
      r.i.push_back(-2);
      VectorDouble vals = d->getMultipleValuesActive(rq);
      r.v.push_back((double)vals.size());
      pushVec(r, vals);
    }
    delete own;
  }
  return r;
}

static Res runOp(const Case& cs, const std::string& op, Db* db, char variant, const std::string& nk)
{
  Res r;
  if (isReqOp(op)) return runReqOp(cs, op, db, variant, nk);
  if (db == nullptr) { r.st = "empty"; return r; }
  if (op == "krig_u" || op == "krig_m" || op == "krig_mb")
  {
    Db* tg = buildTargets(nullptr, cs.hasF);
    Model* m = makeModel(cs, 0);
    ANeigh* ng = makeNeigh(op.substr(5));
    int nc0 = tg->getColumnNumber();
    int err = kriging(db, tg, m, ng, EKrigOpt::POINT, true, true, true);
    if (err) r.st = "err";
    pushNewColumns(r, tg, nc0);
    delete ng; delete m; delete tg;
  }
  else if (op == "neigh_u" || op == "neigh_m" || op == "neigh_mb")
  {
    Db* tg = buildTargets(nullptr, cs.hasF);
    ANeigh* ng = makeNeigh(op.substr(6));
    if (ng->attach(db, tg)) r.st = "err";
    else
      for (int t = 0; t < tg->getSampleNumber(); t++)
      {
        VectorInt ranks;
        ng->select(t, ranks);
        for (int q : ranks) r.i.push_back((int)db->getValue("id", q));   // identity of the selected rows
        r.i.push_back(-1);
      }
    delete ng; delete tg;
  }
  else if (op == "xvalid_u" || op == "xvalid_m")
  {
    Db* d = db->clone();
    Model* m = makeModel(cs, 0);
    ANeigh* ng = makeNeigh(op.substr(7));
    int nc0 = d->getColumnNumber();
    int err = xvalid(d, m, ng, false, 1, 1, 0);
    if (err) r.st = "err";
    pushNewColumns(r, d, nc0);
    delete ng; delete m; delete d;
  }
  else if (op == "vario" || op == "vario_cov")
  {
    VarioParam* vp = VarioParam::createOmniDirection(NLAG, LAGW);
    Db* d = db->clone();
    Vario* vr = Vario::computeFromDb(*vp, d, op == "vario" ? ECalcVario::VARIOGRAM : ECalcVario::COVARIANCE);
    if (vr == nullptr) r.st = "err";
    else
    {
      for (int iv = 0; iv < cs.nvar; iv++)
        for (int jv = 0; jv <= iv; jv++)
          for (int l = 0; l < NLAG; l++)
          {
            r.v.push_back(vr->getSw(0, iv, jv, l));
            r.v.push_back(vr->getHh(0, iv, jv, l));
            r.v.push_back(vr->getGg(0, iv, jv, l));
          }
      delete vr;
    }
    delete d; delete vp;
  }
  else if (op == "stat" || op == "stat_iso")
  {
    bool iso = (op == "stat_iso");
    VectorString names = zNames(cs);
    Table t = dbStatisticsMono(db, names, EStatOption::fromKeys({"NUM", "MEAN", "VAR", "MINI", "MAXI", "SUM"}), iso);
    r.i.push_back(t.getNRows()); r.i.push_back(t.getNCols());
    for (int a = 0; a < t.getNRows(); a++)
      for (int b = 0; b < t.getNCols(); b++) r.v.push_back(t.getValue(a, b));
    Table tc = dbStatisticsCorrel(db, names, iso);
    for (int a = 0; a < tc.getNRows(); a++)
      for (int b = 0; b < tc.getNCols(); b++) r.v.push_back(tc.getValue(a, b));
    if (!iso)
    {
      for (const char* key : {"NUM", "MEAN", "VAR", "CORR", "MINI", "MAXI"})
      {
        Table tm = dbStatisticsMulti(db, names, EStatOption::fromKey(key), false);
        for (int a = 0; a < tm.getNRows(); a++)
          for (int b = 0; b < tm.getNCols(); b++) r.v.push_back(tm.getValue(a, b));
      }
      for (auto& nm : names)
      {
        r.v.push_back(db->getMean(nm, true));
        r.v.push_back(db->getVariance(nm, true));
        r.v.push_back(db->getMinimum(nm, true));
        r.v.push_back(db->getMaximum(nm, true));
      }
      if (cs.nvar > 1) r.v.push_back(db->getCorrelation("z1", "z2", true));
      for (int iv = 0; iv < cs.nvar; iv++) r.v.push_back(db->getNumberActiveAndDefined(iv));
    }
    else
    {
      MatrixSquareSymmetric vm = dbVarianceMatrix(db);
      pushMatrix(r, vm);
    }
  }
  else if (op == "cov")
  {
    Db* tg = buildTargets(nullptr, false);
    { Model* m = makeModel(cs, 0); MatrixRectangular a = m->evalCovMatrix(db); pushMatrix(r, a); delete m; }
    { Model* m = makeModel(cs, 0); MatrixRectangular a = m->evalCovMatrix(db, tg); pushMatrix(r, a); delete m; }
    { Model* m = makeModel(cs, 0); MatrixRectangular a = m->evalCovMatrixOptim(db); pushMatrix(r, a); delete m; }
    { Model* m = makeModel(cs, 0); MatrixRectangular a = m->evalCovMatrixOptim(db, tg); pushMatrix(r, a); delete m; }
    {
      // with a list of sample ranks: all the rows whose identity is not 2
      VectorInt nbgh;
      for (int k = 0; k < db->getSampleNumber(); k++)
        if ((int)db->getValue("id", k) != 2) nbgh.push_back(k);
      Model* m = makeModel(cs, 0);
      if (!nbgh.empty()) { MatrixRectangular a = m->evalCovMatrix(db, nullptr, 0, 0, nbgh, nbgh); pushMatrix(r, a); }
      else { r.i.push_back(0); r.i.push_back(0); }
      delete m;
    }
    delete tg;
  }
  else if (op == "cov_sym")
  {
    { Model* m = makeModel(cs, 0); MatrixSquareSymmetric a = m->evalCovMatrixSymmetric(db); pushMatrix(r, a); delete m; }
    { Model* m = makeModel(cs, 0); MatrixSquareSymmetric a = m->evalCovMatrixSymmetricOptim(db); pushMatrix(r, a); delete m; }
  }
  else if (op == "drift")
  {
    Model* m = makeModel(cs, 1);
    MatrixRectangular a = m->evalDriftMatrix(db, -1, VectorInt(), ECalcMember::LHS);
    pushMatrix(r, a);
    delete m;
  }
  else if (op == "simtub" || op == "simtub_pt" || op == "simtub_exp")
  {
    Db* tg = (op != "simtub_pt") ? (Db*)buildGrid(nullptr) : buildTargets(nullptr, cs.hasF);
    Model* m = makeModel(cs, 0, op == "simtub_exp" ? 1 : 0);
    ANeigh* ng = makeNeigh("u");
    int nc0 = tg->getColumnNumber();
    int err = simtub(db, tg, m, ng, 2, 52931 + SEED, 8);
    if (err) r.st = "err";
    pushNewColumns(r, tg, nc0);
    delete ng; delete m; delete tg;
  }
  else if (op == "migrate" || op == "migrate_ball")
  {
    Db* tg = buildTargets(nullptr, false);
    int nc0 = tg->getColumnNumber();
    int err = migrate(db, tg, "z1", 1, VectorDouble(), false, false, op == "migrate_ball");
    if (err) r.st = "err";
    pushNewColumns(r, tg, nc0);
    delete tg;
  }
  else if (op == "migrate_grid" || op == "migrate_fill")
  {
    DbGrid* tg = buildGrid(nullptr);
    int nc0 = tg->getColumnNumber();
    int err = migrate(db, tg, "z1", 1, VectorDouble(), op == "migrate_fill", false, false);
    if (err) r.st = "err";
    pushNewColumns(r, tg, nc0);
    delete tg;
  }
  else if (op == "invdist" || op == "nearest" || op == "movave" || op == "movmed" || op == "lstsqr")
  {
    // simple interpolators, at the ordinary targets then at targets lying exactly on the data
    for (int pass = 0; pass < 2; pass++)
    {
      Db* tg = pass == 0 ? buildTargets(nullptr, false) : buildOnTargets();
      ANeigh* ng = makeNeigh("m");
      int nc0 = tg->getColumnNumber();
      int err = 0;
      if (op == "invdist") err = inverseDistance(db, tg, 2., true, TEST, true, false);
      else if (op == "nearest") err = nearestNeighbor(db, tg);
      else if (op == "movave") err = movingAverage(db, tg, ng);
      else if (op == "movmed") err = movingMedian(db, tg, ng);
      else err = leastSquares(db, tg, ng, 0);
      if (err) r.st = "err";
      pushNewColumns(r, tg, nc0);
      delete ng; delete tg;
    }
  }
  else if (op == "avgcov")
  {
    // average covariances between the data and itself / a second Db without selection, with a selection, with a
    // selection and weights, in both orders; on the reduced side the second Db is reduced to its active nodes too
    bool red = (variant == 'R');
    { Model* m = makeModel(cs, 0); r.v.push_back(m->evalAverageDbToDb(db, db, 0, 0, 0., 0)); delete m; }
    for (int mode = 0; mode < 3; mode++)
    {
      Db* g = buildTerritory(mode, red);
      { Model* m = makeModel(cs, 0); r.v.push_back(m->evalAverageDbToDb(db, g, 0, 0, 0., 0)); delete m; }
      { Model* m = makeModel(cs, 0); r.v.push_back(m->evalAverageDbToDb(g, db, 0, 0, 0., 0)); delete m; }
      delete g;
    }
  }
  else if (op == "global_arith" || op == "global_krig")
  {
    // global estimation of the territory (grid without / with a selection); the grid itself cannot be reduced.
    // (global_kriging with 2 variables corrupts the heap whatever the data: not run)
    if (op == "global_krig" && cs.nvar > 1) { r.st = "n/a"; return r; }
    for (int mode = 0; mode < 2; mode++)
    {
      // Cvv is computed with randomised places and the generator is not re-seeded by the library (seed = 0)
      law_set_random_seed(13579 + SEED);
      DbGrid* g = dynamic_cast<DbGrid*>(buildTerritory(mode, false));
      Model* m = makeModel(cs, 0);
      Db* d = db->clone();
      Global_Result gr = (op == "global_arith") ? global_arithmetic(d, g, m, 0, false) : global_kriging(d, g, m, 0, false);
      r.v.push_back(gr.np); r.v.push_back(gr.ng); r.v.push_back(gr.surface); r.v.push_back(gr.zest);
      r.v.push_back(gr.sse); r.v.push_back(gr.cvgeo); r.v.push_back(gr.cvv);
      r.v.push_back((double)gr.weights.size());
      pushVec(r, gr.weights);
      delete d; delete m; delete g;
    }
  }
  else if (op == "krig_on")
  {
    // kriging at targets lying on the data (points, then the nodes of a grid): exactness is for usable data only
    for (int pass = 0; pass < 2; pass++)
    {
      Db* tg = pass == 0 ? buildOnTargets() : (Db*)buildOnGrid();
      Model* m = makeModel(cs, 0);
      ANeigh* ng = makeNeigh("u");
      int nc0 = tg->getColumnNumber();
      int err = kriging(db, tg, m, ng, EKrigOpt::POINT, true, true, false);
      if (err) r.st = "err";
      pushNewColumns(r, tg, nc0);
      delete ng; delete m; delete tg;
    }
  }
  else if (op == "simtub_on" || op == "simtub_on_grid")
  {
    Db* tg = (op == "simtub_on") ? buildOnTargets() : (Db*)buildOnGrid();
    Model* m = makeModel(cs, 0);
    ANeigh* ng = makeNeigh("u");
    int nc0 = tg->getColumnNumber();
    int err = simtub(db, tg, m, ng, 2, 52931 + SEED, 8);
    if (err) r.st = "err";
    pushNewColumns(r, tg, nc0);
    delete ng; delete m; delete tg;
  }
  else if (op == "reduce")
  {
    Db* red = Db::createReduce(db);
    if (red == nullptr) r.st = "err";
    else
    {
      for (int k = 0; k < red->getSampleNumber(); k++) r.i.push_back((int)red->getValue("id", k));
      delete red;
      // the other row-level readings of the selection: count of active samples, compressed column, ranks
      r.i.push_back(-1);
      r.i.push_back(db->getSampleNumber(true));
      r.i.push_back(-1);
      for (double x : db->getColumn("id", true, true)) r.i.push_back((int)x);
      r.i.push_back(-1);
      for (int q : db->getRanksActive()) r.i.push_back((int)db->getValue("id", q));
      r.i.push_back(-1);
      VectorBool act = db->getActiveArray();
      for (int k = 0; k < db->getSampleNumber(); k++) if (act[k]) r.i.push_back((int)db->getValue("id", k));
    }
  }
  else
    r.st = "unknown-op";
  return r;
}

// ----------------------------------------------------------------------------- operations on masked targets
// the output Db carries the selection; recorded: the new columns (all rows) and the pre-existing column
static Res runTargetOp(const Case& cs, const std::string& op, Db* db, char variant)
{
  Res r;
  if (db == nullptr) { r.st = "empty"; return r; }
  // turning bands: t_sim_<c|n>_<p|g>_<sn|s|n> = conditional or not, point or grid target, model
  bool sim = op.rfind("t_sim_", 0) == 0;
  bool cond = sim && op[6] == 'c';
  bool grid = sim && op[8] == 'g';
  std::string mod = sim ? op.substr(10) : "";
  int mkind = mod == "s" ? 1 : mod == "n" ? 2 : 0;
  Db* tg;
  if (grid && variant == 'R')
  {
    // a grid cannot be reduced; its active nodes as points are comparable for the nugget-only model
    if (mkind != 2) { r.st = "n/a"; return r; }
    tg = buildGridActiveNodes(cs);
  }
  else
    tg = grid ? (Db*)buildGrid(&cs) : buildTargets(&cs, false, variant);
  if (tg == nullptr) { r.st = "empty"; return r; }
  int nc0 = tg->getColumnNumber();
  int err = 0;
  if (op == "t_krig_u" || op == "t_krig_m")
  {
    Model* m = makeModel(cs, 0);
    ANeigh* ng = makeNeigh(op.substr(7));
    err = kriging(db, tg, m, ng, EKrigOpt::POINT, true, true, true);
    delete ng; delete m;
  }
  else if (sim)
  {
    Model* m = makeModel(cs, 0, mkind);
    ANeigh* ng = makeNeigh("u");
    if (cond) err = simtub(db, tg, m, ng, 2, 52931 + SEED, 8);
    else err = simtub(nullptr, tg, m, nullptr, 2, 52931 + SEED, 8);
    delete ng; delete m;
  }
  else if (op == "t_migrate" || op == "t_migrate_ball")
    err = migrate(db, tg, "z1", 1, VectorDouble(), false, false, op == "t_migrate_ball");
  else
    r.st = "unknown-op";
  if (err) r.st = "err";
  pushNewColumns(r, tg, nc0);
  pushVec(r, tg->getColumn("prior", false, false));
  delete tg;
  return r;
}

// ----------------------------------------------------------------------------- crash containment
struct Shared
{
  volatile long next;       // index of the next (case, op) task to run
  volatile int variant;     // variant being run
};
static Shared* SH = nullptr;
static int OUTFD = -1;
static char CUR[256];

static void onSignal(int sig)
{
  // async-signal-safe: the record of the task that died is written with write(2)
  char buf[400];
  const char* name = sig == SIGVTALRM ? "timeout" : sig == SIGALRM ? "timeout-wall" : sig == SIGSEGV ? "SIGSEGV"
                     : sig == SIGABRT ? "SIGABRT" : sig == SIGFPE ? "SIGFPE" : sig == SIGBUS ? "SIGBUS" : "signal";
  int n = 0;
  const char* p = CUR;
  while (*p && n < 300) buf[n++] = *p++;
  const char* q = ",\"crash\":\"";
  while (*q) buf[n++] = *q++;
  while (*name) buf[n++] = *name++;
  const char* e = "\",\"variant\":\"";
  while (*e) buf[n++] = *e++;
  buf[n++] = (char)(SH ? SH->variant : '?');
  buf[n++] = '"'; buf[n++] = '}'; buf[n++] = '\n';
  ssize_t w = write(OUTFD, buf, n);
  (void)w;
  _exit(88);
}

struct Task { int icase; int irun; };

static void runTask(const std::vector<Case>& cases, const Task& t)
{
  const Case& cs = cases[t.icase];
  const std::string& op = cs.run[t.irun].first;
  const std::string& nk = cs.run[t.irun].second;
  snprintf(CUR, sizeof CUR, "{\"id\":\"%s\",\"op\":\"%s\"", cs.id.c_str(), op.c_str());
  struct itimerval it = {{0, 0}, {0, 400000}};
  setitimer(ITIMER_VIRTUAL, &it, nullptr);
  alarm(60);
  Value rec = Value::object();
  rec["id"] = Value(cs.id);
  rec["op"] = Value(op);
  std::string variants = "MPR";
  if (cs.hasV && (op == "krig_u" || op == "xvalid_u" || op == "krig_m" || op == "xvalid_m")) variants = "MPR0";
  for (char var : variants)
  {
    SH->variant = var;
    Res r;
    if (cs.tcase)
    {
      if (var == 'P' || var == '0') continue;
      Db* db = buildDb(cs, 'M', nk);
      r = runTargetOp(cs, op, db, var);
      delete db;
    }
    else
    {
      // the alternative reading of an undefined measurement error keeps the sample: reduce on the key without "v"
      std::string key = nk;
      if (var == '0') key = cs.hasF ? "cf" : "c";
      Db* db = buildDb(cs, var, key);
      r = runOp(cs, op, db, var, key);
      delete db;
    }
    rec[std::string(1, var)] = r.json();
  }
  struct itimerval off = {{0, 0}, {0, 0}};
  setitimer(ITIMER_VIRTUAL, &off, nullptr);
  alarm(0);
  std::string line = vj::dump(rec);
  line.push_back('\n');
  size_t done = 0;
  while (done < line.size())
  {
    ssize_t w = write(OUTFD, line.data() + done, line.size() - done);
    if (w <= 0) _exit(3);
    done += (size_t)w;
  }
}

static int worker(const std::vector<Case>& cases, const std::vector<Task>& tasks, const std::string& outpath)
{
  OUTFD = open(outpath.c_str(), O_WRONLY | O_CREAT | O_TRUNC | O_APPEND, 0644);
  if (OUTFD < 0) return 3;
  SH = (Shared*)mmap(nullptr, sizeof(Shared), PROT_READ | PROT_WRITE, MAP_SHARED | MAP_ANONYMOUS, -1, 0);
  SH->next = 0;
  int restarts = 0;
  while (SH->next < (long)tasks.size())
  {
    pid_t pid = fork();
    if (pid < 0) return 3;
    if (pid == 0)
    {
      struct rlimit rl = {6UL << 30, 6UL << 30};
      setrlimit(RLIMIT_AS, &rl);
      for (int s : {SIGSEGV, SIGABRT, SIGFPE, SIGBUS, SIGVTALRM, SIGALRM, SIGILL}) signal(s, onSignal);
      std::set_terminate([]() { onSignal(SIGABRT); });
      while (SH->next < (long)tasks.size())
      {
        long k = SH->next;
        SH->next = k + 1;      // a task that dies is not retried
        runTask(cases, tasks[k]);
      }
      _exit(0);
    }
    int status = 0;
    waitpid(pid, &status, 0);
    if (WIFEXITED(status) && WEXITSTATUS(status) == 0) break;
    if (WIFEXITED(status) && WEXITSTATUS(status) == 88) { restarts++; continue; }
    // killed without a record (e.g. SIGKILL, out of memory): record it here
    {
      long k = SH->next - 1;
      if (k >= 0 && k < (long)tasks.size())
      {
        const Case& cs = cases[tasks[k].icase];
        char buf[400];
        int n = snprintf(buf, sizeof buf, "{\"id\":\"%s\",\"op\":\"%s\",\"crash\":\"killed-%d\",\"variant\":\"%c\"}\n",
                         cs.id.c_str(), cs.run[tasks[k].irun].first.c_str(), status, (char)SH->variant);
        ssize_t w = write(OUTFD, buf, n);
        (void)w;
      }
      restarts++;
    }
  }
  close(OUTFD);
  fprintf(stderr, "{\"tasks\":%ld,\"restarts\":%d}\n", (long)tasks.size(), restarts);
  return 0;
}

int main(int argc, char** argv)
{
  if (argc < 5) { fprintf(stderr, "usage: mask_run config.json cases.ndjson outprefix nworkers\n"); return 2; }
  Value cfg = vj::readFile(argv[1]);
  SX = cfg.at("sx").doubles(); SY = cfg.at("sy").doubles();
  TX = cfg.at("tx").doubles(); TY = cfg.at("ty").doubles();
  NMAXI = cfg.at("nmaxi").i(); NLAG = cfg.at("nlag").i(); LAGW = cfg.at("lagw").d();
  CGNX = cfg.geti("cgnx", 8); CGNY = cfg.geti("cgny", 7);
  GNX = cfg.at("gnx").i(); GDX = cfg.at("gdx2").d() / 2.; GDY = cfg.at("gdy2").d() / 2.;
  SEED = cfg.geti("seed", 1);
  std::vector<Case> cases;
  for (auto& j : vj::readNdjson(argv[2])) cases.push_back(parseCase(j));
  int nw = atoi(argv[4]);
  if (nw < 1) nw = 1;
  // the library prints diagnostics on stdout / stderr
  if (!freopen("/dev/null", "w", stdout)) return 3;
  int errfd = dup(2);
  if (!getenv("MASK_RUN_KEEP_STDERR") && !freopen("/dev/null", "w", stderr)) return 3;
  defineDefaultSpace(ESpaceType::RN, 2);
  std::vector<pid_t> pids;
  for (int w = 0; w < nw; w++)
  {
    pid_t pid = fork();
    if (pid < 0) return 3;
    if (pid == 0)
    {
      std::vector<Task> tasks;
      for (int ic = w; ic < (int)cases.size(); ic += nw)
        for (int ir = 0; ir < (int)cases[ic].run.size(); ir++) tasks.push_back({ic, ir});
      dup2(errfd, 2);
      int rc = worker(cases, tasks, std::string(argv[3]) + "." + std::to_string(w) + ".ndjson");
      _exit(rc);
    }
    pids.push_back(pid);
  }
  int bad = 0;
  for (pid_t p : pids)
  {
    int status = 0;
    waitpid(p, &status, 0);
    if (!WIFEXITED(status) || WEXITSTATUS(status) != 0) bad++;
  }
  return bad ? 3 : 0;
}
