"""Conversion of raw Db hook events (GSTLEARN_VERIF_TRACE lines with e == "db") into the records
judged by spec/TraceDbEvents.tla, and helpers to record traces from unmodified programs."""
import json, os, re, subprocess
import vlib

ALLTYPES = ["X","Z","V","F","G","L","U","P","W","C","SEL","DOM","BLEX","ADIR","ADIP","SIZE","BU","BD","TIME","LAYER","NOSTAT","TGTE","SIMU","FACIES","GAUSFAC","DATE","RKLOW","RKUP","SUM"]
REGEX_META = set(".*+?[](){}|^$\\")


def chars(s):
    return list(s)


def state(st):
    ncol = st["ncol"]
    uid_of = [-1] * ncol
    for u, c in enumerate(st["uidcol"]):
        if 0 <= c < ncol:
            uid_of[c] = u
    cols = [{"uid": uid_of[i], "name": chars(st["names"][i]), "cells": []} for i in range(ncol)]
    loc = {t: st["loc"].get(t, []) for t in ALLTYPES}
    return {"nech": 0, "nuid": st["nuid"], "cols": cols, "loc": loc, "grid": st["grid"]}


def convert(raw_path, out_path, max_events=200000, max_cols=60):
    """returns (#events written, #skipped by reason)"""
    skipped = {}
    n = 0
    seen = set()
    with open(out_path, "w") as out:
        for line in open(raw_path, errors="replace"):
            line = line.strip()
            if not line or '"e":"db"' not in line:
                continue
            try:
                ev = json.loads(line)
            except ValueError:
                skipped["unparsable"] = skipped.get("unparsable", 0) + 1
                continue
            a = ev["args"]
            op = ev["op"]
            if ev["pre"]["ncol"] > max_cols or ev["post"]["ncol"] > max_cols:
                skipped["too-wide"] = skipped.get("too-wide", 0) + 1
                continue
            c = {"op": op}
            if op == "addColumnsByConstant":
                if a["nadd"] <= 0 or a["nadd"] > 40:
                    skipped["nadd"] = skipped.get("nadd", 0) + 1
                    continue
                c.update(nadd=a["nadd"], radix=chars(a["radix"]), t=a["t"], r=a["r"], val=0)
            elif op == "deleteColumnByUID":
                c.update(uid=a["uid"])
            elif op == "setLocatorByUID":
                c.update(uid=a["uid"], t=a["t"], r=a["r"], clean=a["clean"])
            elif op == "clearLocators":
                c.update(t=a["t"])
            elif op == "switchLocator":
                c.update(t=a["t"], t2=a["t2"])
            elif op == "setNameByUID":
                c.update(uid=a["uid"], new=chars(a["new"]))
            elif op == "setNameByColIdx":
                c.update(col=a["col"], new=chars(a["new"]))
            elif op == "setName":
                # names are regular expressions for the name-based entry points: keep literal, unambiguous ones
                if any(ch in REGEX_META for ch in a["name"]) or ev["pre"]["names"].count(a["name"]) != 1:
                    skipped["regex-name"] = skipped.get("regex-name", 0) + 1
                    continue
                c.update(name=chars(a["name"]), new=chars(a["new"]))
            else:
                skipped["op"] = skipped.get("op", 0) + 1
                continue
            rec = {"c": c, "pre": state(ev["pre"]), "post": state(ev["post"])}
            key = json.dumps(rec, sort_keys=True)
            if key in seen:          # identical (from, op, to) triples are judged once
                skipped["duplicate"] = skipped.get("duplicate", 0) + 1
                continue
            seen.add(key)
            out.write(json.dumps(rec, separators=(",", ":")) + "\n")
            n += 1
            if n >= max_events:
                break
    return n, skipped


def build_repo_test(name):
    """compile tests/cpp/<name>.cpp of the repository against the hooked library"""
    lib = vlib.build_lib()
    src = os.path.join(vlib.REPO, "tests", "cpp", name + ".cpp")
    out = os.path.join(vlib.BIN, "rt_" + name)
    if os.path.exists(out) and os.path.getmtime(out) >= max(os.path.getmtime(src), os.path.getmtime(os.path.join(lib, "Release", "libgstlearn.so"))):
        return out
    cmd = ["g++", "-std=c++20", "-O0", "-w", "-DGSTLEARN_VERIF", "-I" + os.path.join(vlib.REPO, "include"), "-I" + lib,
           "-I/usr/include/eigen3", src, "-o", out, "-L" + os.path.join(lib, "Release"), "-lgstlearn",
           "-Wl,-rpath," + os.path.join(lib, "Release")]
    r = subprocess.run(cmd, capture_output=True, text=True)
    if r.returncode != 0:
        return None
    return out
