#!/usr/bin/env python3
"""Rewrites the table of DESIGN.md section 10.5 from seeded/*/meta.json."""
import json, glob, os, re
rows = []
for d in sorted(glob.glob('/verif/seeded/*/meta.json'), key=lambda p: (os.path.basename(os.path.dirname(p)).split('-')[0], os.path.basename(os.path.dirname(p)))):
    m = json.load(open(d))
    esc = lambda t: t.replace('|', '/').replace('\n', ' ')
    rows.append("| %s | %s | %s |" % (m['id'], esc(m['needs_to_manifest']), esc(m['detected'])))
p = '/verif/DESIGN.md'
s = open(p).read()
head = "### 10.5 Seeded changes"
i = s.index(head)
j = s.index("\n### 10.6", i)
intro = s[i:s.index("\n", i) + 1]
body = ("\nEach change was produced by a fresh sub-agent that saw only the text of the property and its own scratch\n"
        "worktree (nothing from /verif), compiles, leaves every repository test that passes on the clean tree passing,\n"
        "and comes with a demonstration program (`seeded/<id>/demo.cpp`) that passes on the clean library and fails with\n"
        "the change; each was re-confirmed by the integrator (demo re-run; check run with `VERIF_REPO=<worktree>`).\n"
        "`missed by the first version` = the check as it stood when the seed was produced exited 0; what was added is said.\n"
        "%d changes stored, all detected by the current checks.\n\n"
        "| id | change (what it needs in order to manifest) | caught by |\n|----|----------------|-----------|\n" % len(rows)) + "\n".join(rows) + "\n"
s = s[:i] + intro + body + s[j:]
open(p, 'w').write(s)
print(len(rows), "rows")
