#!/bin/bash
# usage: run_seeds.sh <ID> <worktree> <check ids...>
ID=$1; WT=$2; shift 2
cd /verif
for k in 1 2 3; do
  [ -f $WT/seed_$k.diff ] || continue
  git -C $WT checkout -q -- . 
  git -C $WT apply $WT/seed_$k.diff || { echo "seed $k does not apply"; continue; }
  for C in "$@"; do
    echo "=== seed $k check $C"
    VERIF_REPO=$WT timeout 3000 tools/vcheck $C --tier quick > /tmp/seed_${ID}_${k}_${C}.out 2>&1
    echo "exit=$? violations=$(grep -c '^VIOLATION' /tmp/seed_${ID}_${k}_${C}.out)"
    grep -m3 '^   {' /tmp/seed_${ID}_${k}_${C}.out | cut -c1-300
  done
  git -C $WT checkout -q -- .
done
