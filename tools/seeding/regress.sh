#!/bin/bash
# Re-runs every stored seeded change against the current checks: for each seeded/<id>/patch.diff, applies it in ONE
# scratch worktree of /repo's main, runs the quick tier of the check(s) named in seeded/<id>/meta.json ("checks", default:
# the property's own check) with VERIF_REPO=<worktree>, expects exit 1.  usage: regress.sh [ids...]
WT=${WT:-/tmp/wt_regress}
cd /verif
git -C /repo worktree remove --force $WT 2>/dev/null
git -C /repo worktree add --detach $WT main > /dev/null 2>&1 || exit 2
ids="$@"; [ -z "$ids" ] && ids=$(ls seeded)
for id in $ids; do
  [ -f seeded/$id/patch.diff ] || continue
  git -C $WT checkout -q -- .
  if ! git -C $WT apply /verif/seeded/$id/patch.diff 2>/dev/null; then echo "$id: patch does not apply to the current main"; continue; fi
  checks=$(python3 -c "import json;m=json.load(open('seeded/$id/meta.json'));print(' '.join(m.get('checks',[m['property']])))")
  res=""
  for c in $checks; do
    VERIF_REPO=$WT timeout 3000 tools/vcheck $c --tier quick > /tmp/regress_$id_$c.out 2>&1; rc=$?
    res="$res $c:exit=$rc"
  done
  echo "$id:$res"
done
git -C $WT checkout -q -- .
tag=$(python3 -c "import hashlib;print(hashlib.md5(b'$WT').hexdigest()[:8])")
git -C /repo worktree remove --force $WT; rm -rf .build/lib-$tag .build-asan/lib-$tag .build/evidence-$tag .build/bin/*-$tag
