#!/bin/bash
# usage: verify_seeds.sh <worktree>   (worktree has build/ from cmake, seed_k.diff, demo_k.cpp)
WT=$1
cd $WT
git checkout -q -- .
demo() { g++ -std=c++20 -O1 -w -I$WT/include -I$WT/build -I/usr/include/eigen3 demo_$1.cpp -o demo_$1 -L$WT/build/Release -lgstlearn -Wl,-rpath,$WT/build/Release 2>&1 | tail -3; ./demo_$1 > /tmp/demo_out.txt 2>&1; echo $?; }
cmake --build build --target shared -j8 > /tmp/vs_build.log 2>&1 || { echo "clean build failed"; tail -5 /tmp/vs_build.log; }
for k in 1 2 3; do [ -f seed_$k.diff ] || continue; echo "clean demo_$k exit: $(demo $k)"; done
for k in 1 2 3; do
  [ -f seed_$k.diff ] || continue
  git apply seed_$k.diff || { echo "seed $k no apply"; continue; }
  cmake --build build --target shared -j8 > /tmp/vs_build.log 2>&1 || { echo "seed $k build failed"; tail -5 /tmp/vs_build.log; }
  echo "seed $k demo_$k exit: $(demo $k)"
  git checkout -q -- .
done
cmake --build build --target shared -j8 > /tmp/vs_build.log 2>&1
