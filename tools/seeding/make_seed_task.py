import json,sys
ids=sys.argv[1:]
props={json.loads(l)['id']:json.loads(l) for l in open('/verif/properties.jsonl')}
T='''# Task: seed realistic regressions against one property of gstlearn

You are testing how well a hidden verification suite detects regressions in gstlearn (a C++ geostatistics library from MINES Paris). You work ONLY inside the scratch git worktree {wt} (a checkout of the library); do not read or touch /verif or /repo, and do not look for any verification material elsewhere: your change must be independent of it. (The sources contain a few lines inside `#ifdef GSTLEARN_VERIF` blocks; ignore them, they are compiled out. This file SEED_TASK.md is untracked; leave it.)

## The property under test ({pid}: {title})
"{statement}"

Quantifier: {quant}
Code involved: {files}

## Your job
Produce THREE different, realistic changes to the library source (each a separate small patch, like a plausible refactoring slip, "optimisation" or copy-paste error a developer could commit) that each BREAK this property while the library still compiles and the repository's existing test suite still passes. Prefer changes that need something specific to manifest - an unusual but valid input or option combination, a particular configuration (dimension, number of variables, rotation, undefined values, position in a list), a multi-step sequence of operations, two cooperating sites that each look fine alone - NOT changes that ordinary use would expose at once (the existing tests print summaries compared with reference files, so anything that changes common outputs will fail them). Spread the three changes over different mechanisms / functions.

For each change k = 1,2,3 provide: (1) the patch saved as {wt}/seed_<k>.diff (git diff relative to the clean HEAD; apply one at a time); (2) a small stand-alone C++ demonstration program {wt}/demo_<k>.cpp using only the public API (see tests/cpp/*.cpp for usage) that exits 0 / prints PASS on the unmodified library and exits non-zero / prints FAIL with the change applied - the demo must check the property itself (compare with an independent computation of what the property demands), not compare against stored numbers; (3) one paragraph: what it breaks and what it needs in order to manifest.

## How to build and test (the machine is shared: use at most 6 parallel jobs)
    cd {wt} && cmake -G Ninja -B build -DCMAKE_BUILD_TYPE=Release -DBUILD_TESTING=ON -DCMAKE_CXX_FLAGS="-w" > /dev/null && cmake --build build -j6
(first full build takes several minutes; later builds are incremental; a change in a widely included header triggers a full rebuild)
    ctest --test-dir build -j4 --timeout 1500 -R "^(test_|bench_)" -E "^bench_SPDE"
The relevant existing tests are those named test_* and bench_* including the *_cmp ones, which diff the .out file written by the producer test against a reference. CAUTION: the *_cmp entries have no dependency on their producer, so under -j4 some fail by a race; test_krige_cmp fails on the clean tree. Procedure: run the suite once on the unmodified tree; with each change re-run it, then re-run all *_cmp tests sequentially (`ctest --test-dir build -R "_cmp$" -E "^bench_SPDE"`) and require that every test passing (sequentially) on the clean tree still passes. bench_SPDE may time out on a loaded machine - ignore it.
    demo: g++ -std=c++20 -O1 -w -I{wt}/include -I{wt}/build -I/usr/include/eigen3 demo_k.cpp -o demo_k -L{wt}/build/Release -lgstlearn -Wl,-rpath,{wt}/build/Release
You MUST verify yourself, for each change: it compiles; the existing tests that passed before still pass; the demo passes without the change and fails with it. After verifying a change, revert it (git checkout -- .) before working on the next so that each diff is independent. Leave the worktree clean (HEAD unmodified; only seed_*.diff, demo_*.cpp and this file untracked) and keep the build directory, rebuilt at clean HEAD.

## Final report
For each k: the paragraph, the files touched, the exact commands you ran to verify and their outcome (test counts). If you could only produce fewer than three verified changes, say so.
'''
for pid in ids:
    p=props[pid]; wt='/tmp/wt_'+pid
    open(wt+'/SEED_TASK.md','w').write(T.format(wt=wt,pid=pid,title=p['title'],statement=p['statement'],quant=p['quantifier']['text'],files=', '.join(p['anchors']['files'])))
    print('wrote',wt)
