#!/usr/bin/env python3
"""store_seed.py <PID> <k> <needs> <detected>  : copy /tmp/wt_<PID>/seed_k.diff + demo_k.cpp into /verif/seeded/<PID>-k"""
import sys, os, shutil, json
pid, k, needs, detected = sys.argv[1:5]
name = os.environ.get("SEED_AS", k)
d = "/verif/seeded/%s-%s" % (pid, name)
os.makedirs(d, exist_ok=True)
shutil.copy('/tmp/wt_%s/seed_%s.diff' % (pid, k), d + '/patch.diff')
shutil.copy('/tmp/wt_%s/demo_%s.cpp' % (pid, k), d + '/demo.cpp')
json.dump({"id": "%s-%s" % (pid, name), "property": pid, "needs_to_manifest": needs, "detected": detected,
           "what_was_run": ["sub-agent (given only the property text and a scratch worktree): full build, ctest -R '^(test_|bench_)' before/after (every test passing on the clean tree still passes; *_cmp re-run sequentially), demo PASS without / FAIL with the change",
                            "integrator: demo re-built and re-run in the worktree (exit 0 clean, exit 1 with the change); VERIF_REPO=<worktree with the change> tools/vcheck <check> --tier quick -> exit 1 with VIOLATION lines; exit 0 on the clean tree"]},
          open(d + '/meta.json', 'w'), indent=1)
print(d)
