#!/bin/bash
# Sanitizer build (AddressSanitizer + UndefinedBehaviorSanitizer) of libgstlearn.so from the CURRENT
# working tree of $VERIF_REPO (default /repo), used by property C09 (loaders fed with malformed files).
# Same conventions as build_lib.sh: incremental, serialised with flock, prints the build directory on
# the last line of stdout.  Build dir: /verif/.build-asan/lib (lib-<hash> for scratch mutant copies).
set -u
REPO="${VERIF_REPO:-/repo}"
VERIF="$(cd "$(dirname "$0")/.." && pwd)"
if [ "$REPO" = "/repo" ]; then TAG=lib; else TAG="lib-$(echo -n "$REPO" | md5sum | cut -c1-8)"; fi
BDIR="${VERIF_ASAN_BUILD_DIR:-$VERIF/.build-asan/$TAG}"
mkdir -p "$BDIR"
LOG="$BDIR/verif_build.log"
SAN="-fsanitize=address,undefined -fno-sanitize=vptr -fno-omit-frame-pointer"
(
  flock 9
  if [ ! -f "$BDIR/build.ninja" ]; then
    cmake -G Ninja -S "$REPO" -B "$BDIR" -DCMAKE_BUILD_TYPE=Release \
      -DCMAKE_CXX_FLAGS="-w -DGSTLEARN_VERIF $SAN" -DCMAKE_C_FLAGS="-w $SAN" \
      -DCMAKE_CXX_FLAGS_RELEASE="-O1 -g1 -DNDEBUG" -DCMAKE_C_FLAGS_RELEASE="-O1 -g1 -DNDEBUG" \
      -DCMAKE_SHARED_LINKER_FLAGS="$SAN" \
      -DBUILD_TESTING=OFF -DBUILD_PYTHON=OFF -DBUILD_R=OFF -DBUILD_DOXYGEN=OFF > "$LOG" 2>&1 || { cat "$LOG" >&2; exit 3; }
  fi
  cmake --build "$BDIR" --target shared -j"${VERIF_JOBS:-16}" >> "$LOG" 2>&1 || { tail -50 "$LOG" >&2; echo "BUILD-FAILED" >&2; exit 3; }
) 9> "$BDIR/.lock" || exit 3
echo "$BDIR"
