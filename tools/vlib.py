"""Common machinery of the gstlearn verification checks (see DESIGN.md section 3).

 - build_lib()/build_harness(): incremental hooked build of libgstlearn from $VERIF_REPO and of the
   C++ harnesses linking it
 - run_tlc(): TLC runs with own metadir, parsing of statistics, emitted JSON lines, violations
 - Check: evidence writer, VIOLATION / KNOWN-FINDING reporting against KNOWN_FINDINGS.json
Exit codes of a check: 0 property held on everything explored (known findings are printed),
1 violation (a line "VIOLATION property=<id> replay=<path>" is printed), 3 broken check
(build failure, TLC error, harness failure) -- never reported as a violation.
"""
import json, os, re, subprocess, sys, time, shutil, hashlib, tempfile

VERIF = os.path.dirname(os.path.dirname(os.path.abspath(__file__)))
REPO = os.environ.get("VERIF_REPO", "/repo")
SPEC = os.path.join(VERIF, "spec")
HARNESS = os.path.join(VERIF, "harness")
BUILD = os.path.join(VERIF, ".build")
BIN = os.path.join(BUILD, "bin")
WORK = os.path.join(BUILD, "work")
# evidence of a run against another tree (VERIF_REPO, used to evaluate seeded changes) is kept apart
EVID = os.path.join(VERIF, "evidence") if REPO == "/repo" else os.path.join(BUILD, "evidence-" + hashlib.md5(REPO.encode()).hexdigest()[:8])
REPLAY = os.path.join(EVID, "replay")
NCPU = int(os.environ.get("VERIF_JOBS", "16"))


class Broken(Exception):
    """The check itself could not be carried out (not a property violation)."""


def log(*a):
    print(*a, file=sys.stderr, flush=True)


def seed():
    try:
        return int(os.environ.get("VERIF_SEED", "1"))
    except ValueError:
        return 1


# --------------------------------------------------------------------------- build

_libdir = None


def build_lib():
    """Incremental build of the hooked library from the current working tree of REPO."""
    global _libdir
    if _libdir:
        return _libdir
    t0 = time.time()
    r = subprocess.run([os.path.join(VERIF, "tools", "build_lib.sh")], capture_output=True, text=True,
                       env=dict(os.environ, VERIF_REPO=REPO))
    if r.returncode != 0:
        raise Broken("library build failed:\n" + r.stderr[-4000:])
    _libdir = r.stdout.strip().splitlines()[-1]
    log("[build] lib ok in %.1fs (%s)" % (time.time() - t0, _libdir))
    return _libdir


def _newest_mtime(paths):
    m = 0
    for p in paths:
        if os.path.isdir(p):
            for root, _, files in os.walk(p):
                for f in files:
                    try:
                        m = max(m, os.path.getmtime(os.path.join(root, f)))
                    except OSError:
                        pass
        elif os.path.exists(p):
            m = max(m, os.path.getmtime(p))
    return m


# flags a harness always needs (also when pre-built by tools/setup.sh)
HARNESS_FLAGS = {"matrix_run": ("-fopenmp",)}


def build_harness(name, extra_flags=()):
    """Compile harness/<name>.cpp against the hooked library when out of date."""
    extra_flags = tuple(extra_flags) + tuple(f for f in HARNESS_FLAGS.get(name, ()) if f not in extra_flags)
    lib = build_lib()
    os.makedirs(BIN, exist_ok=True)
    tag = "" if REPO == "/repo" else "-" + hashlib.md5(REPO.encode()).hexdigest()[:8]
    src = os.path.join(HARNESS, name + ".cpp")
    out = os.path.join(BIN, name + tag)
    deps = [src, os.path.join(lib, "Release", "libgstlearn.so"), os.path.join(REPO, "include")] + \
           [os.path.join(HARNESS, f) for f in os.listdir(HARNESS) if f.endswith(".hpp")]
    if os.path.exists(out) and os.path.getmtime(out) >= _newest_mtime(deps):
        return out
    t0 = time.time()
    cmd = ["g++", "-std=c++20", "-O1", "-w", "-DGSTLEARN_VERIF", "-I" + os.path.join(REPO, "include"), "-I" + lib,
           "-I/usr/include/eigen3", "-I" + HARNESS, src, "-o", out + ".tmp%d" % os.getpid(),
           "-L" + os.path.join(lib, "Release"), "-lgstlearn", "-Wl,-rpath," + os.path.join(lib, "Release")] + list(extra_flags)
    r = subprocess.run(cmd, capture_output=True, text=True)
    if r.returncode != 0:
        raise Broken("harness %s does not compile:\n%s" % (name, r.stderr[-4000:]))
    os.replace(out + ".tmp%d" % os.getpid(), out)
    log("[build] harness %s ok in %.1fs" % (name, time.time() - t0))
    return out


def workdir(pid):
    d = os.path.join(WORK, "%s-%d" % (pid, os.getpid()))
    shutil.rmtree(d, ignore_errors=True)
    os.makedirs(d)
    return d


# --------------------------------------------------------------------------- TLC

class TlcResult:
    def __init__(self):
        self.stdout = ""
        self.generated = 0
        self.distinct = 0
        self.depth = 0
        self.emitted = []      # JSON values printed through PrintT(ToJson(..))
        self.ok = False        # TLC finished without reporting an error
        self.violation = None  # text of an invariant/property violation
        self.coverage = {}
        self.wall = 0.0
        self.returncode = None


_json_line = re.compile(r'^"(\{|\[).*"$')


def run_tlc(module, cfg, workers=None, env=None, timeout=3600, simulate=None, depth=None, heap="6g",
            coverage=False, dfs=False, extra=(), keep_emitted=True, on_emit=None):
    """Run TLC on spec/<module>.tla with spec/<cfg>.  Returns a TlcResult.

    Lines printed by PrintT(ToJson(x)) are decoded into result.emitted (or passed to on_emit)."""
    md = tempfile.mkdtemp(prefix="tlc-", dir=WORK if os.path.isdir(WORK) else None)
    os.makedirs(md, exist_ok=True)
    jopts = "-Xmx%s -Xss128m -XX:+UseParallelGC" % heap   # (deep recursive operators: the default thread stack overflowed intermittently)
    if dfs:
        jopts += " -Dtlc2.tool.queue.IStateQueue=StateDeque"
    cmd = ["java"] + jopts.split() + ["-cp", "/opt/veriftools/tla/tla2tools.jar:/opt/veriftools/tla/CommunityModules-deps.jar",
                                      "tlc2.TLC"]
    # use the installed wrapper when available (it knows the class path of the community modules)
    if shutil.which("tlc"):
        cmd = ["tlc"]
    cmd += ["-workers", str(workers or NCPU), "-metadir", md, "-config", cfg]
    if simulate:
        cmd += ["-simulate", "num=%d" % simulate]
        if depth:
            cmd += ["-depth", str(depth)]
        cmd += ["-seed", str(seed())]
    if coverage:
        cmd += ["-coverage", "1"]
    cmd += list(extra) + [module + ".tla"]
    e = dict(os.environ)
    e["JAVA_TOOL_OPTIONS"] = (e.get("JAVA_TOOL_OPTIONS", "") + " " + jopts).strip()
    if env:
        e.update({k: str(v) for k, v in env.items()})
    res = TlcResult()
    t0 = time.time()
    try:
        p = subprocess.Popen(cmd, cwd=SPEC, env=e, stdout=subprocess.PIPE, stderr=subprocess.STDOUT, text=True)
        out = []
        deadline = t0 + timeout
        for line in p.stdout:
            line = line.rstrip("\n")
            if _json_line.match(line):
                try:
                    v = json.loads(json.loads(line))
                    if on_emit:
                        on_emit(v)
                    elif keep_emitted:
                        res.emitted.append(v)
                    continue
                except ValueError:
                    pass
            out.append(line)
            if time.time() > deadline:
                p.kill()
                raise Broken("TLC timeout after %ds on %s" % (timeout, module))
        p.wait()
        res.returncode = p.returncode
    finally:
        shutil.rmtree(md, ignore_errors=True)
        for f in os.listdir(SPEC):
            if "_TTrace_" in f:
                try:
                    os.remove(os.path.join(SPEC, f))
                except OSError:
                    pass
    res.wall = time.time() - t0
    res.stdout = "\n".join(out)
    m = re.search(r"(\d[\d,]*) states generated, (\d[\d,]*) distinct states found", res.stdout)
    if m:
        res.generated = int(m.group(1).replace(",", ""))
        res.distinct = int(m.group(2).replace(",", ""))
    m = re.search(r"depth of the complete state graph search is (\d+)", res.stdout)
    if m:
        res.depth = int(m.group(1))
    if simulate:
        m = re.search(r"(\d[\d,]*) states checked", res.stdout)
        if m:
            res.generated = int(m.group(1).replace(",", ""))
    if re.search(r"Error: (Invariant|Action property|Temporal propert|Deadlock|The postcondition|Assumption)", res.stdout) or \
            "is violated" in res.stdout:
        res.violation = "\n".join(l for l in out if not l.startswith(("Parsing", "Semantic", "Linting")))[-6000:]
    elif res.returncode != 0 or "Error:" in res.stdout:
        raise Broken("TLC failed on %s/%s (exit %s):\n%s" % (module, cfg, res.returncode,
                     "\n".join(l for l in out if not l.startswith(("Parsing", "Semantic", "Linting")))[-4000:]))
    else:
        res.ok = True
    if coverage:
        for m in re.finditer(r"<(\w+) line (\d+), col \d+ to line \d+, col \d+ of module (\w+)>: (\d+):(\d+)", res.stdout):
            res.coverage["%s@%s:%s" % (m.group(1), m.group(3), m.group(2))] = [int(m.group(4)), int(m.group(5))]
    return res


def tlc_emit_json(module, cfg, outpath, env=None):
    """Run a module whose ASSUME writes a JSON file to IOEnv.OUT (catalogues, case lists)."""
    e = dict(env or {})
    e["OUT"] = outpath
    run_tlc(module, cfg, workers=1, env=e, timeout=600)
    with open(outpath) as f:
        return json.load(f)


# --------------------------------------------------------------------------- known findings

def load_known(pid):
    """Known findings of a property: KNOWN_FINDINGS.json plus the per-property fragment known/<pid>.json
    (both committed; never written at run time)."""
    out = []
    for path in (os.path.join(VERIF, "KNOWN_FINDINGS.json"), os.path.join(VERIF, "known", pid + ".json")):
        if not os.path.exists(path):
            continue
        with open(path) as f:
            data = json.load(f)
        out += [e for e in data.get("findings", []) if e.get("property") == pid and e.get("status") == "known"]
    seen = set()
    res = []
    for e in out:
        if e["id"] not in seen:
            seen.add(e["id"])
            res.append(e)
    return res


# --------------------------------------------------------------------------- check driver

class Check:
    def __init__(self, pid, level, tier):
        self.pid = pid
        self.level = level
        self.tier = tier
        self.t0 = time.time()
        self.cov = {"samples": []}
        self.assumptions = []
        self.violations = []      # (description, replay object)
        self.known_hits = {}      # finding id -> count
        self.known = load_known(pid)
        os.makedirs(REPLAY, exist_ok=True)
        for f in os.listdir(REPLAY):          # replay files of earlier runs of this check are obsolete
            if f.startswith("%s-%s-" % (pid, tier)):
                try:
                    os.remove(os.path.join(REPLAY, f))
                except OSError:
                    pass
        self.work = workdir(pid)

    def add(self, key, n=1):
        self.cov[key] = self.cov.get(key, 0) + n

    def sample(self, obj, cap=6):
        if len(self.cov["samples"]) < cap:
            self.cov["samples"].append(obj)

    def known_match(self, rec):
        """rec: dict describing a disagreement.  A known finding matches when every key of its
        'match' dict equals the corresponding key of rec (lists: membership)."""
        for k in self.known:
            ok = True
            for key, want in k.get("match", {}).items():
                have = rec.get(key)
                if isinstance(want, list):
                    if have not in want:
                        ok = False
                else:
                    if have != want:
                        ok = False
                if not ok:
                    break
            if ok:
                return k
        return None

    def disagree(self, rec, replay):
        """Register a disagreement: known finding or violation."""
        k = self.known_match(rec)
        if k:
            self.known_hits[k["id"]] = self.known_hits.get(k["id"], 0) + 1
            return False
        self.violations.append((rec, replay))
        return True

    def finish(self):
        wall = time.time() - self.t0
        for k in self.known:
            if k["id"] in self.known_hits:
                print("KNOWN-FINDING: property=%s %s [%s; %d occurrence(s) in this run]" %
                      (self.pid, k["what"], k["id"], self.known_hits[k["id"]]))
        nviol = len(self.violations)
        paths = []
        for i, (rec, replay) in enumerate(self.violations[:20]):
            path = os.path.join(REPLAY, "%s-%s-%d.json" % (self.pid, self.tier, i + 1))
            with open(path, "w") as f:
                json.dump({"property": self.pid, "disagreement": rec, "replay": replay}, f, indent=1, default=str)
            paths.append(path)
            print("VIOLATION property=%s replay=%s" % (self.pid, path))
            log("  ", json.dumps(rec, default=str)[:600])
        self.cov.setdefault("known_finding_hits", self.known_hits)
        ev = {"property_id": self.pid, "tier": self.tier, "seed": seed(), "level": self.level,
              "coverage": self.cov, "assumptions": self.assumptions, "wall_s": round(wall, 2),
              "violations": nviol}
        os.makedirs(EVID, exist_ok=True)
        with open(os.path.join(EVID, self.pid + ".json"), "w") as f:
            json.dump(ev, f, indent=1, default=str)
        shutil.rmtree(self.work, ignore_errors=True)
        log("[%s] %s tier done in %.1fs: %d violation(s), known findings hit: %s" %
            (self.pid, self.tier, wall, nviol, self.known_hits or "none"))
        return 1 if nviol else 0


def run_harness(binpath, args, timeout=1800, env=None, ok_codes=(0,), stdin=None):
    e = dict(os.environ)
    if env:
        e.update({k: str(v) for k, v in env.items()})
    try:
        r = subprocess.run([binpath] + [str(a) for a in args], capture_output=True, text=True, timeout=timeout, env=e,
                           input=stdin)
    except subprocess.TimeoutExpired:
        raise Broken("harness %s timed out after %ds" % (os.path.basename(binpath), timeout))
    if r.returncode not in ok_codes:
        raise Broken("harness %s failed (exit %d): %s" % (os.path.basename(binpath), r.returncode, r.stderr[-2000:]))
    return r


def read_ndjson(path):
    out = []
    with open(path) as f:
        for line in f:
            line = line.strip()
            if line:
                out.append(json.loads(line))
    return out


def write_ndjson(path, recs):
    with open(path, "w") as f:
        for r in recs:
            f.write(json.dumps(r, separators=(",", ":")) + "\n")


def main(run, pid):
    import argparse
    ap = argparse.ArgumentParser()
    ap.add_argument("--tier", default=os.environ.get("VERIF_TIER", "quick"), choices=["quick", "thorough"])
    a = ap.parse_args(sys.argv[2:] if len(sys.argv) > 1 and sys.argv[1] == pid else sys.argv[1:])
    os.makedirs(WORK, exist_ok=True)
    try:
        return run(a.tier)
    except Broken as b:
        print("BROKEN-CHECK property=%s: %s" % (pid, b), file=sys.stderr)
        return 3
