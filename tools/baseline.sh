#!/bin/bash
# Runs the repository's stable baseline (113 tests of /root/.vp/BASELINE.json) with the verification
# guard OFF (plain build of /repo in /repo/_build, as the baseline was taken) and compares.
# exit 0 iff every stable test passes.
set -u
cd /repo || exit 2
if [ ! -f _build/build.ninja ]; then
  cmake -G Ninja -B _build -DCMAKE_BUILD_TYPE=RelWithDebInfo -DBUILD_TESTING=ON -DCMAKE_CXX_FLAGS=-Wno-error > /tmp/baseline_cmake.log 2>&1 || { tail -20 /tmp/baseline_cmake.log; exit 2; }
fi
cmake --build _build -j16 > /tmp/baseline_build.log 2>&1 || { tail -30 /tmp/baseline_build.log; echo "BUILD FAILED"; exit 2; }
OUT=${1:-/tmp/baseline_junit.xml}
ctest --test-dir _build -j8 --timeout 900 --output-junit "$OUT" > /tmp/baseline_ctest.log 2>&1
python3 - "$OUT" <<'PY'
import json, sys, xml.etree.ElementTree as ET
base = json.load(open('/root/.vp/BASELINE.json'))
want = set(t.split('::')[0] for t in base['stable_pass'])
root = ET.parse(sys.argv[1]).getroot()
status = {}
for tc in root.iter('testcase'):
    name = tc.get('name')
    ok = tc.get('status') == 'run' and tc.find('failure') is None and tc.find('error') is None
    status[name] = ok
bad = sorted(n for n in want if not status.get(n, False))
# the *_cmp entries compare a file written by their producer test and have no dependency on it: under -j8 on a loaded
# machine they race; a failing test is re-run alone (producer first) before it is reported
import subprocess
still = []
for n in bad:
    prod = n[:-4] if n.endswith('_cmp') else n
    ok = True
    for t in ([prod, n] if prod != n else [n]):
        r = subprocess.run(['ctest', '--test-dir', '/repo/_build', '--timeout', '1800', '-R', '^%s$' % t], capture_output=True, text=True)
        ok = ok and r.returncode == 0
    if not ok: still.append(n)
    else: print("  (passes when run alone: %s)" % n)
print("baseline: %d/%d stable tests pass" % (len(want) - len(still), len(want)))
for n in still: print("  FAILING:", n)
sys.exit(1 if still else 0)
PY
