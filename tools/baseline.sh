#!/bin/bash
# Runs the repository's stable baseline (113 tests of /root/.vp/BASELINE.json) with the verification
# guard OFF (plain build of /repo in /repo/_build, as the baseline was taken) and compares.
# exit 0 iff every stable test passes.
set -u
cd /repo || exit 2
if [ ! -f _build/build.ninja ]; then
  cmake -G Ninja -B _build -DCMAKE_BUILD_TYPE=RelWithDebInfo -DBUILD_TESTING=ON -DCMAKE_CXX_FLAGS=-Wno-error > /tmp/baseline_cmake.log 2>&1 || { tail -20 /tmp/baseline_cmake.log; exit 2; }
fi
cmake --build _build -j16 > /tmp/baseline_build.log 2>&1 || { tail -30 /tmp/baseline_build.log; echo "BUILD FAILED"; exit 2; }
OUT=${1:-/tmp/baseline_junit.xml}
ctest --test-dir _build -j8 --timeout 900 --output-junit "$OUT" > /tmp/baseline_ctest.log 2>&1
python3 - "$OUT" <<'PY'
import json, sys, xml.etree.ElementTree as ET
base = json.load(open('/root/.vp/BASELINE.json'))
want = set(t.split('::')[0] for t in base['stable_pass'])
root = ET.parse(sys.argv[1]).getroot()
status = {}
for tc in root.iter('testcase'):
    name = tc.get('name')
    ok = tc.get('status') == 'run' and tc.find('failure') is None and tc.find('error') is None
    status[name] = ok
bad = sorted(n for n in want if not status.get(n, False))
print("baseline: %d/%d stable tests pass" % (len(want) - len(bad), len(want)))
for n in bad: print("  FAILING:", n)
sys.exit(1 if bad else 0)
PY
