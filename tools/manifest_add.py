#!/usr/bin/env python3
"""helper used while integrating checks: add/replace one entry of MANIFEST.json
usage: manifest_add.py <id> <technique> <level text> <level note> <design ref>"""
import json, sys
pid, technique, text, note, ref = sys.argv[1:6]
p = '/verif/MANIFEST.json'
m = json.load(open(p))
e = {"property_id": pid, "quick_cmd": "tools/vcheck %s --tier quick" % pid, "thorough_cmd": "tools/vcheck %s --tier thorough" % pid,
     "evidence_file": "evidence/%s.json" % pid, "replay_cmd_template": "cat {path}", "engine": "tlc", "technique": technique,
     "level_claimed": {"category": "model_checking", "text": text, "design_ref": ref}, "level_note": note}
checks = {c['property_id']: c for c in m['checks']}
checks[pid] = e
m['checks'] = [checks[k] for k in sorted(checks)]
m['engines'][0]['serves_properties'] = sorted(checks)
json.dump(m, open(p, 'w'), indent=1)
print(sorted(checks))
