#!/bin/bash
# Build (incrementally) libgstlearn.so from the CURRENT working tree of $VERIF_REPO (default /repo)
# with the verification hooks enabled (-DGSTLEARN_VERIF). Serialised with flock so that checks
# may run concurrently. Prints the build directory on the last line of stdout.
set -u
REPO="${VERIF_REPO:-/repo}"
VERIF="$(cd "$(dirname "$0")/.." && pwd)"
if [ "$REPO" = "/repo" ]; then TAG=lib; else TAG="lib-$(echo -n "$REPO" | md5sum | cut -c1-8)"; fi
BDIR="${VERIF_BUILD_DIR:-$VERIF/.build/$TAG}"
mkdir -p "$BDIR"
LOG="$BDIR/verif_build.log"
(
  flock 9
  if [ ! -f "$BDIR/build.ninja" ]; then
    cmake -G Ninja -S "$REPO" -B "$BDIR" -DCMAKE_BUILD_TYPE=Release \
      -DCMAKE_CXX_FLAGS="-w -DGSTLEARN_VERIF" -DCMAKE_CXX_FLAGS_RELEASE="-O1 -DNDEBUG" \
      -DBUILD_TESTING=OFF -DBUILD_PYTHON=OFF -DBUILD_R=OFF -DBUILD_DOXYGEN=OFF > "$LOG" 2>&1 || { cat "$LOG" >&2; exit 3; }
  fi
  cmake --build "$BDIR" --target shared -j"${VERIF_JOBS:-16}" >> "$LOG" 2>&1 || { tail -50 "$LOG" >&2; echo "BUILD-FAILED" >&2; exit 3; }
) 9> "$BDIR/.lock" || exit 3
echo "$BDIR"
