#!/bin/bash
# Run once after a fresh restore, offline: build the hooked library, pre-build the harnesses and
# parse the specifications.  Only a failing library build is fatal (every check rebuilds what it
# needs and reports a broken harness / specification by itself).
set -u
cd "$(dirname "$0")/.."
tools/build_lib.sh > /dev/null || { echo "library build failed"; exit 1; }
[ -x tools/build_asan.sh ] && { tools/build_asan.sh > /dev/null 2>&1 || echo "warning: sanitizer build failed"; }
python3 - <<'PY'
import os, sys
sys.path.insert(0, 'tools')
import vlib
from concurrent.futures import ThreadPoolExecutor
names = sorted(f[:-4] for f in os.listdir(vlib.HARNESS) if f.endswith('.cpp'))
def b(n):
    try:
        vlib.build_harness(n)
        return None
    except vlib.Broken as e:
        return "warning: %s" % str(e)[:300]
with ThreadPoolExecutor(8) as ex:
    for r in ex.map(b, names):
        if r: print(r)
PY
cd spec
for f in *.tla; do
  tla-sany "$f" > /tmp/sany.$$ 2>&1 || { echo "warning: SANY failed on $f"; grep -m3 -i "error\|cannot" /tmp/sany.$$; }
done
rm -f /tmp/sany.$$
exit 0
