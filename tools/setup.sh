#!/bin/bash
# Run once after a fresh restore, offline: build the hooked library and all harnesses, parse all specs.
set -u
cd "$(dirname "$0")/.."
tools/build_lib.sh > /dev/null || exit 1
python3 - <<'PY' || exit 1
import os, sys
sys.path.insert(0, 'tools')
import vlib
ok = True
for f in sorted(os.listdir(vlib.HARNESS)):
    if f.endswith('.cpp'):
        try:
            vlib.build_harness(f[:-4])
        except vlib.Broken as b:
            print(b); ok = False
sys.exit(0 if ok else 1)
PY
fail=0
for f in spec/*.tla; do
  tla-sany "$f" > /tmp/sany.$$ 2>&1 || { echo "SANY failed on $f"; tail -5 /tmp/sany.$$; fail=1; }
done
rm -f /tmp/sany.$$
exit $fail
