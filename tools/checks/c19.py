"""C19 -- a calculation either completes or leaves its data bases untouched.

1. TLC explores Calculator.tla: every profile (public entry point x option class) x fault point x
   protocol (intended / transcribed); Atomic, Exact and Honest are invariants of the intended
   protocol; the terminal states are the scenario catalogue (with the predictions of the transcribed
   roll-backs, and the documented numbers of output variables per data base).
2. harness calc_run executes every bound scenario on the real calculators (natural failing inputs
   and faults injected through the guarded hooks), with plain / clashing prior contents, followed by
   a second call on the same objects after every failure, and logs complete before/after projections.
3. TLC (TraceCalculator) judges Atomic / Exact on every recorded call.

Development help: C19_ONLY=<profile>[,<profile>...] restricts the conformance run (evidence is then
not representative; never set by vcheck).
"""
import json, os
import vlib
from vlib import Check, Broken, log
from checks import session_common

INJECTED = ("after_check", "after_preprocess", "after_run")


def run(tier):
    ck = Check("C19", "model_checking", tier)
    vlib.build_lib()
    res = vlib.run_tlc("Calculator", "MC_Calculator.cfg", workers=4, timeout=600)
    if res.violation:
        raise Broken("Calculator.tla: the intended protocol violates Atomic/Exact/Honest:\n" + res.violation)
    ck.cov["states"] = res.distinct
    ck.cov["transitions"] = res.generated
    term = res.emitted
    tr = [t for t in term if t["proto"] == "transcribed"]
    pred_nonatomic = sorted(set((t["profile"], t["fault"]) for t in tr if t["ret"] == "fail" and not t["clean"]))
    pred_inexact = sorted(set((t["profile"], t["fault"]) for t in tr if t["ret"] == "ok" and not t["exact"]))
    pred_dishonest = sorted(set((t["profile"], t["fault"]) for t in tr if t["ret"] == "ok" and not t["honest"]))
    ck.cov["model_predicted_nonatomic_pairs_of_transcribed_rollbacks"] = ["%s/%s" % p for p in pred_nonatomic]
    ck.cov["model_predicted_inexact_successes_of_transcription"] = ["%s/%s" % p for p in pred_inexact]
    ck.cov["model_predicted_failures_reported_as_success"] = ["%s/%s" % p for p in pred_dishonest]
    profiles = sorted(set(t["profile"] for t in term))
    unbound = sorted(set(t["profile"] for t in term if not t["bound"]))
    ck.cov["profiles"] = len(profiles)
    ck.cov["profiles_unbound"] = unbound
    only = [x for x in os.environ.get("C19_ONLY", "").split(",") if x]
    # scenario list
    scen = []
    seen = set()
    priors = ["plain", "clash"]
    info = {}
    for t in sorted(term, key=lambda t: (t["profile"], t["fault"], t["proto"])):
        if not t["bound"] or (only and t["profile"] not in only):
            continue
        info[t["profile"]] = t
        key = (t["profile"], t["fault"])
        if key in seen:
            continue
        seen.add(key)
        f = t["fault"]
        if f in ("check", "run", "check_r1", "run_r1"):
            variants = t["variants"]            # natural failures only
        elif f == "postprocess":
            continue                             # no injection point inside _postprocess
        else:
            variants = t["setups"]
        for v in sorted(variants):
            for pr in priors:
                scen.append({"id": len(scen) + 1, "profile": t["profile"], "fault": f, "variant": v, "prior": pr,
                             "exp_in": t["exp_in"], "exp_out": t["exp_out"], "noerr": t["noerr"]})
    if not scen:
        raise Broken("no scenario emitted")
    sp = os.path.join(ck.work, "scen.ndjson")
    vlib.write_ndjson(sp, scen)
    op = os.path.join(ck.work, "calclog.ndjson")
    open(op, "w").close()
    exe = vlib.build_harness("calc_run")
    start = 0
    crashes = 0
    while True:
        r = vlib.run_harness(exe, [sp, op, start], ok_codes=(0, 88), timeout=1800)
        if r.returncode == 0:
            break
        crashes += 1
        last = json.loads(open(op).read().strip().splitlines()[-1])
        start = last["scen"]["id"]            # ids are 1-based: continue after the crashing scenario
        if crashes > 30:
            raise Broken("more than 30 crashing scenarios")
    recs = vlib.read_ndjson(op)
    if os.environ.get("C19_KEEPLOG"):
        import shutil
        shutil.copy(op, os.environ["C19_KEEPLOG"])
    jr = vlib.run_tlc("TraceCalculator", "TraceCalculator.cfg", workers=1, env={"CALCLOG": op}, timeout=900)
    if jr.violation or "NOT-ALL-EXAMINED" in jr.stdout:
        raise Broken("TraceCalculator did not examine the whole log:\n" + (jr.violation or jr.stdout[-2000:]))
    nfail = nok = 0
    by_profile = {}
    observed_nonatomic = set()
    binding_problems = []
    accepted = set()     # inputs offered as natural failures that the entry point accepts (judged as successes)
    for r in recs:
        if "crash" in r:
            continue
        sc = r["scen"]
        by_profile.setdefault(sc["profile"], [0, 0])
        if r["ret"] == "ok":
            nok += 1; by_profile[sc["profile"]][0] += 1
        else:
            nfail += 1; by_profile[sc["profile"]][1] += 1
        # self-checks of the binding (mistakes of the harness / transcription, never violations)
        if not r["second"] and sc["fault"] in INJECTED and info[sc["profile"]]["hooks"] and not r["struck"]:
            binding_problems.append("scenario %s: the armed fault was never reached" % json.dumps(sc))
        if not r["second"] and sc["fault"] == "none" and r["addvar_visits"] < info[sc["profile"]]["nreg"]:
            # the code no longer registers what the profile transcribes: reported as a disagreement (the
            # roll-back cannot see a variable that was not registered)
            ck.disagree({"kind": "bookkeeping", "profile": sc["profile"], "variant": sc["variant"], "prior": sc["prior"],
                         "addvar_calls": r["addvar_visits"], "registered_groups_in_profile": info[sc["profile"]]["nreg"]}, r)
        if not r["second"] and sc["fault"] in ("check", "run") and r["ret"] == "ok" and not sc["noerr"]:
            accepted.add("%s/%s/%s" % (sc["profile"], sc["fault"], sc["variant"]))
    if only or os.environ.get("C19_SUMMARY"):       # development summary
        agg = {}
        for e in jr.emitted:
            r = recs[e["idx"] - 1]
            sc = r["scen"]
            key = (sc["profile"], sc["fault"], sc["variant"], "2nd" if r.get("second") else "1st", r.get("ret") or "CRASH%s" % r.get("crash"), "+".join(sorted(e["fails"])))
            agg.setdefault(key, []).append(sc["prior"])
        for key in sorted(agg):
            log("   REJ %s  priors=%s" % (" ".join(key), ",".join(agg[key])))
        log("   per profile ok/fail: %s" % by_profile)
    for e in jr.emitted:
        r = recs[e["idx"] - 1]
        sc = r["scen"]
        fails = sorted(e["fails"])
        rec = {"kind": "calc", "profile": sc["profile"], "fault": sc["fault"], "variant": sc["variant"],
               "prior": sc["prior"], "second_call": r.get("second", False), "fails": fails, "sig": "+".join(fails)}
        if any(f.startswith("atomic") for f in fails):
            observed_nonatomic.add((sc["profile"], sc["fault"]))
        ck.disagree(rec, r)
    # vacuity per option value: every set-up of every profile must complete at least once without fault
    okset = set((r["scen"]["profile"], r["scen"]["variant"]) for r in recs
                if "crash" not in r and not r["second"] and r["scen"]["fault"] == "none" and r["ret"] == "ok")
    for sc in scen:
        if sc["fault"] == "none" and (sc["profile"], sc["variant"]) not in okset:
            binding_problems.append("vacuous: set-up %s of profile %s never completed successfully" % (sc["variant"], sc["profile"]))
    ck.cov["option_values_executed"] = len(okset)
    if binding_problems and not ck.violations:
        raise Broken("\n".join(binding_problems[:5]))
    if not only and not ck.violations:
        for p in profiles:
            if p in unbound:
                continue
            a, b = by_profile.get(p, (0, 0))
            if a == 0:
                raise Broken("vacuous: profile %s never completed successfully" % p)
            if b == 0 and any(sc["profile"] == p and sc["fault"] != "none" for sc in scen):
                raise Broken("vacuous: profile %s never failed" % p)
    ck.cov["natural_variants_accepted_by_the_code"] = sorted(accepted)
    if accepted:
        log("[C19] inputs offered as failing but accepted (judged as successes): %s" % ", ".join(sorted(accepted)))
    # predictions of the transcribed protocol against the replay (informative: the verdicts above come from the judge)
    ck.cov["predicted_nonatomic_confirmed_by_replay"] = sorted("%s/%s" % p for p in observed_nonatomic if p in set(pred_nonatomic))
    ck.cov["nonatomic_in_replay_not_predicted"] = sorted("%s/%s" % p for p in observed_nonatomic if p not in set(pred_nonatomic))
    # cross-module sessions (Session.tla): calculators interleaved with Db edits, copies, save + reload
    if only:
        ss = {"rejected": [], "crashes": [], "steps": 0, "sessions": 0, "states": 0, "transitions": 0}
    else:
        ss = session_common.run_sessions(ck, tier)
    for rec, fails, ses in ss["rejected"]:
        ck.disagree({"kind": "session-step", "op": rec["op"], "fails": fails, "history": [h["op"]["name"] for h in ses["hist"]]},
                    {"session": [h["op"]["name"] for h in ses["hist"]], "record": rec})
    for ses, last in ss["crashes"]:
        ck.disagree({"kind": "session-crash", "op": last["session"]["op"]}, {"session": [h["op"]["name"] for h in ses["hist"]], "at": last})
    ck.cov["session_steps_judged"] = ss["steps"]
    ck.cov["sessions"] = ss["sessions"]
    ck.cov["states"] += ss["states"]; ck.cov["transitions"] += ss["transitions"]
    ck.cov["traces_validated_against_impl"] = len(recs) + ss["steps"]
    ck.cov["calls_ok"] = nok
    ck.cov["calls_failed"] = nfail
    ck.cov["scenarios"] = len(scen)
    ck.cov["per_profile_ok_fail"] = by_profile
    ck.cov["rule"] = ("scenario = profile x fault point (natural failing input or injected fault) x prior content; each executed on "
                      "the real calculator, plus a second call after each failure; each call judged by TLC on complete before/after projections")
    for r in recs[:: max(1, len(recs) // 3)][:3]:
        if "crash" in r:
            continue
        ck.sample({"scen": r["scen"], "ret": r["ret"], "out_pre": [("".join(c["name"]), c["role"]) for c in r["out_pre"]["cols"]],
                   "out_post": [("".join(c["name"]), c["role"]) for c in r["out_post"]["cols"]]})
    ck.assumptions += ["content compared through a 64-bit hash of the bit patterns of each column",
                       "faults inside _postprocess are explored on the model only (no injection point)",
                       "entry points without an error code (krigtest, global_arithmetic, global_kriging) are classified from their "
                       "result structure; both outcomes require unchanged data bases for them",
                       "profiles without binding (model only): " + (", ".join(unbound) or "none")]
    log("[C19] %d profiles (%d unbound), %d scenarios, %d calls (%d ok, %d failed), %d rejected by TLC"
        % (len(profiles), len(unbound), len(scen), len(recs), nok, nfail, len(jr.emitted)))
    return ck.finish()
