"""C19 -- a calculation either completes or leaves its data bases untouched.

1. TLC explores Calculator.tla: every profile x fault point x protocol (intended / transcribed);
   Atomic and Exact are invariants of the intended protocol; the terminal states are the scenario
   catalogue (with the predictions of the transcribed roll-backs).
2. harness calc_run executes every bound scenario on the real calculators (natural failing inputs
   and faults injected through the guarded hooks), with plain / clashing prior contents, followed by
   a second call on the same objects after every failure, and logs complete before/after projections.
3. TLC (TraceCalculator) judges Atomic / Exact on every recorded call.
"""
import json, os
import vlib
from vlib import Check, Broken, log
from checks import session_common


def run(tier):
    ck = Check("C19", "model_checking", tier)
    vlib.build_lib()
    res = vlib.run_tlc("Calculator", "MC_Calculator.cfg", workers=4, timeout=600)
    if res.violation:
        raise Broken("Calculator.tla: the intended protocol violates Atomic/Exact:\n" + res.violation)
    ck.cov["states"] = res.distinct
    ck.cov["transitions"] = res.generated
    term = res.emitted
    predicted = sorted(set((t["profile"], t["fault"]) for t in term if t["proto"] == "transcribed" and not t["clean"] and t["ret"] == "fail"))
    ck.cov["model_predicted_nonatomic_pairs_of_transcribed_rollbacks"] = ["%s/%s" % p for p in predicted]
    # scenario list
    scen = []
    seen = set()
    priors = ["plain", "clash"] if tier == "thorough" else ["plain", "clash"]
    for t in term:
        if not t["bound"]:
            continue
        key = (t["profile"], t["fault"])
        if key in seen:
            continue
        seen.add(key)
        f = t["fault"]
        if f in ("check", "run"):
            variants = t["variants"]            # natural failures only
        elif f == "postprocess":
            continue                             # no injection point inside _postprocess
        else:
            variants = t["setups"]
        for v in variants:
            for pr in priors:
                scen.append({"id": len(scen) + 1, "profile": t["profile"], "fault": f, "variant": v, "prior": pr})
    if not scen:
        raise Broken("no scenario emitted")
    sp = os.path.join(ck.work, "scen.ndjson")
    vlib.write_ndjson(sp, scen)
    op = os.path.join(ck.work, "calclog.ndjson")
    open(op, "w").close()
    exe = vlib.build_harness("calc_run")
    start = 0
    crashes = 0
    while True:
        r = vlib.run_harness(exe, [sp, op, start], ok_codes=(0, 88), timeout=1800)
        if r.returncode == 0:
            break
        crashes += 1
        last = json.loads(open(op).read().strip().splitlines()[-1])
        start = last["scen"]["id"]            # ids are 1-based: continue after the crashing scenario
        if crashes > 30:
            raise Broken("more than 30 crashing scenarios")
    recs = vlib.read_ndjson(op)
    jr = vlib.run_tlc("TraceCalculator", "TraceCalculator.cfg", workers=1, env={"CALCLOG": op}, timeout=900)
    if jr.violation or "NOT-ALL-EXAMINED" in jr.stdout:
        raise Broken("TraceCalculator did not examine the whole log:\n" + (jr.violation or jr.stdout[-2000:]))
    nfail = nok = 0
    by_profile = {}
    for r in recs:
        if "crash" in r:
            continue
        by_profile.setdefault(r["scen"]["profile"], [0, 0])
        if r["ret"] == "ok":
            nok += 1; by_profile[r["scen"]["profile"]][0] += 1
        else:
            nfail += 1; by_profile[r["scen"]["profile"]][1] += 1
    for e in jr.emitted:
        r = recs[e["idx"] - 1]
        sc = r["scen"]
        rec = {"kind": "calc", "profile": sc["profile"], "fault": sc["fault"], "variant": sc["variant"],
               "prior": sc["prior"], "second_call": r.get("second", False), "fails": sorted(e["fails"])}
        ck.disagree(rec, r)
    for p, (a, b) in by_profile.items():
        if a == 0:
            raise Broken("vacuous: profile %s never completed successfully" % p)
        if b == 0:
            raise Broken("vacuous: profile %s never failed" % p)
    # cross-module sessions (Session.tla): calculators interleaved with Db edits, copies, save + reload
    ss = session_common.run_sessions(ck, tier)
    for rec, fails, ses in ss["rejected"]:
        ck.disagree({"kind": "session-step", "op": rec["op"], "fails": fails, "history": [h["op"]["name"] for h in ses["hist"]]},
                    {"session": [h["op"]["name"] for h in ses["hist"]], "record": rec})
    for ses, last in ss["crashes"]:
        ck.disagree({"kind": "session-crash", "op": last["session"]["op"]}, {"session": [h["op"]["name"] for h in ses["hist"]], "at": last})
    ck.cov["session_steps_judged"] = ss["steps"]
    ck.cov["sessions"] = ss["sessions"]
    ck.cov["states"] += ss["states"]; ck.cov["transitions"] += ss["transitions"]
    ck.cov["traces_validated_against_impl"] = len(recs) + ss["steps"]
    ck.cov["calls_ok"] = nok
    ck.cov["calls_failed"] = nfail
    ck.cov["scenarios"] = len(scen)
    ck.cov["per_profile_ok_fail"] = by_profile
    ck.cov["rule"] = ("scenario = profile x fault point (natural failing input or injected fault) x prior content; each executed on "
                      "the real calculator, plus a second call after each failure; each call judged by TLC on complete before/after projections")
    for r in recs[:: max(1, len(recs) // 3)][:3]:
        ck.sample({"scen": r["scen"], "ret": r["ret"], "out_pre": [("".join(c["name"]), c["role"]) for c in r["out_pre"]["cols"]],
                   "out_post": [("".join(c["name"]), c["role"]) for c in r["out_post"]["cols"]]})
    ck.assumptions += ["content compared through a 64-bit hash of the bit patterns of each column",
                       "faults inside _postprocess are explored on the model only (no injection point)"]
    log("[C19] %d scenarios, %d calls (%d ok, %d failed), %d rejected by TLC" % (len(scen), len(recs), nok, nfail, len(jr.emitted)))
    return ck.finish()
