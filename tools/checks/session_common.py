"""Cross-module sessions (Session.tla): emitted by TLC, executed by session_run, judged by TraceSession."""
import json, os
import vlib
from vlib import Broken, log

INIT = {"data": [{"tag": "x1", "role": "X1"}, {"tag": "x2", "role": "X2"}, {"tag": "z", "role": "Z1"}],
        "grid": [{"tag": "gx1", "role": "X1"}, {"tag": "gx2", "role": "X2"}], "ok": True}


def run_sessions(ck, tier):
    """returns dict(states, transitions, sessions, steps, rejected=[(record, fails)], crashes=[...], fresh=[(session, diff)])"""
    w = ck.work
    maxlen = 4 if tier == "quick" else 5
    c = os.path.join(w, "session.cfg")
    open(c, "w").write("SPECIFICATION Spec\nCONSTANT MaxLen = %d\nINVARIANT Table\nPROPERTY StepLaw\nCONSTRAINT EmitScripts\nCHECK_DEADLOCK FALSE\n" % maxlen)
    res = vlib.run_tlc("Session", c, workers=8, timeout=3000)
    if res.violation:
        raise Broken("Session.tla violates its own properties:\n" + res.violation)
    sessions = res.emitted
    if tier == "quick":
        # deterministic sub-sample (every session of the exhaustive set is equally likely to be kept)
        step = max(1, len(sessions) // 5000)
        sessions = sessions[vlib.seed() % step::step]
    exe = vlib.build_harness("session_run")
    sp = os.path.join(w, "sessions.ndjson"); op = os.path.join(w, "sessions_obs.ndjson")
    vlib.write_ndjson(sp, sessions)
    open(op, "w").close()
    start, crashes = 0, []
    while True:
        r = vlib.run_harness(exe, [sp, op, start], ok_codes=(0, 88), timeout=3000)
        if r.returncode == 0:
            break
        last = json.loads(open(op).read().strip().splitlines()[-1])
        crashes.append((sessions[last["session"]["idx"]], last))
        start = last["session"]["idx"] + 1
        if len(crashes) > 20:
            raise Broken("more than 20 crashing sessions")
    recs, fresh = [], []
    for o in vlib.read_ndjson(op):
        if "crash" in o:
            continue
        ses = sessions[o["idx"]]
        if o["fresh_diff"] >= 0:
            fresh.append((ses, o["fresh_diff"]))
        pe, pr = INIT, None
        for st, ro in zip(ses["hist"], o["steps"]):
            exp = {"data": st["data"], "grid": st["grid"], "ok": st["ok"]}
            if pr is not None:
                recs.append({"sidx": o["idx"], "op": st["op"]["name"], "exp": exp, "prev_exp": {"data": pe["data"], "grid": pe["grid"]},
                             "real": ro, "prev_real": pr})
            pe, pr = exp, ro
    lp = os.path.join(w, "sessions_log.ndjson")
    vlib.write_ndjson(lp, recs)
    jr = vlib.run_tlc("TraceSession", "TraceSession.cfg", workers=1, env={"SESSIONLOG": lp}, timeout=3000)
    if jr.violation or "NOT-ALL-EXAMINED" in jr.stdout:
        raise Broken("TraceSession did not examine the whole log:\n" + (jr.violation or jr.stdout[-1500:]))
    rejected = [(recs[e["idx"] - 1], sorted(e["fails"]), sessions[recs[e["idx"] - 1]["sidx"]]) for e in jr.emitted]
    log("[Session] %d sessions (%d states), %d steps judged by TLC, %d rejected, %d final estimations compared" %
        (len(sessions), res.distinct, len(recs), len(rejected), len(fresh)))
    return dict(states=res.distinct, transitions=res.generated, sessions=len(sessions), steps=len(recs), rejected=rejected,
                crashes=crashes, fresh=fresh)
