"""C16 -- grid geometry conversions are mutually inverse.

1. TLC enumerates the case model GridGeom.tla (MC_GridGeom): every grid of the tier, every node, every
   off-border query point, every derived grid (multiple / divider / dilate / sub-grid), checks the
   property on the model (INVARIANT Inv_C16: round trips, point-in-cell stated with the direct map
   only, child nodes where the parent's nodes / cell centres are, R is a rotation) and prints every
   case with its expected results (exact integers / rationals).
2. Every case is executed on the real Grid / DbGrid / migrate by harness grid_run, as emitted and
   conjugated by an arbitrary rotation Q applied to the whole scene (grid origin and rotation, query
   points): decisions are invariant, coordinates are rotated.  Every case but the query points is
   also executed on the same grid with its rotation GIVEN AS A MATRIX (Grid::setRotationByMatrix /
   ByVector): the grid data base and the derived grids are then created through the angles that the
   library derives from the matrix (as createCoarse, createSubGrid, resetFromGrid ... do), and must
   sit where the closed forms of GridGeom.tla say.  Grid cases carry the law "matrix -> angles ->
   matrix is the identity"; migrate cases carry the rank-list / selection arguments.
3. Comparison: every value observed under the key "<quantity>@<api>" must equal the field <quantity>
   of the case; exactly for integers (indices, ranks, inside/outside, node counts), 1e-9 relative
   for coordinates.
"""
import json, math, os, random, collections, time, types, hashlib, shutil, multiprocessing, concurrent.futures
import vlib
from vlib import Check, Broken, log

T345 = math.degrees(math.atan2(4.0, 3.0))
TOL = 1e-9
WORLD_VEC = ("X", "P", "XC", "XI", "X0")
WORLD_LIST = ("XS", "PS")
KINDS = ("grid", "node", "point", "multiple", "divider", "dilate", "subgrid", "migrate", "history")
# entry points that must have been exercised (vacuity guard), by case kind
REQUIRED = {
    "grid": ["M@Grid.getRotation.getMatrixDirect", "MI@Grid.getRotation.getMatrixInverse", "g.x0@DbGrid.getX0s",
             "M@Grid.resetFromGrid.getMatrixDirect", "M@DbGrid.clone.getMatrixDirect",
             "M@Grid.copyParams(4).getMatrixDirect", "M@Rotation.setMatrixDirect.getAngles.setAngles.getMatrixDirect",
             "M@Rotation.setMatrixDirectVec.getAngles.setAngles.getMatrixDirect",
             "M@GH.rotationGetAnglesInPlace.rotationMatrixInPlace",
             "M@Grid.setRotationByMatrix.resetFromGrid.getMatrixDirect"],
    "node": ["idx@Grid.rankToIndice", "rank@Grid.indiceToRank", "X@Grid.indicesToCoordinate",
             "X@Grid.indicesToCoordinateInPlace", "X@Grid.rankToCoordinates", "X@Grid.getCoordinate",
             "X@DbGrid.getCoordinate", "X@DbGrid.getFromLocator(X)", "X@DbGrid.getSampleCoordinates",
             "idx@Grid.coordinateToIndices(X)", "idx@Grid.coordinateToIndices.centered(X)",
             "rank@Grid.coordinateToRank(X)", "rank@Grid.coordinateToRank.centered(indicesToCoordinate(idx))",
             "idx@Grid.coordinateToIndicesInPlace(indicesToCoordinate(idx))", "idx@point_to_grid(X)",
             "F@Grid.getCoordinatesByRank(norotate)-x0"],
    "point": ["P@Grid.indicesToCoordinate(cellq,pct)", "P@Grid.rankToCoordinates(rc,pct)",
              "ic@Grid.coordinateToIndicesInPlace", "oc@Grid.coordinateToIndicesInPlace",
              "ii@Grid.coordinateToIndicesInPlace.centered", "oi@Grid.coordinateToIndicesInPlace.centered",
              "ic@Grid.coordinateToIndices", "rc@Grid.coordinateToRank", "ri@Grid.coordinateToRank.centered",
              "rc@DbGrid.coordinateToRank", "XC@DbGrid.centerCoordinateInPlace",
              "XI@DbGrid.centerCoordinateInPlace.centered", "ii@point_to_grid(-1)", "iiclip@point_to_grid(1)",
              "ri@Grid.sampleBelongsToCell(unique)"],
    "multiple": ["X0@Grid.multiple", "nx@Grid.multiple", "dx@Grid.multiple", "XS@DbGrid.createCoarse.getCoordinate",
                 "XS@DbGrid.createCoarse.columns", "XS@DbGrid.createMultiple.getCoordinate",
                 "XS@DbGrid.coarsify.getCoordinate", "XS@Grid.multiple.nodes(getRotAngles)"],
    "divider": ["X0@Grid.divider", "nx@Grid.divider", "dx@Grid.divider", "XS@DbGrid.createRefine.getCoordinate",
                "XS@DbGrid.createRefine.columns", "XS@DbGrid.createDivider.getCoordinate",
                "XS@DbGrid.refine.getCoordinate", "XS@Grid.divider.nodes(getRotAngles)"],
    "dilate": ["X0@Grid.dilate", "nx@Grid.dilate", "dx@Grid.dilate", "XS@Grid.dilate.nodes(getRotAngles)"],
    "subgrid": ["X0@DbGrid.createSubGrid", "nx@DbGrid.createSubGrid", "XS@DbGrid.createSubGrid.getCoordinate",
                "XS@DbGrid.createSubGrid.columns"],
    "migrate": ["cells@migrate(grid->points)", "cells@migrateGridToCoor", "rcs@DbGrid.locateDataInGrid",
                "ris@DbGrid.locateDataInGrid.centered", "ris@index_point_to_grid(0)", "ois@point_inside_grid",
                "rcsL@DbGrid.locateDataInGrid(list)", "risL@DbGrid.locateDataInGrid(list).centered",
                "rcsS@DbGrid.locateDataInGrid(useSel)", "risS@DbGrid.locateDataInGrid(useSel).centered",
                "cellsM@migrate(grid->points,selection)"],
    # operations asked to an object that has already been asked another one (and that one on a fresh object)
    "history>divider": ["X0@Grid.divider", "XS@DbGrid.createRefine.getCoordinate", "XS@DbGrid.createDivider.getCoordinate"],
    "history>multiple": ["X0@Grid.multiple", "XS@DbGrid.createCoarse.getCoordinate"],
    "history>dilate": ["X0@Grid.dilate"],
    "history>subgrid": ["XS@DbGrid.createSubGrid.getCoordinate"],
    "history>node": ["X@Grid.getCoordinate", "rank@Grid.coordinateToRank(X)", "idx@Grid.rankToIndice"],
    "history>point": ["rc@Grid.coordinateToRank", "ic@Grid.coordinateToIndices", "P@Grid.indicesToCoordinate(cellq,pct)"],
}


# --------------------------------------------------------------------------- small linear algebra (plumbing)

def matmul(a, b):
    n = len(a)
    return [[sum(a[i][k] * b[k][j] for k in range(n)) for j in range(len(b[0]))] for i in range(n)]


def matvec(a, v):
    return [sum(a[i][k] * v[k] for k in range(len(v))) for i in range(len(a))]


def transpose(a):
    return [list(r) for r in zip(*a)]


def rz(t):
    c, s = math.cos(t), math.sin(t)
    return [[c, -s, 0.0], [s, c, 0.0], [0.0, 0.0, 1.0]]


def ry(t):
    c, s = math.cos(t), math.sin(t)
    return [[c, 0.0, s], [0.0, 1.0, 0.0], [-s, 0.0, c]]


def rx(t):
    c, s = math.cos(t), math.sin(t)
    return [[1.0, 0.0, 0.0], [0.0, c, -s], [0.0, s, c]]


def code_deg(a):
    return 90.0 * (a % 4) + (T345 if a >= 4 else 0.0)


def euler_zyx(m):
    """Angles (degrees) a, b, c with m = Rz(a).Ry(b).Rx(c); verified by recomposition."""
    a = math.atan2(m[1][0], m[0][0])
    b = math.atan2(-m[2][0], math.hypot(m[0][0], m[1][0]))
    c = math.atan2(m[2][1], m[2][2])
    back = matmul(matmul(rz(a), ry(b)), rx(c))
    err = max(abs(back[i][j] - m[i][j]) for i in range(3) for j in range(3))
    if err > 1e-12:
        raise Broken("Euler angle extraction failed (error %g)" % err)
    return [math.degrees(a), math.degrees(b), math.degrees(c)]


def rat(v):
    """{"n": .., "d": D} / {"ns": .., "d": D} -> floats (nested lists)."""
    d = float(v["d"])

    def div(x):
        return [div(e) for e in x] if isinstance(x, list) else x / d
    return div(v["n"] if "n" in v else v["ns"])


class Conjugator:
    """The arbitrary rotation of the scene attached to a grid (derived from the seed and the grid)."""

    def __init__(self, seed):
        self.seed = seed
        self.cache = {}

    def q(self, gkey, nd):
        m = self.cache.get(gkey)
        if m is None:
            rng = random.Random("%d|%s" % (self.seed, gkey))
            if nd == 2:
                t = math.radians(rng.uniform(0.5, 359.5))
                m = [[math.cos(t), -math.sin(t)], [math.sin(t), math.cos(t)]]
            else:
                m = matmul(matmul(rz(math.radians(rng.uniform(0, 360))), ry(math.radians(rng.uniform(-80, 80)))),
                           rx(math.radians(rng.uniform(0, 360))))
            if len(self.cache) > 50000:
                self.cache.clear()
            self.cache[gkey] = m
        return m


class CaseWriter:
    """Turns the records printed by TLC into the input lines of the harness (as emitted + conjugated)."""

    def __init__(self, f, conj_every, seed):
        self.f = f
        self.n = 0
        self.ntlc = 0
        self.conj = Conjugator(seed)
        self.conj_every = conj_every          # conjugate the grids whose key hashes to a multiple of this (0 = never)
        self.by_kind = collections.Counter()
        self.nconj = 0
        self.nmat = 0
        self.base_id = 0

    @staticmethod
    def stable(text):
        return int.from_bytes(hashlib.blake2b(text.encode(), digest_size=6).digest(), "big")

    @staticmethod
    def convert(v):
        """Rationals -> floats in one case record (or one operation of a history)."""
        base = dict(v)
        for k, val in v.items():
            if isinstance(val, dict) and "d" in val and ("n" in val or "ns" in val):
                base[k] = rat(val)
        if "F" in base:           # a length (i*dx), not a decision: compared as a real
            base["F"] = [float(x) for x in base["F"]]
        return base

    @staticmethod
    def rotate(c, Q):
        """World coordinates of one case record (or one operation of a history) rotated by Q."""
        for k in WORLD_VEC:
            if k in c:
                c[k] = matvec(Q, c[k])
        for k in WORLD_LIST:
            if k in c:
                c[k] = [matvec(Q, p) for p in c[k]]
        if "M" in c:
            c["M"] = matmul(Q, c["M"])
            c["MI"] = matmul(c["MI"], transpose(Q))
            c["rotated"] = 1

    def emit(self, v):
        self.ntlc += 1
        g = v["g"]
        nd = g["nd"]
        gkey = json.dumps([g["nd"], g["nx"], g["dx"], g["x0"], g["ang"]], separators=(",", ":"))
        R = rat({"n": g["n"], "d": g["d"]})
        base = self.convert(v)
        if v["k"] == "history":
            base["seq"] = [self.convert(o) for o in v["seq"]]
        ang = [code_deg(a) for a in g["ang"]]
        if nd == 2:
            ang = [ang[0], 0.0]
        base["g"] = {"nd": nd, "nx": g["nx"], "dx": [float(x) for x in g["dx"]], "x0": [float(x) for x in g["x0"]],
                     "ang": ang, "codes": g["ang"]}
        base["R"] = R
        base["rotated0"] = int(any(abs(R[i][j] - (1.0 if i == j else 0.0)) > 1e-12 for i in range(nd) for j in range(nd)))
        base["conj"] = 0
        base["zero"] = 0
        base["one"] = 1
        self.write(base, self.stable(gkey + "|0"))
        self.by_kind[v["k"]] += 1
        self.by_matrix(base, gkey + "|m0")
        if nd < 2 or not self.conj_every or self.stable(gkey) % self.conj_every:
            return
        Q = self.conj.q(gkey, nd)
        c = dict(base)
        QR = matmul(Q, R)
        cg = dict(base["g"])
        cg["x0"] = matvec(Q, base["g"]["x0"])
        cg["ang"] = [math.degrees(math.atan2(QR[1][0], QR[0][0])), 0.0] if nd == 2 else euler_zyx(QR)
        c["g"] = cg
        self.rotate(c, Q)
        if "seq" in c:
            c["seq"] = [dict(o) for o in c["seq"]]
            for o in c["seq"]:
                self.rotate(o, Q)
        c["R"] = QR
        c["conj"] = 1
        self.write(c, self.stable(gkey + "|1"))
        self.nconj += 1
        self.by_matrix(c, gkey + "|m1")

    def by_matrix(self, c, key):
        """The same case on the same grid, its rotation being given to the library as a matrix."""
        if c["g"]["nd"] < 2 or c["k"] == "point":
            return
        m = dict(c)
        g = {f: c["g"][f] for f in ("nd", "nx", "dx", "x0", "codes")}
        g["rotmat"] = c["R"]
        g["by"] = "vector" if self.stable(key) % 2 else "matrix"
        m["g"] = g
        self.write(m, self.stable(key))
        self.nmat += 1

    def write(self, c, gid):
        c["id"] = self.base_id + self.n
        c["gid"] = gid
        self.f.write(json.dumps(c, separators=(",", ":")) + "\n")
        self.n += 1


# conversion of the TLC records in a pool of processes, each appending to its own file (= one shard)
BATCH = 4000
_wfile = None
_wpath = None


def _pool_init(workdir):
    global _wfile, _wpath
    _wpath = os.path.join(workdir, "cases_%d.ndjson" % os.getpid())
    _wfile = open(_wpath, "w")


def _convert_batch(args):
    batch_no, records, conj_every, seed = args
    cw = CaseWriter(_wfile, conj_every, seed)
    cw.base_id = batch_no * 8 * BATCH
    try:
        for v in records:
            cw.emit(v)
    except Broken as b:
        return {"error": str(b)}
    _wfile.flush()
    return {"path": _wpath, "n": cw.n, "ntlc": cw.ntlc, "nconj": cw.nconj, "nmat": cw.nmat, "by_kind": cw.by_kind, "error": None}


class ParallelEmitter:
    def __init__(self, workdir, nproc, conj_every, seed):
        self.pool = multiprocessing.Pool(nproc, initializer=_pool_init, initargs=(workdir,))
        self.nproc = nproc
        self.conj_every, self.seed = conj_every, seed
        self.buf = []
        self.batch_no = 0
        self.pending = []
        self.done = []

    def emit(self, v):
        self.buf.append(v)
        if len(self.buf) >= BATCH:
            self.flush()

    def flush(self):
        if not self.buf:
            return
        self.pending.append(self.pool.apply_async(_convert_batch, ((self.batch_no, self.buf, self.conj_every, self.seed),)))
        self.batch_no += 1
        self.buf = []
        while len(self.pending) > 3 * self.nproc:
            self.done.append(self.pending.pop(0).get())

    def close(self):
        self.flush()
        self.done += [p.get() for p in self.pending]
        self.pool.close()
        self.pool.join()
        self.n = self.ntlc = self.nconj = self.nmat = 0
        self.by_kind = collections.Counter()
        paths = set()
        for d in self.done:
            if d["error"]:
                raise Broken(d["error"])
            self.n += d["n"]
            self.ntlc += d["ntlc"]
            self.nconj += d["nconj"]
            self.nmat += d["nmat"]
            self.by_kind.update(d["by_kind"])
            paths.add(d["path"])
        return sorted(paths)


# --------------------------------------------------------------------------- comparison

def lookup(case, q):
    cur = case
    for part in q.split("."):
        if not isinstance(cur, dict) or part not in cur:
            return None, False
        cur = cur[part]
    return cur, True


def same(obs, exp):
    """Exact for integers (decisions), 1e-9 relative for reals; shapes must agree."""
    if isinstance(exp, list):
        return isinstance(obs, list) and len(obs) == len(exp) and all(same(o, e) for o, e in zip(obs, exp))
    if isinstance(obs, list) or obs is None or isinstance(obs, (str, dict)):
        return False
    if isinstance(exp, bool) or isinstance(exp, int):
        return obs == exp
    return abs(obs - exp) <= TOL * max(1.0, abs(exp))


def count_values(x):
    return sum(count_values(e) for e in x) if isinstance(x, list) else 1


def describe(case):
    """Attributes of a case used to identify known findings (kept small and stable)."""
    k = case["k"]
    d = {"kind": k, "nd": case["g"]["nd"], "rotated": bool(case["rotated0"]) or bool(case["conj"]),
         "conjugated": bool(case["conj"])}
    d["rotation_by"] = case["g"].get("by", "matrix") if "rotmat" in case["g"] else "angles"
    R = case["R"]
    d["gimbal_lock"] = bool(len(R) == 3 and abs(abs(R[2][0]) - 1.0) < 1e-9)      # second angle = +-90 degrees
    if k in ("multiple", "divider"):
        d["cell"] = bool(case["cell"])
        d["unequal_factors"] = len(set(case["m"])) > 1
    if k == "dilate":
        d["shift_nonzero"] = any(case["s"])
    if k == "subgrid":
        d["lo_nonzero"] = any(case["lo"])
    return d


def through_angles(case, api):
    """True when the value was obtained through angles that the LIBRARY derived from a rotation matrix."""
    if api.startswith(("Grid.", "Grid(", "Rotation.", "GH.")):
        return any(t in api for t in ("resetFromGrid", "copyParams", "getRotAngles", "getAngles", "rotationGetAngles")) and \
            ("rotmat" in case["g"] or "setRotationByMatrix" in api or "setMatrixDirect" in api or api.startswith("GH."))
    return "rotmat" in case["g"]          # the grid data base of such a case is created from Grid::getRotAngles


def known_defect_origin(case):
    """Origin that the recorded defects of gstlearn produce for this derived grid, with the name of the
    defect (used ONLY to recognise a known finding as narrowly as possible, never to accept a value)."""
    k, g, R = case["k"], case["g"], case["R"]
    x0, dx = g["x0"], g["dx"]
    if k == "dilate":          # Grid::dilate: shift applied twice
        return [2 * e - x for e, x in zip(case["X0"], x0)], "shift_applied_twice"
    if k == "subgrid":         # DbGrid::createSubGrid: shift lo*dx not rotated
        return [x + l * d for x, l, d in zip(x0, case["lo"], dx)], "shift_not_rotated"
    if k in ("multiple", "divider") and case["cell"]:
        # Grid::multiple / divider: rotated half-cell vector scaled per world axis
        h = matvec(R, [d / 2.0 for d in dx])
        m = case["m"]
        if k == "multiple":
            return [x - hh + mm * hh for x, hh, mm in zip(x0, h, m)], "half_cell_scaled_per_world_axis"
        return [x - hh + hh / mm for x, hh, mm in zip(x0, h, m)], "half_cell_scaled_per_world_axis"
    return None, None


def signature(case, q, obs, exp):
    if q in ("rcsS", "risS"):
        # DbGrid::locateDataInGrid(useSel): only the first <number of active samples> samples are scanned
        mask, full = case["selmask"], case["rcs" if q == "rcsS" else "ris"]
        nact = sum(mask)
        return "only_first_nactive_samples_scanned" if obs == [full[t] for t in range(nact) if mask[t]] else None
    bug, name = known_defect_origin(case)
    if bug is None:
        return None
    try:
        if q == "X0" and same(obs, bug):
            return name
        if q == "XS":
            off = [b - e for b, e in zip(bug, case["X0"])]
            if same(obs, [[c + o for c, o in zip(p, off)] for p in exp]):
                return name
    except (TypeError, ValueError):
        pass
    return None


def run_harness_shard(exe, casep, obsp):
    """Runs the harness over one shard, restarting after a case in which the library crashed."""
    start = 0
    crashes = []
    for attempt in range(50):
        r = vlib.run_harness(exe, [casep, obsp, start], ok_codes=(0, 88), timeout=6000)
        if r.returncode == 0:
            return crashes
        with open(obsp, "rb") as f:
            f.seek(max(0, os.path.getsize(obsp) - 4096))
            last = f.read().decode().strip().splitlines()[-1]
        rec = json.loads(last)
        if "crash" not in rec:
            raise Broken("grid_run stopped without a crash record: " + r.stderr[-500:])
        crashes.append(rec)
        start = rec["line"] + 1
    raise Broken("grid_run: more than 50 crashing cases in one shard")


def migrate_votes(args):
    casep, obsp = args
    votes = collections.Counter()
    with open(casep) as fc, open(obsp) as fo:
        for lc, lo in zip(fc, fo):
            if '"k":"migrate"' not in lc:
                continue
            c, o = json.loads(lc), json.loads(lo)
            got = o.get("cells@migrate(grid->points)")
            for conv in ("rcs", "ris"):
                if got == c[conv]:
                    votes[conv] += 1
    return votes


def judge(c, o, after, prefix, conv, matcher, out, whole):
    """Compares what the library answered (o) for one case / one operation of a history (c)."""
    k = c["k"]
    attrs = dict(describe(c), after=after)
    bad = []          # (api key, observed, expected)
    if "crash" in o or "exception" in o:
        bad.append(("crash@" + k, o.get("crash", o.get("exception")), None))
    for key, obs in o.items():
        if key in ("id", "crash", "exception", "line"):
            continue
        q, _, api = key.partition("@")
        if q == "null":
            bad.append((key, "null pointer returned", None))
            continue
        if q == "cells":
            exp, ok = c[conv], True
        elif q == "cellsM":
            exp, ok = c[conv + "M"], True
        else:
            exp, ok = lookup(c, q)
        if not ok:
            return "grid_run key %s has no counterpart in the %s case" % (key, k)
        out["api"][prefix + k + ":" + key] += 1
        out["values"] += count_values(exp)
        if not same(obs, exp):
            bad.append((key, obs, exp))
    if not bad:
        if len(out["samples"]) < 2 and (prefix or k in ("node", "point", "multiple")) and c["g"]["nd"] > 1 and c["id"] % 7 == 0:
            out["samples"].append({"case": {f: whole[f] for f in whole if f not in ("XS", "PS", "gid", "zero", "one", "R")}
                                   if not prefix else {"history": [p["k"] for p in whole["seq"]], "g": whole["g"],
                                                       "last operation": {f: c[f] for f in c if f not in ("XS", "g", "R")}},
                                   "observed": {f: o[f] for f in list(o)[:8]}})
        return None
    # partition the failing entry points into known findings and the rest
    groups = {}
    for key, obs, exp in bad:
        q, _, api = key.partition("@")
        rec = dict(attrs, quantity=q, api=api, signature=signature(c, q, obs, exp),
                   through_derived_angles=through_angles(c, api))
        kf = Check.known_match(matcher, rec)
        groups.setdefault(kf["id"] if kf else None, []).append((rec, key, obs, exp))
    for fid, items in groups.items():
        rec = dict(items[0][0])
        rec["apis"] = sorted(set(i[0]["api"] for i in items))
        replay = None
        if fid is None and out["nreplay"] < 25:
            out["nreplay"] += 1
            replay = {"case": whole,
                      "failing": [{"key": key, "observed": obs, "expected": exp} for _, key, obs, exp in items[:12]],
                      "how": "write the object 'case' on one line of a file F and run: .build/bin/grid_run F out.ndjson"}
        out["dis"].append((whole["id"], rec, replay))
    return None


def compare_shard(args):
    """Lock-step comparison of the cases of one shard and of what the library answered.
    Returns the disagreements [(case id, rec, replay or None)] and the counters."""
    casep, obsp, conv, known = args
    matcher = types.SimpleNamespace(known=known)
    out = {"dis": [], "api": collections.Counter(), "kind": collections.Counter(), "values": 0, "cases": 0, "rot": 0,
           "samples": [], "error": None, "nreplay": 0}
    with open(casep) as fc, open(obsp) as fo:
        for lc in fc:
            lo = fo.readline()
            if not lo:
                out["error"] = "grid_run produced fewer lines than cases"
                return out
            c, o = json.loads(lc), json.loads(lo)
            if c["id"] != o.get("id"):
                out["error"] = "grid_run output out of step at case %s" % c["id"]
                return out
            k = c["k"]
            out["kind"][k] += 1
            out["cases"] += 1
            if bool(c["rotated0"]) or bool(c["conj"]):
                out["rot"] += 1
            if k == "history":
                # every operation of the history is judged as the same operation on a fresh object
                steps = o.get("steps", [])
                units = []
                for i, op in enumerate(c["seq"]):
                    sub = dict(op, g=c["g"], R=c["R"], rotated0=c["rotated0"], conj=c["conj"], zero=0, one=1, id=c["id"])
                    ob = steps[i] if i < len(steps) else {"id": c["id"], "crash": o.get("crash", "missing")}
                    after = "+".join(p["k"] for p in c["seq"][:i]) or "fresh object"
                    units.append((sub, ob, after, "history>"))
                if "crash" in o and len(steps) >= len(c["seq"]):
                    units.append((dict(c, k="history"), {"id": c["id"], "crash": o["crash"]}, "all", "history>"))
            else:
                units = [(c, o, "cached object (uncontrolled)", "")]
            for sub, ob, after, prefix in units:
                err = judge(sub, ob, after, prefix, conv, matcher, out, c)
                if err:
                    out["error"] = err
                    return out
        if fo.readline():
            out["error"] = "grid_run produced more lines than cases"
    return out


def run(tier):
    ck = Check("C16", "model_checking", tier)
    try:
        return check(ck, tier)
    finally:
        shutil.rmtree(ck.work, ignore_errors=True)      # the case files are large


def check(ck, tier):
    vlib.build_lib()
    exe = vlib.build_harness("grid_run")
    w = ck.work
    nshard = max(1, min(8, vlib.NCPU // 2))
    workers = int(os.environ.get("VERIF_TLC_WORKERS", "0")) or None
    # 1. TLC: invariants of the model + emission of the cases (converted to harness input by a pool of processes)
    cw = ParallelEmitter(w, nshard, conj_every=(2 if tier == "quick" else 1), seed=vlib.seed())
    try:
        res = vlib.run_tlc("MC_GridGeom", "MC_GridGeom_%s.cfg" % tier, workers=workers, timeout=3000, on_emit=cw.emit,
                           heap="3g")
    except BaseException:
        cw.pool.terminate()
        raise
    caseps = cw.close()
    nshard = len(caseps)
    obsps = [os.path.join(os.path.dirname(p), os.path.basename(p).replace("cases_", "observed_")) for p in caseps]
    if res.violation:
        raise Broken("GridGeom.tla violates its own invariant (the model is wrong):\n" + res.violation)
    if cw.ntlc != res.distinct:
        raise Broken("TLC printed %d cases for %d distinct states" % (cw.ntlc, res.distinct))
    log("[C16] MC_GridGeom %s: %d states (cases), invariant holds, %.1fs; %d harness cases (%d conjugated, %d with the "
        "rotation given as a matrix)" % (tier, res.distinct, res.wall, cw.n, cw.nconj, cw.nmat))
    for k in KINDS:
        if cw.by_kind[k] == 0:
            raise Broken("vacuous: no case of kind %s" % k)
    # 2. the real library (one process per shard)
    t0 = time.time()
    with concurrent.futures.ThreadPoolExecutor(nshard) as ex:
        crashes = sum(ex.map(lambda i: run_harness_shard(exe, caseps[i], obsps[i]), range(nshard)), [])
    log("[C16] grid_run: %d cases executed in %.1fs (%d crash(es))" % (cw.n, time.time() - t0, len(crashes)))
    # 3. comparison
    t0 = time.time()
    with multiprocessing.Pool(nshard) as pool:
        votes = sum(pool.map(migrate_votes, list(zip(caseps, obsps))), collections.Counter())
        # convention of migrate (its documentation does not say which kind of cell it uses): the one that explains
        # most of the migrations of this run (both are cells that geometrically contain the point)
        conv = "ris" if votes["ris"] > votes["rcs"] else "rcs"
        parts = pool.map(compare_shard, [(caseps[i], obsps[i], conv, ck.known) for i in range(nshard)])
    stats = {"api": collections.Counter(), "kind": collections.Counter(), "values": 0, "cases": 0, "rot": 0}
    dis = []
    for p in parts:
        if p["error"]:
            raise Broken(p["error"])
        for f in ("api", "kind"):
            stats[f].update(p[f])
        for f in ("values", "cases", "rot"):
            stats[f] += p[f]
        dis += p["dis"]
        for smp in p["samples"]:
            ck.sample(smp, cap=4)
    if stats["cases"] != cw.n:
        raise Broken("%d cases compared for %d written" % (stats["cases"], cw.n))
    dis.sort(key=lambda d: d[0])
    for cid, rec, replay in dis:
        ck.disagree(rec, replay if replay is not None else {"case_id": cid})
    log("[C16] compared %d cases / %d values in %.1fs" % (stats["cases"], stats["values"], time.time() - t0))
    summary = collections.Counter(json.dumps({k: v for k, v in rec.items() if k != "api"}, sort_keys=True)
                                  for rec, _ in ck.violations)
    for text, n in summary.most_common(40):
        log("   %6d x %s" % (n, text))
    # keep the violations that carry a replay first (finish() writes the first 20)
    ck.violations.sort(key=lambda v: 0 if "case" in v[1] else 1)
    for k, apis in REQUIRED.items():
        for a in apis:
            if stats["api"][k + ":" + a] == 0:
                raise Broken("vacuous: entry point %s never exercised in %s cases" % (a, k))
    ck.cov["states"] = res.distinct
    ck.cov["transitions"] = res.generated
    ck.cov["tlc_cases_by_kind"] = dict(cw.by_kind)
    ck.cov["grids"] = cw.by_kind["grid"]
    ck.cov["traces_validated_against_impl"] = stats["cases"]
    ck.cov["evaluations"] = stats["values"]
    ck.cov["distinct_nontrivial"] = stats["rot"]
    ck.cov["cases_conjugated_by_arbitrary_rotation"] = cw.nconj
    ck.cov["cases_with_rotation_given_as_matrix"] = cw.nmat
    ck.cov["entry_points_exercised"] = len(set(a.split(":", 1)[1].split("@", 1)[1] for a in stats["api"]))
    ck.cov["comparisons_by_kind"] = dict(stats["kind"])
    ck.cov["migrate_cell_convention_observed"] = {"rcs": "cell with its node at the lower corner (centered=false)",
                                                   "ris": "cell centred on its node"}[conv]
    ck.cov["library_crashes"] = len(crashes)
    ck.cov["mc_config"] = "spec/MC_GridGeom_%s.cfg" % tier
    ck.cov["rule"] = ("every case of GridGeom.tla within the constants of the tier (all grids x all nodes x all off-border "
                      "quarter-lattice points x all derived grids), expected values computed exactly by TLC; each case executed "
                      "on the real library as emitted and conjugated by a seeded arbitrary rotation of the whole scene; "
                      "integers compared exactly, coordinates to 1e-9 relative. evaluations = individual values compared; "
                      "all (grid, rotation of the scene, case) triples are distinct by construction; distinct_nontrivial = "
                      "those whose grid rotation is not the identity")
    ck.assumptions += [
        "rotation convention = documentation of DbGrid::reset (angles around Oz, Oy', Ox'', counter-clockwise, origin invariant)",
        "query points are at least a quarter of a mesh away from every cell border (the property excludes border points)",
        "migrate grid->point may use either documented kind of cell (node at the lower corner / centred on the node), the same "
        "for all points of the run; the kind observed is recorded in coverage.migrate_cell_convention_observed",
        "values of the variables carried to coarse / refined grids are not examined (only where the nodes are)"]
    return ck.finish()
