"""C08 -- saving and reloading an object gives back an equivalent object.

1. TLC (EmitNFShapes) gives, for every class schema of spec/NeutralFile.tla, the structures and the radices of the
   value slots; the driver draws digit vectors (all of them when the product is small, otherwise a seeded sample
   in which every value of every slot occurs).
2. TLC (MC_NeutralFile) turns every digit vector into an abstract instance o, checks ON THE MODEL
   Read(Write(o)) = o, Write(Read(Write(o))) = Write(o) with the transcribed writer / reader of the class (and that
   the intended reader accepts the file), and emits the instance with the expected token stream of its file.
3. harness nf_run builds every instance as a REAL object through the public API, dumpToNF, tokenises the file,
   createFromNF, projects original and reloaded object through public getters, asks both the same queries, dumps
   the reloaded object again.
4. comparison: real token stream = expected stream of the spec; projection of the original = the abstract
   instance; reloaded projection / getters / query answers = those of the original; second file byte-identical.
   Also: the file-name resolution of ASerializable (container / prefix) on the model and on the real library -- one name
   per kind (relative, at most 2 characters, absolute), and SESSIONS over names that begin with the prefix (x, <prefix>x,
   <prefix><prefix>x, the prefix itself): distinct objects are written under all the names, then each name must give back
   its own object --, and the grid exchange formats that can be written and read.
5. histories (classes with a Db part): TLC (MC_NeutralHist) explores a small state machine over two objects of the same
   class and width -- steps: delete a column, add a column, delete + add, WRITE one of the objects -- checks in every
   state the law "what the writer collects from the object (through its UIDs) = its abstract content", and emits every
   complete history with the expected file of each write; nf_run replays the histories IN ONE PROCESS (so that whatever
   the library keeps between two writes is kept) and every file written is compared with the expected one: the file
   depends on the current content only, not on the history of the object nor on what was written before.
"""
import json, os, shutil, random, itertools, collections, subprocess, hashlib, time
import vlib
from vlib import Check, Broken, log

QUICK_CLASSES = ["Db", "DbGrid", "Model", "NeighUnique", "NeighBench", "NeighMoving", "Vario", "Polygons", "Table"]
EXCHANGE = ["GridZycor", "GridIfpEn"]       # grid exchange formats that can be written and read (no grammar modelled)
MORE_CLASSES = ["NeighCell", "NeighImage", "PolyLine2D", "DbLine", "DbGraphO", "AnamHermite", "AnamEmpirical", "AnamDiscreteIR",
                "MeshEStandard", "MeshETurbo", "Faults", "Rule", "RuleShift", "FracEnviron"]


# recursive operators over files of ~100 tokens need a deeper Java stack than the default
TLC_JAVA = "-Xmx8g -XX:+UseParallelGC -Xss64m"


ASAN_ENV = {"ASAN_OPTIONS": "abort_on_error=1:detect_leaks=0:allocator_may_return_null=0:max_allocation_size_mb=1024:"
                            "handle_abort=0:print_summary=1:symbolize=0:malloc_context_size=2:fast_unwind_on_malloc=1:detect_odr_violation=0",
            "UBSAN_OPTIONS": "print_stacktrace=0:halt_on_error=0:report_error_type=1"}


def use_asan():
    return os.environ.get("VERIF_C09_NOASAN", "") == ""


def build_asan_lib():
    t0 = time.time()
    r = subprocess.run([os.path.join(vlib.VERIF, "tools", "build_asan.sh")], capture_output=True, text=True,
                       env=dict(os.environ, VERIF_REPO=vlib.REPO))
    if r.returncode != 0:
        raise Broken("sanitizer build of the library failed:\n" + r.stderr[-4000:])
    d = r.stdout.strip().splitlines()[-1]
    log("[build] sanitizer lib ok in %.1fs (%s)" % (time.time() - t0, d))
    return d


def build_asan_harness(name):
    """harness/<name>.cpp linked against the sanitizer build of the library (tools/build_asan.sh)"""
    lib = build_asan_lib()
    os.makedirs(vlib.BIN, exist_ok=True)
    tag = "" if vlib.REPO == "/repo" else "-" + hashlib.md5(vlib.REPO.encode()).hexdigest()[:8]
    src = os.path.join(vlib.HARNESS, name + ".cpp")
    out = os.path.join(vlib.BIN, name + "_asan" + tag)
    deps = [src, os.path.join(lib, "Release", "libgstlearn.so"), os.path.join(vlib.REPO, "include")] + \
           [os.path.join(vlib.HARNESS, f) for f in os.listdir(vlib.HARNESS) if f.endswith(".hpp")]
    if os.path.exists(out) and os.path.getmtime(out) >= vlib._newest_mtime(deps):
        return out
    t0 = time.time()
    cmd = ["g++", "-std=c++20", "-O1", "-g1", "-w", "-DGSTLEARN_VERIF", "-fsanitize=address,undefined", "-fno-sanitize=vptr",
           "-fno-omit-frame-pointer", "-I" + os.path.join(vlib.REPO, "include"), "-I" + lib, "-I/usr/include/eigen3",
           "-I" + vlib.HARNESS, src, "-o", out + ".tmp%d" % os.getpid(), "-L" + os.path.join(lib, "Release"), "-lgstlearn",
           "-Wl,-rpath," + os.path.join(lib, "Release")]
    r = subprocess.run(cmd, capture_output=True, text=True)
    if r.returncode != 0:
        raise Broken("harness %s (sanitizer) does not compile:\n%s" % (name, r.stderr[-4000:]))
    os.replace(out + ".tmp%d" % os.getpid(), out)
    log("[build] harness %s (sanitizer) ok in %.1fs" % (name, time.time() - t0))
    return out


REPAIR_MARKERS = [("include/Basic/ASerializable.hpp", "ecr >= nvalues"),
                  ("src/Db/Db.cpp", "may not be negative"),
                  ("include/Fractures/FracEnviron.hpp", 'return "FracEnviron"')]


def repaired():
    """which tree the 'real' mode of NeutralFile.tla has to transcribe: the one first examined, or the one after the repairs of
    the reading / writing defects.  The repaired tree is recognised in the sources by the texts of three of the repairs (two
    of the three are enough: a later change of one of these places must not switch the transcription);
    VERIF_NF_REPAIRED=0/1 forces the answer"""
    v = os.environ.get("VERIF_NF_REPAIRED")
    if v is not None:
        return v not in ("0", "", "false", "FALSE")
    n = 0
    for rel, text in REPAIR_MARKERS:
        try:
            n += 1 if text in open(os.path.join(vlib.REPO, rel)).read() else 0
        except OSError:
            pass
    return n >= 2


def repaired_tla():
    return "TRUE" if repaired() else "FALSE"


def load_known_override(ck, env):
    """trial runs: VERIF_C08_KNOWN / VERIF_C09_KNOWN name a file that replaces the list of known findings of the property"""
    path = os.environ.get(env)
    if path:
        data = json.load(open(path))
        ck.known = [e for e in data.get("findings", []) if e.get("property") == ck.pid and e.get("status") == "known"]
        log("[%s] known findings taken from %s (%d entries)" % (ck.pid, path, len(ck.known)))


def classes_cfg(level, classes):
    return "SPECIFICATION Spec\nCONSTANTS\n Level = %d\n Repaired = %s\n Classes = {%s}\n" % (level, repaired_tla(), ", ".join('"%s"' % c for c in classes))


def draw_picks(shapes, per_class, rng):
    """Digit vectors per (class, structure): every vector when the class domain is within the budget, otherwise per
    structure a share of the budget, chosen greedily among random candidates so that as many (slot, value) pairs as
    possible occur."""
    by_class = collections.defaultdict(list)
    for sh in shapes:
        by_class[sh["c"]].append(sh)
    picks = []
    exhaustive = {}
    sizes = {}
    for c in sorted(by_class):
        shs = by_class[c]
        tots = []
        for sh in shs:
            tot = 1
            for r in sh["rad"]:
                tot *= r
            tots.append(tot)
        sizes[c] = sum(tots)
        full = sizes[c] <= per_class
        exhaustive[c] = full
        quota = max(1, per_class // len(shs))
        for sh, tot in zip(shs, tots):
            rad = sh["rad"]
            if full or tot <= quota:
                ds = [list(d) for d in itertools.product(*[range(r) for r in rad])]
            else:
                cand = set()
                tries = 0
                while len(cand) < min(tot, 6 * quota) and tries < 100 * quota:
                    cand.add(tuple(rng.randrange(r) for r in rad))
                    tries += 1
                cand = sorted(cand)
                rng.shuffle(cand)
                covered = set()
                ds = []
                while cand and len(ds) < quota:
                    best = max(range(len(cand)), key=lambda i: len({(k, v) for k, v in enumerate(cand[i])} - covered))
                    d = cand.pop(best)
                    covered |= {(k, v) for k, v in enumerate(d)}
                    ds.append(list(d))
            for d in ds:
                picks.append({"c": c, "s": sh["s"], "d": d})
    return picks, exhaustive, sizes


# ------------------------------------------------------------------ comparisons

def is_num(t):
    try:
        float(t)
        return True
    except (TypeError, ValueError):
        return False


def tok_eq(a, b):
    if a == b or a == "*" or b == "*":       # "*": a value that the specification leaves open
        return True
    if isinstance(a, str) and isinstance(b, str) and a != "NA" and b != "NA" and is_num(a) and is_num(b):
        x, y = float(a), float(b)
        if x == y:
            return True
        return abs(x - y) <= 2e-14 * max(abs(x), abs(y))
    return False


def deep_diff(a, b, path="", out=None):
    """paths at which two projections differ (tokens compared as 15-digit numbers)"""
    if out is None:
        out = []
    if isinstance(a, dict) and isinstance(b, dict):
        for k in sorted(set(a) | set(b)):
            if k not in a or k not in b:
                out.append(path + "/" + k)
            else:
                deep_diff(a[k], b[k], path + "/" + k, out)
    elif isinstance(a, list) and isinstance(b, list):
        if len(a) != len(b):
            out.append(path + "#len")
        else:
            for i, (x, y) in enumerate(zip(a, b)):
                deep_diff(x, y, path + "/%d" % i, out)
    else:
        if isinstance(a, bool) or isinstance(b, bool):
            if a != b:
                out.append(path)
        elif isinstance(a, (int, float)) and isinstance(b, (int, float)):
            if a != b:
                out.append(path)
        elif not tok_eq(a, b):
            out.append(path)
    return out


def top_fields(paths):
    """first component of each differing path, with list indices removed: /covs/0/coeffs/1 -> covs.coeffs"""
    out = []
    for p in paths:
        parts = [x for x in p.replace("#len", "").split("/") if x and not x.isdigit()]
        f = ".".join(parts) if parts else "?"
        if f not in out:
            out.append(f)
    return out


def norm_lines(lines):
    out = []
    for l in lines:
        l2 = []
        for t in l:
            if t == "#":
                break
            l2.append(t)
        if l2:
            out.append(l2)
    return out


def stream_diff(expected, real):
    """None when the real token stream is the expected one; otherwise a description of the first difference.
    A difference of line layout only (same values in the same order) is not a difference of content."""
    e, r = norm_lines(expected), norm_lines(real)
    if len(e) == len(r) and all(len(a) == len(b) and all(tok_eq(x, y) for x, y in zip(a, b)) for a, b in zip(e, r)):
        return None
    fe = [t for l in e for t in l]
    fr = [t for l in r for t in l]
    if len(fe) == len(fr) and all(tok_eq(x, y) for x, y in zip(fe, fr)):
        return {"layout_only": True}
    k = 0
    while k < len(fe) and k < len(fr) and tok_eq(fe[k], fr[k]):
        k += 1
    return {"layout_only": False, "pos": k, "expected": fe[k:k + 4], "real": fr[k:k + 4], "n_expected": len(fe), "n_real": len(fr)}


# ------------------------------------------------------------------ the run

def model_and_cases(ck, classes, level, per_class, rng, tag, workers):
    w = ck.work
    cfg = os.path.join(w, "shapes_%s.cfg" % tag)
    open(cfg, "w").write(classes_cfg(level, classes))
    shapes = vlib.tlc_emit_json("EmitNFShapes", cfg, os.path.join(w, "shapes_%s.json" % tag))
    picks, exhaustive, sizes = draw_picks(shapes, per_class, rng)
    pp = os.path.join(w, "picks_%s.ndjson" % tag)
    vlib.write_ndjson(pp, picks)
    mcfg = os.path.join(w, "mc_%s.cfg" % tag)
    open(mcfg, "w").write("SPECIFICATION Spec\nCONSTANTS\n Level = %d\n Repaired = %s\nCHECK_DEADLOCK FALSE\n" % (level, repaired_tla()))
    res = vlib.run_tlc("MC_NeutralFile", mcfg, workers=workers, env={"PICKS": pp, "JAVA_TOOL_OPTIONS": TLC_JAVA}, timeout=3000)
    if res.violation:
        raise Broken("MC_NeutralFile reports an error:\n" + res.violation)
    if len(res.emitted) != len(picks):
        raise Broken("MC_NeutralFile emitted %d cases for %d picks" % (len(res.emitted), len(picks)))
    cases = sorted(res.emitted, key=lambda e: e["id"])
    log("[C08] %s: %d structures, %d instances checked on the model by TLC in %.1fs" % (tag, len(shapes), len(cases), res.wall))
    return cases, res, exhaustive, sizes, shapes


HIST_CLASSES = ["Db", "DbGrid", "DbLine", "DbGraphO"]


def history_cases(ck, shapes, level, depth, nbase, rng, workers):
    """histories explored by TLC (MC_NeutralHist): per class with a Db part, nbase pairs of instances of one structure"""
    w = ck.work
    picks = []
    for c in HIST_CLASSES:
        shs = [sh for sh in shapes if sh["c"] == c and sh.get("hist")]
        if not shs:
            raise Broken("no structure of class %s can start a history" % c)
        rng.shuffle(shs)
        for k in range(nbase):
            sh = shs[k % len(shs)]
            d = [rng.randrange(r) for r in sh["rad"]]
            d2 = [rng.randrange(r) for r in sh["rad"]]
            picks.append({"c": c, "s": sh["s"], "d": d, "d2": d2})
    pp = os.path.join(w, "hpicks.ndjson")
    vlib.write_ndjson(pp, picks)
    cfg = os.path.join(w, "hist.cfg")
    open(cfg, "w").write("SPECIFICATION Spec\nCONSTANTS\n Level = %d\n Repaired = %s\n Depth = %d\nINVARIANT Law\nCONSTRAINT Emit\n"
                         "CHECK_DEADLOCK FALSE\n" % (level, repaired_tla(), depth))
    res = vlib.run_tlc("MC_NeutralHist", cfg, workers=workers, env={"PICKS": pp, "JAVA_TOOL_OPTIONS": TLC_JAVA}, timeout=3000, heap="8g")
    if res.violation:
        raise Broken("MC_NeutralHist: the law 'the file written depends on the current content only' does not hold on the model "
                     "(or the model run failed):\n" + res.violation)
    hists = sorted(res.emitted, key=lambda e: (e["base"], json.dumps(e["steps"])))
    for i, h in enumerate(hists):
        h["id"] = i + 1
    if not hists:
        raise Broken("MC_NeutralHist emitted no history")
    log("[C08] histories: %d pairs of objects, %d states, law checked by TLC in every state, %d complete histories emitted in %.1fs"
        % (len(picks), res.distinct, len(hists), res.wall))
    return hists, res, picks


def ops_signature(steps):
    return ".".join("%s%d" % (st["op"][0], st["i"]) for st in steps)


def run_histories(ck, hists, asan=False):
    exe = build_asan_harness("nf_run") if asan else vlib.build_harness("nf_run")
    w = ck.work
    cp, op = os.path.join(w, "hcases.ndjson"), os.path.join(w, "hobs.ndjson")
    vlib.write_ndjson(cp, [{"id": h["id"], "c": "Hist", "cls": h["c"], "o1": h["o1"], "o2": h["o2"],
                            "steps": [{k: v for k, v in st.items() if k in ("op", "i", "k", "name", "vals")} for st in h["steps"]]}
                           for h in hists])
    tmp = os.path.join(w, "htmp")
    os.makedirs(tmp, exist_ok=True)
    vlib.run_harness(exe, [cp, op, tmp], timeout=6000, env=ASAN_ENV if asan else None)
    obs = {o["id"]: o for o in vlib.read_ndjson(op)}
    if len(obs) != len(hists):
        raise Broken("nf_run reported %d histories out of %d" % (len(obs), len(hists)))
    return obs


def judge_histories(ck, hists, obs):
    """every file written in the course of a history = the file that the specification derives from the content at that moment"""
    nwrites = naged = nbad = 0
    not_rt = 0
    for h in hists:
        ob = obs[h["id"]]
        c = h["c"]
        sig = ops_signature(h["steps"])
        replay = {"class": c, "object_1": h["o1"], "object_2": h["o2"], "steps": h["steps"], "observed": ob,
                  "how": "nf_run builds the two objects, applies the steps (del = deleteColumnByColIdx(k-1), add = addColumns(vals, name), "
                         "write = dumpToNF) in one process; 'lines' of a write step = the file expected from the content 'o' at that step"}
        found = []
        if "crash" in ob:
            found.append({"class": c, "kind": "history-crash", "signal": ob["crash"], "ops": sig})
        elif "exception" in ob:
            found.append({"class": c, "kind": "history-exception", "what": ob["exception"][:80], "ops": sig})
        elif not ob.get("built"):
            raise Broken("nf_run could not build the objects of a history of %s: %s" % (c, json.dumps(h["o1"])[:400]))
        else:
            wsteps = [st for st in h["steps"] if st["op"] == "write"]
            if len(wsteps) != len(ob["writes"]):
                raise Broken("history %d: %d writes replayed for %d write steps" % (h["id"], len(ob["writes"]), len(wsteps)))
            for j, (st, wr) in enumerate(zip(wsteps, ob["writes"])):
                nwrites += 1
                naged += 1 if st["aged"] else 0
                not_rt += 0 if st["rt"] else 1
                base = {"class": c, "ops": sig, "write": j + 1, "aged": bool(st["aged"])}
                # the edits of the model and those of the library must agree on the content (binding of the steps)
                for f in top_fields(deep_diff(st["o"], wr["p"])):
                    found.append(dict(base, kind="history-content", field=f))
                if not wr.get("dump"):
                    found.append(dict(base, kind="history-dump-failed", field=""))
                    continue
                sd = stream_diff(st["lines"], wr["toks"])
                if sd and not sd["layout_only"]:
                    found.append(dict(base, kind="history-stream", field="", detail=sd))
                if not wr.get("reload"):
                    if st["rt"]:
                        found.append(dict(base, kind="history-reload-failed", field=""))
                else:
                    for f in top_fields(deep_diff(wr["p"], wr["p1"])):
                        found.append(dict(base, kind="history-reload", field=f))
        for rec in found:
            ck.disagree(rec, replay)
        nbad += 1 if found else 0
        ck.add("traces_validated_against_impl")
        ck.add("evaluations", max(1, len([st for st in h["steps"] if st["op"] == "write"])))
        if found:
            ck.add("cases_disagreeing")
    return nwrites, naged, nbad, not_rt


def run_real(ck, cases, tag, cfgs=(0,), asan=False):
    exe = build_asan_harness("nf_run") if asan else vlib.build_harness("nf_run")
    w = ck.work
    cp = os.path.join(w, "cases_%s.ndjson" % tag)
    recs = []
    for i, e in enumerate(cases):
        # (the writers of the exchange formats open their files themselves: no container / prefix)
        e["cfg"] = 0 if e["c"] in EXCHANGE else cfgs[i % len(cfgs)]
        recs.append({"id": e["id"], "c": e["c"], "o": e["o"], "cfg": e["cfg"]})
    vlib.write_ndjson(cp, recs)
    op = os.path.join(w, "obs_%s.ndjson" % tag)
    tmp = os.path.join(w, "nf_%s" % tag)
    os.makedirs(tmp, exist_ok=True)
    r = vlib.run_harness(exe, [cp, op, tmp], timeout=6000, env=ASAN_ENV if asan else None)
    obs = {o["id"]: o for o in vlib.read_ndjson(op)}
    if len(obs) != len(cases):
        raise Broken("nf_run reported %d cases out of %d" % (len(obs), len(cases)))
    return obs


def judge(ck, cases, obs):
    """compare what the real library did with the specification, case by case"""
    per_class = collections.Counter()
    model_mis = collections.Counter()
    confirmed = collections.Counter()
    unconfirmed = []
    layout_only = 0
    for e in cases:
        c = e["c"]
        per_class[c] += 1
        ob = obs[e["id"]]
        session = "fresh" if e.get("cfg") == 3 else "same"
        model_bad = not (e["rt"] and e["rw"])
        if model_bad:
            model_mis[c] += 1
        if not e["ideal"]:
            # the intended reader must accept every valid file unless the transcribed one fails too
            if e["rt"]:
                raise Broken("the intended reader of %s rejects a valid file: %s" % (c, json.dumps(e)[:800]))
        replay = {"class": c, "recipe": e["o"], "expected_lines": e["lines"], "observed": ob,
                  "how": "nf_run builds the recipe through the public API, dumpToNF, createFromNF, compares"}
        found = []
        if "crash" in ob:
            found.append({"class": c, "kind": "crash", "signal": ob["crash"], "model_predicts": sorted(e["ev"])})
        elif "exception" in ob:
            found.append({"class": c, "kind": "exception", "what": ob["exception"][:80], "model_predicts": sorted(e["ev"])})
        elif not ob.get("built"):
            raise Broken("nf_run could not build an instance of %s: %s" % (c, json.dumps(e["o"])[:600]))
        else:
            d0 = [] if c in EXCHANGE else deep_diff(e["o"], ob["p0"])
            if d0:
                for f in top_fields(d0):
                    found.append({"class": c, "kind": "recipe", "field": f})
            if not ob.get("dump"):
                found.append({"class": c, "kind": "dump-failed", "field": ""})
            else:
                sd = None if c in EXCHANGE else stream_diff(e["lines"], ob["toks"])
                if sd and sd["layout_only"]:
                    layout_only += 1
                elif sd:
                    found.append({"class": c, "kind": "stream", "field": "", "detail": sd})
                if not ob.get("reload"):
                    found.append({"class": c, "kind": "reload-failed", "field": "", "model_predicts": sorted(e["ev"])})
                else:
                    d1 = deep_diff(ob["p0"], ob["p1"]) + deep_diff(ob["x0"], ob["x1"], "/x")
                    fl = top_fields(d1)
                    for f in fl:
                        found.append({"class": c, "kind": "reload", "field": f})
                    after = "+".join(sorted(fl)) if fl else "none"
                    dq = deep_diff(ob["q0"], ob["q1"])
                    for f in top_fields(dq):
                        found.append({"class": c, "kind": "query", "field": f, "after": after})
                    if not ob.get("same2"):
                        found.append({"class": c, "kind": "rewrite", "field": "", "after": after})
        trait = "+".join(sorted(e["traits"])) or "none"
        if e["rt"] and e["rw"]:
            model = "ok"
        elif not e["rok"]:
            model = "fail@%s:%s" % (e["at"], "+".join(sorted(e["ev"])))
        else:
            model = "diff:" + ("+".join(sorted(e["mdiff"])) or "rewrite")
        for rec in found:
            rec["session"] = session
            rec["trait"] = trait
            rec["model"] = model
            ck.disagree(rec, replay)
        if model_bad:
            if found:
                confirmed[c] += 1
            else:
                unconfirmed.append(e)
        ck.add("traces_validated_against_impl")
        ck.add("evaluations")
        if found:
            ck.add("cases_disagreeing")
    return per_class, model_mis, confirmed, unconfirmed, layout_only


PREFIX_STRING = "PP-"     # prefix of the file-name sessions (3 characters: a name equal to the prefix is still a "long" name)


def path_cases(ck):
    """file-name resolution of ASerializable under the container / prefix settings: model verdict vs real library"""
    w = ck.work
    cfg = os.path.join(w, "paths.cfg")
    open(cfg, "w").write("SPECIFICATION Spec\nCONSTANTS\n Level = 1\n Repaired = %s\n" % repaired_tla())
    emitted = vlib.tlc_emit_json("EmitNFPaths", cfg, os.path.join(w, "paths.json"))
    pcs, sessions = emitted["cases"], emitted["sessions"]
    exe = vlib.build_harness("nf_run")
    cp, op = os.path.join(w, "pcases.ndjson"), os.path.join(w, "pobs.ndjson")
    # sessions over names that begin with the prefix: atoms rendered as strings (every name relative, more than 2 characters)
    atoms = {"P": PREFIX_STRING, "x": "x.nf"}
    srecs = []
    for k, se in enumerate(sessions):
        names = ["".join(atoms[a] for a in nm) for nm in se["names"]]
        srecs.append({"id": len(pcs) + k + 1, "c": "PathSession",
                      "o": {"container": se["container"], "prefix": se["prefix"], "prefix_string": PREFIX_STRING, "names": names}})
    vlib.write_ndjson(cp, [{"id": i + 1, "c": "Path", "o": p} for i, p in enumerate(pcs)] + srecs)
    tmp = os.path.join(w, "ptmp")
    os.makedirs(tmp, exist_ok=True)
    vlib.run_harness(exe, [cp, op, tmp], timeout=600)
    obs = {o["id"]: o for o in vlib.read_ndjson(op)}
    for i, p in enumerate(pcs):
        ob = obs[i + 1]
        ck.add("traces_validated_against_impl")
        ck.add("evaluations")
        if not ob.get("loaded"):
            ck.disagree({"class": "Path", "kind": "filename", "name": p["name"], "container": p["container"], "prefix": p["prefix"],
                         "model": "same" if p["same"] else "differ"},
                        {"settings": p, "observed": ob, "how": "Table::dumpToNF(name) then Table::createFromNF(name) under the settings"})
        elif not p["same"]:
            log("[C08] note: the model predicts that createFromNF does not look where dumpToNF wrote, the real library found the file: %s" % p)
    nreads = 0
    for se, sr in zip(sessions, srecs):
        ob = obs[sr["id"]]
        names = sr["o"]["names"]
        if "got" not in ob or len(ob["got"]) != len(names):
            raise Broken("nf_run did not run the file-name session %s" % json.dumps(sr["o"]))
        forms = ["".join(nm) for nm in se["names"]]
        replay = {"settings": sr["o"], "observed": ob,
                  "how": "under the settings, Table number i (cell = i) is written with dumpToNF(names[i-1]) for every name, then "
                         "createFromNF(names[i-1]) is called for every name: got[i-1] = cell of the object returned (0: none)"}
        for i, (form, name) in enumerate(zip(forms, names)):
            nreads += 1
            ck.add("traces_validated_against_impl")
            ck.add("evaluations")
            got, model = ob["got"][i], se["reads"][i]
            if not ob["dumped"][i] or got != i + 1:
                ck.disagree({"class": "Path", "kind": "filename-session", "form": form, "container": se["container"], "prefix": se["prefix"],
                             "outcome": "dump-failed" if not ob["dumped"][i] else "not-found" if got == 0 else "other-object",
                             "model": "own" if model == i + 1 else "none" if model == 0 else "other"}, dict(replay, name=name, rank=i + 1, got=got))
            elif model != i + 1:
                log("[C08] note: the model of buildFileName predicts that %s is not read back under %s, the real library reads it back" % (name, sr["o"]))
    ck.cov["file_name_sessions"] = {"settings": len(sessions), "names_per_session": [len(se["names"]) for se in sessions], "reads_judged": nreads,
                                    "name_forms": sorted({"".join(nm) for se in sessions for nm in se["names"]}), "prefix_string": PREFIX_STRING}
    ck.cov["file_name_cases"] = len(pcs)
    ck.cov["file_name_cases_model_mismatch"] = sum(1 for p in pcs if not p["same"])
    return len(pcs)


def run(tier):
    ck = Check("C08", "model_checking", tier)
    try:
        return _run(ck, tier)
    except BaseException:
        if not os.environ.get("VERIF_KEEP"):
            shutil.rmtree(ck.work, ignore_errors=True)
        raise


def _run(ck, tier):
    load_known_override(ck, "VERIF_C08_KNOWN")
    ck.cov["transcription"] = "repaired tree" if repaired() else "tree as first examined"
    vlib.build_lib()
    rng = random.Random(vlib.seed() * 7919 + 17)
    workers = int(os.environ.get("VERIF_TLC_WORKERS", "8"))
    if tier == "quick":
        classes, level, per_class = QUICK_CLASSES + MORE_CLASSES + EXCHANGE, 1, 80
    else:
        classes, level, per_class = QUICK_CLASSES + MORE_CLASSES + EXCHANGE, 2, 1000
    cases, res, exhaustive, sizes, shapes = model_and_cases(ck, classes, level, per_class, rng, "main", workers)
    # thorough tier: the real library runs under AddressSanitizer / UBSan (memory errors of a round trip are crashes)
    asan = tier == "thorough" and use_asan()
    obs = run_real(ck, cases, "main", cfgs=(0, 0, 0, 1, 2, 0, 3), asan=asan)
    ck.cov["sanitizer_build"] = asan
    per_class, model_mis, confirmed, unconfirmed, layout_only = judge(ck, cases, obs)
    npath = path_cases(ck)
    # histories: the write as a step of a state machine (in one process, after the round trips above)
    hdepth, hbase = (4, 3) if tier == "quick" else (4, 4)
    hists, hres, hpicks = history_cases(ck, shapes, level, hdepth, hbase, rng, workers)
    hobs = run_histories(ck, hists, asan=asan)
    nwrites, naged, nhbad, not_rt = judge_histories(ck, hists, hobs)
    ck.cov["histories"] = {"pairs_of_objects": len(hpicks), "depth": hdepth, "states": hres.distinct, "complete_histories": len(hists),
                           "writes_compared": nwrites, "writes_of_objects_whose_uids_are_not_1_to_n": naged,
                           "histories_disagreeing": nhbad, "writes_that_the_model_does_not_read_back": not_rt,
                           "distinct_step_patterns": len({ops_signature(h["steps"]) for h in hists})}
    if naged == 0:
        raise Broken("no history wrote an object whose UIDs differ from those of a fresh object")
    for c in classes:
        if per_class[c] == 0:
            raise Broken("no instance of class %s was explored" % c)
    ck.cov["states"] = res.distinct + hres.distinct
    ck.cov["transitions"] = max(res.generated - len(cases), 0) + hres.generated
    ck.cov["instances_per_class"] = dict(per_class)
    ck.cov["abstract_domain_size_per_class"] = sizes
    ck.cov["domain_exhausted_per_class"] = exhaustive
    ck.cov["model_level_writer_reader_mismatches"] = dict(model_mis)
    ck.cov["model_level_mismatches_confirmed_on_real_code"] = dict(confirmed)
    ck.cov["model_level_mismatches_not_confirmed"] = len(unconfirmed)
    ck.cov["layout_only_differences"] = layout_only
    ck.cov["distinct_nontrivial"] = len({json.dumps(e["lines"]) for e in cases})
    ck.cov["rule"] = ("abstract instances = digit vectors over the slot domains of each class schema of NeutralFile.tla (all vectors "
                      "of a structure when few, else a seeded sample covering every value of every slot); each instance is checked "
                      "by TLC on the model (Read(Write(o)) = o, Write(Read(Write(o))) = Write(o)) and executed on the real library "
                      "(build, dumpToNF, token stream vs expected, createFromNF, projections, queries, second dump); distinct = "
                      "distinct expected files")
    for e in unconfirmed[:3]:
        log("[C08] note: the model predicts a writer/reader mismatch that the real run does not show (transcription outdated?): "
            + json.dumps({"c": e["c"], "o": e["o"]})[:300])
    for e in cases[:: max(1, len(cases) // 4)][:4]:
        ck.sample({"class": e["c"], "instance": e["o"], "expected_file": e["lines"], "real_file": obs[e["id"]].get("toks")})
    ck.assumptions += ["projections read the objects through public getters only",
                       "doubles are compared to 15 significant digits (relative 2e-14)",
                       "instances are built through the public API from the recipe emitted by TLC; the projection of the original "
                       "object must reproduce the recipe"]
    # classes of the violations (the first 20 get a replay file each)
    vc = collections.Counter((r.get("class"), r.get("kind"), r.get("field"), r.get("after"), r.get("session"), r.get("trait"), r.get("model")) for r, _ in ck.violations)
    for k, n in sorted(vc.items(), key=lambda kv: -kv[1])[:40]:
        log("   %5d x %s" % (n, k))
    ck.cov["violation_classes"] = {str(k): n for k, n in vc.items()}
    return ck.finish()
