"""C12 -- experimental variograms equal their pairwise definition.

1. TLC (spec/MC_VarioPairs.tla on spec/VarioPairs.tla) enumerates lattice data sets (positions, values /
   undefined values, selection, weights) and direction specifications, checks the laws of the definition
   on the model (each separation in at most one lag, transcription of the code's pair search = definition,
   invariance under sample permutation / translation / reversal of the direction, symmetry in the two
   variables, grid enumeration = general definition) and emits, per (data set, direction list), the
   expected sw / hh / gg of every lag, pair of variables and estimator as exact integers / rationals.
2. harness vario_run executes every case on the real Vario: general algorithm on the samples in three
   orders, on translated coordinates, on the lattice as DbGrid; by-sample option; grid-specialised
   algorithm (DirParam::createFromGrid) incl. generalised variograms of order 1-3.
3. Comparison: counts exactly, hh / gg to 1e-9 relative.  Every disagreement -> Check.disagree.
"""
import json, math, os, subprocess, threading, time
from concurrent.futures import ProcessPoolExecutor
import vlib
from vlib import Check, Broken, log

NA = -99
REL = 1e-9

ALLMODES = ["vg", "cov", "covnc", "covg", "mado", "rodo", "poisson", "order4", "trans1", "trans2", "binormal"]
SYM = {"vg", "mado", "rodo", "poisson", "order4", "trans1", "trans2", "binormal"}
ASYM = {"cov", "covnc", "covg"}

CFG = """SPECIFICATION Spec
CONSTANTS
  NX = %(nx)d
  NY = %(ny)d
  NZ = %(nz)d
  MinN = %(minn)d
  MaxN = %(maxn)d
  Vals0 = {%(vals)s}
  HasNA = %(na)s
  NVar = %(nvar)d
  UseSel = %(sel)s
  Weights = {%(weights)s}
  AllowDup = %(dup)s
  DirSet = "%(dirset)s"
  Modes = {%(modes)s}
  SampleMod = %(mod)d
  SampleRem = %(rem)d
  Seed = %(seed)d
  LawMod = %(lawmod)d
  DirsPerCase = %(dpc)d
INVARIANT InvLaws InvEmit
CHECK_DEADLOCK FALSE
"""


def B(x):
    return "TRUE" if x else "FALSE"


def cfg_text(c):
    return CFG % dict(nx=c["dims"][0], ny=c["dims"][1] if len(c["dims"]) > 1 else 0, nz=c["dims"][2] if len(c["dims"]) > 2 else 0,
                      minn=c["minn"], maxn=c["maxn"], vals=", ".join(map(str, c["vals"])), na=B(c["na"]), nvar=c["nvar"],
                      sel=B(c["sel"]), weights=", ".join(map(str, c["weights"])), dup=B(c.get("dup", False)),
                      dirset=c["dirset"], modes=", ".join('"%s"' % m for m in c["modes"]), mod=c["mod"],
                      rem=vlib.seed() % c["mod"], seed=vlib.seed() % 9973, dpc=c["dpc"], lawmod=c.get("lawmod", 3))


def tiers(tier):
    if tier == "quick":
        return [
            dict(name="val1", dims=[3, 3], minn=2, maxn=4, vals=[0, 1, 2], na=True, nvar=1, sel=False, weights=[1],
                 dirset="q2", modes=["vg", "cov", "covnc", "covg", "mado", "rodo", "poisson", "order4"], mod=40, dpc=2),
            dict(name="het2", dims=[3, 3], minn=2, maxn=3, vals=[0, 1], na=True, nvar=2, sel=False, weights=[1],
                 dirset="q2", modes=["vg", "cov", "covnc", "mado", "trans1", "trans2", "binormal"], mod=70, dpc=2),
            dict(name="selw", dims=[3, 3], minn=2, maxn=3, vals=[0, 2], na=False, nvar=1, sel=True, weights=[1, 2],
                 dirset="q2", modes=["vg", "cov", "covnc", "covg", "order4"], mod=50, dpc=2),
            dict(name="tri3", dims=[3, 3], minn=2, maxn=3, vals=[0, 2], na=False, nvar=3, sel=False, weights=[1],
                 dirset="q2", modes=["vg", "cov", "covnc", "trans1", "binormal"], mod=120, dpc=2),
            dict(name="line", dims=[5], minn=2, maxn=5, vals=[0, 1, 3], na=True, nvar=1, sel=False, weights=[1],
                 dirset="l1", modes=["vg", "cov", "covnc", "rodo"], mod=5, dpc=2),
            dict(name="cube", dims=[2, 2, 2], minn=2, maxn=3, vals=[0, 1], na=True, nvar=1, sel=False, weights=[1],
                 dirset="c3", modes=["vg", "cov", "mado"], mod=5, dpc=2),
        ]
    one = ["vg", "cov", "covnc", "covg", "mado", "rodo", "poisson", "order4"]
    return [
        dict(name="val1", dims=[3, 3], minn=2, maxn=5, vals=[0, 1, 2], na=True, nvar=1, sel=False, weights=[1],
             dirset="t2", modes=one, mod=40, dpc=3),
        dict(name="het2", dims=[3, 3], minn=2, maxn=4, vals=[0, 1], na=True, nvar=2, sel=False, weights=[1],
             dirset="t2", modes=ALLMODES, mod=250, dpc=3),
        dict(name="val2", dims=[3, 3], minn=2, maxn=3, vals=[0, 1, 2], na=True, nvar=2, sel=False, weights=[1],
             dirset="t2", modes=ALLMODES, mod=150, dpc=3),
        dict(name="selw", dims=[3, 3], minn=2, maxn=4, vals=[0, 2], na=False, nvar=1, sel=True, weights=[1, 2],
             dirset="t2", modes=["vg", "cov", "covnc", "covg", "mado", "order4"], mod=150, dpc=3),
        dict(name="hetw2", dims=[3, 3], minn=2, maxn=3, vals=[0, 2], na=True, nvar=2, sel=False, weights=[1, 3],
             dirset="t2", modes=["vg", "cov", "covnc", "covg", "trans1", "binormal", "rodo"], mod=200, dpc=3),
        dict(name="hets2", dims=[3, 3], minn=2, maxn=3, vals=[0, 2], na=True, nvar=2, sel=True, weights=[1],
             dirset="t2", modes=["vg", "cov", "covnc", "covg", "trans2", "mado", "order4"], mod=200, dpc=3),
        dict(name="tri3", dims=[3, 3], minn=2, maxn=3, vals=[0, 2], na=False, nvar=3, sel=False, weights=[1],
             dirset="t2", modes=["vg", "cov", "covnc", "covg", "trans1", "trans2", "binormal", "mado"], mod=25, dpc=3),
        dict(name="tri3na", dims=[3, 3], minn=2, maxn=3, vals=[1], na=True, nvar=3, sel=True, weights=[1],
             dirset="t2", modes=["vg", "cov", "covnc"], mod=100, dpc=3),
        dict(name="dup", dims=[3, 3], minn=2, maxn=4, vals=[0, 1], na=True, nvar=1, sel=False, weights=[1], dup=True,
             dirset="t2", modes=["vg", "cov", "covnc", "mado"], mod=15, dpc=3),
        dict(name="big4", dims=[4, 4], minn=2, maxn=3, vals=[0, 1, 2], na=True, nvar=1, sel=False, weights=[1],
             dirset="t2", modes=["vg", "cov", "covnc", "rodo", "poisson"], mod=15, dpc=3),
        dict(name="line", dims=[5], minn=2, maxn=5, vals=[0, 1, 3], na=False, nvar=1, sel=True, weights=[1, 2],
             dirset="l1", modes=["vg", "cov", "covnc", "covg", "rodo", "order4"], mod=150, dpc=3),
        dict(name="linena", dims=[5], minn=2, maxn=5, vals=[0, 1, 3], na=True, nvar=1, sel=False, weights=[1],
             dirset="l1", modes=one, mod=1, dpc=2),
        dict(name="line2", dims=[5], minn=2, maxn=5, vals=[0, 1], na=True, nvar=2, sel=False, weights=[1],
             dirset="l1", modes=ALLMODES, mod=50, dpc=3),
        dict(name="cube", dims=[2, 2, 2], minn=2, maxn=5, vals=[0, 1, 2], na=True, nvar=1, sel=False, weights=[1],
             dirset="c3", modes=["vg", "cov", "covnc", "covg", "mado", "poisson"], mod=30, dpc=3),
        dict(name="cube2", dims=[2, 2, 2], minn=2, maxn=3, vals=[0, 1], na=True, nvar=2, sel=True, weights=[1],
             dirset="c3", modes=["vg", "cov", "covnc", "trans2"], mod=150, dpc=3),
    ]


# --------------------------------------------------------------------------- comparison (worker processes)

def close(o, e):
    return isinstance(o, (int, float)) and abs(o - e) <= REL * max(1.0, abs(e))


def undefined(o):
    return o is None or o == "nan"


def hh_of(groups, sw):
    return sum(w * math.sqrt(x) for x, w in groups) / sw


def varpairs(nvar):
    return [(i, j) for i in range(1, nvar + 1) for j in range(1, i + 1)]


class Cmp:
    """Compares the runs of one case with the expectation emitted by TLC."""

    def __init__(self, case):
        self.c = case
        self.out = []          # disagreement records
        self.n = {}            # counters
        self.via = "vec_ij"    # accessor through which the values being compared were read

    def cnt(self, k, n=1):
        self.n[k] = self.n.get(k, 0) + n

    def bad(self, run, x, vp, slot, what, exp, obs):
        d = self.c["dirs"][x]
        self.out.append(dict(kind="value", mode=run["mode"], algo=run["algo"], variant=run["v"], what=what,
                             multi_dir=len(run["which"]) > 1, nvar=self.c["nvar"], varpair="%d%d" % vp, slot=slot, read=self.via,
                             dir=x, tolang=d["tolang"], expected=exp, observed=obs))

    # -- expected value of a symmetric estimator in a slot: (defined?, value)
    def sym_gg(self, mode, e, v, k, vp):
        S = e["sym"][v][k]
        sw = S["sw"]
        if mode in ("mado", "rodo"):
            p = 0.5 if mode == "mado" else 0.25
            return True, sum(w * (x ** p) for x, w in S["ad"]) / (2.0 * sw)
        if mode == "binormal" and vp[0] != vp[1]:
            vps = varpairs(self.c["nvar"])
            a = e["sym"][vps.index((vp[0], vp[0]))][k]["gg"]["vg"]
            b = e["sym"][vps.index((vp[1], vp[1]))][k]["gg"]["vg"]
            g = S["gg"]["vg"]
            if a[1] == 0 or b[1] == 0 or a[0] * b[0] <= 0:
                return False, None
            return True, (g[0] / g[1]) / math.sqrt((a[0] / a[1]) * (b[0] / b[1]))
        m = mode
        if mode in ("trans1", "trans2", "binormal") and vp[0] == vp[1]:
            m = "vg"
        num, den = S["gg"][m]
        if den == 0:
            return False, None
        return True, num / den

    def check_slot(self, run, x, vp, slot, o, i, esw, ehh, egg, gg_defined=True):
        """o: observed arrays; i: index; esw exact; ehh/egg floats (None = not compared)."""
        osw, ohh, ogg = o["sw"][i], o["hh"][i], o["gg"][i]
        self.cnt("slots")
        if osw != esw:
            self.bad(run, x, vp, slot, "sw", esw, osw)
            return
        if esw == 0:      # an empty lag reports no pair; what hh / gg hold there is not part of the property
            return
        self.cnt("slots_nonempty")
        if ehh is not None and not close(ohh, ehh):
            self.bad(run, x, vp, slot, "hh", ehh, ohh)
        if egg is not None and gg_defined and not close(ogg, egg):
            self.bad(run, x, vp, slot, "gg", egg, ogg)

    def cmp_gen(self, run, grid=False):
        c, mode = self.c, run["mode"]
        for xi, x in enumerate(run["which"]):
            e = c["exp"][x]
            if not e["ok"]:
                self.cnt("dir_excluded_tie")
                continue
            d = c["dirs"][x]
            npas = d["npas"]
            step = math.sqrt(d["p2"])
            for v, vp in enumerate(varpairs(c["nvar"])):
                o = run["dirs"][xi][v]
                if mode.startswith("general"):
                    order = int(mode[-1])
                    if len(o["sw"]) != npas:
                        self.bad(run, x, vp, -1, "shape", npas, len(o["sw"]))
                        continue
                    self.check_slot(run, x, vp, 0, o, 0, 0, None, None)
                    for k in range(1, npas):
                        n, num, den = e["gen"][order - 1][k - 1]
                        self.check_slot(run, x, vp, k, o, k, n, k * step, num / den if den else None)
                    self.cnt("cmp_general")
                    continue
                if mode in SYM:
                    if mode == "poisson" and (vp[0] != vp[1] or c["hasW"]):
                        continue
                    if len(o["sw"]) != npas:
                        self.bad(run, x, vp, -1, "shape", npas, len(o["sw"]))
                        continue
                    for k in range(npas):
                        S = e["sym"][v][k]
                        if grid and k == 0:
                            self.check_slot(run, x, vp, 0, o, 0, 0, None, None)
                            continue
                        esw = S["sw"]
                        if mode == "poisson":
                            esw = S["n"] / 2.0
                        if esw == 0:
                            self.check_slot(run, x, vp, k, o, k, 0, None, None)
                            continue
                        ok, g = self.sym_gg(mode, e, v, k, vp)
                        if not ok:
                            self.cnt("gg_undefined_ratio")
                        self.check_slot(run, x, vp, k, o, k, esw, hh_of(S["hh"], S["sw"]), g, ok)
                else:
                    if len(o["sw"]) != 2 * npas + 1:
                        self.bad(run, x, vp, -1, "shape", 2 * npas + 1, len(o["sw"]))
                        continue
                    if vp[0] != vp[1] and e["otie"]:
                        self.cnt("cross_skipped_orientation_tie")
                        continue
                    A = e["asym"][v]
                    # centre
                    C = A["ctr"]
                    num, den = C["gg"][mode]
                    self.check_slot(run, x, vp, "c", o, npas, C["sw"], 0.0, num / den if den else None, den != 0)
                    for side, sgn in (("pos", 1), ("neg", -1)):
                        for k in range(npas):
                            S = A[side][k]
                            i = npas + 1 + k if sgn > 0 else npas - 1 - k
                            slot = "%s%d" % ("+" if sgn > 0 else "-", k)
                            if grid and k == 0:
                                self.check_slot(run, x, vp, slot, o, i, 0, None, None)
                                continue
                            if S["sw"] == 0:
                                self.check_slot(run, x, vp, slot, o, i, 0, None, None)
                                continue
                            ehh = sgn * hh_of(S["hh"], S["sw"])
                            if mode == "covg":       # grid only: K(h) = mesh * sum z(x) z(x+h), unit mesh, not normalised
                                self.check_slot(run, x, vp, slot, o, i, S["n"], ehh, float(S["gg"]["covnc"][0]))
                            else:
                                num, den = S["gg"][mode]
                                self.check_slot(run, x, vp, slot, o, i, S["sw"], ehh, num / den if den else None, den != 0)
                self.cnt("cmp_gen")

    def hull(self, run, x, vp, slot, o, i, n, hhs, lo, hi, scale_by_sw, sgn):
        """By-sample law: the lag is empty iff the definition has no pair; otherwise hh and gg are
        convex combinations of the separations / pair values of the definition."""
        osw, ohh, ogg = o["sw"][i], o["hh"][i], o["gg"][i]
        self.cnt("slots_bysample")
        if n == 0:
            if osw != 0 or not undefined(ohh):
                self.bad(run, x, vp, slot, "bys-nonempty", 0, [osw, ohh, ogg])
            return
        if not isinstance(osw, (int, float)) or osw <= 0 or not isinstance(ohh, (int, float)) or not isinstance(ogg, (int, float)):
            self.bad(run, x, vp, slot, "bys-empty", n, [osw, ohh, ogg])
            return
        hmin, hmax = min(hhs), max(hhs)
        h = sgn * ohh
        if h < hmin - REL * max(1, hmin) or h > hmax + REL * max(1, hmax):
            self.bad(run, x, vp, slot, "bys-hh", [hmin, hmax], ohh)
        g = ogg / osw if scale_by_sw else ogg
        tol = REL * max(1.0, abs(lo), abs(hi))
        if g < lo - tol or g > hi + tol:
            self.bad(run, x, vp, slot, "bys-gg", [lo, hi], g)

    def cmp_bys(self, run):
        c, mode = self.c, run["mode"]
        for xi, x in enumerate(run["which"]):
            e = c["exp"][x]
            if not e["ok"]:
                continue
            npas = c["dirs"][x]["npas"]
            for v, vp in enumerate(varpairs(c["nvar"])):
                o = run["dirs"][xi][v]
                if mode == "vg":
                    if len(o["sw"]) != npas:
                        self.bad(run, x, vp, -1, "shape", npas, len(o["sw"]))
                        continue
                    for k in range(npas):
                        S = e["sym"][v][k]
                        self.hull(run, x, vp, k, o, k, S["n"], [math.sqrt(t[0]) for t in S["hh"]], S["lo"] / 2.0, S["hi"] / 2.0, False, 1)
                else:
                    if len(o["sw"]) != 2 * npas + 1:
                        self.bad(run, x, vp, -1, "shape", 2 * npas + 1, len(o["sw"]))
                        continue
                    if vp[0] != vp[1] and e["otie"]:
                        continue
                    A = e["asym"][v]
                    C = A["ctr"]
                    num, den = C["gg"][mode]
                    self.check_slot(run, x, vp, "c", o, npas, C["sw"], 0.0, num / den if den else None, den != 0)
                    for side, sgn in (("pos", 1), ("neg", -1)):
                        for k in range(npas):
                            S = A[side][k]
                            i = npas + 1 + k if sgn > 0 else npas - 1 - k
                            self.hull(run, x, vp, "%s%d" % ("+" if sgn > 0 else "-", k), o, i, S["n"],
                                      [math.sqrt(t[0]) for t in S["hh"]], float(S["lo"]), float(S["hi"]), mode == "covg", sgn)
                self.cnt("cmp_bys")

    def run_all(self, obs):
        c = self.c
        if "crash" in obs:
            lab = obs.get("label", "") or "?/?/?"
            self.out.append(dict(kind="crash", signal=obs["crash"], label=lab, variant=lab.split("/")[0], mode=lab.split("/")[-1],
                                 algo=lab.split("/")[1], multi_dir=len(c["dirs"]) > 1, has_weights=c["hasW"]))
            self.cnt("crashes")
            self.cnt("crash:" + lab.split("/")[-1])
            return
        for run in obs["runs"]:
            key = "%s/%s" % (run["v"], run["algo"])
            self.cnt("runs")
            self.cnt("run:" + key)
            self.cnt("mode:" + run["mode"])
            if run.get("same"):
                self.cnt("runs_bit_identical_to_base")
                continue
            if run["err"]:
                self.out.append(dict(kind="error", mode=run["mode"], algo=run["algo"], variant=run["v"], what="err",
                                     multi_dir=len(run["which"]) > 1))
                continue
            # the first reading (vector accessors, (i, j) with j <= i) and every other reading of the same
            # cells that was not bit-identical to it ((j, i), scalar accessors) are compared with the definition
            readings = [("vec_ij", run)]
            for via in sorted({al["via"] for d in run["dirs"] for o in d for al in o.get("alt", [])}):
                r2 = dict(run)
                r2["dirs"] = [[next((al for al in o.get("alt", []) if al["via"] == via), o) for o in d] for d in run["dirs"]]
                readings.append((via, r2))
                self.cnt("alt_readings_differing")
            for via, r in readings:
                self.via = via
                if r["v"] in ("grid", "gridtr"):
                    self.cmp_gen(r, grid=True)
                elif r["algo"] == "bys":
                    self.cmp_bys(r)
                else:
                    self.cmp_gen(r)


def compare_chunk(args):
    cpath, opath = args
    counters, bad = {}, []
    nsamples = []
    obs_by_id = {}
    history = []
    with open(opath) as f:
        for line in f:
            r = json.loads(line)
            if r.get("history"):
                history.append(r)
            else:
                obs_by_id.setdefault(r["id"], []).append(r)
    with open(cpath) as f:
        for line in f:
            c = json.loads(line)
            parts = obs_by_id.get(c["id"])
            if not parts:
                raise Broken("no observation for case %d" % c["id"])
            cm = Cmp(c)
            o = dict(id=c["id"], runs=[])
            for part in parts:
                cm.run_all(part)
                o["runs"] += part.get("runs", [])
            for k, v in cm.n.items():
                counters[k] = counters.get(k, 0) + v
            counters["cases_nvar%d" % c["nvar"]] = counters.get("cases_nvar%d" % c["nvar"], 0) + 1
            for x, e in enumerate(c["exp"]):
                dd = c["dirs"][x]
                if e["ok"] and e["npairs"] > 0 and dd["cn"] and sum(t * t for t in dd["cod"]) != 1:
                    counters["dirs_cylinder_nonunit_codir"] = counters.get("dirs_cylinder_nonunit_codir", 0) + 1
                if e["ok"] and e["npairs"] > 0 and dd["bn"]:
                    counters["dirs_bench"] = counters.get("dirs_bench", 0) + 1
                if e["ok"]:
                    counters["dirs_ok"] = counters.get("dirs_ok", 0) + 1
                    for fl in ("otie", "pur", "grid", "etie"):
                        if e[fl]:
                            counters["flag_" + fl] = counters.get("flag_" + fl, 0) + 1
                    if e["npairs"] > 0:
                        counters["dirs_with_pairs"] = counters.get("dirs_with_pairs", 0) + 1
                else:
                    counters["dirs_excluded_tie"] = counters.get("dirs_excluded_tie", 0) + 1
            for d in cm.out[:40]:
                bad.append((d, replay_of(c, d, o)))
            counters["disagreements"] = counters.get("disagreements", 0) + len(cm.out)
            if len(nsamples) < 2 and o["runs"]:
                nsamples.append(sample_of(c, o))
    return counters, bad, nsamples, history


def short_case(c):
    return dict(dims=c["dims"], nvar=c["nvar"], hasSel=c["hasSel"], hasW=c["hasW"],
                samples=[dict(p=p[0], z=[None if z == NA else z for z in p[1]], sel=p[2], w=p[3]) for p in c["pts"]],
                directions=[dict(npas=d["npas"], dpas="sqrt(%d)" % d["p2"], toldis="%d/%d" % (d["tn"], d["td"]), codir=d["cod"],
                                 tolang=d["tolang"], bench=("%d/%d" % (d["bn"], d["bd"])) if d["bn"] else None,
                                 cylrad=("%d/%d" % (d["cn"], d["cd"])) if d["cn"] else None) for d in c["dirs"]])


def replay_of(c, d, o):
    r = dict(case=short_case(c), how="harness/vario_run on this case; variant/algo/mode as in 'disagreement'")
    if d.get("kind") == "value" and "runs" in o:
        for run in o["runs"]:
            if run["v"] == d["variant"] and run["algo"] == d["algo"] and run["mode"] == d["mode"] and not run.get("same"):
                r["observed_run"] = run
                break
        x = d.get("dir")
        if x is not None:
            r["expected_dir"] = c["exp"][x]
    return r


def sample_of(c, o):
    run = o["runs"][0]
    return dict(case=short_case(c), mode=run["mode"], variant=run["v"], observed=run.get("dirs"),
                expected_first_direction={"sym": c["exp"][0].get("sym")} if c["exp"][0]["ok"] else None)


# --------------------------------------------------------------------------- driver

def run(tier):
    ck = Check("C12", "model_checking", tier)
    vlib.build_lib()
    exe = vlib.build_harness("vario_run")
    cfgs = tiers(tier)
    only = os.environ.get("C12_ONLY")       # development aid: run some TLC configurations only (no vacuity check)
    if only:
        cfgs = [c for c in cfgs if c["name"] in only.split(",")]
    nchunks = 6 if tier == "quick" else 12
    w = ck.work
    cpaths = [os.path.join(w, "cases_%d.ndjson" % k) for k in range(nchunks)]
    files = [open(p, "w") for p in cpaths]
    lock = threading.Lock()
    state = dict(id=0)
    tlc_stats = {}

    def tlc_job(c, workers):
        cfgp = os.path.join(w, "mc_%s.cfg" % c["name"])
        open(cfgp, "w").write(cfg_text(c))
        cnt = [0]

        def on_emit(rec):
            for x, d in enumerate(rec["dirs"]):
                e = rec["exp"][x]
                d["ok"] = e["ok"]
                d["grid"] = bool(e.get("grid"))
            rec["modes"] = c["modes"]
            rec["cfg"] = c["name"]
            with lock:
                rec["id"] = state["id"]
                state["id"] += 1
                files[rec["id"] % nchunks].write(json.dumps(rec, separators=(",", ":")) + "\n")
            cnt[0] += 1

        res = vlib.run_tlc("MC_VarioPairs", cfgp, workers=workers, timeout=3000, on_emit=on_emit, heap="3g")
        if res.violation:
            raise Broken("a law of the definition fails on the model (%s):\n%s" % (c["name"], res.violation))
        tlc_stats[c["name"]] = dict(states=res.distinct, generated=res.generated, emitted=cnt[0], wall=round(res.wall, 1))
        log("[C12] TLC %-6s %8d data sets explored, %6d cases emitted, laws hold, %.1fs" % (c["name"], res.distinct, cnt[0], res.wall))

    # TLC runs, a few at a time
    par = 3 if vlib.NCPU >= 12 else 1
    workers = max(2, vlib.NCPU // (par + 1))
    errors = []
    sem = threading.Semaphore(par)

    def guarded(c):
        with sem:
            try:
                tlc_job(c, workers)
            except Exception as ex:       # noqa
                errors.append(ex)

    cost = lambda c: -(c["nvar"] ** 2) * len(c["modes"]) * (9 ** c["maxn"] if c["nvar"] >= 2 else 4 ** c["maxn"]) / c["mod"]
    ths = [threading.Thread(target=guarded, args=(c,)) for c in sorted(cfgs, key=cost)]
    t0 = time.time()
    for t in ths:
        t.start()
    for t in ths:
        t.join()
    for f in files:
        f.close()
    if errors:
        raise errors[0] if isinstance(errors[0], Broken) else Broken(repr(errors[0]))
    ncases = state["id"]
    log("[C12] TLC total %.1fs, %d cases" % (time.time() - t0, ncases))
    if ncases == 0:
        raise Broken("no case emitted")

    # real library
    t0 = time.time()
    opaths = [p.replace("cases_", "obs_") for p in cpaths]
    procs = []
    for k, (cp, op) in enumerate(zip(cpaths, opaths)):
        args = [exe, cp, op, str(vlib.seed())] + (["history"] if k == 0 else [])
        procs.append(subprocess.Popen(args, stdout=subprocess.DEVNULL, stderr=subprocess.PIPE))
    for p in procs:
        _, err = p.communicate(timeout=3000)
        if p.returncode != 0:
            raise Broken("vario_run failed (exit %s): %s" % (p.returncode, (err or b"").decode()[-1000:]))
    log("[C12] harness %.1fs" % (time.time() - t0))

    # comparison
    t0 = time.time()
    counters = {}
    samples = []
    history = []
    with ProcessPoolExecutor(max_workers=min(nchunks, max(2, vlib.NCPU // 2))) as ex:
        for cn, bad, smp, hist in ex.map(compare_chunk, list(zip(cpaths, opaths))):
            for k, v in cn.items():
                counters[k] = counters.get(k, 0) + v
            for d, rp in bad:
                ck.disagree(d, rp)
            samples += smp
            history += hist
    log("[C12] comparison %.1fs" % (time.time() - t0))

    # dependence of the by-sample algorithm on the calculations run before it
    fresh = [h["fresh"] for h in history if "fresh" in h]
    after = [h["after"] for h in history if "after" in h]
    ex = [h["exit"] for h in history if "exit" in h]
    if not fresh or not ex:
        raise Broken("history probe did not run")
    if ex[0] != 0 or not after or after[0] != fresh[0]:
        ck.disagree(dict(kind="history", algo="bys", what="crash" if ex[0] else "differs", signal=ex[0]),
                    dict(how="3x3 lattice z=x+10y; by-sample variogram with 1 direction, fresh, then after an ordinary "
                             "calculation with 2 directions (harness/vario_run historyProbe)",
                         fresh=fresh[0], after=after[0] if after else None, exit_signal=ex[0]))

    # evidence
    ck.cov["states"] = sum(s["states"] for s in tlc_stats.values())
    ck.cov["transitions"] = sum(s["generated"] for s in tlc_stats.values())
    ck.cov["tlc_runs"] = tlc_stats
    ck.cov["cases_emitted"] = ncases
    ck.cov["traces_validated_against_impl"] = counters.get("runs", 0)
    ck.cov["evaluations"] = counters.get("runs", 0)
    ck.cov["distinct_nontrivial"] = counters.get("dirs_with_pairs", 0)
    ck.cov["lag_slots_compared"] = counters.get("slots", 0) + counters.get("slots_bysample", 0)
    ck.cov["lag_slots_compared_nonempty"] = counters.get("slots_nonempty", 0)
    ck.cov["counters"] = {k: v for k, v in sorted(counters.items())}
    ck.cov["open_convention_heterotopic_cross_covariance"] = dict(
        directions_where_purist_definition_keeps_more_pairs=counters.get("flag_pur", 0),
        note="the strict convention of the code (first variable defined at both samples) is the one compared; "
             "the purist convention is computed by the specification and differs in that many (data set, direction) cases")
    ck.cov["rule"] = ("data sets = all subsets of lattice positions x value/NA/selection/weight assignments within the constants of "
                      "each TLC run, deterministically sub-sampled (hash of the data set, VERIF_SEED); each retained data set with "
                      "DirsPerCase direction lists of the family; expected values from TLC; executed on the real Vario in 3 sample "
                      "orders, translated, as DbGrid (general algorithm), by-sample option, grid-specialised algorithm. evaluations = calculations "
                      "of the real Vario compared; distinct_nontrivial = distinct (data set, direction) pairs, not excluded for a tie, in which "
                      "at least one pair of samples falls in a lag of the direction")
    for s in samples[:4]:
        ck.sample(s)
    ck.assumptions += [
        "lag convention (documented up to open/closed ends; code is the reference there): lag k centred on k*dpas, closed half-width "
        "toldis*dpas, nearest multiple first (tie at (k+1/2)*dpas goes up); ties decided only when exactly representable",
        "ties on the angular (30/45/60 deg), cylinder and bench limits are excluded by the specification",
        "cross covariances are not compared when a pair is perpendicular to the direction (no orientation)",
        "heterotopic cross covariances: the stricter convention of the code is accepted (difference counted in the evidence)",
        "the by-sample estimator is undocumented: compared through the law 'same non-empty lags; hh and gg are convex combinations "
        "of the separations / pair values of the definition' and strictly at h=0",
        "Poisson variogram compared for unweighted data and simple variograms only (mean = arithmetic mean of the active defined samples)",
        "generalised variograms of order 1-3 are compared on grids only (the library computes them nowhere else without a code variable)",
        "variogram maps / clouds (VMap.cpp, VCloud.cpp), codes, dates and faults are not covered"]

    # vacuity
    need = ["slots_nonempty", "cmp_gen", "cmp_bys", "run:base/gen", "run:rev/gen", "run:shuf/gen", "run:tr/gen", "run:dbgrid/gen",
            "run:grid/gen", "run:base/bys", "flag_grid", "flag_etie", "flag_pur", "flag_otie", "dirs_with_pairs", "slots_bysample",
            "cases_nvar1", "cases_nvar2", "cases_nvar3", "dirs_cylinder_nonunit_codir"]
    if tier == "thorough":
        need.append("dirs_bench")
    need.append("cmp_general")
    need += ["mode:" + m for c in cfgs for m in c["modes"]]
    missing = [k for k in need if counters.get(k, 0) == 0]
    if missing and not only:
        raise Broken("vacuous categories: %s" % missing)
    if os.environ.get("C12_KEEP"):          # development aid: keep cases / observations
        import shutil
        shutil.rmtree(os.environ["C12_KEEP"], ignore_errors=True)
        shutil.copytree(w, os.environ["C12_KEEP"])
    return ck.finish()
